(* C06: every derived constructor / infix form of models/Derived.v denotes the mathematical
   function its name states (core/Sem.v is the yardstick).  All arities, all values; sort
   conditions on the operand VALUES are explicit hypotheses (never the junk defaults of op_sem).
   Where a statement is proved only up to a width bound, its name ends in _bounded and the
   statement says so. *)
From Coq Require Import List ZArith Bool String Reals Lia Lra Arith.
From PySMT.core Require Import Syntax Sem PyPrims.
From PySMT.models Require Import TypeChecker Ctors Derived.
Import ListNotations.
Open Scope bool_scope.

(* ------------------------------------------------------------------------- shapes *)
(* FormulaManager.Not builds Not nodes with exactly one argument *)
Definition not1 (t : term) : Prop := match t with T ONot l => exists x, l = [x] | _ => True end.
Definition is_vbool (v : value) : Prop := exists b, v = VBool b.

Lemma is_vbool_eta v : is_vbool v -> v = VBool (vbool v).
Proof. intros [b ->]. reflexivity. Qed.

Lemma mk_not_sem I t : not1 t -> vbool (eval I (mk_not t)) = negb (vbool (eval I t)).
Proof.
  destruct t as [o l]. unfold mk_not, is_not, arg. cbn [top targs].
  destruct o; try reflexivity. intros [x ->]. cbn [nth eval map op_sem vbool].
  now rewrite negb_involutive.
Qed.

Lemma mk_not_fresh I o l : o <> ONot ->
  (match o with OSymbol _ _ | OFunction _ _ | OForall _ | OExists _ => False | _ => True end) ->
  eval I (mk_not (T o l)) = VBool (negb (vbool (eval I (T o l)))).
Proof. intros Hn Ho. unfold mk_not, is_not. cbn [top]. destruct o; try contradiction; try reflexivity. Qed.

Lemma forallb_map {A B} (f : A -> B) (p : B -> bool) l : forallb p (map f l) = forallb (fun x => p (f x)) l.
Proof. induction l as [|x r IH]; cbn; [reflexivity | now rewrite IH]. Qed.
Lemma existsb_map {A B} (f : A -> B) (p : B -> bool) l : existsb p (map f l) = existsb (fun x => p (f x)) l.
Proof. induction l as [|x r IH]; cbn; [reflexivity | now rewrite IH]. Qed.
Lemma forallb_ext_in {A} (p q : A -> bool) l : (forall x, In x l -> p x = q x) -> forallb p l = forallb q l.
Proof.
  induction l as [|x r IH]; intros H; cbn; [reflexivity|].
  rewrite (H x (or_introl eq_refl)), IH; [reflexivity|]. intros y Hy. apply H. now right.
Qed.

Lemma mk_and_vbool I l : vbool (eval I (mk_and l)) = forallb (fun t => vbool (eval I t)) l.
Proof.
  destruct l as [|x [|y r]]; cbn [mk_and forallb]; [reflexivity | now rewrite andb_true_r |].
  cbn [eval op_sem vbool]. now rewrite forallb_map.
Qed.
Lemma mk_or_vbool I l : vbool (eval I (mk_or l)) = existsb (fun t => vbool (eval I t)) l.
Proof.
  destruct l as [|x [|y r]]; cbn [mk_or existsb]; [reflexivity | now rewrite orb_false_r |].
  cbn [eval op_sem vbool]. now rewrite existsb_map.
Qed.
Lemma mk_and_is_vbool I l : Forall (fun t => is_vbool (eval I t)) l -> is_vbool (eval I (mk_and l)).
Proof.
  destruct l as [|x [|y r]]; cbn [mk_and]; intros H.
  - now exists true.
  - now inversion H.
  - eexists. reflexivity.
Qed.
Lemma mk_and_sem I l : Forall (fun t => is_vbool (eval I t)) l ->
  eval I (mk_and l) = VBool (forallb (fun t => vbool (eval I t)) l).
Proof. intros H. rewrite (is_vbool_eta _ (mk_and_is_vbool I l H)). now rewrite mk_and_vbool. Qed.

(* ------------------------------------------------------------------------- >=, >, !=, xor *)
Lemma ge_sem I a b : eval I (mk_ge a b) = eval I (T OLe [b; a]).
Proof. reflexivity. Qed.
Lemma gt_sem I a b : eval I (mk_gt a b) = eval I (T OLt [b; a]).
Proof. reflexivity. Qed.

Lemma ge_sem_int I a b x y : eval I a = VInt x -> eval I b = VInt y ->
  eval I (mk_ge a b) = VBool (y <=? x)%Z.
Proof. intros Ha Hb. unfold mk_ge, mk_le. cbn [eval map op_sem]. now rewrite Ha, Hb. Qed.
Lemma gt_sem_int I a b x y : eval I a = VInt x -> eval I b = VInt y ->
  eval I (mk_gt a b) = VBool (y <? x)%Z.
Proof. intros Ha Hb. unfold mk_gt, mk_lt. cbn [eval map op_sem]. now rewrite Ha, Hb. Qed.
Lemma ge_sem_real I a b x y : eval I a = VReal x -> eval I b = VReal y ->
  exists r, eval I (mk_ge a b) = VBool r /\ (r = true <-> (x >= y)%R).
Proof.
  intros Ha Hb. unfold mk_ge, mk_le. cbn [eval map op_sem]. rewrite Ha, Hb. cbn [vle].
  eexists; split; [reflexivity|]. destruct (Rle_dec y x); split; intros; try discriminate; auto; lra.
Qed.
Lemma gt_sem_real I a b x y : eval I a = VReal x -> eval I b = VReal y ->
  exists r, eval I (mk_gt a b) = VBool r /\ (r = true <-> (x > y)%R).
Proof.
  intros Ha Hb. unfold mk_gt, mk_lt. cbn [eval map op_sem]. rewrite Ha, Hb. cbn [vlt].
  eexists; split; [reflexivity|]. destruct (Rlt_dec y x); split; intros; try discriminate; auto; lra.
Qed.

(* not-equals: on ANY two values (Equals is total), true exactly when the values differ *)
Lemma neq_sem I a b : eval I (mk_neq a b) = VBool (negb (veqb (eval I a) (eval I b))).
Proof. reflexivity. Qed.
Lemma neq_sem_prop I a b : eval I (mk_neq a b) = VBool true <-> eval I a <> eval I b.
Proof.
  rewrite neq_sem. split.
  - intros [= H] E. apply negb_true_iff in H. apply veqb_true in E. congruence.
  - intros H. f_equal. apply negb_true_iff. destruct (veqb (eval I a) (eval I b)) eqn:E; auto.
    apply veqb_true in E. contradiction.
Qed.

Lemma xor_sem I a b x y : eval I a = VBool x -> eval I b = VBool y ->
  eval I (mk_xor a b) = VBool (xorb x y).
Proof.
  intros Ha Hb. unfold mk_xor, mk_iff, mk_not, is_not. cbn [top eval map op_sem]. rewrite Ha, Hb.
  cbn [vbool]. now destruct x, y.
Qed.

(* equals-or-iff: equality of the two values, provided a Bool-typed left operand means both
   values are Booleans *)
Lemma equals_or_iff_sem I a b :
  (tc a = Some TBool -> is_vbool (eval I a) /\ is_vbool (eval I b)) ->
  eval I (mk_equals_or_iff a b) = VBool (veqb (eval I a) (eval I b)).
Proof.
  intros H. unfold mk_equals_or_iff.
  assert (E : eval I (mk_equals a b) = VBool (veqb (eval I a) (eval I b))) by reflexivity.
  destruct (tc a) as [[]|]; try exact E.
  destruct (H eq_refl) as [[x Hx] [y Hy]]. unfold mk_iff. cbn [eval map op_sem]. rewrite Hx, Hy.
  cbn [vbool]. f_equal. destruct (veqb (VBool x) (VBool y)) eqn:Ev.
  - apply veqb_true in Ev. injection Ev as ->. apply eqb_reflx.
  - destruct x, y; try reflexivity; rewrite veqb_refl in Ev; discriminate.
Qed.

(* ------------------------------------------------------------------------- at-most-one, exactly-one *)
Fixpoint count_true (l : list bool) : nat :=
  match l with [] => 0 | b :: r => (if b then 1 else 0) + count_true r end.

Fixpoint amo_b (l : list bool) : bool :=
  match l with [] => true | x :: r => implb x (negb (existsb (fun b => b) r)) && amo_b r end.

Lemma existsb_count l : existsb (fun b => b) l = (0 <? count_true l)%nat.
Proof.
  induction l as [|b r IH]; [reflexivity|]. cbn [existsb count_true]. rewrite IH.
  destruct b; cbn [orb Nat.add]; [reflexivity|]. reflexivity.
Qed.
Lemma amo_b_count l : amo_b l = (count_true l <=? 1)%nat.
Proof.
  induction l as [|b r IH]; [reflexivity|]. cbn [amo_b count_true]. rewrite IH, existsb_count.
  destruct b; cbn [implb Nat.add].
  - destruct (count_true r) as [|[|n]]; reflexivity.
  - cbn [andb]. reflexivity.
Qed.

Definition bvals I (l : list term) : list bool := map (fun t => vbool (eval I t)) l.

Lemma amo_constraints_vbool I l : Forall not1 l ->
  forallb (fun t => vbool (eval I t)) (amo_constraints l) = amo_b (bvals I l).
Proof.
  induction l as [|x r IH]; intros H; [reflexivity|]. inversion H as [|? ? Hx Hr]; subst.
  destruct r as [|y r'].
  - cbn [amo_constraints forallb bvals map amo_b existsb negb]. now destruct (vbool (eval I x)).
  - change (amo_constraints (x :: y :: r')) with (mk_implies x (mk_not (mk_or (y :: r'))) :: amo_constraints (y :: r')).
    change (bvals I (x :: y :: r')) with (vbool (eval I x) :: bvals I (y :: r')).
    cbn [forallb amo_b]. rewrite (IH Hr). f_equal.
    unfold mk_implies. cbn [eval map op_sem vbool]. f_equal.
    rewrite mk_not_sem.
    + rewrite mk_or_vbool. unfold bvals. now rewrite existsb_map.
    + destruct r' as [|b l'']; cbn [mk_or]; [|exact Logic.I]. now inversion Hr.
Qed.

Lemma amo_constraints_vbools I l : Forall (fun t => is_vbool (eval I t)) (amo_constraints l).
Proof.
  induction l as [|x r IH]; [constructor|]. cbn [amo_constraints]. destruct r as [|y r']; [constructor|].
  constructor; [|exact IH]. eexists. reflexivity.
Qed.

Theorem at_most_one_sem I l : Forall not1 l ->
  eval I (mk_at_most_one l) = VBool (count_true (bvals I l) <=? 1)%nat.
Proof.
  intros H. unfold mk_at_most_one. rewrite (mk_and_sem I _ (amo_constraints_vbools I l)).
  now rewrite (amo_constraints_vbool I l H), amo_b_count.
Qed.

Theorem exactly_one_sem I l : Forall not1 l ->
  eval I (mk_exactly_one l) = VBool (count_true (bvals I l) =? 1)%nat.
Proof.
  intros H. unfold mk_exactly_one. cbn [mk_and eval map op_sem forallb].
  rewrite (at_most_one_sem I l H). cbn [vbool]. rewrite mk_or_vbool. f_equal.
  assert (E : existsb (fun t => vbool (eval I t)) l = existsb (fun b => b) (bvals I l))
    by (unfold bvals; now rewrite existsb_map).
  rewrite E, existsb_count, andb_true_r.
  destruct (count_true (bvals I l)) as [|[|n]]; reflexivity.
Qed.

(* the same, phrased on the list of Boolean VALUES of the arguments *)
Corollary exactly_one_sem_values I l bs : Forall not1 l -> map (eval I) l = map VBool bs ->
  eval I (mk_exactly_one l) = VBool (count_true bs =? 1)%nat.
Proof.
  intros H E. rewrite (exactly_one_sem I l H). assert (bvals I l = bs) as ->; [|reflexivity]. unfold bvals.
  rewrite <- (map_map (eval I) vbool), E, map_map. cbn [vbool]. apply map_id.
Qed.
Corollary at_most_one_sem_values I l bs : Forall not1 l -> map (eval I) l = map VBool bs ->
  eval I (mk_at_most_one l) = VBool (count_true bs <=? 1)%nat.
Proof.
  intros H E. rewrite (at_most_one_sem I l H). assert (bvals I l = bs) as ->; [|reflexivity]. unfold bvals.
  rewrite <- (map_map (eval I) vbool), E, map_map. cbn [vbool]. apply map_id.
Qed.

Example exactly_one_example I :
  eval I (mk_exactly_one [TFalse; TTrue; TNot TTrue]) = VBool true /\ Forall not1 [TFalse; TTrue; TNot TTrue].
Proof. split; [reflexivity | repeat constructor; eexists; reflexivity]. Qed.

(* ------------------------------------------------------------------------- all-different *)
Fixpoint distinctb (l : list value) : bool :=
  match l with [] => true | x :: r => forallb (fun y => negb (veqb x y)) r && distinctb r end.

Lemma distinctb_NoDup l : distinctb l = true <-> NoDup l.
Proof.
  induction l as [|x r IH]; cbn [distinctb]; [split; [constructor | reflexivity]|].
  rewrite andb_true_iff, IH, forallb_forall. split.
  - intros [H1 H2]. constructor; [|exact H2]. intros Hin. specialize (H1 x Hin).
    rewrite veqb_refl in H1. discriminate.
  - intros H. inversion H as [|? ? Hn Hd]; subst. split; [|exact Hd]. intros y Hy.
    apply negb_true_iff. destruct (veqb x y) eqn:E; [|reflexivity]. apply veqb_true in E. subst. contradiction.
Qed.

Definition eqiff_ok I (t : term) : Prop := tc t = Some TBool -> is_vbool (eval I t).

Lemma not1_equals_or_iff a b : not1 (mk_equals_or_iff a b).
Proof. unfold mk_equals_or_iff. destruct (tc a) as [[]|]; exact Logic.I. Qed.

(* all arguments Boolean-typed or none (the sort check of the result enforces one sort) *)
Definition one_kind (l : list term) : Prop :=
  Forall (fun t => tc t = Some TBool) l \/ Forall (fun t => tc t <> Some TBool) l.

Lemma alldiff_constraints_vbool I l : Forall (eqiff_ok I) l -> one_kind l ->
  forallb (fun t => vbool (eval I t)) (alldiff_constraints l) = distinctb (map (eval I) l).
Proof.
  induction l as [|a r IH]; intros H HT; [reflexivity|]. inversion H as [|? ? Ha Hr]; subst.
  cbn [alldiff_constraints map distinctb]. rewrite forallb_app. f_equal.
  - rewrite !forallb_map. apply forallb_ext_in.
    intros b Hb. rewrite (mk_not_sem I _ (not1_equals_or_iff a b)). f_equal.
    rewrite equals_or_iff_sem; [reflexivity|].
    intros Ta. split; [now apply Ha|]. rewrite Forall_forall in Hr. apply (Hr b Hb).
    destruct HT as [HT|HT]; inversion HT as [|? ? H2 H3]; subst; [|contradiction].
    rewrite Forall_forall in H3. now apply H3.
  - apply IH; [exact Hr|]. destruct HT as [HT|HT]; inversion HT; [left | right]; assumption.
Qed.

Lemma alldiff_constraints_vbools I l : Forall (fun t => is_vbool (eval I t)) (alldiff_constraints l).
Proof.
  induction l as [|a r IH]; [constructor|]. cbn [alldiff_constraints]. apply Forall_app. split; [|exact IH].
  apply Forall_forall. intros t Ht. apply in_map_iff in Ht. destruct Ht as [b [<- _]].
  unfold mk_equals_or_iff. destruct (tc a) as [[]|]; eexists; reflexivity.
Qed.

(* all-different = the values of the arguments are pairwise distinct *)
Theorem all_different_sem I l : Forall (eqiff_ok I) l -> one_kind l ->
  eval I (mk_all_different l) = VBool (distinctb (map (eval I) l)).
Proof.
  intros H HT. unfold mk_all_different. rewrite (mk_and_sem I _ (alldiff_constraints_vbools I l)).
  now rewrite alldiff_constraints_vbool.
Qed.
Corollary all_different_sem_prop I l : Forall (eqiff_ok I) l -> one_kind l ->
  eval I (mk_all_different l) = VBool true <-> NoDup (map (eval I) l).
Proof.
  intros H HT. rewrite (all_different_sem I l H HT), <- distinctb_NoDup. split; [now intros [= ->] | now intros ->].
Qed.

Example all_different_example I :
  eval I (mk_all_different [TIntC 1; TIntC 2; TIntC 1]) = VBool false /\
  eval I (mk_all_different [TIntC 1; TIntC 2; TIntC 3]) = VBool true.
Proof.
  split.
  - rewrite all_different_sem.
    + unfold TIntC. cbn [map eval op_sem distinctb forallb]. rewrite (veqb_refl (VInt 1)). now rewrite andb_false_r.
    + repeat constructor; intros [=].
    + right. repeat constructor; intros [=].
  - apply all_different_sem_prop.
    + repeat constructor; intros [=].
    + right. repeat constructor; intros [=].
    + unfold TIntC. cbn [map eval op_sem]. repeat constructor; cbn [In]; intros H;
        repeat (destruct H as [H|H]; [discriminate H|]); exact H.
Qed.

(* ------------------------------------------------------------------------- min / max *)
(* The halving recursion of _MinWrap/_MaxWrap, for ANY "lower-equal" constructor [le] that denotes
   a total preorder [leb] on the values of a sort [D]: the result exists for every non-empty list
   and its value is a least (greatest) element of the argument values. *)
Definition best (leb : value -> value -> bool) (ismin : bool) (v : value) (vs : list value) : Prop :=
  In v vs /\ forall u, In u vs -> (if ismin then leb v u else leb u v) = true.

Lemma In_firstn {A} (x : A) n l : In x (firstn n l) -> In x l.
Proof. revert l. induction n as [|n IH]; intros [|y l] H; cbn in *; try contradiction. destruct H as [H|H]; auto. Qed.
Lemma In_skipn {A} (x : A) n l : In x (skipn n l) -> In x l.
Proof. revert l. induction n as [|n IH]; intros [|y l] H; cbn in *; try contradiction; auto. Qed.

Section Wrap.
  Variable I : interp.
  Variable le : term -> term -> term.
  Variable D : value -> Prop.
  Variable leb : value -> value -> bool.
  Hypothesis le_sem : forall a b, D (eval I a) -> D (eval I b) ->
    eval I (le a b) = VBool (leb (eval I a) (eval I b)).
  Hypothesis leb_total : forall u v, D u -> D v -> leb u v = true \/ leb v u = true.
  Hypothesis leb_trans : forall u v w, D u -> D v -> D w -> leb u v = true -> leb v w = true -> leb u w = true.

  Lemma leb_refl u : D u -> leb u u = true.
  Proof. intros H. destruct (leb_total u u H H); assumption. Qed.

  Lemma pick_best ismin a b A B : Forall D A -> Forall D B ->
    best leb ismin (eval I a) A -> best leb ismin (eval I b) B ->
    best leb ismin (eval I (if ismin then mk_ite (le a b) a b else mk_ite (le a b) b a)) (A ++ B).
  Proof.
    intros HA HB [Ia La] [Ib Lb].
    assert (Da : D (eval I a)) by (rewrite Forall_forall in HA; auto).
    assert (Db : D (eval I b)) by (rewrite Forall_forall in HB; auto).
    assert (DA : forall u, In u A -> D u) by (rewrite Forall_forall in HA; auto).
    assert (DB : forall u, In u B -> D u) by (rewrite Forall_forall in HB; auto).
    destruct ismin; unfold mk_ite; cbn [eval map op_sem]; rewrite (le_sem a b Da Db); cbn [vbool];
      destruct (leb (eval I a) (eval I b)) eqn:E.
    - split; [apply in_or_app; now left|]. intros u Hu. apply in_app_or in Hu. destruct Hu as [Hu|Hu]; [now apply La|].
      apply (leb_trans _ (eval I b)); auto.
    - destruct (leb_total (eval I a) (eval I b) Da Db) as [H|H]; [congruence|].
      split; [apply in_or_app; now right|]. intros u Hu. apply in_app_or in Hu. destruct Hu as [Hu|Hu]; [|now apply Lb].
      apply (leb_trans _ (eval I a)); auto.
    - split; [apply in_or_app; now right|]. intros u Hu. apply in_app_or in Hu. destruct Hu as [Hu|Hu]; [|now apply Lb].
      apply (leb_trans _ (eval I a)); auto.
    - destruct (leb_total (eval I a) (eval I b) Da Db) as [H|H]; [congruence|].
      split; [apply in_or_app; now left|]. intros u Hu. apply in_app_or in Hu. destruct Hu as [Hu|Hu]; [now apply La|].
      apply (leb_trans _ (eval I b)); auto.
  Qed.

  Lemma wrap_sem ismin : forall fuel l, (List.length l <= fuel)%nat -> l <> [] ->
    Forall (fun t => D (eval I t)) l ->
    exists t, wrap_fuel fuel ismin le l = Some t /\ best leb ismin (eval I t) (map (eval I) l).
  Proof.
    induction fuel as [|f IH]; intros l Hlen Hne HD.
    - destruct l; [contradiction | cbn in Hlen; lia].
    - destruct l as [|a [|b [|c r]]]; [contradiction | | |].
      + exists a. split; [reflexivity|]. inversion HD; subst. split; [now left|].
        intros u [<-|[]]. destruct ismin; now apply leb_refl.
      + exists (if ismin then mk_ite (le a b) a b else mk_ite (le a b) b a). split; [now destruct ismin|].
        inversion HD as [|? ? Da HD']; subst. inversion HD' as [|? ? Db _]; subst.
        apply (pick_best ismin a b [eval I a] [eval I b]); try (repeat constructor; assumption).
        * split; [now left|]. intros u [<-|[]]. destruct ismin; now apply leb_refl.
        * split; [now left|]. intros u [<-|[]]. destruct ismin; now apply leb_refl.
      + remember (a :: b :: c :: r) as l eqn:El.
        assert (L3 : (3 <= List.length l)%nat) by (subst l; cbn; lia).
        set (h := Nat.div2 (List.length l)).
        assert (Hh1 : (1 <= h)%nat).
        { unfold h. subst l. cbn [List.length Nat.div2]. lia. }
        assert (Hh2 : (h < List.length l)%nat) by (apply Nat.lt_div2; lia).
        assert (E1 : List.length (firstn h l) = h) by (rewrite firstn_length; lia).
        assert (E2 : List.length (skipn h l) = (List.length l - h)%nat) by apply skipn_length.
        destruct (IH (firstn h l)) as [ta [Eta Bta]]; [lia | intros E; rewrite E in E1; cbn in E1; lia | |].
        { apply Forall_forall. intros t Ht. rewrite Forall_forall in HD. apply HD. eapply In_firstn; eauto. }
        destruct (IH (skipn h l)) as [tb [Etb Btb]]; [lia | intros E; rewrite E in E2; cbn in E2; lia | |].
        { apply Forall_forall. intros t Ht. rewrite Forall_forall in HD. apply HD. eapply In_skipn; eauto. }
        exists (if ismin then mk_ite (le ta tb) ta tb else mk_ite (le ta tb) tb ta). split.
        * subst l. cbn [wrap_fuel]. fold h. rewrite Eta, Etb. now destruct ismin.
        * rewrite <- (firstn_skipn h l) at 1. rewrite map_app.
          apply pick_best; try assumption.
          -- apply Forall_forall. intros v Hv. apply in_map_iff in Hv. destruct Hv as [t [<- Ht]].
             rewrite Forall_forall in HD. apply HD. eapply In_firstn; eauto.
          -- apply Forall_forall. intros v Hv. apply in_map_iff in Hv. destruct Hv as [t [<- Ht]].
             rewrite Forall_forall in HD. apply HD. eapply In_skipn; eauto.
  Qed.
End Wrap.

Lemma best_inj {X} (C : X -> value) leb (lebX : X -> X -> bool) ismin v xs :
  (forall x y, leb (C x) (C y) = lebX x y) ->
  best leb ismin v (map C xs) ->
  exists m, v = C m /\ In m xs /\ forall x, In x xs -> (if ismin then lebX m x else lebX x m) = true.
Proof.
  intros HC [Hin Hb]. apply in_map_iff in Hin. destruct Hin as [m [<- Hm]]. exists m. split; [reflexivity|]. split; [exact Hm|].
  intros x Hx. specialize (Hb (C x) (in_map C xs x Hx)). destruct ismin; now rewrite HC in Hb.
Qed.

Lemma Forall_map_vals {X} I (C : X -> value) (D : value -> Prop) l xs :
  (forall x, D (C x)) -> map (eval I) l = map C xs -> Forall (fun t => D (eval I t)) l.
Proof.
  intros HD E. apply Forall_forall. intros t Ht. pose proof (in_map (eval I) l t Ht) as H. rewrite E in H.
  apply in_map_iff in H. destruct H as [x [<- _]]. apply HD.
Qed.

(* ---- Int *)
Definition leb_int (u v : value) : bool := match u, v with VInt x, VInt y => (x <=? y)%Z | _, _ => false end.
Lemma wrap_sem_int I ismin l zs : l <> [] -> map (eval I) l = map VInt zs ->
  exists t m, wrap_fuel (List.length l) ismin mk_le l = Some t /\ eval I t = VInt m /\ In m zs /\
              forall z, In z zs -> (if ismin then m <=? z else z <=? m)%Z = true.
Proof.
  intros Hne E.
  destruct (wrap_sem I mk_le (fun v => exists z, v = VInt z) leb_int) with (ismin := ismin) (fuel := List.length l) (l := l)
    as [t [Et Bt]]; auto.
  - intros a b [x Hx] [y Hy]. unfold mk_le. cbn [eval map op_sem]. now rewrite Hx, Hy.
  - intros u v [x ->] [y ->]. cbn [leb_int]. destruct (Z.leb_spec x y); [now left|]. right. apply Z.leb_le. lia.
  - intros u v w [x ->] [y ->] [z ->]. cbn [leb_int]. rewrite !Z.leb_le. lia.
  - apply (Forall_map_vals I VInt (fun v => exists z, v = VInt z) l zs); [eauto | exact E].
  - rewrite E in Bt. destruct (best_inj VInt leb_int Z.leb ismin _ zs (fun x y => eq_refl) Bt) as [m [Em [Hm Hb]]].
    exists t, m. auto.
Qed.

Theorem min_sem_int I l zs : l <> [] -> map (eval I) l = map VInt zs ->
  exists t m, mk_min l = Some t /\ eval I t = VInt m /\ In m zs /\ forall z, In z zs -> (m <= z)%Z.
Proof.
  intros Hne E. destruct (wrap_sem_int I true l zs Hne E) as [t [m [H1 [H2 [H3 H4]]]]].
  exists t, m. repeat split; auto. intros z Hz. apply Z.leb_le. now apply H4.
Qed.
Theorem max_sem_int I l zs : l <> [] -> map (eval I) l = map VInt zs ->
  exists t m, mk_max l = Some t /\ eval I t = VInt m /\ In m zs /\ forall z, In z zs -> (z <= m)%Z.
Proof.
  intros Hne E. destruct (wrap_sem_int I false l zs Hne E) as [t [m [H1 [H2 [H3 H4]]]]].
  exists t, m. repeat split; auto. intros z Hz. apply Z.leb_le. now apply H4.
Qed.

(* the least element written as a fold *)
Corollary min_sem_int_fold I l z0 zs : map (eval I) l = map VInt (z0 :: zs) ->
  exists t, mk_min l = Some t /\ eval I t = VInt (fold_right Z.min z0 zs).
Proof.
  intros E. assert (Hne : l <> []) by (intros ->; discriminate E).
  destruct (min_sem_int I l _ Hne E) as [t [m [H1 [H2 [H3 H4]]]]]. exists t. split; [exact H1|]. rewrite H2. f_equal.
  assert (G : forall z0 zs m, In m (z0 :: zs) -> (forall z, In z (z0 :: zs) -> (m <= z)%Z) -> m = fold_right Z.min z0 zs).
  { clear. intros z0 zs. induction zs as [|y r IH]; intros m Hin Hle.
    - destruct Hin as [<-|[]]. reflexivity.
    - cbn [fold_right].
      assert (Hy : (m <= y)%Z) by (apply Hle; right; now left).
      destruct (Z.eq_dec m y) as [->|Hn].
      + assert (Hr : (y <= fold_right Z.min z0 r)%Z).
        { clear IH Hin. assert (forall z, In z (z0 :: r) -> (y <= z)%Z) as H by (intros z [->|Hz]; apply Hle; [now left | right; now right]).
          clear Hle Hy. induction r as [|a r IHr]; cbn [fold_right]; [apply H; now left|].
          apply Z.min_glb; [apply H; right; now left|]. apply IHr. intros z [->|Hz]; apply H; [now left | right; now right]. }
        lia.
      + assert (Hm : m = fold_right Z.min z0 r).
        { apply IH.
          - destruct Hin as [->|[->|Hin]]; [now left | contradiction | now right].
          - intros z [->|Hz]; apply Hle; [now left | right; now right]. }
        rewrite <- Hm. lia. }
  apply G; assumption.
Qed.

(* ---- Real *)
Definition leb_real (u v : value) : bool :=
  match u, v with VReal x, VReal y => if Rle_dec x y then true else false | _, _ => false end.
Lemma wrap_sem_real I ismin l rs : l <> [] -> map (eval I) l = map VReal rs ->
  exists t m, wrap_fuel (List.length l) ismin mk_le l = Some t /\ eval I t = VReal m /\ In m rs /\
              forall z, In z rs -> if ismin then (m <= z)%R else (z <= m)%R.
Proof.
  intros Hne E.
  destruct (wrap_sem I mk_le (fun v => exists z, v = VReal z) leb_real) with (ismin := ismin) (fuel := List.length l) (l := l)
    as [t [Et Bt]]; auto.
  - intros a b [x Hx] [y Hy]. unfold mk_le. cbn [eval map op_sem]. now rewrite Hx, Hy.
  - intros u v [x ->] [y ->]. cbn [leb_real]. destruct (Rle_dec x y); [now left|]. right.
    destruct (Rle_dec y x); [reflexivity | lra].
  - intros u v w [x ->] [y ->] [z ->]. cbn [leb_real].
    destruct (Rle_dec x y); [|discriminate]. destruct (Rle_dec y z); [|discriminate]. destruct (Rle_dec x z); [reflexivity | lra].
  - apply (Forall_map_vals I VReal (fun v => exists z, v = VReal z) l rs); [eauto | exact E].
  - rewrite E in Bt.
    destruct (best_inj VReal leb_real (fun x y => if Rle_dec x y then true else false) ismin _ rs (fun x y => eq_refl) Bt)
      as [m [Em [Hm Hb]]].
    exists t, m. repeat split; auto. intros z Hz. specialize (Hb z Hz).
    destruct ismin; [destruct (Rle_dec m z) | destruct (Rle_dec z m)]; auto; discriminate.
Qed.
Theorem min_sem_real I l rs : l <> [] -> map (eval I) l = map VReal rs ->
  exists t m, mk_min l = Some t /\ eval I t = VReal m /\ In m rs /\ forall z, In z rs -> (m <= z)%R.
Proof. intros Hne E. exact (wrap_sem_real I true l rs Hne E). Qed.
Theorem max_sem_real I l rs : l <> [] -> map (eval I) l = map VReal rs ->
  exists t m, mk_max l = Some t /\ eval I t = VReal m /\ In m rs /\ forall z, In z rs -> (z <= m)%R.
Proof. intros Hne E. exact (wrap_sem_real I false l rs Hne E). Qed.

(* ---- bit-vectors, unsigned and signed *)
Definition bvkey (sign : bool) (w x : Z) : Z := if sign then to_signed w x else x.
Definition leb_bv (sign : bool) (w : Z) (u v : value) : bool :=
  match u, v with VBV _ x, VBV _ y => (bvkey sign w x <=? bvkey sign w y)%Z | _, _ => false end.
Lemma wrap_sem_bv I sign w ismin l xs : l <> [] -> map (eval I) l = map (VBV w) xs ->
  exists t m, wrap_fuel (List.length l) ismin (bv_le sign) l = Some t /\ eval I t = VBV w m /\ In m xs /\
              forall z, In z xs -> (if ismin then bvkey sign w m <=? bvkey sign w z else bvkey sign w z <=? bvkey sign w m)%Z = true.
Proof.
  intros Hne E.
  destruct (wrap_sem I (bv_le sign) (fun v => exists z, v = VBV w z) (leb_bv sign w)) with (ismin := ismin) (fuel := List.length l) (l := l)
    as [t [Et Bt]]; auto.
  - intros a b [x Hx] [y Hy]. unfold bv_le, mk_bvrel. cbn [eval map op_sem]. rewrite Hx, Hy. now destruct sign.
  - intros u v [x ->] [y ->]. cbn [leb_bv]. destruct (Z.leb_spec (bvkey sign w x) (bvkey sign w y)); [now left|]. right. apply Z.leb_le. lia.
  - intros u v z [x ->] [y ->] [z' ->]. cbn [leb_bv]. rewrite !Z.leb_le. lia.
  - apply (Forall_map_vals I (VBV w) (fun v => exists z, v = VBV w z) l xs); [eauto | exact E].
  - rewrite E in Bt.
    destruct (best_inj (VBV w) (leb_bv sign w) (fun x y => (bvkey sign w x <=? bvkey sign w y)%Z) ismin _ xs (fun x y => eq_refl) Bt)
      as [m [Em [Hm Hb]]].
    exists t, m. auto.
Qed.
Theorem minbv_sem I sign w l xs : l <> [] -> map (eval I) l = map (VBV w) xs ->
  exists t m, mk_minbv sign l = Some t /\ eval I t = VBV w m /\ In m xs /\
              forall z, In z xs -> (bvkey sign w m <= bvkey sign w z)%Z.
Proof.
  intros Hne E. destruct (wrap_sem_bv I sign w true l xs Hne E) as [t [m [H1 [H2 [H3 H4]]]]].
  exists t, m. repeat split; auto. intros z Hz. apply Z.leb_le. now apply H4.
Qed.
Theorem maxbv_sem I sign w l xs : l <> [] -> map (eval I) l = map (VBV w) xs ->
  exists t m, mk_maxbv sign l = Some t /\ eval I t = VBV w m /\ In m xs /\
              forall z, In z xs -> (bvkey sign w z <= bvkey sign w m)%Z.
Proof.
  intros Hne E. destruct (wrap_sem_bv I sign w false l xs Hne E) as [t [m [H1 [H2 [H3 H4]]]]].
  exists t, m. repeat split; auto. intros z Hz. apply Z.leb_le. now apply H4.
Qed.

Lemma min_none : mk_min [] = None /\ mk_max [] = None.
Proof. split; reflexivity. Qed.

Example min_example I :
  exists t, mk_min [TIntC 5; TIntC (-2); TIntC 9; TIntC 0; TIntC 3] = Some t /\ eval I t = VInt (-2).
Proof. eexists. split; [reflexivity|]. reflexivity. Qed.

(* ------------------------------------------------------------------------- absolute value *)
Theorem abs_sem_int I f x : tc f = Some TInt -> eval I f = VInt x ->
  exists t, mk_abs f = Some t /\ eval I t = VInt (Z.abs x).
Proof.
  intros Ht Hf. unfold mk_abs. rewrite Ht. eexists. split; [reflexivity|].
  unfold mk_ite, mk_gt, mk_lt, mk_minus, mk_int, TIntC. cbn [eval map op_sem]. rewrite Hf. cbn [vlt vsub vbool].
  destruct (Z.ltb_spec 0 x); f_equal; lia.
Qed.
Theorem abs_sem_real I f x : tc f = Some TReal -> eval I f = VReal x ->
  exists t, mk_abs f = Some t /\ eval I t = VReal (Rabs x).
Proof.
  intros Ht Hf. unfold mk_abs. rewrite Ht. eexists. split; [reflexivity|].
  change (mk_real (0%Z, 1%Z)) with (TRealC 0 1).
  unfold mk_ite, mk_gt, mk_lt, mk_minus, TRealC. cbn [eval map op_sem]. rewrite Hf. cbn [vlt vsub vbool].
  assert (Z0 : Q2R' 0 1 = 0%R) by (unfold Q2R'; lra). rewrite Z0.
  unfold Rabs. destruct (Rlt_dec 0 x); destruct (Rcase_abs x); cbn [vbool]; f_equal; lra.
Qed.
(* Abs is defined on Int and Real terms only *)
Lemma abs_other f : tc f <> Some TInt -> tc f <> Some TReal -> mk_abs f = None.
Proof. intros H1 H2. unfold mk_abs. destruct (tc f) as [[]|]; try reflexivity; contradiction. Qed.

(* ------------------------------------------------------------------------- signed constants *)
Open Scope Z_scope.
Lemma pow2_split w : 1 <= w -> 2 ^ w = 2 * 2 ^ (w - 1) /\ 0 < 2 ^ (w - 1).
Proof.
  intros H. split; [|apply Z.pow_pos_nonneg; lia].
  replace w with (Z.succ (w - 1)) at 1 by lia. rewrite Z.pow_succ_r by lia. reflexivity.
Qed.

Theorem sbv_sem z w : 1 <= w -> - 2 ^ (w - 1) <= z < 2 ^ (w - 1) ->
  exists v, mk_sbv z w = Some (TBVC v w) /\ 0 <= v < 2 ^ w /\ to_signed w v = z.
Proof.
  intros Hw Hz. destruct (pow2_split w Hw) as [E P]. unfold mk_sbv, mk_bv, to_signed.
  destruct (Z.ltb_spec z (- 2 ^ (w - 1))); [lia|].
  destruct (Z.ltb_spec (2 ^ (w - 1) - 1) z); [lia|].
  destruct (Z.leb_spec 0 z).
  - exists z. destruct (Z.ltb_spec z 0); [lia|]. destruct (Z.leb_spec (2 ^ w) z); [lia|].
    split; [reflexivity|]. split; [lia|]. destruct (Z.ltb_spec z (2 ^ (w - 1))); lia.
  - exists (2 ^ w + z). destruct (Z.ltb_spec (2 ^ w + z) 0); [lia|]. destruct (Z.leb_spec (2 ^ w) (2 ^ w + z)); [lia|].
    split; [reflexivity|]. split; [lia|]. destruct (Z.ltb_spec (2 ^ w + z) (2 ^ (w - 1))); lia.
Qed.
(* ... and nothing outside the representable range is accepted *)
Theorem sbv_range z w t : mk_sbv z w = Some t -> 1 <= w /\ - 2 ^ (w - 1) <= z < 2 ^ (w - 1).
Proof.
  unfold mk_sbv, mk_bv. intros H.
  destruct (Z.ltb_spec z (- 2 ^ (w - 1))); [discriminate|].
  destruct (Z.ltb_spec (2 ^ (w - 1) - 1) z); [discriminate|].
  split; [|lia]. destruct (Z.le_gt_cases 1 w) as [|Hw]; [assumption|exfalso].
  assert (E : 2 ^ (w - 1) = 0) by (apply Z.pow_neg_r; lia). lia.
Qed.
Example sbv_example : mk_sbv (-4) 3 = Some (TBVC 4 3) /\ mk_sbv 3 3 = Some (TBVC 3 3) /\ mk_sbv 4 3 = None /\ mk_sbv (-5) 3 = None.
Proof. repeat split; reflexivity. Qed.

(* ------------------------------------------------------------------------- unsigned / signed > and >= *)
Lemma bvugt_sem I a b w x y : eval I a = VBV w x -> eval I b = VBV w y -> eval I (mk_bvugt a b) = VBool (y <? x).
Proof. intros Ha Hb. unfold mk_bvugt, mk_bvrel. cbn [eval map op_sem]. now rewrite Ha, Hb. Qed.
Lemma bvuge_sem I a b w x y : eval I a = VBV w x -> eval I b = VBV w y -> eval I (mk_bvuge a b) = VBool (y <=? x).
Proof. intros Ha Hb. unfold mk_bvuge, mk_bvrel. cbn [eval map op_sem]. now rewrite Ha, Hb. Qed.
Lemma bvsgt_sem I a b w x y : eval I a = VBV w x -> eval I b = VBV w y ->
  eval I (mk_bvsgt a b) = VBool (to_signed w y <? to_signed w x).
Proof. intros Ha Hb. unfold mk_bvsgt, mk_bvrel. cbn [eval map op_sem]. now rewrite Ha, Hb. Qed.
Lemma bvsge_sem I a b w x y : eval I a = VBV w x -> eval I b = VBV w y ->
  eval I (mk_bvsge a b) = VBool (to_signed w y <=? to_signed w x).
Proof. intros Ha Hb. unfold mk_bvsge, mk_bvrel. cbn [eval map op_sem]. now rewrite Ha, Hb. Qed.
(* the flipped relation IS the named one *)
Lemma bvugt_flip I a b : eval I (mk_bvugt a b) = eval I (T (OBVRel BUlt) [b; a]). Proof. reflexivity. Qed.
Lemma bvuge_flip I a b : eval I (mk_bvuge a b) = eval I (T (OBVRel BUle) [b; a]). Proof. reflexivity. Qed.
Lemma bvsgt_flip I a b : eval I (mk_bvsgt a b) = eval I (T (OBVRel BSlt) [b; a]). Proof. reflexivity. Qed.
Lemma bvsge_flip I a b : eval I (mk_bvsge a b) = eval I (T (OBVRel BSle) [b; a]). Proof. reflexivity. Qed.

(* ------------------------------------------------------------------------- nand / nor / xnor *)
(* complement within w bits, bit by bit (any x) *)
Lemma bvnot_testbit w x i : 0 <= i < w -> Z.testbit (2 ^ w - 1 - x) i = negb (Z.testbit x i).
Proof.
  intros Hi. replace (2 ^ w - 1 - x) with (Z.lnot x + 1 * 2 ^ w) by (unfold Z.lnot; lia).
  rewrite <- (Z.mod_pow2_bits_low _ w i) by lia. rewrite Z_mod_plus_full.
  rewrite Z.mod_pow2_bits_low by lia. apply Z.lnot_spec. lia.
Qed.

Lemma bvnand_sem I a b w x y : eval I a = VBV w x -> eval I b = VBV w y ->
  eval I (mk_bvnand a b) = VBV w (2 ^ w - 1 - Z.land x y).
Proof. intros Ha Hb. unfold mk_bvnand, mk_bvun, mk_bvop. cbn [eval map op_sem bvop_sem]. now rewrite Ha, Hb. Qed.
Lemma bvnor_sem I a b w x y : eval I a = VBV w x -> eval I b = VBV w y ->
  eval I (mk_bvnor a b) = VBV w (2 ^ w - 1 - Z.lor x y).
Proof. intros Ha Hb. unfold mk_bvnor, mk_bvun, mk_bvop. cbn [eval map op_sem bvop_sem]. now rewrite Ha, Hb. Qed.
Lemma bvxnor_sem I a b w x y : eval I a = VBV w x -> eval I b = VBV w y ->
  eval I (mk_bvxnor a b) = VBV w (2 ^ w - 1 - Z.lxor x y).
Proof. intros Ha Hb. unfold mk_bvxnor, mk_bvun, mk_bvop. cbn [eval map op_sem bvop_sem]. now rewrite Ha, Hb. Qed.

Theorem bvnand_bits I a b w x y : eval I a = VBV w x -> eval I b = VBV w y ->
  exists v, eval I (mk_bvnand a b) = VBV w v /\
            forall i, 0 <= i < w -> Z.testbit v i = negb (Z.testbit x i && Z.testbit y i).
Proof.
  intros Ha Hb. eexists. split; [exact (bvnand_sem I a b w x y Ha Hb)|]. intros i Hi.
  rewrite bvnot_testbit by exact Hi. now rewrite Z.land_spec.
Qed.
Theorem bvnor_bits I a b w x y : eval I a = VBV w x -> eval I b = VBV w y ->
  exists v, eval I (mk_bvnor a b) = VBV w v /\
            forall i, 0 <= i < w -> Z.testbit v i = negb (Z.testbit x i || Z.testbit y i).
Proof.
  intros Ha Hb. eexists. split; [exact (bvnor_sem I a b w x y Ha Hb)|]. intros i Hi.
  rewrite bvnot_testbit by exact Hi. now rewrite Z.lor_spec.
Qed.
Theorem bvxnor_bits I a b w x y : eval I a = VBV w x -> eval I b = VBV w y ->
  exists v, eval I (mk_bvxnor a b) = VBV w v /\
            forall i, 0 <= i < w -> Z.testbit v i = Bool.eqb (Z.testbit x i) (Z.testbit y i).
Proof.
  intros Ha Hb. eexists. split; [exact (bvxnor_sem I a b w x y Ha Hb)|]. intros i Hi.
  rewrite bvnot_testbit by exact Hi. rewrite Z.lxor_spec. now destruct (Z.testbit x i), (Z.testbit y i).
Qed.

(* ------------------------------------------------------------------------- n-ary and / or / add / mul / concat *)
Lemma bvnary_fold I k (f : Z -> Z -> Z) w :
  (forall p a b, bvop_sem k p [VBV w a; VBV w b] = VBV w (f a b)) ->
  forall r xs res v, eval I res = VBV w v -> map (eval I) r = map (VBV w) xs ->
  eval I (fold_left (fun res a => mk_bvop k res a) r res) = VBV w (fold_left f xs v).
Proof.
  intros Hk. induction r as [|a r IH]; intros xs res v Hres E; destruct xs as [|x xs]; try discriminate E.
  - exact Hres.
  - injection E as Ea Er. cbn [fold_left]. apply IH; [|exact Er].
    unfold mk_bvop. cbn [eval map op_sem]. rewrite Hres, Ea. apply Hk.
Qed.
Lemma mk_bvnary_sem I k (f : Z -> Z -> Z) w l x xs :
  (forall p a b, bvop_sem k p [VBV w a; VBV w b] = VBV w (f a b)) ->
  map (eval I) l = map (VBV w) (x :: xs) ->
  exists t, mk_bvnary k l = Some t /\ eval I t = VBV w (fold_left f xs x).
Proof.
  intros Hk E. destruct l as [|a r]; [discriminate E|]. injection E as Ea Er.
  eexists. split; [reflexivity|]. now apply (bvnary_fold I k f w Hk).
Qed.
Lemma mk_bvnary_nil k : mk_bvnary k [] = None. Proof. reflexivity. Qed.

Theorem bvand_n_sem I w l x xs : map (eval I) l = map (VBV w) (x :: xs) ->
  exists t, mk_bvand_n l = Some t /\ eval I t = VBV w (fold_left Z.land xs x).
Proof. apply mk_bvnary_sem. reflexivity. Qed.
Theorem bvor_n_sem I w l x xs : map (eval I) l = map (VBV w) (x :: xs) ->
  exists t, mk_bvor_n l = Some t /\ eval I t = VBV w (fold_left Z.lor xs x).
Proof. apply mk_bvnary_sem. reflexivity. Qed.

Lemma fold_add_mod w xs : forall a,
  fold_left (fun a b => bvmod w (a + b)) xs (bvmod w a) = bvmod w (fold_left Z.add xs a).
Proof.
  induction xs as [|b r IH]; intros a; [reflexivity|]. cbn [fold_left].
  replace (bvmod w (bvmod w a + b)) with (bvmod w (a + b)) by (unfold bvmod; now rewrite Zplus_mod_idemp_l). apply IH.
Qed.
Lemma fold_mul_mod w xs : forall a,
  fold_left (fun a b => bvmod w (a * b)) xs (bvmod w a) = bvmod w (fold_left Z.mul xs a).
Proof.
  induction xs as [|b r IH]; intros a; [reflexivity|]. cbn [fold_left].
  replace (bvmod w (bvmod w a * b)) with (bvmod w (a * b)) by (unfold bvmod; now rewrite Zmult_mod_idemp_l). apply IH.
Qed.
(* the sum / the product of all arguments, modulo 2^w *)
Theorem bvadd_n_sem I w l x xs : 0 <= x < 2 ^ w -> map (eval I) l = map (VBV w) (x :: xs) ->
  exists t, mk_bvadd_n l = Some t /\ eval I t = VBV w ((fold_left Z.add xs x) mod 2 ^ w).
Proof.
  intros Hx E. destruct (mk_bvnary_sem I BAdd (fun a b => bvmod w (a + b)) w l x xs (fun _ _ _ => eq_refl) E) as [t [Ht Ev]].
  exists t. split; [exact Ht|]. rewrite Ev. f_equal.
  rewrite <- (Z.mod_small x (2 ^ w)) at 1 by exact Hx. apply (fold_add_mod w xs x).
Qed.
Theorem bvmul_n_sem I w l x xs : 0 <= x < 2 ^ w -> map (eval I) l = map (VBV w) (x :: xs) ->
  exists t, mk_bvmul_n l = Some t /\ eval I t = VBV w ((fold_left Z.mul xs x) mod 2 ^ w).
Proof.
  intros Hx E. destruct (mk_bvnary_sem I BMul (fun a b => bvmod w (a * b)) w l x xs (fun _ _ _ => eq_refl) E) as [t [Ht Ev]].
  exists t. split; [exact Ht|]. rewrite Ev. f_equal.
  rewrite <- (Z.mod_small x (2 ^ w)) at 1 by exact Hx. apply (fold_mul_mod w xs x).
Qed.

(* concatenation: (width, value) pairs; the first argument ends up in the high bits *)
Definition cat (p q : Z * Z) : Z * Z := (fst p + fst q, snd p * 2 ^ fst q + snd q).
Definition vbv (p : Z * Z) : value := VBV (fst p) (snd p).
Lemma bvconcat_fold I : forall r ps res p, eval I res = vbv p -> map (eval I) r = map vbv ps ->
  eval I (fold_left mk_bvconcat r res) = vbv (fold_left cat ps p).
Proof.
  induction r as [|a r IH]; intros ps res p Hres E; destruct ps as [|q ps]; try discriminate E.
  - exact Hres.
  - injection E as Ea Er. cbn [fold_left]. apply IH; [|exact Er].
    unfold mk_bvconcat. cbn [eval map op_sem]. rewrite Hres, Ea. reflexivity.
Qed.
Theorem bvconcat_n_sem I l p q ps : map (eval I) l = map vbv (p :: q :: ps) ->
  exists t, mk_bvconcat_n l = Some t /\ eval I t = vbv (fold_left cat (q :: ps) p).
Proof.
  intros E. destruct l as [|a [|b r]]; try discriminate E. injection E as Ea Eb Er.
  eexists. split; [reflexivity|]. cbn [fold_left]. apply bvconcat_fold; [|exact Er].
  unfold mk_bvconcat. cbn [eval map op_sem]. rewrite Ea, Eb. reflexivity.
Qed.
Lemma bvconcat_n_short l : (List.length l < 2)%nat -> mk_bvconcat_n l = None.
Proof. destruct l as [|a [|b r]]; cbn; intros; try reflexivity; lia. Qed.

(* ------------------------------------------------------------------------- shifts by a Python integer *)
Theorem bvshift_int_sem I k a n w x : bv_width a = w -> eval I a = VBV w x ->
  (exists t, mk_bvshift_int k a n = Some t) <-> 0 <= n < 2 ^ w.
Proof.
  intros Hw Ha. unfold mk_bvshift_int, mk_bv, obind. rewrite Hw.
  destruct (Z.ltb_spec n 0); [split; [intros [t [=]] | lia]|].
  destruct (Z.leb_spec (2 ^ w) n); [split; [intros [t [=]] | lia]|].
  split; [lia | eexists; reflexivity].
Qed.
Theorem bvshift_int_const k a n w t : bv_width a = w -> mk_bvshift_int k a n = Some t ->
  t = T (OBV k w) [a; TBVC n w] /\ 0 <= n < 2 ^ w.
Proof.
  intros Hw. unfold mk_bvshift_int, mk_bv, obind. rewrite Hw.
  destruct (Z.ltb_spec n 0); [discriminate|]. destruct (Z.leb_spec (2 ^ w) n); [discriminate|].
  intros [= <-]. unfold mk_bvop. rewrite Hw. split; [reflexivity | lia].
Qed.
Theorem bvshl_int_sem I a n w x t : bv_width a = w -> eval I a = VBV w x -> mk_bvshl_int a n = Some t ->
  eval I t = VBV w (if w <=? n then 0 else (x * 2 ^ n) mod 2 ^ w).
Proof.
  intros Hw Ha Ht. destruct (bvshift_int_const BLshl a n w t Hw Ht) as [-> _].
  cbn [eval map op_sem]. rewrite Ha. reflexivity.
Qed.
Theorem bvlshr_int_sem I a n w x t : bv_width a = w -> eval I a = VBV w x -> mk_bvlshr_int a n = Some t ->
  eval I t = VBV w (if w <=? n then 0 else x / 2 ^ n).
Proof.
  intros Hw Ha Ht. destruct (bvshift_int_const BLshr a n w t Hw Ht) as [-> _].
  cbn [eval map op_sem]. rewrite Ha. reflexivity.
Qed.
Theorem bvashr_int_sem I a n w x t : bv_width a = w -> eval I a = VBV w x -> mk_bvashr_int a n = Some t ->
  eval I t = VBV w ((to_signed w x / 2 ^ Z.min n w) mod 2 ^ w).
Proof.
  intros Hw Ha Ht. destruct (bvshift_int_const BAshr a n w t Hw Ht) as [-> _].
  cbn [eval map op_sem]. rewrite Ha. reflexivity.
Qed.

(* ------------------------------------------------------------------------- bvsmod *)
(* SMT-LIB bvsmod, as a function on the two's-complement readings: the remainder of the FLOORED
   division (sign of the divisor; Z.modulo is exactly that), reduced to w bits; bvsmod s 0 = s.
   Proved for ALL widths w >= 1 by sign cases on Z. *)
Lemma veqb_bv w a b : veqb (VBV w a) (VBV w b) = (a =? b).
Proof.
  destruct (Z.eqb_spec a b) as [->|Hn]; [apply veqb_refl|].
  destruct (veqb (VBV w a) (VBV w b)) eqn:E; [|reflexivity]. apply veqb_true in E. injection E as E. contradiction.
Qed.

Lemma msb_extract w x : 1 <= w -> 0 <= x < 2 ^ w ->
  bv_extract x (w - 1) (w - 1) = if x <? 2 ^ (w - 1) then 0 else 1.
Proof.
  intros Hw Hx. destruct (pow2_split w Hw) as [E P]. unfold bv_extract.
  replace (w - 1 - (w - 1) + 1) with 1 by lia. change (2 ^ 1) with 2.
  destruct (Z.ltb_spec x (2 ^ (w - 1))).
  - rewrite Z.div_small by lia. reflexivity.
  - replace (x / 2 ^ (w - 1)) with 1; [reflexivity|]. apply (Z.div_unique x (2 ^ (w - 1)) 1 (x - 2 ^ (w - 1))); lia.
Qed.


Definition smod_spec (w x y : Z) : Z :=
  if y =? 0 then x else (to_signed w x mod to_signed w y) mod 2 ^ w.

Lemma neg_mod m x : 0 < x < m -> (- x) mod m = m - x.
Proof. intros H. symmetry. apply (Z.mod_unique (- x) m (-1) (m - x)); lia. Qed.

Lemma mod_small_shift m z : 0 <= z < m -> (m + z) mod m = z.
Proof. intros H. symmetry. apply (Z.mod_unique (m + z) m 1 z); lia. Qed.
Lemma mod_neg_shift m z : - m <= z < 0 -> z mod m = z + m.
Proof. intros H. symmetry. apply (Z.mod_unique z m (-1) (z + m)); lia. Qed.

Theorem bvsmod_sem I s t w x y : 1 <= w -> bv_width s = w -> bv_width t = w ->
  eval I s = VBV w x -> eval I t = VBV w y -> 0 <= x < 2 ^ w -> 0 <= y < 2 ^ w ->
  exists r, mk_bvsmod s t = Some r /\ eval I r = VBV w (smod_spec w x y).
Proof.
  intros Hw Ws Wt Es Et Hx Hy.
  destruct (pow2_split w Hw) as [E2 P].
  unfold mk_bvsmod, mk_bvextract, mk_bv, obind. rewrite Ws, Wt.
  rewrite Z.ltb_irrefl.
  destruct (Z.ltb_spec (w-1) 0); [lia|]. cbn [orb].
  assert (Hsz : w - 1 - (w - 1) + 1 = 1) by lia. rewrite Hsz.
  destruct (Z.ltb_spec w 1); [lia|].
  destruct (Z.ltb_spec 0 0); [lia|]. destruct (Z.leb_spec (2^w) 0); [lia|].
  eexists. split; [reflexivity|].
  unfold mk_ite, mk_equals, mk_bvun, mk_bvop, mk_and, mk_or, TBVC.
  cbn [eval map op_sem bvop_sem forallb existsb vbool bv_width].
  rewrite Es, Et. cbn [bvop_sem forallb existsb vbool].
  rewrite Hsz. rewrite !veqb_bv. rewrite !msb_extract by assumption.
  unfold smod_spec, to_signed, bv_neg, bv_urem, bvmod.
  set (p := 2 ^ (w - 1)) in *. rewrite E2 in Hx, Hy. rewrite !E2.
  destruct (Z.ltb_spec x p) as [Sx|Sx]; destruct (Z.ltb_spec y p) as [Sy|Sy];
    simpl (0 =? 0); simpl (1 =? 0); simpl (0 =? 1); simpl (1 =? 1); cbn [andb orb]; rewrite ?veqb_bv; rewrite ?E2.
  - (* both non-negative *)
    rewrite orb_true_r. f_equal. destruct (Z.eqb_spec y 0) as [->|Hy0]; [reflexivity|].
    symmetry. apply Z.mod_small. pose proof (Z.mod_pos_bound x y). lia.
  - (* dividend non-negative, divisor negative *)
    rewrite !orb_false_r. destruct (Z.eqb_spec y 0) as [->|Hy0]; [lia|].
    rewrite (neg_mod (2 * p) y) by lia.
    assert (Hb : 0 < 2 * p - y) by lia.
    destruct (Z.eqb_spec (2 * p - y) 0); [lia|].
    pose proof (Z.mod_pos_bound x (2 * p - y) Hb) as Hu.
    replace (y - 2 * p) with (- (2 * p - y)) by lia.
    destruct (Z.eqb_spec (x mod (2 * p - y)) 0) as [U0|U0].
    + f_equal. rewrite Z.mod_opp_r_z by lia. rewrite U0. reflexivity.
    + f_equal. rewrite Z.mod_opp_r_nz by lia.
      rewrite (mod_neg_shift (2 * p) (x mod (2 * p - y) - (2 * p - y))) by lia. rewrite Z.mod_small by lia. lia.
  - (* dividend negative, divisor non-negative *)
    rewrite !orb_false_r.
    rewrite (neg_mod (2 * p) x) by lia.
    destruct (Z.eqb_spec y 0) as [->|Hy0].
    + simpl (0 =? 0). assert (Hne : (2 * p - x =? 0) = false) by (apply Z.eqb_neq; lia). rewrite Hne.
      f_equal. rewrite Z.add_0_r. rewrite (neg_mod (2 * p) (2 * p - x)) by lia.
      rewrite Z.mod_small by lia. lia.
    + assert (Hyp : 0 < y) by lia.
      pose proof (Z.mod_pos_bound (2 * p - x) y Hyp) as Hu.
      replace (x - 2 * p) with (- (2 * p - x)) by lia.
      destruct (Z.eqb_spec ((2 * p - x) mod y) 0) as [U0|U0].
      * f_equal. rewrite (Z.mod_opp_l_z (2 * p - x) y) by lia. rewrite U0. reflexivity.
      * f_equal. rewrite (Z.mod_opp_l_nz (2 * p - x) y) by lia.
        rewrite (neg_mod (2 * p) ((2 * p - x) mod y)) by lia.
        rewrite (Z.mod_small (y - (2 * p - x) mod y)) by lia.
        replace (2 * p - (2 * p - x) mod y + y) with (2 * p + (y - (2 * p - x) mod y)) by lia.
        apply mod_small_shift. lia.
  - (* both negative *)
    rewrite !orb_false_r. destruct (Z.eqb_spec y 0) as [->|Hy0]; [lia|].
    rewrite (neg_mod (2 * p) x) by lia. rewrite (neg_mod (2 * p) y) by lia.
    assert (Hb : 0 < 2 * p - y) by lia.
    destruct (Z.eqb_spec (2 * p - y) 0); [lia|].
    pose proof (Z.mod_pos_bound (2 * p - x) (2 * p - y) Hb) as Hu.
    replace (x - 2 * p) with (- (2 * p - x)) by lia. replace (y - 2 * p) with (- (2 * p - y)) by lia.
    rewrite Z.mod_opp_opp by lia.
    destruct (Z.eqb_spec ((2 * p - x) mod (2 * p - y)) 0) as [U0|U0].
    + f_equal. rewrite U0. reflexivity.
    + reflexivity.
Qed.

(* read back as a signed number, the result IS the floored remainder (divisor <> 0) *)
Lemma to_signed_bvmod w m : 1 <= w -> - 2 ^ (w - 1) <= m < 2 ^ (w - 1) -> to_signed w (m mod 2 ^ w) = m.
Proof.
  intros Hw Hm. destruct (pow2_split w Hw) as [E2 P]. unfold to_signed. rewrite E2.
  destruct (Z.le_gt_cases 0 m).
  - rewrite Z.mod_small by lia. destruct (Z.ltb_spec m (2 ^ (w - 1))); lia.
  - rewrite mod_neg_shift by lia. destruct (Z.ltb_spec (m + 2 * 2 ^ (w - 1)) (2 ^ (w - 1))); lia.
Qed.
Lemma to_signed_range w x : 1 <= w -> 0 <= x < 2 ^ w -> - 2 ^ (w - 1) <= to_signed w x < 2 ^ (w - 1).
Proof.
  intros Hw Hx. destruct (pow2_split w Hw) as [E2 P]. unfold to_signed.
  destruct (Z.ltb_spec x (2 ^ (w - 1))); lia.
Qed.
Theorem smod_spec_signed w x y : 1 <= w -> 0 <= x < 2 ^ w -> 0 <= y < 2 ^ w -> y <> 0 ->
  to_signed w (smod_spec w x y) = to_signed w x mod to_signed w y.
Proof.
  intros Hw Hx Hy Hy0. unfold smod_spec. destruct (Z.eqb_spec y 0); [contradiction|].
  pose proof (to_signed_range w y Hw Hy) as Ry.
  assert (Sy : to_signed w y <> 0).
  { destruct (pow2_split w Hw) as [E2 P]. unfold to_signed. destruct (Z.ltb_spec y (2 ^ (w - 1))); lia. }
  apply to_signed_bvmod; [exact Hw|].
  destruct (Z.lt_ge_cases 0 (to_signed w y)) as [Hp|Hn].
  - pose proof (Z.mod_pos_bound (to_signed w x) (to_signed w y) Hp). lia.
  - assert (Hlt : to_signed w y < 0) by lia. pose proof (Z.mod_neg_bound (to_signed w x) (to_signed w y) Hlt). lia.
Qed.
Example bvsmod_example I :
  exists r, mk_bvsmod (TBVC 5 3) (TBVC 2 3) = Some r /\ eval I r = VBV 3 1 /\          (* -3 smod 2 = 1 *)
  exists r', mk_bvsmod (TBVC 3 3) (TBVC 6 3) = Some r' /\ eval I r' = VBV 3 7.           (* 3 smod -2 = -1 *)
Proof.
  destruct (bvsmod_sem I (TBVC 5 3) (TBVC 2 3) 3 5 2) as [r [Hr Er]]; try reflexivity; try lia.
  destruct (bvsmod_sem I (TBVC 3 3) (TBVC 6 3) 3 3 6) as [r' [Hr' Er']]; try reflexivity; try lia.
  exists r. split; [exact Hr|]. split; [exact Er|]. exists r'. split; [exact Hr'|]. exact Er'.
Qed.

(* ------------------------------------------------------------------------- repeat *)
(* value of n+1 copies of a w-bit pattern x *)
Definition rep_val (w x : Z) (n : nat) : Z := Nat.iter n (fun acc => acc * 2 ^ w + x) x.

Lemma iter_S {A} (g : A -> A) x n : Nat.iter (S n) g x = g (Nat.iter n g x).
Proof. reflexivity. Qed.
Lemma repeat_iter I f w x : eval I f = VBV w x -> forall n,
  eval I (Nat.iter n (fun res => mk_bvconcat res f) f) = VBV (Z.of_nat (S n) * w) (rep_val w x n).
Proof.
  intros Hf. induction n as [|n IH].
  - change (eval I f = VBV (Z.of_nat 1 * w) x). rewrite Hf. f_equal. lia.
  - rewrite iter_S. unfold mk_bvconcat at 1. cbn [eval map op_sem]. rewrite IH, Hf. cbn [bvop_sem].
    unfold rep_val. rewrite iter_S. f_equal. rewrite (Nat2Z.inj_succ (S n)). lia.
Qed.
(* acceptance domain: count >= 1 AND a bit-vector operand (also for count = 1, where no node is built) *)
Theorem repeat_accept f count :
  (exists t, mk_bvrepeat f count = Some t) <-> (1 <= count /\ exists w, tc f = Some (TBV w)).
Proof.
  unfold mk_bvrepeat. destruct (Z.ltb_spec count 1) as [Hc|Hc].
  - split; [intros [t [=]] | intros [H _]; lia].
  - destruct (tc f) as [[]|]; (split; [intros [t H]; try discriminate H | intros [_ [w' H]]; try discriminate H]).
    + split; [lia | eexists; reflexivity].
    + eexists; reflexivity.
Qed.
(* ... and then: count copies, width count * w *)
Theorem repeat_sem I f count w x : tc f = Some (TBV w) -> eval I f = VBV w x ->
  ((exists t, mk_bvrepeat f count = Some t) <-> 1 <= count) /\
  (forall t, mk_bvrepeat f count = Some t ->
     eval I t = VBV (count * w) (rep_val w x (Z.to_nat (count - 1)))).
Proof.
  intros Ht Hf. unfold mk_bvrepeat. rewrite Ht. destruct (Z.ltb_spec count 1) as [Hc|Hc].
  - split; [split; [intros [t [=]] | lia] | intros t [=]].
  - split; [split; [lia | eexists; reflexivity]|]. intros t [= <-].
    rewrite (repeat_iter I f w x Hf). f_equal. rewrite Nat2Z.inj_succ, Z2Nat.id by lia. lia.
Qed.
(* ... and every bit i of the result is bit (i mod w) of the pattern *)
Lemma rep_val_bits w x : 0 < w -> 0 <= x < 2 ^ w -> forall n i, 0 <= i < Z.of_nat (S n) * w ->
  Z.testbit (rep_val w x n) i = Z.testbit x (i mod w).
Proof.
  intros Hw Hx. induction n as [|n IH]; intros i Hi.
  - change (rep_val w x 0) with x. rewrite Z.mod_small by lia. reflexivity.
  - unfold rep_val. rewrite iter_S. fold (rep_val w x n).
    destruct (Z.lt_ge_cases i w) as [Hlt|Hge].
    + rewrite (Z.mod_small i w) by lia.
      rewrite <- (Z.mod_pow2_bits_low _ w i) by lia.
      rewrite Z.add_comm, Z_mod_plus_full, Z.mod_pow2_bits_low by lia. reflexivity.
    + replace i with ((i - w) + w) at 1 by lia.
      rewrite <- Z.div_pow2_bits by lia.
      rewrite Z.div_add_l by lia. rewrite (Z.div_small x) by lia. rewrite Z.add_0_r.
      rewrite IH by (rewrite Nat2Z.inj_succ in *; lia).
      f_equal. replace i with ((i - w) + 1 * w) at 2 by lia. now rewrite Z_mod_plus_full.
Qed.
Example repeat_example I : exists t, mk_bvrepeat (TBVC 2 2) 3 = Some t /\ eval I t = VBV 6 42.
Proof. eexists. split; reflexivity. Qed.
Example repeat_rejects : mk_bvrepeat (TBVC 2 2) 0 = None /\ mk_bvrepeat (TBVC 2 2) (-3) = None /\
  mk_bvrepeat (TIntC 5) 1 = None /\ mk_bvrepeat TTrue 1 = None.
Proof. repeat split; reflexivity. Qed.

(* ------------------------------------------------------------------------- infix notation *)
(* (The next two lemmas are also proved in Substituter_proofs; restated here so that C06's closure
   does not depend on another property's development.) *)
Lemma Q2R_norm' n d : Q2R' (fst (fr_norm n d)) (snd (fr_norm n d)) = Q2R' n d /\ (d <> 0 -> snd (fr_norm n d) <> 0).
Proof.
  unfold fr_norm. destruct (Z.eqb_spec d 0) as [->|Hd]; [split; [reflexivity | intros H; contradiction]|].
  pose proof (Z.gcd_divide_l n d) as [qn Hn]. pose proof (Z.gcd_divide_r n d) as [qd Hd'].
  set (g := Z.gcd n d) in *.
  assert (Hg : g <> 0). { intros E. rewrite E in Hd'. lia. }
  assert (En : n / g = qn). { rewrite Hn at 1. now apply Z.div_mul. }
  assert (Ed : d / g = qd). { rewrite Hd' at 1. now apply Z.div_mul. }
  cbv zeta. rewrite En, Ed.
  assert (Hqd : qd <> 0). { intros E. subst qd. lia. }
  assert (R1 : IZR g <> 0%R) by (now apply not_0_IZR).
  assert (R2 : IZR qd <> 0%R) by (now apply not_0_IZR).
  unfold Q2R'. destruct (qd <? 0); cbn [fst snd]; (split; [|intros _; lia]); rewrite Hn at 1; rewrite Hd' at 1.
  - rewrite !opp_IZR, !mult_IZR. field. auto.
  - rewrite !mult_IZR. field. auto.
Qed.
Definition realc_ok (b : term) : Prop := forall n d l, b = T (ORealC n d) l -> l = [] /\ d <> 0.
Lemma mk_div_sem I a b r : realc_ok b -> mk_div a b = Some r -> eval I r = eval I (T ODiv [a; b]).
Proof.
  intros Hb. unfold mk_div. destruct (is_zero b) eqn:Z; [intros [= <-]; reflexivity|].
  destruct b as [ob bargs]. cbn [top].
  destruct ob; try (intros [= <-]; reflexivity).
  destruct (Hb _ _ _ eq_refl) as [-> Hden].
  unfold fr_div. cbn [fst snd]. destruct (Z.eqb_spec num 0) as [->|Hn]; [discriminate|].
  unfold mk_times, mk_real. rewrite !Z.mul_1_l.
  destruct (Q2R_norm' den num) as [Q1 _].
  destruct (Q2R_norm' (fst (fr_norm den num)) (snd (fr_norm den num))) as [Q2 _].
  destruct (fr_norm (fst (fr_norm den num)) (snd (fr_norm den num))) as [n' d'] eqn:E. intros [= <-].
  cbn [fst snd] in Q2. assert (Q : Q2R' n' d' = Q2R' den num) by congruence.
  cbn [eval map op_sem fst snd].
  assert (R1 : IZR den <> 0%R) by (now apply not_0_IZR).
  assert (R2 : IZR num <> 0%R) by (now apply not_0_IZR).
  destruct (eval I a); cbn; auto. rewrite Q. unfold Q2R'.
  destruct (Req_EM_T (IZR num / IZR den) 0) as [E0|E0].
  - exfalso. apply (Rmult_eq_compat_r (IZR den)) in E0. unfold Rdiv in E0.
    rewrite Rmult_assoc, Rinv_l, Rmult_1_r, Rmult_0_l in E0; auto.
  - f_equal. field. auto.
Qed.

(* the value a right operand stands for next to a left operand of sort [t] *)
Definition operand_value (I : interp) (t : ty) (r : operand) : option value :=
  match r with
  | OpT x => Some (eval I x)
  | OpInt z => match t with
               | TBV w => if (0 <=? z) && (z <? 2 ^ w) then Some (VBV w z) else None
               | TInt => Some (VInt z)
               | TReal => Some (VReal (IZR z))
               | _ => None
               end
  | OpBool b => match t with TBool => Some (VBool b) | _ => None end
  | OpFrac n d => match t with TReal => if d =? 0 then None else Some (VReal (IZR n / IZR d)) | _ => None end
  end.

Lemma mk_real_eval I n d : eval I (mk_real (n, d)) = VReal (Q2R' n d).
Proof.
  unfold mk_real. cbn [fst snd]. destruct (Q2R_norm' n d) as [Q _].
  destruct (fr_norm n d) as [n' d']. cbn [fst snd] in Q. unfold TRealC. cbn [eval map op_sem]. now rewrite Q.
Qed.
Lemma mk_real_realc_ok n d : d <> 0 -> realc_ok (mk_real (n, d)).
Proof.
  intros Hd. unfold mk_real. cbn [fst snd]. destruct (Q2R_norm' n d) as [_ Q].
  destruct (fr_norm n d) as [n' d']. cbn [fst snd] in Q. intros a b l [= <- <- <-]. split; [reflexivity | auto].
Qed.

(* literal promotion gives the constant of that value (or raises exactly when there is none) *)
Lemma prepare_arg_sem I r t r' : prepare_arg r t = Some r' ->
  (forall n d, r = OpFrac n d -> d <> 0) ->
  operand_value I t r = Some (eval I r').
Proof.
  intros H Hd. destruct r as [x|z|b|n d]; cbn [prepare_arg operand_value] in *.
  - now injection H as <-.
  - destruct t; try discriminate H.
    + injection H as <-. reflexivity.
    + injection H as <-. rewrite mk_real_eval. unfold Q2R'. do 2 f_equal. lra.
    + unfold mk_bv in H. destruct (Z.ltb_spec z 0); [discriminate|]. destruct (Z.leb_spec (2 ^ w) z); [discriminate|].
      injection H as <-. destruct (Z.leb_spec 0 z); [|lia]. destruct (Z.ltb_spec z (2 ^ w)); [|lia]. reflexivity.
  - destruct t; try discriminate H. injection H as <-. reflexivity.
  - destruct t; try discriminate H. injection H as <-. rewrite mk_real_eval.
    destruct (Z.eqb_spec d 0) as [E|E]; [exfalso; exact (Hd n d eq_refl E) | reflexivity].
Qed.
Lemma prepare_arg_realc_ok r t r' : prepare_arg r t = Some r' ->
  (forall x, r = OpT x -> realc_ok x) -> (forall n d, r = OpFrac n d -> d <> 0) -> realc_ok r'.
Proof.
  intros H Hx Hd. destruct r as [x|z|b|n d]; cbn [prepare_arg] in H.
  - injection H as <-. now apply Hx.
  - destruct t; try discriminate H.
    + injection H as <-. intros a b l [=].
    + injection H as <-. apply mk_real_realc_ok. lia.
    + unfold mk_bv in H. destruct (z <? 0); [discriminate|]. destruct (2 ^ w <=? z); [discriminate|].
      injection H as <-. intros a b l [=].
  - destruct t; try discriminate H. injection H as <-. intros a c l [=].
  - destruct t; try discriminate H. injection H as <-. apply mk_real_realc_ok. now apply (Hd n d).
Qed.

(* the mathematical function each Python operator names, on values of one sort; None = outside
   its domain (different sorts / widths, Int and Real division by zero, which SMT-LIB leaves open) *)
Definition rltb (x y : R) : bool := if Rlt_dec x y then true else false.
Definition rleb (x y : R) : bool := if Rle_dec x y then true else false.
Definition arith2 (fz : Z -> Z -> Z) (fr : R -> R -> R) (fb : Z -> Z -> Z -> Z) (a b : value) : option value :=
  match a, b with
  | VInt x, VInt y => Some (VInt (fz x y))
  | VReal x, VReal y => Some (VReal (fr x y))
  | VBV w x, VBV w' y => if w =? w' then Some (VBV w (fb w x y)) else None
  | _, _ => None
  end.
Definition cmp2 (fz : Z -> Z -> bool) (fr : R -> R -> bool) (a b : value) : option value :=
  match a, b with
  | VInt x, VInt y => Some (VBool (fz x y))
  | VReal x, VReal y => Some (VBool (fr x y))
  | VBV w x, VBV w' y => if w =? w' then Some (VBool (fz x y)) else None      (* unsigned *)
  | _, _ => None
  end.
Definition bits2 (fb : bool -> bool -> bool) (fz : Z -> Z -> Z) (a b : value) : option value :=
  match a, b with
  | VBool x, VBool y => Some (VBool (fb x y))
  | VBV w x, VBV w' y => if w =? w' then Some (VBV w (fz x y)) else None
  | _, _ => None
  end.
Definition bvonly (f : Z -> Z -> Z -> Z) (a b : value) : option value :=
  match a, b with
  | VBV w x, VBV w' y => if w =? w' then Some (VBV w (f w x y)) else None
  | _, _ => None
  end.
Definition pyop_sem (o : pyop) (a b : value) : option value :=
  match o with
  | PAdd | PRadd => arith2 Z.add Rplus (fun w x y => (x + y) mod 2 ^ w) a b
  | PSub => arith2 Z.sub Rminus (fun w x y => (x - y) mod 2 ^ w) a b
  | PMul | PRmul => arith2 Z.mul Rmult (fun w x y => (x * y) mod 2 ^ w) a b
  | PDiv => match a, b with
            | VInt x, VInt y => if y =? 0 then None else Some (VInt (smt_div x y))
            | VReal x, VReal y => if Req_EM_T y 0 then None else Some (VReal (x / y))
            | VBV w x, VBV w' y => if w =? w' then Some (VBV w (bv_udiv w x y)) else None
            | _, _ => None
            end
  | PGt => cmp2 (fun x y => y <? x) (fun x y => rltb y x) a b
  | PGe => cmp2 (fun x y => y <=? x) (fun x y => rleb y x) a b
  | PLt => cmp2 Z.ltb rltb a b
  | PLe => cmp2 Z.leb rleb a b
  | PAnd | PRand => bits2 andb Z.land a b
  | POr | PRor => bits2 orb Z.lor a b
  | PXor | PRxor => bits2 xorb Z.lxor a b
  | PLshift => bvonly bv_shl a b
  | PRshift => bvonly bv_lshr a b
  | PMod => bvonly bv_urem a b
  end.

(* the sort of the left operand's value is the one the type checker reports *)
Definition val_sort (v : value) (t : ty) : Prop :=
  match t with
  | TBool => exists b, v = VBool b
  | TInt => exists z, v = VInt z
  | TReal => exists r, v = VReal r
  | TBV w => exists x, v = VBV w x
  | _ => False
  end.

Lemma apply_infix_inv self r f bvf t ts : tc self = Some ts -> apply_infix self r f bvf = Some t ->
  exists r' c, prepare_arg r ts = Some r' /\ (if is_bv ts then bvf else f) = Some c /\ apply_ctor2 c self r' = Some t.
Proof.
  intros Hts. unfold apply_infix, obind. rewrite Hts.
  destruct (prepare_arg r ts) as [r'|]; [|discriminate].
  destruct (if is_bv ts then bvf else f) as [c|]; [|discriminate]. intros H. exists r', c. auto.
Qed.

Theorem infix_py_sem I self p r t ts vr v :
  tc self = Some ts -> val_sort (eval I self) ts ->
  (forall x, r = OpT x -> realc_ok x) -> (forall n d, r = OpFrac n d -> d <> 0) ->
  infix self (IPy p) r = Some t ->
  operand_value I ts r = Some vr ->
  pyop_sem p (eval I self) vr = Some v ->
  eval I t = v.
Proof.
  intros Hts Hvs Hrc Hfd Hinf Hvr Hsem. unfold infix in Hinf.
  destruct (pyop_funs p) as [f bvf] eqn:Ef.
  destruct (apply_infix_inv self r f bvf t ts Hts Hinf) as [r' [c [Hp [Hc Ha]]]].
  pose proof (prepare_arg_sem I r ts r' Hp Hfd) as Hv. rewrite Hvr in Hv. injection Hv as ->.
  pose proof (prepare_arg_realc_ok r ts r' Hp Hrc Hfd) as Hok.
  destruct ts; cbn [val_sort] in Hvs; try contradiction; destruct Hvs as [x Hx]; cbn [is_bv] in Hc;
    destruct p; cbn [pyop_funs] in Ef; injection Ef as <- <-; try discriminate Hc; injection Hc as <-;
    cbn [pyop_sem arith2 cmp2 bits2 bvonly] in Hsem; rewrite Hx in Hsem;
    destruct (eval I r') eqn:Er; try discriminate Hsem;
    cbn [apply_ctor2 mk_plus mk_times mk_and mk_or mk_bvand_n mk_bvor_n mk_bvadd_n mk_bvmul_n mk_bvnary fold_left] in Ha;
    try (injection Ha as <-);
    try (rewrite (mk_div_sem I self r' t Hok Ha));
    unfold mk_minus, mk_gt, mk_ge, mk_lt, mk_le, mk_xor, mk_iff, mk_not, is_not, mk_bvop, mk_bvugt, mk_bvuge, mk_bvrel;
    cbn [top eval map op_sem fold_left]; rewrite ?Hx, ?Er;
    cbn [vadd vmul vsub vle vlt vdiv vbool forallb existsb bvop_sem bvrel_sem] in *;
    cbn [arith2 cmp2 bits2 bvonly] in Hsem;
    repeat match type of Hsem with
           | (if ?c then _ else _) = Some _ => destruct c eqn:?; try discriminate Hsem
           end;
    injection Hsem as <-; rewrite ?andb_true_r, ?orb_false_r; try reflexivity;
    try (f_equal; destruct x, b; reflexivity).
Qed.

(* named methods x.Name(y): the constructor of that name applied to x and the promoted operand *)
Theorem infix_meth_dispatch self c r t ts : tc self = Some ts -> infix self (IMeth c) r = Some t ->
  exists r', prepare_arg r ts = Some r' /\ apply_ctor2 c self r' = Some t.
Proof.
  intros Hts H. unfold infix in H. destruct (apply_infix_inv self r (Some c) (Some c) t ts Hts H) as [r' [c' [Hp [Hc Ha]]]].
  exists r'. split; [exact Hp|]. destruct (is_bv ts); injection Hc as <-; exact Ha.
Qed.

(* unary minus *)
Theorem infix_neg_sem I self ts t : tc self = Some ts -> val_sort (eval I self) ts -> infix_neg self = Some t ->
  match eval I self with
  | VInt x => eval I t = VInt (- x)
  | VReal x => eval I t = VReal (- x)
  | VBV w x => eval I t = VBV w ((- x) mod 2 ^ w)
  | _ => False
  end.
Proof.
  intros Hts Hvs H. unfold infix_neg, obind in H. rewrite Hts in H.
  destruct ts; cbn [val_sort] in Hvs; try contradiction; destruct Hvs as [x Hx]; rewrite Hx; cbn [is_bv] in H.
  - unfold apply_infix, obind in H. rewrite Hts in H. discriminate H.
  - unfold apply_infix, obind in H. rewrite Hts in H. cbn [prepare_arg is_bv apply_ctor2 mk_times] in H. injection H as <-.
    unfold mk_int, TIntC. cbn [eval map op_sem fold_left]. rewrite Hx. cbn [vmul]. f_equal. lia.
  - unfold apply_infix, obind in H. rewrite Hts in H. cbn [prepare_arg is_bv apply_ctor2 mk_times] in H. injection H as <-.
    cbn [eval map op_sem fold_left]. rewrite Hx, mk_real_eval. cbn [vmul]. f_equal. unfold Q2R'. lra.
  - injection H as <-. unfold mk_bvun. cbn [eval map op_sem]. rewrite Hx. reflexivity.
Qed.
(* ~ : Boolean negation / bitwise complement *)
Theorem infix_invert_sem I self ts t : tc self = Some ts -> val_sort (eval I self) ts -> not1 self ->
  infix_invert self = Some t ->
  match eval I self with
  | VBool b => vbool (eval I t) = negb b /\ (is_not self = false -> eval I t = VBool (negb b))
  | VBV w x => eval I t = VBV w (2 ^ w - 1 - x)
  | _ => True
  end.
Proof.
  intros Hts Hvs Hn H. unfold infix_invert, obind in H. rewrite Hts in H.
  destruct ts; cbn [val_sort] in Hvs; try contradiction; destruct Hvs as [x Hx]; rewrite Hx; cbn [is_bv] in H; try exact Logic.I.
  - injection H as <-. split.
    + rewrite (mk_not_sem I self Hn), Hx. reflexivity.
    + intros Hnn. unfold mk_not. rewrite Hnn. cbn [eval map op_sem]. now rewrite Hx.
  - injection H as <-. unfold mk_bvun. cbn [eval map op_sem]. rewrite Hx. reflexivity.
Qed.
(* left - self, for a literal or formula on the left *)
Theorem infix_rsub_sem I self ts left t vl :
  tc self = Some ts -> val_sort (eval I self) ts -> (ts = TInt \/ ts = TReal) ->
  (forall n d, left = OpFrac n d -> d <> 0) ->
  infix self IRsub left = Some t -> operand_value I ts left = Some vl ->
  match eval I self, vl with
  | VInt x, VInt y => eval I t = VInt (y - x)
  | VReal x, VReal y => eval I t = VReal (y - x)
  | _, _ => True
  end.
Proof.
  intros Hts Hvs Har Hfd H Hvl. cbn [infix] in H. unfold infix_rsub, obind in H. rewrite Hts in H.
  assert (Hb : is_bv ts = false) by (destruct Har as [-> | ->]; reflexivity). rewrite Hb in H.
  destruct (infix_neg self) as [ms|] eqn:Ems; [|discriminate H].
  pose proof (infix_neg_sem I self ts ms Hts Hvs Ems) as Hms.
  assert (Tms : tc ms = Some ts).
  { unfold infix_neg, obind in Ems. rewrite Hts, Hb in Ems. unfold apply_infix, obind in Ems. rewrite Hts, Hb in Ems.
    destruct Har as [-> | ->]; cbn [prepare_arg apply_ctor2 mk_times] in Ems; injection Ems as <-.
    - cbn. rewrite Hts. reflexivity.
    - change (mk_real (-1, 1)) with (TRealC (-1) 1). cbn. rewrite Hts. reflexivity. }
  destruct (apply_infix_inv ms left (Some CPlus) (Some CPlus) t ts Tms H) as [r' [c [Hp [Hc Ha]]]].
  rewrite Hb in Hc. injection Hc as <-. cbn [apply_ctor2 mk_plus] in Ha. injection Ha as <-.
  pose proof (prepare_arg_sem I left ts r' Hp Hfd) as Hv. rewrite Hvl in Hv. injection Hv as ->.
  cbn [eval map op_sem fold_left].
  destruct Har as [-> | ->]; cbn [val_sort] in Hvs; destruct Hvs as [x Hx]; rewrite Hx in *; rewrite Hms;
    destruct (eval I r'); try exact Logic.I; cbn [vadd]; f_equal; [lia | lra].
Qed.
Theorem infix_rsub_bv_sem I self w x left t y :
  tc self = Some (TBV w) -> bv_width self = w -> eval I self = VBV w x ->
  (forall l', left = OpT l' -> tc l' = Some (TBV w)) ->
  infix self IRsub left = Some t -> operand_value I (TBV w) left = Some (VBV w y) ->
  eval I t = VBV w ((y - x) mod 2 ^ w).
Proof.
  intros Hts Hw Hx Hl H Hvl. cbn [infix] in H. unfold infix_rsub, obind in H. rewrite Hts in H. cbn [is_bv] in H.
  destruct left as [l'|z|b|n d]; try discriminate H; cbn [operand_value] in Hvl.
  - injection Hvl as Hl'. unfold apply_infix, obind in H. rewrite (Hl l' eq_refl) in H.
    cbn [prepare_arg is_bv apply_ctor2] in H. injection H as <-. unfold mk_bvop. cbn [eval map op_sem]. rewrite Hl', Hx. reflexivity.
  - rewrite Hw in H. unfold mk_bv in H. destruct (Z.ltb_spec z 0); [discriminate H|]. destruct (Z.leb_spec (2 ^ w) z); [discriminate H|].
    destruct ((0 <=? z) && (z <? 2 ^ w)); [|discriminate Hvl]. injection Hvl as <-.
    unfold apply_infix, obind in H. cbn [tc tc_rule prepare_arg is_bv apply_ctor2] in H. injection H as <-.
    unfold mk_bvop, TBVC. cbn [eval map op_sem]. rewrite Hx. reflexivity.
Qed.

(* x[i], x[a:b]: bits a..b INCLUSIVE; omitted start = 0, omitted end = last bit *)
Theorem infix_getitem_sem I self w x idx t : tc self = Some (TBV w) -> bv_width self = w -> eval I self = VBV w x ->
  infix_getitem self idx = Some t ->
  let s := match idx with IdxPoint i => i | IdxSlice (Some a) _ => a | IdxSlice None _ => 0 end in
  let e := match idx with IdxPoint i => i | IdxSlice _ (Some b) => b | IdxSlice _ None => w - 1 end in
  0 <= s <= e /\ e - s + 1 <= w /\ eval I t = VBV (e - s + 1) ((x / 2 ^ s) mod 2 ^ (e - s + 1)).
Proof.
  intros Hts Hw Hx H. unfold infix_getitem in H.
  destruct idx as [i|[a|] [b|]]; unfold obind in H; rewrite Hts in H; cbn [is_bv] in H; unfold mk_bvextract in H; rewrite Hw in H; cbv zeta;
  match type of H with (if (?e' <? ?s') || (?s' <? 0) then _ else _) = _ =>
    destruct (Z.ltb_spec e' s'); [discriminate H|]; destruct (Z.ltb_spec s' 0); [discriminate H|]; cbn [orb] in H;
    destruct (Z.ltb_spec w (e' - s' + 1)); [discriminate H|]; injection H as <- end;
  (split; [lia|]); (split; [lia|]); cbn [eval map op_sem]; rewrite Hx; reflexivity.
Qed.
Lemma extract_bits x s e i : 0 <= s -> 0 <= i <= e - s -> Z.testbit ((x / 2 ^ s) mod 2 ^ (e - s + 1)) i = Z.testbit x (i + s).
Proof. intros Hs Hi. rewrite Z.mod_pow2_bits_low by lia. apply Z.div_pow2_bits; lia. Qed.

Example infix_example (x := TSym "x" (TBV 3)) :
  infix x (IPy PGe) (OpInt 5) = Some (T (OBVRel BUle) [TBVC 5 3; x]) /\
  infix x IRsub (OpInt 5) = Some (T (OBV BSub 3) [TBVC 5 3; x]) /\
  infix x (IPy PAdd) (OpInt 8) = None /\
  infix_getitem x (IdxSlice (Some 1) None) = Some (T (OBVExtract 2 1 2) [x]).
Proof. repeat split; reflexivity. Qed.

(* f(a1, ..., an): the application of f to the promoted arguments *)
Lemma prepare_args_sem I : forall args ps ts, prepare_args args ps = Some ts -> List.length args = List.length ps ->
  (forall n d, In (OpFrac n d) args -> d <> 0) ->
  map (fun ap => operand_value I (snd ap) (fst ap)) (combine args ps) = map (fun t => Some (eval I t)) ts.
Proof.
  induction args as [|a args IH]; intros ps ts H Hlen Hd; destruct ps as [|p ps]; try discriminate Hlen.
  - injection H as <-. reflexivity.
  - cbn [prepare_args] in H. unfold obind in H. destruct (prepare_arg a p) as [a'|] eqn:Ea; [|discriminate H].
    destruct (prepare_args args ps) as [r|] eqn:Er; [|discriminate H]. injection H as <-.
    cbn [combine map fst snd]. f_equal.
    + apply prepare_arg_sem; [exact Ea|]. intros n d ->. apply (Hd n d). now left.
    + apply IH; [exact Er | now injection Hlen | intros n d Hin; apply (Hd n d); now right].
Qed.
Lemma prepare_args_length : forall args ps ts, List.length ps = List.length args -> prepare_args args ps = Some ts ->
  List.length ts = List.length ps.
Proof.
  induction args as [|a args IH]; intros ps ts E Ep; destruct ps as [|p ps]; try discriminate E.
  - injection Ep as <-. reflexivity.
  - cbn [prepare_args] in Ep. unfold obind in Ep. destruct (prepare_arg a p); [|discriminate Ep].
    destruct (prepare_args args ps) as [r'|] eqn:Er; [|discriminate Ep]. injection Ep as <-. cbn [List.length]. f_equal.
    apply (IH ps r'); [now injection E | exact Er].
Qed.
Theorem infix_call_sem I n ps r args t : args <> [] -> infix_call (TSym n (TFun ps r)) args = Some t ->
  (forall n d, In (OpFrac n d) args -> d <> 0) ->
  exists ts, t = T (OFunction n (TFun ps r)) ts /\ eval I t = ifun I n (TFun ps r) (map (eval I) ts) /\
             map (fun ap => operand_value I (snd ap) (fst ap)) (combine args ps) = map (fun t => Some (eval I t)) ts.
Proof.
  intros Hne H Hd. unfold infix_call, TSym in H. destruct (Nat.eqb_spec (List.length ps) (List.length args)) as [E|E]; [|discriminate H].
  unfold obind in H. destruct (prepare_args args ps) as [ts|] eqn:Ep; [|discriminate H].
  unfold mk_function in H. destruct ts as [|t0 ts'].
  - exfalso. destruct args as [|a args]; [contradiction|]. destruct ps as [|p ps]; [discriminate E|].
    cbn [prepare_args] in Ep. unfold obind in Ep. destruct (prepare_arg a p); [|discriminate Ep]. destruct (prepare_args args ps); discriminate Ep.
  - assert (L : List.length (t0 :: ts') = List.length ps) by (apply (prepare_args_length args); assumption).
    rewrite <- L in H. rewrite Nat.eqb_refl in H. injection H as <-.
    exists (t0 :: ts'). split; [reflexivity|]. split; [reflexivity|].
    apply prepare_args_sem; [exact Ep | now symmetry | exact Hd].
Qed.
