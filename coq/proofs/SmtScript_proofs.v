(* C07, static half: the text written by the printers is WELL-SORTED in the SMT-LIB reading of
   core/SmtStd.v (ssort), with the sort the type checker gives the formula, and the script made
   by smtlibscript_from_formula is well-formed (std_script_ok): set-logic first, every custom sort
   declared once before use, every free symbol declared once at a sort that reads back, the
   asserted text well-sorted of sort Bool. *)
From Coq Require Import List ZArith Bool String Ascii Lia Permutation.
From PySMT.core Require Import Syntax SyntaxLemmas Sem SmtStd.
From PySMT.models Require Import TypeChecker Oracles SmtPrinter SmtScript.
From PySMT.proofs Require Import TypeChecker_proofs Sets_proofs SmtPrinter_proofs.
Import ListNotations.
Open Scope bool_scope.
Open Scope string_scope.
Local Notation all_some := SmtStd.all_some.

(* ========================================================================= ranks of theory operators *)
Lemma all_ty_intro t l : Forall (fun x => x = t) l -> all_ty t l = true.
Proof. unfold all_ty. induction 1 as [|x r -> _ IH]; cbn; [reflexivity|]. now rewrite ty_eqb_refl. Qed.
Lemma ttt_inv tys a b ty : type_to_type tys a b = Some ty -> Forall (fun x => x = a) tys /\ ty = b.
Proof. intros H. destruct (type_to_type_inv _ _ _ _ H) as [H1 H2]. split; [exact H1 | exact H2]. Qed.
Lemma forallb_eq t l : forallb (fun a => ty_eqb a t) l = true -> Forall (fun x => x = t) l.
Proof.
  induction l as [|x r IH]; cbn; [constructor|]. intros H. apply andb_true_iff in H. destruct H as [H1 H2].
  apply ty_eqb_eq in H1. constructor; auto.
Qed.

Lemma at_least2_len {A} (l : list A) : Nat.leb 2 (List.length l) = true -> at_least2 l = true.
Proof. destruct l as [|a [|b r]]; cbn; auto; discriminate. Qed.

Ltac arity tys Hok :=
  destruct tys as [|?x [|?y [|?z [|?u ?r]]]]; cbn in Hok; try discriminate Hok.
Ltac all_eq H :=
  try unfold Types.all_are in H;
  repeat match type of H with
         | Forall _ (_ :: _) => let E := fresh "E" in inversion H as [|? ? E H']; subst; clear H; rename H' into H
         end; try clear H.

(* For every operator printed as (name args) with name a theory symbol: the table entry of that
   name gives, on the argument sorts, the sort the type checker computes. *)
Definition table_entry (o : op) : option (string * fkind) :=
  match o with
  | OAnd => Some ("and", FNary OAnd) | OOr => Some ("or", FNary OOr) | ONot => Some ("not", FExact 1 ONot)
  | OImplies => Some ("=>", FRight OImplies) | OIff => Some ("=", FChain OEquals)
  | OPlus => Some ("+", FNary OPlus) | OMinus => Some ("-", FMinus) | OTimes => Some ("*", FNary OTimes)
  | OLe => Some ("<=", FChain OLe) | OLt => Some ("<", FChain OLt) | OEquals => Some ("=", FChain OEquals)
  | OIte => Some ("ite", FExact 3 OIte) | OToReal => Some ("to_real", FExact 1 OToReal)
  | OBV k _ =>
      Some (bvop_name k,
            match k with
            | BNot | BNeg => FExact 1 (BVop k)
            | BAnd | BOr | BXor | BAdd | BMul => FLeft (BVop k)
            | _ => FExact 2 (BVop k)
            end)
  | OBVRel k => Some (bvrel_name k, FExact 2 (OBVRel k))
  | OBVToNat => Some ("bv2nat", FExact 1 OBVToNat)
  | OSelect => Some ("select", FExact 2 OSelect) | OStore => Some ("store", FExact 3 OStore)
  | OStr k =>
      Some (strop_name k,
            match k with
            | SLength | SToInt | SFromInt => FExact 1 (OStr k)
            | SConcat => FNary (OStr k)
            | SIndexOf | SReplace | SSubstr => FExact 3 (OStr k)
            | _ => FExact 2 (OStr k)
            end)
  | _ => None
  end.

Lemma table_entry_ok o name k : table_entry o = Some (name, k) ->
  op_head o = Some (Atom name) /\ assoc name std_table = Some k /\ head_plain name = true /\ sym_name name = Some name.
Proof.
  destruct o; try discriminate; cbn [table_entry]; intros [= <- <-]; try (repeat split; reflexivity).
  - destruct k0; repeat split; reflexivity.
  - destruct k0; repeat split; reflexivity.
  - destruct k0; repeat split; reflexivity.
Qed.

Lemma rank_ok o tys ty name k :
  table_entry o = Some (name, k) -> op_ok o (List.length tys) = true ->
  Forall (fun t => is_fo t = true) tys ->
  tc_rule o tys = Some ty -> rank_kind k tys = Some ty.
Proof.
  intros HT Hok Hfo Htc.
  destruct o; try discriminate HT; cbn [table_entry] in HT; injection HT as <- <-; cbn [tc_rule] in Htc.
  - (* and *) apply ttt_inv in Htc. destruct Htc as [HA ->]. cbn [op_ok] in Hok. cbn [rank_kind].
    rewrite (at_least2_len _ Hok). cbn [op_rank]. now rewrite (all_ty_intro _ _ HA).
  - (* or *) apply ttt_inv in Htc. destruct Htc as [HA ->]. cbn [op_ok] in Hok. cbn [rank_kind].
    rewrite (at_least2_len _ Hok). cbn [op_rank]. now rewrite (all_ty_intro _ _ HA).
  - (* not *) apply ttt_inv in Htc. destruct Htc as [HA ->]. arity tys Hok. all_eq HA. reflexivity.
  - (* => *) apply ttt_inv in Htc. destruct Htc as [HA ->]. arity tys Hok. all_eq HA. reflexivity.
  - (* iff *) apply ttt_inv in Htc. destruct Htc as [HA ->]. arity tys Hok. all_eq HA. reflexivity.
  - (* + *) apply realint_inv in Htc. destruct Htc as [Har HA]. cbn [op_ok] in Hok. cbn [rank_kind].
    rewrite (at_least2_len _ Hok). destruct tys as [|a r]; [discriminate Hok|]. cbn [op_rank].
    assert (a = ty) by (inversion HA; auto). subst a.
    rewrite (all_ty_intro _ _ HA). destruct Har as [-> | ->]; reflexivity.
  - (* - *) apply realint_inv in Htc. destruct Htc as [Har HA]. arity tys Hok. all_eq HA.
    unfold rank_kind, all_ty. cbn [forallb]. rewrite !ty_eqb_refl. destruct Har as [E | E]; rewrite E; reflexivity.
  - (* * *) apply realint_inv in Htc. destruct Htc as [Har HA]. cbn [op_ok] in Hok. cbn [rank_kind].
    rewrite (at_least2_len _ Hok). destruct tys as [|a r]; [discriminate Hok|]. cbn [op_rank].
    assert (a = ty) by (inversion HA; auto). subst a.
    rewrite (all_ty_intro _ _ HA). destruct Har as [-> | ->]; reflexivity.
  - (* <= *) arity tys Hok. destruct x; cbn in Htc; try discriminate Htc;
      try (apply ttt_inv in Htc; destruct Htc as [HA ->]; all_eq HA; reflexivity).
  - (* < *) arity tys Hok. destruct x; cbn in Htc; try discriminate Htc;
      try (apply ttt_inv in Htc; destruct Htc as [HA ->]; all_eq HA; reflexivity).
  - (* = *) arity tys Hok. inversion Hfo as [|? ? Fx _]; subst.
    destruct x; try discriminate Htc; try discriminate Fx;
      try (apply ttt_inv in Htc; destruct Htc as [HA ->]; all_eq HA; unfold rank_kind, all_ty; cbn [forallb op_rank];
           rewrite !ty_eqb_refl; reflexivity).
    + apply bv_to_bool_inv2 in Htc. destruct Htc as (w0 & [= <-] & -> & ->). cbn. now rewrite !Z.eqb_refl.
  - (* ite *) arity tys Hok. inversion Hfo as [|? ? _ Hfo2]; subst. inversion Hfo2 as [|? ? Fy _]; subst.
    destruct (ty_eqb x TBool && ty_eqb y z) eqn:E; [|discriminate Htc]. injection Htc as <-.
    apply andb_true_iff in E. destruct E as [E1 E2]. apply ty_eqb_eq in E1, E2. subst. cbn.
    now rewrite ty_eqb_refl, Fy.
  - (* to_real *) apply ttt_inv in Htc. destruct Htc as [HA ->]. arity tys Hok. all_eq HA. reflexivity.
  - (* bv *)
    destruct k0; cbn [tc_rule] in Htc; arity tys Hok;
      try (destruct (forallb _ _) eqn:E in Htc; [|discriminate Htc]; injection Htc as <-;
           apply forallb_eq in E; all_eq E; cbn; rewrite ?Z.eqb_refl; cbn; rewrite ?Z.eqb_refl; reflexivity).
    + (* concat *) destruct x; try discriminate Htc. destruct y; try discriminate Htc.
      destruct (Z.eqb_spec (w0 + w1) w); [|discriminate Htc]. injection Htc as <-. subst. reflexivity.
    + (* comp *) destruct (ty_eqb x y && is_bv x) eqn:E; [|discriminate Htc]. injection Htc as <-.
      apply andb_true_iff in E. destruct E as [E1 E2]. apply ty_eqb_eq in E1. subst. destruct y; try discriminate E2.
      cbn. now rewrite Z.eqb_refl.
  - (* bv relations *) arity tys Hok. apply bv_to_bool_inv2 in Htc. destruct Htc as (w0 & -> & -> & ->).
    destruct k0; cbn; now rewrite Z.eqb_refl.
  - (* strings *)
    destruct k0; cbn [tc_rule] in Htc;
      try (apply ttt_inv in Htc; destruct Htc as [HA ->]; cbn [op_ok] in Hok; cbn [rank_kind];
           rewrite (at_least2_len _ Hok); cbn [op_rank]; now rewrite (all_ty_intro _ _ HA));
      arity tys Hok;
      try (apply ttt_inv in Htc; destruct Htc as [HA ->]; all_eq HA; reflexivity);
      try (destruct x; try discriminate Htc; destruct y; try discriminate Htc; try destruct z; try discriminate Htc;
           injection Htc as <-; reflexivity).
  - (* select *) arity tys Hok. destruct x; try discriminate Htc. destruct (ty_eqb x1 y) eqn:E; [|discriminate Htc].
    injection Htc as <-. cbn. now rewrite E.
  - (* store *) arity tys Hok. destruct x; try discriminate Htc. destruct (ty_eqb x1 y && ty_eqb x2 z) eqn:E; [|discriminate Htc].
    injection Htc as <-. cbn. now rewrite E.
  - (* bv2nat *) arity tys Hok. destruct x; try discriminate Htc. injection Htc as <-. reflexivity.
Qed.

(* ========================================================================= static sorting of the tree text *)
Lemma bind_senv_app : forall vs G, bind_senv G vs = (List.rev vs ++ G)%list.
Proof.
  induction vs as [|v vs IH]; intros G; [reflexivity|]. cbn [bind_senv List.rev]. rewrite IH, <- app_assoc. reflexivity.
Qed.

Section Sort.
  Variable Sg : sig.

  Lemma sort_atom_symbol G a n : symbol_atom a n = true ->
    sort_atom Sg G a =
    match assoc n G with
    | Some t => Some t
    | None => match assoc n std_consts with
              | Some _ => Some TBool
              | None => match assoc n (sg_funs Sg) with
                        | Some (TFun _ _) => None
                        | Some t => Some t
                        | None => None
                        end
              end
    end.
  Proof.
    unfold symbol_atom, sort_atom.
    destruct (numeral_val a), (decimal_val a), (bvlit_val a), (strlit_val a), (sym_name a); try discriminate.
    intros H. apply String.eqb_eq in H. now subst.
  Qed.

  Lemma ssort_app h ss G : head_plain h = true ->
    ssort Sg G (SList (Atom h :: ss)) =
    match sym_name h, all_some (map (ssort Sg G) ss) with
    | Some f, Some tys =>
        match assoc f G with
        | Some _ => None
        | None =>
            match assoc f std_table with
            | Some k => rank_kind k tys
            | None => match assoc f (sg_funs Sg) with
                      | Some (TFun ps r) => if tys_eqb tys ps && negb (Nat.eqb (List.length ps) 0)
                                            then Some r else None
                      | _ => None
                      end
            end
        end
    | _, _ => None
    end.
  Proof.
    unfold head_plain. intros H. repeat (apply andb_true_iff in H; destruct H as [H ?]).
    cbn [ssort].
    destruct (String.eqb h "let"); [discriminate|].
    destruct (String.eqb h "forall" || String.eqb h "exists"); [discriminate|].
    destruct (String.eqb h "!"); [discriminate|]. destruct (String.eqb h "_"); [discriminate|].
    reflexivity.
  Qed.

  (* bound variables never carry the name of a theory symbol *)
  Definition gscope (G : senv) : Prop :=
    (forall n k, assoc n std_table = Some k -> assoc n G = None) /\
    (forall n c, assoc n std_consts = Some c -> assoc n G = None).
  Lemma bound_good_gscope bound : bound_good bound -> gscope bound.
  Proof.
    intros HB. split; intros n x Hx; destruct (assoc n bound) as [ty|] eqn:E; auto; destruct (HB _ _ E) as [H1 H2]; congruence.
  Qed.

  Lemma sort_case name k ty ss tys G :
    gscope G -> head_plain name = true -> sym_name name = Some name -> assoc name std_table = Some k ->
    all_some (map (ssort Sg G) ss) = Some tys -> rank_kind k tys = Some ty ->
    ssort Sg G (SList (Atom name :: ss)) = Some ty.
  Proof.
    intros [HU _] Hp Hs Hk Hv Hr. rewrite (ssort_app _ _ _ Hp), Hs, Hv, (HU _ _ Hk), Hk. exact Hr.
  Qed.

  (* ---- constants ---- *)
  Section SConsts.
    Variable G : senv.
    Hypothesis HG : gscope G.
    Lemma numeral_sort n : (0 <= n)%Z -> ssort Sg G (Atom (dec_string n)) = Some TInt.
    Proof. intros H. cbn [ssort]. unfold sort_atom. now rewrite numeral_dec. Qed.
    Lemma decimal_sort n : (0 <= n)%Z -> ssort Sg G (Atom (dec_string n ++ ".0")) = Some TReal.
    Proof. intros H. cbn [ssort]. unfold sort_atom. now rewrite numeral_dot, decimal_dec. Qed.
    Lemma int_const_sort z : ssort Sg G (int_const z) = Some TInt.
    Proof.
      unfold int_const. destruct (z <? 0)%Z eqn:E; [|apply Z.ltb_ge in E; now apply numeral_sort].
      apply Z.ltb_lt in E. eapply (sort_case "-" FMinus);
        [exact HG | reflexivity | reflexivity | reflexivity | cbn [map all_some]; rewrite numeral_sort by lia; reflexivity | reflexivity].
    Qed.
    Lemma real_body_sort n d : (0 <= n)%Z -> (0 < d)%Z ->
      ssort Sg G (if (d =? 1)%Z then Atom (dec_string n ++ ".0")
                  else SList [Atom "/"; Atom (dec_string n ++ ".0"); Atom (dec_string d ++ ".0")]) = Some TReal.
    Proof.
      intros Hn Hd. destruct (d =? 1)%Z; [now apply decimal_sort|].
      eapply (sort_case "/" FRealDiv);
        [exact HG | reflexivity | reflexivity | reflexivity | cbn [map all_some]; rewrite !decimal_sort by lia; reflexivity | reflexivity].
    Qed.
    Lemma real_const_sort n d : (0 < d)%Z -> ssort Sg G (real_const n d) = Some TReal.
    Proof.
      intros Hd. unfold real_const. destruct (n <? 0)%Z; [|apply real_body_sort; lia].
      eapply (sort_case "-" FMinus);
        [exact HG | reflexivity | reflexivity | reflexivity
        | cbn [map all_some]; rewrite (real_body_sort (Z.abs n) d) by lia; reflexivity | reflexivity].
    Qed.
    Lemma const_sort o : const_ok o = true -> ssort Sg G (leaf_sexp o) = tc_rule o [].
    Proof.
      destruct o; try discriminate; cbn [const_ok leaf_sexp tc_rule]; intros H.
      - apply real_const_sort. now apply Z.ltb_lt.
      - destruct b; cbn [ssort].
        + rewrite (sort_atom_symbol G "true" "true" eq_refl). now rewrite (proj2 HG "true" _ eq_refl).
        + rewrite (sort_atom_symbol G "false" "false" eq_refl). now rewrite (proj2 HG "false" _ eq_refl).
      - apply int_const_sort.
      - apply andb_true_iff in H. destruct H as [H H3]. apply andb_true_iff in H. destruct H as [H1 H2].
        cbn [ssort]. unfold sort_atom. pose proof (bvlit_bv w v ltac:(lia) ltac:(lia)) as L.
        unfold bv_string in *. cbn [append] in *. now rewrite numeral_hash, decimal_hash, L.
    Qed.
    Lemma str_const_sort s : str_plain s = true -> ssort Sg G (str_const s) = Some TStr.
    Proof.
      intros H. unfold str_const. cbn [ssort]. unfold sort_atom.
      rewrite numeral_quote, decimal_quote. cbn [bvlit_val strlit_val]. cbn [Ascii.eqb Bool.eqb].
      now rewrite (strlit_plain _ H).
    Qed.
  End SConsts.

  (* ---- side conditions of the static half (beyond wfp) ----
     no term has a function sort (C03's open finding lets Equals/Ite take function-typed symbols;
     SMT-LIB's = and ite do not); extract indices are ordered; the sort of an array value reads
     back exactly. *)
  Fixpoint srt (t : term) : Prop :=
    match t with
    | T o args =>
        (match tc t with Some ty => is_fo ty = true | None => True end) /\
        (match o with
         | OBVExtract _ s e => (s <= e)%Z
         | OArrayValue it =>
             match args with
             | d :: _ => sort_of_sexp Sg (sort_sexp (array_value_type it d)) = Some (array_value_type it d)
             | [] => True
             end
         | _ => True
         end) /\
        (fix all (l : list term) : Prop := match l with [] => True | x :: r => srt x /\ all r end) args
    end.
  Lemma srt_args o args : srt (T o args) -> Forall srt args.
  Proof. cbn [srt]. intros (_ & _ & H). induction args as [|a r IH]; constructor; [tauto | apply IH; tauto]. Qed.
  Lemma srt_fo t ty : srt t -> tc t = Some ty -> is_fo ty = true.
  Proof. destruct t as [o args]. cbn [srt]. intros (H & _) E. now rewrite E in H. Qed.

  Definition arg_sorts (G : senv) (args : list term) (ss : list sexp) : Prop :=
    Forall2 (fun a s => exists ta, tc a = Some ta /\ ssort Sg G s = Some ta) args ss.
  Lemma arg_sorts_tcs G : forall args ss tys, arg_sorts G args ss -> tcs args = Some tys ->
    all_some (map (ssort Sg G) ss) = Some tys.
  Proof.
    intros args ss tys HF. revert tys. induction HF as [|a s args ss (ta & Ha & Hs) _ IH]; intros tys E; cbn in *.
    - now injection E as <-.
    - rewrite Ha in E. destruct (tcs args) as [tr|]; [|discriminate]. injection E as <-. now rewrite Hs, (IH tr eq_refl).
  Qed.
  Lemma tcs_fo : forall args tys, Forall srt args -> tcs args = Some tys -> Forall (fun t => is_fo t = true) tys.
  Proof.
    induction args as [|a r IH]; intros tys HF E; cbn in E.
    - injection E as <-. constructor.
    - destruct (tc a) as [ta|] eqn:Ea; [|discriminate]. destruct (tcs r) as [tr|]; [|discriminate]. injection E as <-.
      inversion HF; subst. constructor; [now apply (srt_fo a) | now apply IH].
  Qed.

  Lemma array_value_pairs it d : forall l, array_value_ok it d l true = true ->
    Forall (fun p : ty * ty => fst p = it /\ snd p = d) (pairs_of l).
  Proof.
    fix IH 1. intros [|k [|v r]] H; cbn [pairs_of]; try constructor.
    - cbn [array_value_ok negb] in H. apply andb_true_iff in H. destruct H as [Hk H]. apply andb_true_iff in H. destruct H as [Hv H].
      apply ty_eqb_eq in Hk, Hv. cbn [fst snd]. auto.
    - cbn [array_value_ok negb] in H. apply andb_true_iff in H. destruct H as [_ H]. apply andb_true_iff in H. destruct H as [_ H].
      now apply IH.
  Qed.

  Lemma store_chain_sort G i e : gscope G -> forall pps base,
    ssort Sg G base = Some (TArr i e) ->
    Forall (fun p : sexp * sexp => ssort Sg G (fst p) = Some i /\ ssort Sg G (snd p) = Some e) pps ->
    ssort Sg G (store_chain base pps) = Some (TArr i e).
  Proof.
    intros HG pps. induction pps as [|[pk pv] r IH]; intros base Hb HF; cbn [store_chain]; [exact Hb|].
    inversion HF as [|? ? [Hk Hv] HF']; subst. cbn [fst snd] in *. apply IH; [|assumption].
    eapply (sort_case "store" (FExact 3 OStore));
      [exact HG | reflexivity | reflexivity | reflexivity | cbn [map all_some]; rewrite Hb, Hk, Hv; reflexivity |].
    cbn. now rewrite !ty_eqb_refl.
  Qed.

  Lemma pairs_sorts G : forall (tys : list ty) (ss : list sexp), all_some (map (ssort Sg G) ss) = Some tys ->
    Forall2 (fun (p : sexp * sexp) (q : ty * ty) => ssort Sg G (fst p) = Some (fst q) /\ ssort Sg G (snd p) = Some (snd q))
            (pairs_of ss) (pairs_of tys).
  Proof.
    fix IH 2. intros tys [|a [|b r]] E; cbn [map all_some] in E.
    - injection E as <-. constructor.
    - destruct (ssort Sg G a); [|discriminate]. injection E as <-. constructor.
    - destruct (ssort Sg G a) as [ta|] eqn:Ea; [|discriminate]. destruct (ssort Sg G b) as [tb|] eqn:Eb; [|discriminate].
      destruct (all_some (map (ssort Sg G) r)) as [tr|] eqn:Er; [|discriminate]. injection E as <-.
      cbn [pairs_of]. constructor; [cbn [fst snd]; auto | now apply IH].
  Qed.

  (* the node's own name is looked up in the sort environment G as in [bound] *)
  Definition sname_ok (bound : list var) (G : senv) (t : term) : Prop :=
    match t with
    | T (OSymbol n _) _ | T (OFunction n _) _ => assoc n G = assoc n bound
    | _ => True
    end.
  Lemma node_sort o args ss ordered bound G ty :
    is_quant o = false -> wfp Sg bound (T o args) -> srt (T o args) -> tc (T o args) = Some ty ->
    gscope G -> sname_ok bound G (T o args) ->
    arg_sorts G args ss -> Permutation (pairs_of (List.tl ss)) ordered ->
    ssort Sg G (node_text (T o args) ss ordered) = Some ty.
  Proof.
    intros Hq HW HS Htc HG HN HF HP.
    pose proof Htc as Htc0. rewrite tc_tcs in Htc. destruct (tcs args) as [tys|] eqn:Etys; [|discriminate].
    pose proof (arg_sorts_tcs G args ss tys HF Etys) as Hargs.
    pose proof (tcs_fo args tys (srt_args o args HS) Etys) as Hfo.
    assert (Hlen : List.length tys = List.length args).
    { clear - Etys. revert tys Etys. induction args as [|a r IH]; intros tys E; cbn in E; [now injection E as <-|].
      destruct (tc a); [|discriminate]. destruct (tcs r) as [tr|]; [|discriminate]. injection E as <-. cbn. f_equal. now apply IH. }
    destruct (table_entry o) as [[name k]|] eqn:ET.
    { (* plain theory operators *)
      destruct (table_entry_ok o name k ET) as (Hh & Hk & Hp & Hs).
      assert (Hok : op_ok o (List.length tys) = true).
      { rewrite Hlen. destruct o; try discriminate ET; cbn [wfp] in HW;
          try (destruct HW as [[[-> Hc]|Hok] _]; [discriminate Hc | exact Hok]).
        destruct args as [|a [|b [|c r]]]; try contradiction. reflexivity. }
      assert (NT : node_text (T o args) ss ordered = SList (Atom name :: ss)).
      { destruct o; try discriminate ET; cbn [op_head] in Hh; injection Hh as <-; reflexivity. }
      rewrite NT. apply (sort_case name k ty ss tys); auto. now apply (rank_ok o tys ty name k). }
    destruct o; try discriminate Hq; try discriminate ET;
      try (exfalso; cbn [wfp] in HW; destruct HW as [[[_ Hc]|Hok] _]; [discriminate Hc | discriminate Hok]).
    - (* symbol *)
      cbn [wfp] in HW. destruct HW as (-> & Hn & Hs). apply good_name_inv in Hn. destruct Hn as (Hsym & Hc & _).
      inversion HF; subst. cbn [node_text term_sexp node_sexp op_head leaf_sexp ssort].
      rewrite (sort_atom_symbol G _ _ Hsym). cbn in Etys. injection Etys as <-. cbn in Htc. injection Htc as <-. cbn [sname_ok] in HN. rewrite HN. unfold var in *.
      destruct (assoc n bound) as [ty'|]; [now subst|]. destruct Hs as [-> Hfo']. rewrite Hc. destruct t; try discriminate Hfo'; reflexivity.
    - (* function *)
      cbn [wfp] in HW. destruct HW as (Hn & Hnb & Hd & (ps & r & -> & Hl & Hne) & Hrec).
      apply good_name_inv in Hn. destruct Hn as (Hsym & _ & Ht). apply symbol_atom_sym in Hsym.
      cbn [node_text term_sexp node_sexp op_head]. rewrite (ssort_app _ _ _ (sym_head_plain _ _ Hsym)), Hsym, Hargs.
      cbn [sname_ok] in HN. rewrite HN. unfold var in *. rewrite Hnb, Ht, Hd. cbn [tc_rule] in Htc. destruct (tys_eqb tys ps) eqn:E; [|discriminate Htc].
      injection Htc as <-. rewrite Hl. destruct args; [contradiction Hne; reflexivity|]. reflexivity.
    - (* real constant *) cbn [wfp] in HW. destruct HW as [[[-> Hc]|Hok] _]; [|discriminate Hok]. inversion HF; subst.
      cbn in Etys. injection Etys as <-. rewrite <- Htc. now apply (const_sort G HG (ORealC num den)).
    - (* bool constant *) cbn [wfp] in HW. destruct HW as [[[-> Hc]|Hok] _]; [|discriminate Hok]. inversion HF; subst.
      cbn in Etys. injection Etys as <-. rewrite <- Htc. now apply (const_sort G HG (OBoolC b)).
    - (* int constant *) cbn [wfp] in HW. destruct HW as [[[-> Hc]|Hok] _]; [|discriminate Hok]. inversion HF; subst.
      cbn in Etys. injection Etys as <-. rewrite <- Htc. now apply (const_sort G HG (OIntC z)).
    - (* string constant *) cbn [wfp] in HW. destruct HW as [-> Hs]. inversion HF; subst. cbn in Etys. injection Etys as <-.
      cbn in Htc. injection Htc as <-. now apply str_const_sort.
    - (* bv constant *) cbn [wfp] in HW. destruct HW as [[[-> Hc]|Hok] _]; [|discriminate Hok]. inversion HF; subst.
      cbn in Etys. injection Etys as <-. rewrite <- Htc. now apply (const_sort G HG (OBVC v w)).
    - (* extract *)
      destruct args as [|a [|b r]]; cbn [wfp] in HW; try contradiction. destruct HW as (_ & _ & Hs & He & _).
      destruct HS as (_ & Hse & _). inversion HF as [|? sa ? ? (ta & Ta & Sa) HF']; subst. inversion HF'; subst.
      cbn [tcs] in Etys. rewrite Ta in Etys. injection Etys as <-. cbn [tc_rule] in Htc. destruct ta; try discriminate Htc.
      destruct ((s >=? w0)%Z || (e >=? w0)%Z) eqn:E1; [discriminate Htc|]. destruct (w0 <? w)%Z; [discriminate Htc|].
      destruct (negb (w =? e - s + 1)%Z) eqn:E3; [discriminate Htc|]. injection Htc as <-.
      apply negb_false_iff, Z.eqb_eq in E3. apply orb_false_iff in E1. destruct E1 as [_ E1].
      cbn [node_text term_sexp node_sexp op_head ssort]. cbn [String.eqb Ascii.eqb Bool.eqb].
      unfold idx_vals. cbn [map all_some]. rewrite (idx_numeral _ He), (idx_numeral _ Hs), Sa. cbn [rank_indexed String.eqb Ascii.eqb Bool.eqb andb].
      replace (0 <=? s)%Z with true by (symmetry; now apply Z.leb_le).
      replace (s <=? e)%Z with true by (symmetry; now apply Z.leb_le).
      rewrite Z.geb_leb in E1. apply Z.leb_gt in E1.
      replace (e <? w0)%Z with true by (symmetry; apply Z.ltb_lt; lia).
      cbn. now rewrite E3.
    - (* rotate_left *)
      destruct args as [|a [|b r]]; cbn [wfp] in HW; try contradiction. destruct HW as (_ & _ & Hk & _).
      inversion HF as [|? sa ? ? (ta & Ta & Sa) HF']; subst. inversion HF'; subst.
      cbn [tcs] in Etys. rewrite Ta in Etys. injection Etys as <-. cbn [tc_rule] in Htc.
      destruct ((w <? k)%Z || (w <? 0)%Z || (k <? 0)%Z); [discriminate Htc|]. destruct ta; try discriminate Htc.
      destruct (Z.eqb_spec w w0); [|discriminate Htc]. injection Htc as <-. subst w0.
      cbn [node_text term_sexp node_sexp op_head ssort]. cbn [String.eqb Ascii.eqb Bool.eqb].
      unfold idx_vals. cbn [map all_some]. rewrite (idx_numeral _ Hk), Sa. cbn.
      replace (0 <=? k)%Z with true by (symmetry; now apply Z.leb_le). reflexivity.
    - (* rotate_right *)
      destruct args as [|a [|b r]]; cbn [wfp] in HW; try contradiction. destruct HW as (_ & _ & Hk & _).
      inversion HF as [|? sa ? ? (ta & Ta & Sa) HF']; subst. inversion HF'; subst.
      cbn [tcs] in Etys. rewrite Ta in Etys. injection Etys as <-. cbn [tc_rule] in Htc.
      destruct ((w <? k)%Z || (w <? 0)%Z || (k <? 0)%Z); [discriminate Htc|]. destruct ta; try discriminate Htc.
      destruct (Z.eqb_spec w w0); [|discriminate Htc]. injection Htc as <-. subst w0.
      cbn [node_text term_sexp node_sexp op_head ssort]. cbn [String.eqb Ascii.eqb Bool.eqb].
      unfold idx_vals. cbn [map all_some]. rewrite (idx_numeral _ Hk), Sa. cbn.
      replace (0 <=? k)%Z with true by (symmetry; now apply Z.leb_le). reflexivity.
    - (* zero_extend *)
      destruct args as [|a [|b r]]; cbn [wfp] in HW; try contradiction. destruct HW as (_ & (wa & Twa & ->) & Hk & _).
      inversion HF as [|? sa ? ? (ta & Ta & Sa) HF']; subst. inversion HF'; subst.
      cbn [tcs] in Etys. rewrite Ta in Etys. injection Etys as <-. rewrite Twa in Ta. injection Ta as <-.
      cbn [tc_rule] in Htc. destruct ((wa + k <? wa)%Z || (wa + k <? 0)%Z); [discriminate Htc|]. injection Htc as <-.
      cbn [node_text term_sexp node_sexp op_head ssort]. cbn [String.eqb Ascii.eqb Bool.eqb].
      unfold idx_vals. cbn [map all_some]. rewrite (idx_numeral _ Hk), Sa. cbn.
      replace (0 <=? k)%Z with true by (symmetry; now apply Z.leb_le). reflexivity.
    - (* sign_extend *)
      destruct args as [|a [|b r]]; cbn [wfp] in HW; try contradiction. destruct HW as (_ & (wa & Twa & ->) & Hk & _).
      inversion HF as [|? sa ? ? (ta & Ta & Sa) HF']; subst. inversion HF'; subst.
      cbn [tcs] in Etys. rewrite Ta in Etys. injection Etys as <-. rewrite Twa in Ta. injection Ta as <-.
      cbn [tc_rule] in Htc. destruct ((wa + k <? wa)%Z || (wa + k <? 0)%Z); [discriminate Htc|]. injection Htc as <-.
      cbn [node_text term_sexp node_sexp op_head ssort]. cbn [String.eqb Ascii.eqb Bool.eqb].
      unfold idx_vals. cbn [map all_some]. rewrite (idx_numeral _ Hk), Sa. cbn.
      replace (0 <=? k)%Z with true by (symmetry; now apply Z.leb_le). reflexivity.
    - (* array value *)
      destruct args as [|d assigns]; cbn [wfp] in HW; [contradiction|].
      destruct HS as (_ & Hsort & _).
      inversion HF as [|? pd ? sa (td & Td & Sd) HFa]; subst.
      cbn [tcs] in Etys. rewrite Td in Etys. destruct (tcs assigns) as [tas|] eqn:Eas; [|discriminate]. injection Etys as <-.
      cbn [tc_rule] in Htc. destruct (array_value_ok it td tas true) eqn:Eok; [|discriminate Htc]. injection Htc as <-.
      cbn [node_text List.tl] in *. unfold array_value_type in *. rewrite Td in *.
      apply (store_chain_sort G it td HG).
      + unfold const_array. cbn [ssort]. cbn [String.eqb Ascii.eqb Bool.eqb]. rewrite Hsort, Sd. now rewrite ty_eqb_refl.
      + pose proof (arg_sorts_tcs G assigns sa tas HFa Eas) as Hsa.
        pose proof (pairs_sorts G tas sa Hsa) as F2. pose proof (array_value_pairs it td tas Eok) as FT.
        assert (F : Forall (fun p : sexp * sexp => ssort Sg G (fst p) = Some it /\ ssort Sg G (snd p) = Some td) (pairs_of sa)).
        { clear - F2 FT. induction F2 as [|p q ps qs [H1 H2] _ IH]; [constructor|]. inversion FT as [|? ? HE FT']; subst. destruct HE as [E1 E2].
          constructor; [rewrite H1, H2, E1, E2; auto | now apply IH]. }
        rewrite Forall_forall in *. intros p Hp. apply F. eapply Permutation_in; [symmetry; exact HP | exact Hp].
    - (* div *)
      cbn [wfp] in HW. destruct HW as [[[_ Hc]|Hok] _]; [discriminate Hc|].
      cbn [tc_rule] in Htc. apply realint_inv in Htc. destruct Htc as [Har HA].
      change (node_text (T ODiv args) ss ordered) with (SList (Atom (div_name (T ODiv args)) :: ss)).
      unfold div_name. rewrite Htc0.
      assert (L2 : at_least2 tys = true).
      { rewrite <- Hlen in Hok. destruct tys as [|x [|y [|z r]]]; cbn in Hok; try discriminate Hok; reflexivity. }
      destruct Har as [-> | ->].
      + eapply (sort_case "div" FIntDiv); [exact HG | reflexivity | reflexivity | reflexivity | exact Hargs |].
        destruct tys as [|x [|y r]]; try discriminate L2. cbn [rank_kind]. now rewrite (all_ty_intro _ _ HA).
      + eapply (sort_case "/" FRealDiv); [exact HG | reflexivity | reflexivity | reflexivity | exact Hargs |].
        destruct tys as [|x [|y r]]; try discriminate L2. cbn [rank_kind]. now rewrite (all_ty_intro _ _ HA).
  Qed.

  (* ---- the tree printer's text is well-sorted, with the sort the type checker computes ---- *)
  Lemma tcs_args_typed : forall args tys, tcs args = Some tys -> Forall (fun a => exists ta, tc a = Some ta) args.
  Proof.
    induction args as [|a r IH]; intros tys E; cbn in E; [constructor|].
    destruct (tc a) as [ta|] eqn:Ea; [|discriminate]. destruct (tcs r) as [tr|] eqn:Er; [|discriminate].
    constructor; [eauto | now apply (IH tr)].
  Qed.

  Definition sorted_at (t : term) : Prop :=
    forall bound ty, wfp Sg bound t -> srt t -> tc t = Some ty -> bound_good bound ->
                     ssort Sg bound (print_tree t) = Some ty.

  Theorem print_tree_sorted_gen : forall t, sorted_at t.
  Proof.
    induction t as [o args IH] using term_ind'. intros bound ty HW HS Htc HB.
    destruct (is_quant o) eqn:Hq.
    2:{ rewrite (print_tree_node o args Hq).
        apply (node_sort o args _ _ bound bound ty Hq HW HS Htc (bound_good_gscope _ HB)).
        - destruct o; exact Logic.I || reflexivity.
        - pose proof (wfp_args Sg o args bound Hq HW) as Hrec. pose proof (srt_args o args HS) as HSa.
          rewrite tc_tcs in Htc. destruct (tcs args) as [tys|] eqn:E; [|discriminate].
          pose proof (tcs_args_typed args tys E) as HT. clear - IH Hrec HSa HT HB.
          induction IH as [|a r Ha _ IHr]; cbn [map]; [constructor|]. destruct Hrec as [Hwa Hwr].
          inversion HSa; subst. inversion HT as [|? ? (ta & Ta) HT']; subst.
          constructor; [exists ta; split; [exact Ta | now apply Ha] | now apply IHr].
        - rewrite <- (map_snd_combine (map (fun kv : term * term => hr_const (fst kv)) (pairs_of (List.tl args)))
                                     (pairs_of (List.tl (map print_tree args)))) at 1.
          + apply Permutation_map. symmetry. apply sort_by_key_perm.
          + replace (List.tl (map print_tree args)) with (map print_tree (List.tl args)) by (destruct args; reflexivity).
            rewrite (pairs_of_map print_tree), !map_length. reflexivity. }
    assert (Q : forall (q : string) vs, (o = OForall vs /\ q = "forall" \/ o = OExists vs /\ q = "exists") ->
                ssort Sg bound (print_tree (T o args)) = Some ty).
    { intros q vs Ho.
      assert (HW' : vs <> [] /\ Forall (good_binder Sg) vs /\ match args with [b] => wfp Sg (List.rev vs ++ bound) b | _ => False end)
        by (destruct Ho as [[-> _]|[-> _]]; exact HW).
      destruct HW' as (Hne & HG & HWb). destruct args as [|b [|c r]]; try contradiction.
      inversion IH as [|? ? Hb _]; subst.
      assert (Tb : tc b = Some TBool /\ ty = TBool).
      { rewrite tc_tcs in Htc. cbn [tcs] in Htc. destruct (tc b) as [tb|]; [|discriminate].
        destruct Ho as [[-> _]|[-> _]]; cbn in Htc; destruct (ty_eqb tb TBool) eqn:E; try discriminate Htc;
          apply ty_eqb_eq in E; subst; injection Htc as <-; auto. }
      destruct Tb as [Tb ->].
      assert (Sb : ssort Sg (bind_senv bound vs) (print_tree b) = Some TBool).
      { rewrite bind_senv_app. apply Hb; auto.
        - exact (Forall_inv (srt_args _ _ HS)).
        - apply bound_good_bind; auto. rewrite Forall_forall in *. intros v Hv. destruct (HG v Hv) as [Hn _].
          apply good_name_inv in Hn. tauto. }
      destruct Ho as [[-> ->]|[-> ->]]; cbn [print_tree map quant_sexp ssort]; cbn [String.eqb Ascii.eqb Bool.eqb orb];
        rewrite (binders_read Sg _ HG); (destruct vs as [|v vs]; [contradiction Hne; reflexivity|]); now rewrite Sb. }
    destruct o; try discriminate Hq; [apply (Q "forall" vs) | apply (Q "exists" vs)]; auto.
  Qed.
End Sort.

(* ========================================================================= static sorting of the DAG text *)
(* the sort-level twin of SmtPrinter_proofs.Section Dag: every memo text has, in the sort
   environment the lets written so far build, the sort of its term; let-names are fresh *)
Lemma ssort_agree_m Sg G1 G2 : forall s, mtext s ->
  (forall n, In n (anames s) -> assoc n G1 = assoc n G2) -> ssort Sg G1 s = ssort Sg G2 s.
Proof.
  induction s as [a | l IH] using sexp_ind'; intros HM HA.
  - cbn [ssort]. unfold sort_atom.
    destruct (numeral_val a); [reflexivity|]. destruct (decimal_val a) as [[? ?]|]; [reflexivity|].
    destruct (bvlit_val a) as [[? ?]|]; [reflexivity|]. destruct (strlit_val a); [reflexivity|].
    destruct (sym_name a) as [n|] eqn:E; [|reflexivity].
    rewrite (HA n); [reflexivity|]. cbn [anames]. rewrite E. now left.
  - destruct l as [|[h|?] l]; cbn [mtext] in HM; try contradiction. destruct HM as [Hp HM].
    rewrite !(ssort_app Sg _ _ _ Hp). inversion IH as [|? ? _ IHl]; subst.
    assert (E : map (ssort Sg G1) l = map (ssort Sg G2) l).
    { assert (HAl : forall n, In n (flat_map anames l) -> assoc n G1 = assoc n G2).
      { intros n Hn. apply HA. cbn [anames flat_map]. apply in_or_app. now right. }
      clear HA Hp IH. induction IHl as [|x r Hx _ IHr]; [reflexivity|]. cbn [map]. destruct HM as [Mx Mr]. f_equal.
      - apply Hx; [exact Mx|]. intros n Hn. apply HAl. cbn [flat_map]. apply in_or_app. now left.
      - apply IHr; [exact Mr|]. intros n Hn. apply HAl. cbn [flat_map]. apply in_or_app. now right. }
    rewrite E. destruct (sym_name h) as [f|] eqn:Ef; [|reflexivity].
    destruct (all_some (map (ssort Sg G2) l)); [|reflexivity].
    rewrite (HA f); [reflexivity|]. cbn [anames flat_map]. rewrite Ef. now left.
Qed.

Lemma let1_sort Sg G n e body ty :
  sym_name n = Some n -> ssort Sg G e = Some ty ->
  ssort Sg G (mk_let (n, e) body) = ssort Sg ((n, ty) :: G) body.
Proof.
  intros Hn He. unfold mk_let. cbn [ssort fst snd]. cbn [String.eqb Ascii.eqb Bool.eqb].
  cbn [map all_some]. rewrite Hn, He. cbn [nodup_str mem_str existsb negb andb List.length Nat.eqb combine bind_senv].
  reflexivity.
Qed.
Fixpoint lets_senv (Sg : sig) (l : list (string * sexp)) (G : senv) : option senv :=
  match l with
  | [] => Some G
  | (n, e) :: r =>
      match sym_name n, ssort Sg G e with
      | Some m, Some ty => if String.eqb m n then lets_senv Sg r ((n, ty) :: G) else None
      | _, _ => None
      end
  end.
Lemma lets_senv_app Sg : forall l1 l2 G,
  lets_senv Sg (l1 ++ l2) G = match lets_senv Sg l1 G with Some r => lets_senv Sg l2 r | None => None end.
Proof.
  induction l1 as [|[n e] l1 IH]; intros l2 G; cbn [List.app lets_senv]; [reflexivity|].
  destruct (sym_name n) as [m|]; [|reflexivity]. destruct (ssort Sg G e) as [x|]; [|reflexivity].
  destruct (String.eqb m n); [apply IH | reflexivity].
Qed.
Lemma wrap_lets_sorted Sg key : forall lets G G',
  lets_senv Sg (List.rev lets) G = Some G' -> ssort Sg G (wrap_lets lets key) = ssort Sg G' key.
Proof.
  intros lets. unfold wrap_lets.
  replace (fold_left (fun body nt => SList [Atom "let"; SList [SList [Atom (fst nt); snd nt]]; body]) lets key)
    with (fold_right mk_let key (List.rev lets)).
  2:{ rewrite fold_left_rev_right. reflexivity. }
  induction (List.rev lets) as [|[n e] L IH]; intros G G' H; cbn [lets_senv fold_right] in *.
  - now injection H as ->.
  - destruct (sym_name n) as [m|] eqn:Hn; [|discriminate]. destruct (ssort Sg G e) as [x|] eqn:He; [|discriminate].
    destruct (String.eqb_spec m n); [|discriminate]. subst m.
    rewrite (let1_sort Sg G n e _ x Hn He). now apply IH.
Qed.

Section DagSort.
  Variable Sg : sig.

  Definition dag_sorted (t : term) : Prop :=
    forall bound G1 ty,
      wfp Sg bound t -> srt Sg t -> tc t = Some ty -> bound_good bound ->
      (forall n, relevant (fv t) n -> assoc n G1 = assoc n bound) ->
      ssort Sg G1 (print_dag t) = Some ty.

  Section InvS.
    Variables (bound : list var) (G1 : senv) (fvs : list var).
    Let names := map (fun v : var => quote (fst v)) fvs.
    Hypothesis HB : bound_good bound.
    Hypothesis HA : forall n, relevant fvs n -> assoc n G1 = assoc n bound.
    Variable N : nat.
    Hypothesis HIH : forall b, (tsize b < N)%nat -> dag_sorted b.

    Definition goodS (t : term) : Prop := good Sg bound fvs t /\ srt Sg t /\ exists ty, tc t = Some ty.
    Definition InvS (st : dst) : Prop :=
      exists G_st,
        lets_senv Sg (List.rev (d_lets st)) G1 = Some G_st /\
        (forall n, relevant fvs n -> assoc n G_st = assoc n G1) /\
        (forall t s, memo_get t (d_memo st) = Some s ->
           goodS t /\ mtext s /\ (forall ty, tc t = Some ty -> ssort Sg G_st s = Some ty) /\ atoms_ok fvs (d_seed st) s).

    Lemma inv_add_s st t text :
      InvS st -> goodS t ->
      (forall G_st, lets_senv Sg (List.rev (d_lets st)) G1 = Some G_st ->
                    (forall n, relevant fvs n -> assoc n G_st = assoc n G1) ->
                    forall ty, tc t = Some ty -> ssort Sg G_st text = Some ty) ->
      InvS (add_let names st t text) /\ memo_has t (d_memo (add_let names st t text)) = true /\
      mono st (add_let names st t text).
    Proof.
      intros (G_st & HL & HRl & HM) HG HT. unfold add_let.
      pose proof (new_symbol_fresh names (d_seed st)) as HF.
      destruct (new_symbol names (d_seed st)) as [sym seed']. destruct HF as (k & -> & -> & Hk & Hfresh).
      cbn [d_memo d_seed d_lets]. destruct HG as (HG1 & HG2 & (ty0 & Ty0)). split; [|split].
      - exists ((def_name k, ty0) :: G_st). cbn [d_memo d_seed d_lets]. split; [|split].
        + cbn [List.rev]. rewrite lets_senv_app, HL. cbn [lets_senv].
          now rewrite def_sym_name, (HT G_st HL HRl ty0 Ty0), String.eqb_refl.
        + intros n Hn. cbn [assoc]. destruct (String.eqb_spec n (def_name k)) as [->|]; [|now apply HRl].
          exfalso. exact (def_not_relevant fvs k Hfresh Hn).
        + intros t' s Hget. cbn [memo_get] in Hget. destruct (term_eqb t' t) eqn:E.
          * injection Hget as <-. apply term_eqb_eq in E. subst t'. split; [exact (conj HG1 (conj HG2 (ex_intro _ ty0 Ty0)))|]. split; [exact Logic.I|]. split.
            -- intros ty Ty. rewrite Ty0 in Ty. injection Ty as <-. cbn [ssort].
               rewrite (sort_atom_symbol Sg _ _ _ (def_symbol k)). cbn [assoc]. now rewrite String.eqb_refl.
            -- intros j Hj. cbn [anames] in Hj. rewrite def_sym_name in Hj. destruct Hj as [Hj|[]].
               apply def_name_inj in Hj. right. lia.
          * destruct (HM t' s Hget) as (G & M & V & A). split; [assumption|]. split; [assumption|]. split.
            -- intros ty Ty. rewrite <- (V ty Ty). apply ssort_agree_m; [assumption|]. intros n Hn. cbn [assoc].
               destruct (String.eqb_spec n (def_name k)) as [->|]; [|reflexivity].
               exfalso. destruct (A k Hn) as [Hin|Hlt]; [exact (Hfresh Hin) | lia].
            -- intros j Hj. destruct (A j Hj); [now left | right; lia].
      - unfold memo_has. cbn [memo_get]. now rewrite (proj2 (term_eqb_eq t t) eq_refl).
      - intros t'. apply memo_has_cons.
    Qed.

    Lemma gscope_st G_st : (forall n, relevant fvs n -> assoc n G_st = assoc n G1) -> gscope G_st.
    Proof.
      intros HRl. destruct (bound_good_gscope _ HB) as [S1 S2]. split.
      - intros n k Hk. rewrite HRl, HA; [eauto | left; congruence | left; congruence].
      - intros n c Hc. rewrite HRl, HA; [eauto | right; left; congruence | right; left; congruence].
    Qed.
    Lemma sname_ok_st G_st t : (forall n, relevant fvs n -> assoc n G_st = assoc n G1) -> good Sg bound fvs t ->
      sname_ok bound G_st t.
    Proof.
      intros HRl [HW Hincl]. destruct t as [o args]. destruct o; cbn [sname_ok]; auto.
      - rewrite HRl, HA; auto; right; right; apply in_map_iff; exists (n, t); (split; [reflexivity|]); apply Hincl; cbn [fv]; now left.
      - rewrite HRl, HA; auto; right; right; apply in_map_iff; exists (n, t); (split; [reflexivity|]); apply Hincl; cbn [fv];
          apply (Sets_proofs.union_In var_eqb var_eqb_eq); left; now left.
    Qed.

    Lemma compute_ok_s st o args :
      is_quant o = false -> InvS st -> goodS (T o args) ->
      Forall (fun a => memo_has a (d_memo st) = true) args ->
      InvS (dag_compute names st (T o args)) /\ memo_has (T o args) (d_memo (dag_compute names st (T o args))) = true /\
      mono st (dag_compute names st (T o args)).
    Proof.
      intros Hq HI HG Hargs.
      destruct (memo_has (T o args) (d_memo st)) eqn:Em.
      { assert (E : dag_compute names st (T o args) = st) by (unfold dag_compute; now rewrite Em).
        rewrite E. split; [assumption|]. split; [assumption|]. intros t' H; exact H. }
      pose proof HI as (G0 & HL0 & HRl0 & HM). destruct HG as (HG1 & HG2 & (ty0 & Ty0)).
      assert (VAL : forall G_st, lets_senv Sg (List.rev (d_lets st)) G1 = Some G_st ->
                 (forall n, relevant fvs n -> assoc n G_st = assoc n G1) ->
                 forall ty, tc (T o args) = Some ty ->
                 ssort Sg G_st (node_text (T o args) (texts_of st args) (pairs_of (List.tl (texts_of st args)))) = Some ty).
      { intros G_st HL HRl ty Ty. rewrite HL0 in HL. injection HL as <-.
        apply (node_sort Sg o args _ _ bound G0 ty Hq (proj1 HG1) HG2 Ty (gscope_st _ HRl) (sname_ok_st _ _ HRl HG1)); [|reflexivity].
        rewrite tc_tcs in Ty. destruct (tcs args) as [tys|] eqn:E; [|discriminate].
        pose proof (tcs_args_typed args tys E) as HT.
        unfold texts_of. clear - Hargs HM HT. induction Hargs as [|a r Ha _ IH]; cbn [map]; [constructor|].
        inversion HT as [|? ? (ta & Ta) HT']; subst. constructor; [|now apply IH].
        destruct (memo_has_get _ _ Ha) as [s Hs]. rewrite Hs. exists ta. split; [exact Ta|].
        exact (proj1 (proj2 (proj2 (HM a s Hs))) ta Ta). }
      assert (TXT : Forall (fun s => mtext s /\ atoms_ok fvs (d_seed st) s) (texts_of st args)).
      { unfold texts_of. clear - Hargs HM. induction Hargs as [|a r Ha _ IH]; cbn [map]; constructor; [|exact IH].
        destruct (memo_has_get _ _ Ha) as [s Hs]. rewrite Hs. destruct (HM a s Hs) as (_ & M & _ & A). auto. }
      assert (GS : goodS (T o args)) by exact (conj HG1 (conj HG2 (ex_intro _ ty0 Ty0))).
      destruct (match o with OArrayValue _ => true | _ => false end) eqn:Ea.
      - destruct o; try discriminate Ea. destruct args as [|d assigns].
        { exfalso. exact (proj1 HG1). }
        unfold dag_compute. rewrite Em. fold (texts_of st (d :: assigns)).
        inversion Hargs; subst. cbn [texts_of map] in *.
        apply inv_add_s; auto.
      - unfold names. rewrite dag_compute_unfold, Em by (intros it ->; discriminate Ea).
        assert (NT : node_text (T o args) (texts_of st args) (pairs_of (List.tl (texts_of st args)))
                     = term_sexp (T o args) (texts_of st args)).
        { destruct o; try reflexivity. discriminate Ea. }
        rewrite NT in VAL. destruct (dag_inline o) eqn:Ei.
        + destruct (inline_text_ok Sg bound fvs st o args Ei HG1 TXT) as [M A]. split; [|split].
          * exists G0. cbn [d_memo d_seed d_lets]. split; [assumption|]. split; [assumption|].
            intros t' s Hget. cbn [memo_get] in Hget. destruct (term_eqb t' (T o args)) eqn:E; [|now apply HM].
            injection Hget as <-. apply term_eqb_eq in E. subst t'.
            split; [assumption|]. split; [assumption|]. split; [exact (VAL G0 HL0 HRl0) | assumption].
          * unfold memo_has. cbn [d_memo memo_get]. now rewrite (proj2 (term_eqb_eq _ _) eq_refl).
          * intros t'. cbn [d_memo]. apply memo_has_cons.
        + now apply inv_add_s.
    Qed.

    Lemma quant_node_s (q : string) (isf : bool) vs b st :
      (q = if isf then "forall" else "exists") ->
      let t := T (if isf then OForall vs else OExists vs) [b] in
      (tsize t <= N)%nat -> InvS st -> goodS t ->
      InvS (add_let names st t (quant_sexp q vs (print_dag b))) /\
      memo_has t (d_memo (add_let names st t (quant_sexp q vs (print_dag b)))) = true /\
      mono st (add_let names st t (quant_sexp q vs (print_dag b))).
    Proof.
      intros Hqn t Hsz HI HG. apply inv_add_s; auto.
      intros G_st HL HRl ty Ty. destruct HG as ((HW & Hincl) & HS & _).
      assert (HW' : vs <> [] /\ Forall (good_binder Sg) vs /\ wfp Sg (List.rev vs ++ bound) b)
        by (subst t; destruct isf; exact HW).
      destruct HW' as (Hne & HGb & HWb).
      assert (Hb : (tsize b < N)%nat) by (subst t; destruct isf; cbn [tsize fold_right] in Hsz; lia).
      assert (Tb : tc b = Some TBool /\ ty = TBool).
      { subst t. rewrite tc_tcs in Ty. cbn [tcs] in Ty. destruct (tc b) as [tb|]; [|destruct isf; discriminate].
        destruct isf; cbn in Ty; destruct (ty_eqb tb TBool) eqn:E; try discriminate Ty;
          apply ty_eqb_eq in E; subst; injection Ty as <-; auto. }
      destruct Tb as [Tb ->].
      assert (Sb : srt Sg b) by (subst t; destruct isf; exact (Forall_inv (srt_args Sg _ _ HS))).
      assert (QV : ssort Sg (bind_senv G_st vs) (print_dag b) = Some TBool).
      { apply (HIH b Hb (List.rev vs ++ bound)%list); auto.
        - apply bound_good_bind; auto. rewrite Forall_forall in *. intros v Hv. destruct (HGb v Hv) as [Hn _].
          apply good_name_inv in Hn. tauto.
        - intros n Hn. rewrite bind_senv_app. unfold var in *. rewrite !assoc_app.
          destruct (assoc n (List.rev vs)) as [x|] eqn:E; [reflexivity|].
          rewrite HRl, HA; auto;
            (destruct Hn as [H|[H|H]]; [now left | now right; left | right; right]);
            apply in_map_iff in H; destruct H as ([m ty'] & <- & Hv); cbn [fst];
            apply in_map_iff; exists (m, ty'); (split; [reflexivity|]); apply Hincl; subst t;
            (destruct isf; cbn [fv map];
             apply (Sets_proofs.diff_In var_eqb var_eqb_eq); (split;
               [apply (Sets_proofs.unions_In var_eqb var_eqb_eq); exists (fv b); (split; [now left | assumption])
               | intros Hin; apply assoc_none_notin in E; apply E; rewrite map_rev; apply -> in_rev;
                 apply in_map_iff; exists (m, ty'); now split])). }
      subst t q. destruct isf; cbn [quant_sexp ssort]; cbn [String.eqb Ascii.eqb Bool.eqb orb];
        rewrite (binders_read Sg _ HGb); (destruct vs as [|v vs]; [contradiction Hne; reflexivity|]); now rewrite QV.
    Qed.

    Lemma visit_ok_s : forall t, (tsize t <= N)%nat -> forall st, InvS st -> goodS t ->
      InvS (dag_visit names t st) /\ memo_has t (d_memo (dag_visit names t st)) = true /\ mono st (dag_visit names t st).
    Proof.
      induction t as [o args IH] using term_ind'. intros Hsz st HI HG.
      destruct (is_quant o) eqn:Hq.
      - destruct o; try discriminate Hq.
        + destruct args as [|b [|c r]]; try (exfalso; exact (proj2 (proj2 (proj1 (proj1 HG))))).
          exact (quant_node_s "forall" true vs b st eq_refl Hsz HI HG).
        + destruct args as [|b [|c r]]; try (exfalso; exact (proj2 (proj2 (proj1 (proj1 HG))))).
          exact (quant_node_s "exists" false vs b st eq_refl Hsz HI HG).
      - unfold names. rewrite (dag_visit_unfold fvs o args st Hq). fold names.
        destruct (memo_has (T o args) (d_memo st)) eqn:Em.
        { split; [assumption|]. split; [assumption|]. intros t' H; exact H. }
        assert (W : InvS (visit_args fvs (d_memo st) st args) /\ mono st (visit_args fvs (d_memo st) st args) /\
                    Forall (fun a => memo_has a (d_memo (visit_args fvs (d_memo st) st args)) = true) args).
        { assert (GA : forall a, In a args -> goodS a /\ (tsize a <= N)%nat).
          { destruct HG as ((HW & Hincl) & HS & (ty0 & Ty0)). intros a Ha. split.
            - split; [split|split].
              + pose proof (wfp_args Sg o args bound Hq HW) as Hrec. clear - Ha Hrec.
                induction args as [|x r IHr]; [contradiction|]. destruct Hrec as [Hx Hr]. destruct Ha as [->|Ha]; auto.
              + intros v Hv. apply Hincl. exact (fv_arg Sg bound o args a Hq HW Ha v Hv).
              + pose proof (srt_args Sg o args HS) as F. rewrite Forall_forall in F. now apply F.
              + rewrite tc_tcs in Ty0. destruct (tcs args) as [tys|] eqn:E; [|discriminate].
                pose proof (tcs_args_typed args tys E) as F. rewrite Forall_forall in F. now apply F.
            - pose proof (tsize_arg o args a Ha). lia. }
          clear Em Hsz HG. set (m0 := d_memo st). assert (M0 : mono st st) by (intros t' H; exact H).
          assert (M00 : forall c, memo_has c m0 = true -> memo_has c (d_memo st) = true) by auto.
          clearbody m0. induction IH as [|c r Hc _ IHr]; cbn [visit_args].
          - split; [assumption|]. split; [assumption | constructor].
          - destruct IHr as (I1 & M1 & F1); [intros a Ha; apply GA; now right|].
            destruct (memo_has c m0) eqn:Ec.
            + split; [assumption|]. split; [assumption|]. constructor; [apply M1; now apply M00 | assumption].
            + destruct (GA c (or_introl eq_refl)) as [Gc Sc].
              destruct (Hc Sc _ I1 Gc) as (I2 & Mc & M2). split; [assumption|]. split.
              * intros t' H. apply M2, M1, H.
              * constructor; [assumption|]. rewrite Forall_forall in *. intros a Ha. apply M2, F1, Ha. }
        destruct W as (I1 & M1 & F1).
        destruct (compute_ok_s _ o args Hq I1 HG F1) as (I2 & Mt & M2).
        split; [assumption|]. split; [assumption|]. intros t' H. apply M2, M1, H.
    Qed.
  End InvS.

  Theorem print_dag_sorted_gen : forall n t, (tsize t <= n)%nat -> dag_sorted t.
  Proof.
    induction n as [|n IHn]; intros t Hsz; [destruct t; cbn in Hsz; lia|].
    intros bound G1 ty HW HS Ty HB HA.
    assert (HIH : forall b, (tsize b < S n)%nat -> dag_sorted b) by (intros b Hb; apply IHn; lia).
    assert (I0 : InvS bound G1 (fv t) dst0).
    { exists G1. split; [reflexivity|]. split; [auto|]. intros t' s H. discriminate H. }
    assert (G0 : goodS bound (fv t) t) by exact (conj (conj HW (fun v Hv => Hv)) (conj HS (ex_intro _ ty Ty))).
    destruct (visit_ok_s bound G1 (fv t) HB HA (S n) HIH t Hsz dst0 I0 G0) as ((G_st & HL & _ & HM) & Hm & _).
    unfold print_dag, names_of. cbv zeta.
    destruct (memo_has_get _ _ Hm) as [s Hs]. unfold var in *. rewrite Hs.
    rewrite (wrap_lets_sorted Sg s _ G1 G_st HL). exact (proj1 (proj2 (proj2 (HM t s Hs))) ty Ty).
  Qed.
End DagSort.

(* ========================================================================= the script *)
Lemma sig_of_single S : sig_of [S] = S.
Proof. unfold sig_of. cbn. rewrite !List.app_nil_r. now destruct S. Qed.

Lemma sort_of_sexp_ext S1 S2 : sg_sorts S1 = sg_sorts S2 -> forall s, sort_of_sexp S1 s = sort_of_sexp S2 s.
Proof.
  intros E. induction s as [a | l IH] using sexp_ind'; cbn [sort_of_sexp]; [now rewrite E|].
  destruct l as [|[h|?] args]; try reflexivity. inversion IH as [|? ? _ IHa]; subst.
  assert (M : map (sort_of_sexp S1) args = map (sort_of_sexp S2) args).
  { clear - IHa. induction IHa as [|x r Hx _ IHr]; cbn; [reflexivity|]. now rewrite Hx, IHr. }
  now rewrite M, E.
Qed.

(* a sort that the reader gives back *)
Definition rb (S : sig) (ty : ty) : Prop := sort_of_sexp S (sort_sexp ty) = Some ty.
(* a custom sort declaration / a free symbol that can be declared *)
Definition sort_decl_ok (d : string * nat) : Prop :=
  sym_name (quote (fst d)) = Some (fst d) /\ mem_str (fst d) theory_sorts = false.
Definition fun_decl_ok (S : sig) (v : var) : Prop :=
  good_name (fst v) = true /\
  match snd v with
  | TFun ps r => ps <> [] /\ Forall (rb S) ps /\ rb S r
  | ty => rb S ty
  end.

Lemma nat_numeral k : nat_of_numeral (dec_string (Z.of_nat k)) = Some k.
Proof. unfold nat_of_numeral. rewrite numeral_dec by lia. now rewrite Nat2Z.id. Qed.

Lemma run_sorts dag : forall ds S0 rest,
  Forall sort_decl_ok ds -> NoDup (map fst ds) ->
  (forall d, In d ds -> assoc (fst d) (sg_sorts S0) = None) ->
  std_commands [S0] (map (fun d => serialize dag (CDeclareSort (fst d) (snd d))) ds ++ rest) =
  std_commands [{| sg_sorts := List.rev ds ++ sg_sorts S0; sg_funs := sg_funs S0 |}] rest.
Proof.
  induction ds as [|[n k] ds IH]; intros S0 rest HF HN H0.
  - cbn [map List.app List.rev]. now destruct S0.
  - inversion HF as [|? ? [Hs Ht] HF']; subst. inversion HN as [|? ? Hni HN']; subst. cbn [fst snd] in *.
    cbn [map List.app std_commands serialize fst snd].
    assert (STEP : std_command [S0] (SList [Atom "declare-sort"; Atom (quote n); nat_atom k]) =
                   Some [{| sg_sorts := (n, k) :: sg_sorts S0; sg_funs := sg_funs S0 |}]).
    { unfold nat_atom. cbn [std_command]. cbn [String.eqb Ascii.eqb Bool.eqb]. rewrite Hs, nat_numeral, sig_of_single.
      pose proof (H0 (n, k) (or_introl eq_refl)) as Hn0. cbn [fst] in Hn0.
      unfold fresh_sort. rewrite Ht, Hn0. reflexivity. }
    rewrite STEP. rewrite IH; auto.
    + cbn [List.rev sg_sorts sg_funs]. rewrite <- app_assoc. reflexivity.
    + intros d Hd. cbn [sg_sorts assoc]. destruct (String.eqb_spec (fst d) n) as [E|E].
      * exfalso. apply Hni. rewrite <- E. now apply in_map.
      * apply H0. now right.
Qed.

Lemma not_theory_symbol n : assoc n std_table = None -> assoc n std_consts = None -> mem_str n theory_symbols = false.
Proof.
  intros H1 H2. unfold theory_symbols, mem_str. rewrite existsb_app.
  assert (G : forall {A} (l : list (string * A)), assoc n l = None -> existsb (String.eqb n) (map fst l) = false).
  { intros A l. induction l as [|[k v] l IH]; cbn; [reflexivity|]. destruct (String.eqb n k); [discriminate | exact IH]. }
  now rewrite (G _ _ H1), (G _ _ H2).
Qed.

Lemma run_funs dag : forall vs S0 rest,
  Forall (fun_decl_ok S0) vs -> NoDup (map fst vs) ->
  (forall v, In v vs -> assoc (fst v) (sg_funs S0) = None) ->
  std_commands [S0] (map (fun v => serialize dag (CDeclareFun (fst v) (snd v))) vs ++ rest) =
  std_commands [{| sg_sorts := sg_sorts S0; sg_funs := List.rev vs ++ sg_funs S0 |}] rest.
Proof.
  induction vs as [|[n ty] vs IH]; intros S0 rest HF HN H0.
  - cbn [map List.app List.rev]. now destruct S0.
  - inversion HF as [|? ? [Hg Hty] HF']; subst. inversion HN as [|? ? Hni HN']; subst. cbn [fst snd] in *.
    apply good_name_inv in Hg. destruct Hg as (Hsym & Hc & Ht). apply symbol_atom_sym in Hsym.
    cbn [map List.app std_commands serialize fst snd].
    set (S1 := {| sg_sorts := sg_sorts S0; sg_funs := (n, ty) :: sg_funs S0 |}).
    assert (STEP : std_command [S0] (SList [Atom "declare-fun"; Atom (quote n); SList (fun_params ty); fun_result ty]) = Some [S1]).
    { cbn [std_command]. cbn [String.eqb Ascii.eqb Bool.eqb]. rewrite Hsym, sig_of_single.
      pose proof (H0 (n, ty) (or_introl eq_refl)) as Hn0. cbn [fst] in Hn0.
      unfold fresh_fun. rewrite (not_theory_symbol n Ht Hc), Hn0. cbn [negb andb].
      destruct ty; cbn [fun_params fun_result map all_some] in *; try (unfold rb in Hty; rewrite Hty; reflexivity).
      destruct Hty as (Hne & Hps & Hr). unfold rb in Hr. rewrite Hr.
      assert (E : all_some (map (sort_of_sexp S0) (map sort_sexp ps)) = Some ps).
      { clear - Hps. induction Hps as [|p r Hp _ IHp]; cbn; [reflexivity|]. unfold rb in Hp. now rewrite Hp, IHp. }
      rewrite E. destruct ps; [contradiction Hne; reflexivity|]. reflexivity. }
    rewrite STEP. rewrite IH; auto.
    + subst S1. cbn [List.rev sg_sorts sg_funs]. rewrite <- app_assoc. reflexivity.
    + subst S1. rewrite Forall_forall in *. intros v Hv. destruct (HF' v Hv) as [G1 G2]. split; [assumption|].
      unfold rb in *. destruct (snd v); try (rewrite <- G2; now apply sort_of_sexp_ext).
      destruct G2 as (A & B & C). split; [assumption|]. split; [|rewrite <- C; now apply sort_of_sexp_ext].
      rewrite Forall_forall in *. intros p Hp. rewrite <- (B p Hp). now apply sort_of_sexp_ext.
    + intros v Hv. subst S1. cbn [sg_funs assoc]. destruct (String.eqb_spec (fst v) n) as [E|E].
      * exfalso. apply Hni. rewrite <- E. now apply in_map.
      * apply H0. now right.
Qed.

(* the signature the declarations of the script build *)
Definition script_sig (t : term) : sig := {| sg_sorts := List.rev (sort_decls t); sg_funs := List.rev (fv t) |}.

(* FULL STATEMENT: forall t dag logic, printable_names t -> std_script_ok (script_of dag logic t) = true.
   Proved for BOTH printers, with the side conditions explicit:
     - the logic name is a symbol;
     - every custom sort declaration the (repaired) TypesOracle model reports has a name that reads
       back and is not a theory sort, and no two declarations share a name;
     - every free symbol has a good name, names are pairwise distinct, and its sort - parameter
       and result sorts of a function - reads back over the declared sorts;
     - the formula is Bool-typed, in the fragment wfp of print_tree_sound over the signature the
       declarations build, and satisfies srt (no function-sorted term, ordered extract indices,
       array-value sorts read back). *)
Theorem script_wellformed_partial : forall dag logic t,
  sym_name logic <> None ->
  Forall sort_decl_ok (sort_decls t) -> NoDup (map fst (sort_decls t)) ->
  Forall (fun_decl_ok (script_sig t)) (fv t) -> NoDup (map fst (fv t)) ->
  wfp (script_sig t) [] t -> srt (script_sig t) t -> tc t = Some TBool ->
  std_script_ok (script_of dag logic t) = true.
Proof.
  intros dag logic t HL HSd HSn HFd HFn HW HS HT.
  unfold script_of, script_from_formula. rewrite !map_app. cbn [map List.app serialize].
  unfold std_script_ok. rewrite String.eqb_refl. destruct (sym_name logic); [|contradiction HL; reflexivity]. cbn [andb].
  rewrite map_map. rewrite (run_sorts dag (sort_decls t) sig0); auto.
  rewrite map_map.
  set (S1 := {| sg_sorts := List.rev (sort_decls t) ++ sg_sorts sig0; sg_funs := sg_funs sig0 |}).
  assert (E1 : sg_sorts S1 = sg_sorts (script_sig t)) by (cbn; now rewrite List.app_nil_r).
  rewrite (run_funs dag (fv t) S1).
  - assert (E2 : {| sg_sorts := sg_sorts S1; sg_funs := List.rev (fv t) ++ sg_funs S1 |} = script_sig t).
    { unfold script_sig. cbn. now rewrite !List.app_nil_r. }
    rewrite E2. cbn [std_commands std_command]. cbn [String.eqb Ascii.eqb Bool.eqb].
    rewrite sig_of_single. unfold std_sort.
    assert (BG : bound_good []) by (intros n ty H; discriminate H).
    assert (HSort : ssort (script_sig t) (@nil (string * ty)) (if dag then print_dag t else print_tree t) = Some TBool).
    { destruct dag.
      - apply (print_dag_sorted_gen (script_sig t) (tsize t) t (Nat.le_refl _) [] [] TBool HW HS HT BG). reflexivity.
      - apply (print_tree_sorted_gen (script_sig t) t [] TBool HW HS HT BG). }
    rewrite HSort. destruct (if dag then print_dag t else print_tree t); reflexivity.
  - rewrite Forall_forall in *. intros v Hv. destruct (HFd v Hv) as [G1 G2]. split; [assumption|].
    unfold rb in *. destruct (snd v); try (rewrite <- G2; now apply sort_of_sexp_ext).
    destruct G2 as (A & B & C). split; [assumption|]. split; [|rewrite <- C; now apply sort_of_sexp_ext].
    rewrite Forall_forall in *. intros p Hp. rewrite <- (B p Hp). now apply sort_of_sexp_ext.
  - assumption.
  - intros v Hv. reflexivity.
Qed.

(* the hypotheses are satisfiable: a custom sort that occurs only two levels deep inside built-in
   array sorts, a quantifier, a sub-term (select a i) shared between the matrix and the quantifier
   body *)
Definition ex_sort_S : ty := TUser "S" [].
Definition ex_term4 : term :=
  let a := TSym "a" (TArr TInt (TArr TInt ex_sort_S)) in
  let i := TSym "i" TInt in
  let j := TSym "j" TInt in
  let k := TSym "k" TInt in
  let ai := T OSelect [a; i] in
  T OAnd [ T OEquals [T OSelect [ai; j]; T OSelect [T OSelect [a; j]; i]];
           T (OForall [("k", TInt)]) [T OEquals [T OSelect [T OSelect [a; k]; i]; T OSelect [ai; k]]] ].
Example ex_term4_hyps :
  sym_name "ALL" <> None /\
  Forall sort_decl_ok (sort_decls ex_term4) /\ NoDup (map fst (sort_decls ex_term4)) /\
  Forall (fun_decl_ok (script_sig ex_term4)) (fv ex_term4) /\ NoDup (map fst (fv ex_term4)) /\
  wfp (script_sig ex_term4) [] ex_term4 /\ srt (script_sig ex_term4) ex_term4 /\ tc ex_term4 = Some TBool /\
  sort_decls ex_term4 = [("S", 0%nat)].
Proof.
  split; [discriminate|]. split; [repeat constructor|]. split; [repeat constructor; cbn; tauto|].
  split; [repeat constructor|]. split.
  { cbn. repeat constructor; cbn; intuition discriminate. }
  split; [|split; [|split; reflexivity]].
  - cbn. repeat split; try reflexivity; try discriminate; eauto. repeat constructor.
  - cbn. repeat split; reflexivity.
Qed.
Example ex_term4_script :
  std_script_ok (script_of false "ALL" ex_term4) = true /\ std_script_ok (script_of true "ALL" ex_term4) = true /\
  map flatten (firstn 3 (script_of false "ALL" ex_term4)) =
    [["("; "set-logic"; "ALL"; ")"]; ["("; "declare-sort"; "S"; "0"; ")"];
     ["("; "declare-fun"; "a"; "("; ")"; "("; "Array"; "Int"; "("; "Array"; "Int"; "S"; ")"; ")"; ")"]].
Proof. repeat split; vm_compute; reflexivity. Qed.

(* ========================================================================= TypesOracle completeness *)
(* Every custom sort that the script has to READ - inside the sort of a free symbol, of a function
   signature, of a bound variable, of an array value - is among the declared ones, because the
   (repaired) TypesOracle reports every sort that occurs (C12: Oracles_proofs.get_types_def) and is
   closed under component sorts.  Hence those sorts read back over the declared signature, and the
   `sorts read back' hypotheses of script_wellformed_partial are discharged. *)
From PySMT.proofs Require Oracles_proofs.
Notation sort_occurs := Oracles_proofs.sort_occurs.
Notation free_in := Oracles_proofs.free_in.

(* a sort the reader can give back at all: positive widths, no function sort inside *)
Fixpoint sort_wf (t : ty) : Prop :=
  match t with
  | TBool | TInt | TReal | TStr => True
  | TBV w => (0 < w)%Z
  | TArr i e => sort_wf i /\ sort_wf e
  | TUser _ args => (fix all (l : list ty) : Prop := match l with [] => True | x :: r => sort_wf x /\ all r end) args
  | TFun _ _ => False
  end.
Lemma sort_wf_args n args : sort_wf (TUser n args) -> Forall sort_wf args.
Proof. cbn [sort_wf]. induction args as [|a r IH]; intros H; constructor; [tauto | apply IH; tauto]. Qed.

Lemma sym_not_underscore h n : sym_name h = Some n -> String.eqb h "_" = false.
Proof. intros H. destruct (String.eqb_spec h "_"); [subst; discriminate H | reflexivity]. Qed.

Lemma rb_declared S : forall t, sort_wf t ->
  (forall n args, In (TUser n args) (subtypes t) ->
                  sort_decl_ok (n, List.length args) /\ assoc n (sg_sorts S) = Some (List.length args)) ->
  rb S t.
Proof.
  unfold rb. induction t as [ | | | | w | i e IHi IHe | ps r _ _ | n args IHargs] using ty_ind'; intros HW HD;
    try reflexivity; try contradiction.
  - (* BV *) cbn [sort_sexp sort_of_sexp]. cbn [String.eqb Ascii.eqb Bool.eqb]. cbn in HW.
    rewrite (idx_numeral w) by lia. replace (0 <? w)%Z with true by (symmetry; now apply Z.ltb_lt). reflexivity.
  - (* Array *) destruct HW as [Wi We]. cbn [sort_sexp sort_of_sexp]. cbn [String.eqb Ascii.eqb Bool.eqb].
    change (sym_name "Array") with (Some "Array"). cbn [map all_some].
    rewrite IHi, IHe; auto.
    + intros n args H. apply HD. cbn [subtypes]. right. apply in_or_app. now right.
    + intros n args H. apply HD. cbn [subtypes]. right. apply in_or_app. now left.
  - (* user sort *)
    destruct (HD n args (or_introl eq_refl)) as [[Hs Ht] Ha]. cbn [fst] in Hs, Ht.
    assert (NB : String.eqb n "Bool" = false /\ String.eqb n "Int" = false /\ String.eqb n "Real" = false /\
                 String.eqb n "String" = false /\ String.eqb n "Array" = false).
    { unfold theory_sorts, mem_str in Ht. cbn [existsb] in Ht. repeat (apply orb_false_iff in Ht; destruct Ht as [? Ht]). tauto. }
    destruct NB as (N1 & N2 & N3 & N4 & N5).
    destruct args as [|a args].
    + cbn [sort_sexp sort_of_sexp]. rewrite Hs, N1, N2, N3, N4, Ha. reflexivity.
    + assert (E : all_some (map (sort_of_sexp S) (map sort_sexp (a :: args))) = Some (a :: args)).
      { pose proof (sort_wf_args _ _ HW) as HWa.
        assert (HDa : forall x, In x (a :: args) -> forall n' args', In (TUser n' args') (subtypes x) ->
                   sort_decl_ok (n', List.length args') /\ assoc n' (sg_sorts S) = Some (List.length args')).
        { intros x Hx n' args' H. apply HD. cbn [subtypes]. right. apply in_flat_map. eauto. }
        clear - IHargs HWa HDa. induction IHargs as [|x r Hx _ IHr]; [reflexivity|]. cbn [map all_some].
        inversion HWa; subst. rewrite Hx; [|assumption | intros; eapply HDa; [now left | eassumption]].
        rewrite IHr; [reflexivity | assumption | intros; eapply HDa; [right; eassumption | eassumption]]. }
      change (sort_sexp (TUser n (a :: args))) with (SList (Atom (quote n) :: map sort_sexp (a :: args))).
      cbn [sort_of_sexp]. rewrite (sym_not_underscore _ _ Hs), Hs, E, N5, Ha, Nat.eqb_refl. reflexivity.
Qed.

(* ---- what has to be read: occurring sorts, and the sorts of array values ---- *)
Definition leaf_op (o : op) : bool :=
  match o with OSymbol _ _ | OBoolC _ | OIntC _ | ORealC _ _ | OBVC _ _ | OStrC _ => true | _ => false end.
Inductive need (s : ty) : term -> Prop :=
| NeedOcc t : sort_occurs s t -> need s t
| NeedArr it d rest : s = array_value_type it d -> need s (T (OArrayValue it) (d :: rest))
| NeedArg o args a : In a args -> need s a -> leaf_op o = false -> need s (T o args).

Lemma occurs_arg o args a s : In a args -> leaf_op o = false -> sort_occurs s a -> sort_occurs s (T o args).
Proof. intros Ha Hl H. apply (Oracles_proofs.SortArg s o args a Ha H). destruct o; try discriminate Hl; exact Logic.I. Qed.

Definition reported (x : ty) (t : term) : Prop := exists u, sort_occurs u t /\ In x (subtypes u).
Lemma reported_arg o args a x : In a args -> leaf_op o = false -> reported x a -> reported x (T o args).
Proof. intros Ha Hl (u & Hu & Hx). exists u. split; [now apply (occurs_arg o args a) | assumption]. Qed.

Definition scalar (t : ty) : Prop := match t with TBool | TInt | TReal | TStr | TBV _ => True | _ => False end.
Lemma scalar_no_custom t x : scalar t -> In x (subtypes t) -> is_custom x = true -> False.
Proof. destruct t; try contradiction; cbn; intros _ [<-|[]]; discriminate. Qed.

(* where the sort computed by the type checker comes from *)
Lemma tc_rule_result o tys ty : tc_rule o tys = Some ty ->
  scalar ty \/ In ty tys \/ (exists i, In (TArr i ty) tys) \/
  (exists n, o = OSymbol n ty) \/ (exists n ps, o = OFunction n (TFun ps ty)) \/
  (exists it d r, o = OArrayValue it /\ tys = d :: r /\ ty = TArr it d).
Proof.
  intros H. destruct o; cbn [tc_rule] in H;
    try (apply ttt_inv in H; destruct H as [_ ->]; left; exact Logic.I);
    try (apply realint_inv in H; destruct H as [[-> | ->] _]; left; exact Logic.I).
  - destruct tys as [|a [|b r]]; try discriminate H. destruct (ty_eqb a TBool); [|discriminate H]. injection H as <-. left; exact Logic.I.
  - destruct tys as [|a [|b r]]; try discriminate H. destruct (ty_eqb a TBool); [|discriminate H]. injection H as <-. left; exact Logic.I.
  - destruct tys; [|discriminate H]. injection H as <-. right; right; right; left. eauto.
  - destruct t; try discriminate H. destruct (tys_eqb tys ps); [|discriminate H]. injection H as <-. right; right; right; right; left. eauto.
  - destruct tys; [injection H as <-; left; exact Logic.I | discriminate H].
  - destruct tys; [injection H as <-; left; exact Logic.I | discriminate H].
  - destruct tys; [injection H as <-; left; exact Logic.I | discriminate H].
  - destruct tys; [injection H as <-; left; exact Logic.I | discriminate H].
  - (* <= *) destruct tys as [|a r]; [discriminate H|]. destruct a; apply ttt_inv in H; destruct H as [_ ->]; left; exact Logic.I.
  - destruct tys as [|a r]; [discriminate H|]. destruct a; apply ttt_inv in H; destruct H as [_ ->]; left; exact Logic.I.
  - (* = *) destruct tys as [|a r]; [discriminate H|]. destruct a; try discriminate H;
      try (apply ttt_inv in H; destruct H as [_ ->]; left; exact Logic.I).
    apply SimplifierSemBase_proofs.bv_to_bool_out in H. subst. left; exact Logic.I.
  - (* ite *) destruct tys as [|c [|a [|b r]]]; try discriminate H. destruct (ty_eqb c TBool && ty_eqb a b); [|discriminate H].
    injection H as <-. right; left. right; now left.
  - destruct tys; [injection H as <-; left; exact Logic.I | discriminate H].
  - (* bv *) destruct k; cbn in H;
      try (destruct (forallb _ tys); [injection H as <-; left; exact Logic.I | discriminate H]).
    + destruct tys as [|[] [|[] r]]; try discriminate H. destruct (Z.eqb (w0 + w1) w); [|discriminate H]. injection H as <-. left; exact Logic.I.
    + destruct tys as [|a [|b [|c r]]]; try discriminate H. destruct (ty_eqb a b && is_bv a); [|discriminate H]. injection H as <-. left; exact Logic.I.
  - apply SimplifierSemBase_proofs.bv_to_bool_out in H. subst. left; exact Logic.I.
  - destruct tys as [|[] r]; try discriminate H. repeat (destruct (_ || _)%bool in H; try discriminate H).
    destruct (_ <? _)%Z in H; [discriminate H|]. destruct (negb _) in H; [discriminate H|]. injection H as <-. left; exact Logic.I.
  - destruct ((w <? k)%Z || (w <? 0)%Z || (k <? 0)%Z); [discriminate H|]. destruct tys as [|[] r]; try discriminate H.
    destruct (Z.eqb w w0); [|discriminate H]. injection H as <-. left; exact Logic.I.
  - destruct ((w <? k)%Z || (w <? 0)%Z || (k <? 0)%Z); [discriminate H|]. destruct tys as [|[] r]; try discriminate H.
    destruct (Z.eqb w w0); [|discriminate H]. injection H as <-. left; exact Logic.I.
  - destruct tys as [|[] r]; try discriminate H. destruct (_ || _)%bool in H; [discriminate H|]. injection H as <-. left; exact Logic.I.
  - destruct tys as [|[] r]; try discriminate H. destruct (_ || _)%bool in H; [discriminate H|]. injection H as <-. left; exact Logic.I.
  - (* strings *) destruct k; cbn in H;
      try (apply ttt_inv in H; destruct H as [_ ->]; left; exact Logic.I);
      try (destruct tys as [|[] [|[] [|[] [|]]]]; try discriminate H; injection H as <-; left; exact Logic.I).
  - (* select *) destruct tys as [|[] [|x r]]; try discriminate H. destruct (ty_eqb i x); [|discriminate H]. injection H as <-.
    right; right; left. exists i. now left.
  - (* store *) destruct tys as [|[] [|x [|v r]]]; try discriminate H. destruct (ty_eqb i x && ty_eqb e v); [|discriminate H].
    injection H as <-. right; left. now left.
  - (* array value *) destruct tys as [|d r]; [discriminate H|]. destruct (array_value_ok it d r true); [|discriminate H].
    injection H as <-. right; right; right; right; right. eauto 6.
  - (* pow *) destruct tys as [|a [|b r]]; try discriminate H. destruct (negb (ty_eqb a b)); [discriminate H|].
    destruct a; try discriminate H; injection H as <-; left; exact Logic.I.
  - destruct tys as [|a r]; [discriminate H|]. destruct (is_bv a); [|discriminate H]. injection H as <-. left; exact Logic.I.
Qed.

Lemma tcs_In : forall args tys ty, tcs args = Some tys -> In ty tys -> exists a, In a args /\ tc a = Some ty.
Proof.
  induction args as [|a r IH]; intros tys ty E H; cbn in E.
  - injection E as <-. contradiction.
  - destruct (tc a) as [ta|] eqn:Ea; [|discriminate]. destruct (tcs r) as [tr|] eqn:Er; [|discriminate]. injection E as <-.
    destruct H as [<-|H]; [exists a; split; [now left | assumption]|].
    destruct (IH tr ty eq_refl H) as (b & Hb & Tb). exists b. split; [now right | assumption].
Qed.
Lemma leaf_no_args o tys ty : leaf_op o = true -> tc_rule o tys = Some ty -> tys = [].
Proof. destruct o; try discriminate; cbn; intros _ H; destruct tys; auto; discriminate H. Qed.

Lemma tc_reported : forall d ty, tc d = Some ty -> forall x, In x (subtypes ty) -> is_custom x = true -> reported x d.
Proof.
  induction d as [o args IH] using term_ind'. intros ty Htc x Hx Hc.
  rewrite tc_tcs in Htc. destruct (tcs args) as [tys|] eqn:E; [|discriminate].
  assert (LIFT : forall a, In a args -> reported x a -> reported x (T o args)).
  { intros a Ha Hr. destruct (leaf_op o) eqn:El; [|now apply (reported_arg o args a)].
    rewrite (leaf_no_args o tys ty El Htc) in E. destruct args; [contradiction | cbn in E; destruct (tc t); [destruct (tcs args)|]; discriminate]. }
  rewrite Forall_forall in IH.
  destruct (tc_rule_result o tys ty Htc) as [Hs|[Hin|[(i & Hin)|[(n & ->)|[(n & ps & ->)|(it & d & r & -> & -> & ->)]]]]].
  - exfalso. exact (scalar_no_custom ty x Hs Hx Hc).
  - destruct (tcs_In args tys ty E Hin) as (a & Ha & Ta). apply (LIFT a Ha). exact (IH a Ha ty Ta x Hx Hc).
  - destruct (tcs_In args tys _ E Hin) as (a & Ha & Ta). apply (LIFT a Ha). apply (IH a Ha _ Ta x); [|assumption].
    cbn [subtypes]. right. apply in_or_app. now right.
  - exists ty. split; [|assumption]. apply Oracles_proofs.SortHere. cbn. now left.
  - exists ty. split; [|assumption]. apply Oracles_proofs.SortHere. cbn. now left.
  - cbn [subtypes] in Hx. destruct Hx as [<-|Hx]; [discriminate Hc|]. apply in_app_or in Hx. destruct Hx as [Hx|Hx].
    + exists it. split; [|assumption]. apply Oracles_proofs.SortHere. cbn. now left.
    + destruct args as [|a0 rest]; [discriminate E|]. cbn [tcs] in E. destruct (tc a0) as [t0|] eqn:E0; [|discriminate].
      destruct (tcs rest); [|discriminate]. injection E as <- <-.
      apply (LIFT a0 (or_introl eq_refl)). exact (IH a0 (or_introl eq_refl) t0 E0 x Hx Hc).
Qed.

Lemma need_reported s t : need s t -> forall x, In x (subtypes s) -> is_custom x = true -> reported x t.
Proof.
  induction 1 as [t Ho | it d rest -> | o args a Ha _ IH Hl]; intros x Hx Hc.
  - exists s. split; assumption.
  - unfold array_value_type in Hx. destruct (tc d) as [e|] eqn:Ed; cbn [subtypes] in Hx;
      (destruct Hx as [<-|Hx]; [discriminate Hc|]); apply in_app_or in Hx; destruct Hx as [Hx|Hx].
    + exists it. split; [|assumption]. apply Oracles_proofs.SortHere. cbn. now left.
    + apply (reported_arg (OArrayValue it) (d :: rest) d x (or_introl eq_refl) eq_refl). exact (tc_reported d e Ed x Hx Hc).
    + exists it. split; [|assumption]. apply Oracles_proofs.SortHere. cbn. now left.
    + cbn in Hx. destruct Hx as [<-|[]]. discriminate Hc.
  - apply (reported_arg o args a x Ha Hl). now apply IH.
Qed.

(* the sorts in the declaration of a free symbol occur in the formula *)
Lemma free_sorts v t : free_in v t -> (exists ty, tc t = Some ty) ->
  match snd v with
  | TFun ps r => Forall (fun s => sort_occurs s t) (r :: ps) \/ sort_occurs (TFun ps r) t
  | ty => sort_occurs ty t
  end.
Proof.
  induction 1 as [n ty args -> | n ty args -> | o args a Ha Hf IH Ho]; intros (ty0 & Ty0); cbn [snd].
  - assert (O : sort_occurs ty (T (OSymbol n ty) args)) by (apply Oracles_proofs.SortHere; cbn; now left).
    destruct ty; auto.
  - rewrite tc_tcs in Ty0. destruct (tcs args); [|discriminate]. cbn [tc_rule] in Ty0. destruct ty; try discriminate Ty0.
    left. rewrite Forall_forall. intros s Hs. apply Oracles_proofs.SortHere. exact Hs.
  - assert (Ta : exists ta, tc a = Some ta).
    { rewrite tc_tcs in Ty0. destruct (tcs args) as [tys|] eqn:E; [|discriminate].
      pose proof (tcs_args_typed args tys E) as F. rewrite Forall_forall in F. now apply F. }
    specialize (IH Ta).
    assert (Hl : leaf_op o = false) by (destruct o; try reflexivity; contradiction).
    destruct (snd v); try (now apply (occurs_arg o args a)).
    destruct IH as [IH|IH]; [left | right; now apply (occurs_arg o args a)].
    rewrite Forall_forall in *. intros s Hs. apply (occurs_arg o args a); auto.
Qed.

Lemma assoc_nodup {A} n (v : A) (l : list (string * A)) : NoDup (map fst l) -> In (n, v) l -> assoc n l = Some v.
Proof.
  induction l as [|[k w] l IH]; cbn; intros HN H; [contradiction|]. inversion HN as [|? ? Hni HN']; subst.
  destruct H as [[= -> ->]|H]; [now rewrite String.eqb_refl|].
  destruct (String.eqb_spec n k) as [->|]; [|now apply IH].
  exfalso. apply Hni. change k with (fst (k, v)). now apply in_map.
Qed.
Lemma decl_eqb_eq a b : decl_eqb a b = true <-> a = b.
Proof.
  destruct a as [n1 k1], b as [n2 k2]. unfold decl_eqb. cbn. rewrite andb_true_iff, String.eqb_eq, Nat.eqb_eq.
  split; [intros [-> ->]; reflexivity | intros [= -> ->]; auto].
Qed.

Section Complete.
  Variable t : term.
  Hypothesis HSd : Forall sort_decl_ok (sort_decls t).
  Hypothesis HSn : NoDup (map fst (sort_decls t)).

  (* TypesOracle completeness, in the form the script needs: a reported custom sort is declared *)
  Lemma reported_declared n args : reported (TUser n args) t ->
    sort_decl_ok (n, List.length args) /\ assoc n (sg_sorts (script_sig t)) = Some (List.length args).
  Proof.
    intros Hr. assert (Hin : In (n, List.length args) (sort_decls t)).
    { unfold sort_decls. apply (Sets_proofs.dedupe_In decl_eqb decl_eqb_eq).
      apply in_map_iff. exists (TUser n args). split; [reflexivity|]. unfold custom_types. apply filter_In. split; [|reflexivity].
      now apply Oracles_proofs.get_types_def. }
    split; [rewrite Forall_forall in HSd; now apply HSd|].
    cbn [script_sig sg_sorts]. apply assoc_nodup; [rewrite map_rev; now apply NoDup_rev | now apply -> in_rev].
  Qed.

  (* ... hence every well-formed sort that has to be read reads back over the declared signature *)
  Theorem needed_sorts_read_back s : need s t -> sort_wf s -> rb (script_sig t) s.
  Proof.
    intros Hn Hw. apply rb_declared; [assumption|]. intros n args Hx. apply reported_declared.
    exact (need_reported s t Hn _ Hx eq_refl).
  Qed.
End Complete.

(* the readback facts wfp / srt / the declarations ask for *)
Definition rbs (t : term) : Prop := forall s, need s t -> rb (script_sig t) s.

(* FULL STATEMENT as before.  Side conditions now: names (logic, sorts, symbols) read back and are
   pairwise distinct; function symbols have parameters; every sort to be read is well-formed
   (positive widths, no function sort inside); the formula is Bool-typed and satisfies the per-node
   conditions of wfp and srt - stated as `wfp / srt hold as soon as the needed sorts read back',
   which this theorem PROVES they do (TypesOracle completeness). *)
Theorem script_wellformed : forall dag logic t,
  sym_name logic <> None ->
  Forall sort_decl_ok (sort_decls t) -> NoDup (map fst (sort_decls t)) ->
  Forall (fun v : var => good_name (fst v) = true /\ match snd v with TFun ps _ => ps <> [] | _ => True end) (fv t) ->
  NoDup (map fst (fv t)) ->
  (forall s, need s t -> sort_wf s) ->
  (rbs t -> wfp (script_sig t) [] t) -> (rbs t -> srt (script_sig t) t) -> tc t = Some TBool ->
  std_script_ok (script_of dag logic t) = true.
Proof.
  intros dag logic t HL HSd HSn HF HFn HWf HW HS HT.
  assert (R : rbs t) by (intros s Hs; apply needed_sorts_read_back; auto).
  apply script_wellformed_partial; auto.
  rewrite Forall_forall in *. intros [n ty] Hv. destruct (HF _ Hv) as [Hg Hshape]. split; [exact Hg|]. cbn [fst snd] in *.
  pose proof (free_sorts (n, ty) t (proj1 (Oracles_proofs.fv_def t (n, ty)) Hv) (ex_intro _ TBool HT)) as FS. cbn [snd] in FS.
  destruct ty; try (apply R; now apply NeedOcc).
  destruct FS as [FS|FS]; [|exfalso; exact (HWf _ (NeedOcc _ _ FS))].
  inversion FS as [|? ? Hr Hps]; subst. split; [assumption|]. split.
  - rewrite Forall_forall in *. intros p Hp. apply R. apply NeedOcc. now apply Hps.
  - apply R. now apply NeedOcc.
Qed.

Example ex_term4_script_hyps :
  Forall (fun v : var => good_name (fst v) = true /\ match snd v with TFun ps _ => ps <> [] | _ => True end) (fv ex_term4) /\
  (rbs ex_term4 -> wfp (script_sig ex_term4) [] ex_term4) /\ (rbs ex_term4 -> srt (script_sig ex_term4) ex_term4).
Proof.
  destruct ex_term4_hyps as (_ & _ & _ & _ & _ & HW & HS & _).
  split; [repeat constructor|]. split; intros _; assumption.
Qed.

(* ========================================================================= one statement *)
(* Under ONE set of hypotheses, both printers: the text is well-sorted at the sort of the formula
   and has, under every well-formed interpretation, the value of the formula. *)
Theorem print_wellsorted_and_sound : forall Sg I t ty,
  wfp Sg [] t -> srt Sg t -> tc t = Some ty -> wf_interp I ->
  (std_sort Sg (print_tree t) = Some ty /\ std_eval Sg I (print_tree t) = Some (eval I t)) /\
  (std_sort Sg (print_dag t) = Some ty /\ std_eval Sg I (print_dag t) = Some (eval I t)).
Proof.
  intros Sg I t ty HW HS HT HI. assert (BG : bound_good []) by (intros n ty' H; discriminate H).
  split; split.
  - exact (print_tree_sorted_gen Sg t [] ty HW HS HT BG).
  - now apply print_tree_sound_partial.
  - apply (print_dag_sorted_gen Sg (tsize t) t (Nat.le_refl _) [] [] ty HW HS HT BG). reflexivity.
  - now apply print_dag_sound_partial.
Qed.
