(* C10, TimesDistributor: on sums / differences / products over leaves that denote integers
   (resp. reals), the rewritten term has the value of the input.  One development over an
   abstract commutative rg embedded in [value], instantiated with Z and R. *)
From Coq Require Import List ZArith Bool String Reals Ring Lia.
From PySMT.core Require Import Syntax SyntaxLemmas Sem.
From PySMT.models Require Import TypeChecker C10Local TimesDist.
Import ListNotations.
Open Scope bool_scope.

Section RingValued.
  Variable A : Type.
  Variables (zero one : A) (add mul sub : A -> A -> A) (opp : A -> A).
  Hypothesis Ath : ring_theory zero one add mul sub opp (@eq A).
  Add Ring Aring : Ath.
  Variable inj : A -> value.
  Hypothesis inj_inj : forall x y, inj x = inj y -> x = y.
  Hypothesis inj_not_false : forall z, inj z <> VBool false.
  Hypothesis vadd_inj : forall x y, vadd (inj x) (inj y) = inj (add x y).
  Hypothesis vmul_inj : forall x y, vmul (inj x) (inj y) = inj (mul x y).
  Hypothesis vsub_inj : forall x y, vsub (inj x) (inj y) = inj (sub x y).
  Hypothesis vadd_inv : forall a b z, vadd a b = inj z -> exists x y, a = inj x /\ b = inj y.
  Variable I : interp.
  Variable real : bool.
  Hypothesis m1_val : eval I (minus_one real) = inj (opp one).

  Fixpoint sumA (l : list A) : A := match l with [] => zero | x :: r => add x (sumA r) end.
  Fixpoint prodA (l : list A) : A := match l with [] => one | x :: r => mul x (prodA r) end.
  Definition vals (l : list term) (zs : list A) : Prop := map (eval I) l = map inj zs.
  Ltac rg := cbn [sumA prodA map app]; try ring.

  Lemma fold_vadd zs : forall z0, fold_left vadd (map inj zs) (inj z0) = inj (add z0 (sumA zs)).
  Proof.
    induction zs as [|z zs IH]; intros z0; cbn.
    - f_equal. rg.
    - rewrite vadd_inj, IH. f_equal. rg.
  Qed.
  Lemma fold_vmul zs : forall z0, fold_left vmul (map inj zs) (inj z0) = inj (mul z0 (prodA zs)).
  Proof.
    induction zs as [|z zs IH]; intros z0; cbn.
    - f_equal. rg.
    - rewrite vmul_inj, IH. f_equal. rg.
  Qed.

  Lemma eval_plus_vals l zs : l <> [] -> vals l zs -> eval I (T OPlus l) = inj (sumA zs).
  Proof.
    unfold vals. intros Hl H. destruct l as [|x r]; [congruence|]. destruct zs as [|z zs]; [discriminate|].
    cbn [map] in H. injection H as Hx Hr. cbn [eval op_sem map]. rewrite Hx, Hr, fold_vadd. reflexivity.
  Qed.
  Lemma eval_times_vals l zs : l <> [] -> vals l zs -> eval I (T OTimes l) = inj (prodA zs).
  Proof.
    unfold vals. intros Hl H. destruct l as [|x r]; [congruence|]. destruct zs as [|z zs]; [discriminate|].
    cbn [map] in H. injection H as Hx Hr. cbn [eval op_sem map]. rewrite Hx, Hr, fold_vmul. reflexivity.
  Qed.
  Lemma eval_mk_plus_vals l zs : l <> [] -> vals l zs -> eval I (mk_plus l) = inj (sumA zs).
  Proof.
    intros Hl H. destruct l as [|x [|y r]]; [congruence| |now apply eval_plus_vals].
    unfold vals in H. destruct zs as [|z [|z' zs]]; try discriminate. cbn in H. injection H as Hx.
    cbn [mk_plus]. rewrite Hx. f_equal. cbn. rg.
  Qed.
  Lemma eval_mk_times_vals l zs : l <> [] -> vals l zs -> eval I (mk_times l) = inj (prodA zs).
  Proof.
    intros Hl H. destruct l as [|x [|y r]]; [congruence| |now apply eval_times_vals].
    unfold vals in H. destruct zs as [|z [|z' zs]]; try discriminate. cbn in H. injection H as Hx.
    cbn [mk_times]. rewrite Hx. f_equal. cbn. rg.
  Qed.

  (* a sum that denotes a rg element has only rg-valued summands *)
  Lemma fold_vadd_inv : forall vs a z, fold_left vadd vs a = inj z ->
    exists z0 zs, a = inj z0 /\ vs = map inj zs /\ z = add z0 (sumA zs).
  Proof.
    induction vs as [|b vs IH]; intros a z H; cbn in H.
    - exists z, []. repeat split; auto. cbn. rg.
    - destruct (IH _ _ H) as (z1 & zs & H1 & H2 & H3).
      destruct (vadd_inv _ _ _ H1) as (x & y & -> & ->). rewrite vadd_inj in H1. apply inj_inj in H1.
      exists x, (y :: zs). repeat split; auto; [cbn; now rewrite H2|]. subst. cbn. rg.
  Qed.

  Lemma plus_args_vals u z : eval I u = inj z -> exists zs, vals (plus_args u) zs /\ z = sumA zs /\ plus_args u <> [].
  Proof.
    intros H. destruct u as [o l].
    assert (D : forall zs0, (vals [T o l] zs0 /\ z = sumA zs0 /\ [T o l] <> []) -> exists zs, vals [T o l] zs /\ z = sumA zs /\ [T o l] <> []) by eauto.
    assert (S : vals [T o l] [z] /\ z = sumA [z] /\ [T o l] <> []).
    { repeat split; [unfold vals; cbn [map]; now rewrite H | rg | discriminate]. }
    destruct o; try (apply (D [z]); exact S).
    cbn [plus_args]. destruct l as [|x r].
    - cbn in H. exfalso. symmetry in H. now apply inj_not_false in H.
    - cbn [eval op_sem map] in H. destruct (fold_vadd_inv _ _ _ H) as (z0 & zs & H1 & H2 & H3).
      exists (z0 :: zs). repeat split; [unfold vals; cbn; now rewrite H1, H2 | exact H3 | discriminate].
  Qed.

  Lemma vals_app l1 l2 z1 z2 : vals l1 z1 -> vals l2 z2 -> vals (l1 ++ l2) (z1 ++ z2).
  Proof. unfold vals. intros H1 H2. now rewrite !map_app, H1, H2. Qed.
  Lemma sumA_app l1 l2 : sumA (l1 ++ l2) = add (sumA l1) (sumA l2).
  Proof. induction l1 as [|x l1 IH]; cbn; [rg | rewrite IH; rg]. Qed.

  Lemma sumA_map_opp zs : sumA (map (fun z => mul (opp one) z) zs) = opp (sumA zs).
  Proof. induction zs as [|z zs IH]; cbn [sumA map]; [ring | rewrite IH; ring]. Qed.

  (* ---- products of sums ---- *)
  Fixpoint productA (ls : list (list A)) : list (list A) :=
    match ls with
    | [] => [[]]
    | l :: r => flat_map (fun x => map (cons x) (productA r)) l
    end.

  Lemma sumA_map_cons x ps : sumA (map prodA (map (cons x) ps)) = mul x (sumA (map prodA ps)).
  Proof. induction ps as [|p ps IH]; cbn; [rg | rewrite IH; rg]. Qed.
  Lemma distribute ls : sumA (map prodA (productA ls)) = prodA (map sumA ls).
  Proof.
    induction ls as [|l ls IH]; cbn; [rg|].
    induction l as [|x l IHl]; cbn; [rg|].
    rewrite map_app, sumA_app, sumA_map_cons, IHl, IH. rg.
  Qed.

  Lemma product_vals : forall ls zss, Forall2 vals ls zss ->
    Forall2 vals (product ls) (productA zss).
  Proof.
    induction 1 as [|l zs ls zss Hl Hr IH]; cbn; [constructor; [reflexivity | constructor]|].
    revert zs Hl. induction l as [|x l IHl]; intros zs Hl; destruct zs as [|z zs]; try discriminate; cbn; [constructor|].
    unfold vals in Hl. cbn in Hl. injection Hl as Hx Hl.
    apply Forall2_app; [|apply IHl; exact Hl].
    clear IHl. induction IH as [|p ps P PS Hp _ IHp]; cbn; constructor; auto.
    unfold vals in *. cbn. now rewrite Hx, Hp.
  Qed.
  Lemma product_nonempty ls : Forall (fun l => l <> []) ls -> product ls <> [] /\ Forall (fun p => List.length p = List.length ls) (product ls).
  Proof.
    induction 1 as [|l ls Hl Hr [IH1 IH2]]; cbn; [split; [discriminate | repeat constructor]|].
    split.
    - destruct l as [|x l]; [congruence|]. cbn. destruct (product ls); [congruence | discriminate].
    - apply Forall_forall. intros p Hp. apply in_flat_map in Hp. destruct Hp as (x & _ & Hp).
      apply in_map_iff in Hp. destruct Hp as (q & <- & Hq). rewrite Forall_forall in IH2. cbn. f_equal. now apply IH2.
  Qed.

  Lemma Forall2_map_vals (ps : list (list term)) (zss : list (list A)) :
    Forall2 vals ps zss -> Forall (fun p => p <> []) ps -> vals (map mk_times ps) (map prodA zss).
  Proof.
    induction 1 as [|p zs ps zss Hp _ IH]; intros Hne; [reflexivity|].
    inversion Hne as [|? ? Hp1 Hne']; subst. unfold vals in *. cbn. rewrite IH by auto. f_equal.
    now apply eval_mk_times_vals.
  Qed.

  (* ---- the fragment's semantic side condition: every leaf denotes a rg element under I and
          every Minus node gets the matching -1 ---- *)
  Fixpoint kinded (t : term) : Prop :=
    match t with
    | T OPlus l | T OTimes l =>
        (fix all (l : list term) : Prop := match l with [] => True | x :: r => kinded x /\ all r end) l
    | T OMinus [a; b] => kinded a /\ kinded b /\ is_real_ty (tc t) = real
    | _ => exists z, eval I t = inj z
    end.

  Lemma kinded_all l :
    (fix all (l : list term) : Prop := match l with [] => True | x :: r => kinded x /\ all r end) l -> Forall kinded l.
  Proof. induction l as [|x r IH]; intros H; constructor; destruct H; auto. Qed.

  Definition td_inv (t : term) : Prop := exists z, eval I t = inj z /\ eval I (td t) = inj z.

  Lemma args_inv l : Forall td_inv l ->
    exists zs, vals l zs /\ vals (map td l) zs.
  Proof.
    induction 1 as [|x r (z & H1 & H2) _ (zs & IH1 & IH2)]; [exists []; split; reflexivity|].
    exists (z :: zs). unfold vals in *. cbn. now rewrite H1, H2, IH1, IH2.
  Qed.

  Lemma plus_args_list : forall l zs, vals l zs ->
    exists zss, Forall2 vals (map plus_args l) zss /\ zs = map sumA zss /\ Forall (fun p => p <> []) (map plus_args l).
  Proof.
    induction l as [|u l IH]; intros zs H; destruct zs as [|z zs]; try discriminate.
    - exists []. repeat split; constructor.
    - unfold vals in H. cbn in H. injection H as Hu Hl. destruct (IH zs Hl) as (zss & F & E & N).
      destruct (plus_args_vals u z Hu) as (zu & Vu & Eu & Nu).
      exists (zu :: zss). repeat split; cbn; [constructor; auto | now rewrite Eu, E | constructor; auto].
  Qed.
  Lemma concat_vals : forall ls zss, Forall2 vals ls zss -> vals (List.concat ls) (List.concat zss).
  Proof. induction 1; cbn; [reflexivity | now apply vals_app]. Qed.
  Lemma sumA_concat zss : sumA (List.concat zss) = sumA (map sumA zss).
  Proof. induction zss as [|l r IH]; cbn; auto. now rewrite sumA_app, IH. Qed.
  Lemma concat_nonempty (ls : list (list term)) : ls <> [] -> Forall (fun p => p <> []) ls -> List.concat ls <> [].
  Proof. intros H F. destruct ls as [|l r]; [congruence|]. inversion F; subst. cbn. destruct l; [congruence | discriminate]. Qed.

  Theorem td_correct : forall t, arith t = true -> kinded t -> td_inv t.
  Proof.
    induction t as [o args IH] using term_ind'. intros Ha Hk.
    assert (Leaf : (exists z, eval I (T o args) = inj z) -> term_eqb (td (T o args)) (T o args) = true -> td_inv (T o args)).
    { intros (z & Hz) E. apply term_eqb_eq in E. exists z. rewrite E. auto. }
    destruct o; try (apply Leaf; [exact Hk | exact Ha]).
    - (* plus *)
      destruct args as [|a0 args0]; [discriminate|]. set (args := a0 :: args0) in *.
      assert (Hall : Forall td_inv args).
      { apply kinded_all in Hk. rewrite Forall_forall in IH, Hk |- *. intros a Hin. apply IH; auto.
        cbn in Ha. apply andb_true_iff in Ha. destruct Ha as [Ha0 Har]. destruct Hin as [<-|Hin]; auto.
        rewrite forallb_forall in Har. auto. }
      destruct (args_inv _ Hall) as (zs & V1 & V2).
      destruct (plus_args_list _ _ V2) as (zss & F & E & N).
      exists (sumA zs). split; [apply eval_plus_vals; [discriminate | exact V1]|].
      cbn [td]. unfold td_plus. rewrite flat_map_concat_map.
      rewrite (eval_mk_plus_vals _ (List.concat zss)); [now rewrite sumA_concat, E | | now apply concat_vals].
      apply concat_nonempty; auto. discriminate.
    - (* minus *)
      destruct args as [|a [|b [|c r]]]; try discriminate.
      cbn in Ha. apply andb_true_iff in Ha. destruct Ha as [Ha Hb]. destruct Hk as (Ka & Kb & Kt).
      inversion IH as [|? ? IHa IH1]; subst. inversion IH1 as [|? ? IHb _]; subst.
      destruct (IHa Ha Ka) as (za & A1 & A2). destruct (IHb Hb Kb) as (zb & B1 & B2).
      exists (sub za zb). split; [cbn [eval op_sem map]; now rewrite A1, B1, vsub_inj|].
      cbn [td]. rewrite Kt. unfold td_minus.
      destruct (plus_args_vals _ _ A2) as (zas & VA & EA & NA). destruct (plus_args_vals _ _ B2) as (zbs & VB & EB & NB).
      rewrite (eval_mk_plus_vals _ (zas ++ map (fun z => mul (opp one) z) zbs)).
      + f_equal. rewrite sumA_app, EA, EB, sumA_map_opp. ring.
      + destruct (plus_args (td a)); [congruence | discriminate].
      + apply vals_app; auto. unfold vals in *. rewrite !map_map.
        clear - VB m1_val vmul_inj. revert zbs VB. induction (plus_args (td b)) as [|x l IHl]; intros zbs VB; destruct zbs as [|z zbs]; try discriminate; [reflexivity|].
        cbn in VB. injection VB as Hx Hl. cbn [map]. rewrite (IHl zbs Hl). f_equal.
        cbn [eval op_sem map fold_left]. rewrite m1_val, Hx. apply vmul_inj.
    - (* times *)
      destruct args as [|a0 args0]; [discriminate|]. set (args := a0 :: args0) in *.
      assert (Hall : Forall td_inv args).
      { apply kinded_all in Hk. rewrite Forall_forall in IH, Hk |- *. intros a Hin. apply IH; auto.
        cbn in Ha. apply andb_true_iff in Ha. destruct Ha as [Ha0 Har]. destruct Hin as [<-|Hin]; auto.
        rewrite forallb_forall in Har. auto. }
      destruct (args_inv _ Hall) as (zs & V1 & V2).
      exists (prodA zs). split; [apply eval_times_vals; [discriminate | exact V1]|].
      cbn [td]. unfold td_times. destruct (existsb is_plus (map td args)).
      + destruct (plus_args_list _ _ V2) as (zss & F & E & N).
        pose proof (product_vals _ _ F) as PV. destruct (product_nonempty _ N) as [PN PL].
        rewrite (eval_mk_plus_vals _ (map prodA (productA zss))).
        * now rewrite distribute, E.
        * destruct (product (map plus_args (map td args))); [congruence | discriminate].
        * apply Forall2_map_vals; auto. eapply Forall_impl; [|exact PL]. intros p Hp Hn. subst p. discriminate.
      + apply eval_mk_times_vals; [discriminate | exact V2].
  Qed.

  Theorem td_equiv_ring t : arith t = true -> kinded t -> eval I (td t) = eval I t.
  Proof. intros Ha Hk. destruct (td_correct t Ha Hk) as (z & H1 & H2). congruence. Qed.
End RingValued.

(* ---------------------------------------------------------------- instances *)
Definition kinded_int (I : interp) (t : term) : Prop := kinded Z VInt I false t.
Definition kinded_real (I : interp) (t : term) : Prop := kinded R VReal I true t.

(* C10, TimesDistributor, Int-valued terms *)
Theorem td_equiv_int I t : arith t = true -> kinded_int I t -> eval I (td t) = eval I t.
Proof.
  apply (td_equiv_ring Z 0%Z 1%Z Z.add Z.mul Z.sub Z.opp InitialRing.Zth VInt).
  - intros x y H. now injection H.
  - intros z H. discriminate.
  - reflexivity.
  - reflexivity.
  - reflexivity.
  - intros a b z H. destruct a, b; cbn in H; try discriminate. eauto.
  - reflexivity.
Qed.

(* C10, TimesDistributor, Real-valued terms *)
Theorem td_equiv_real I t : arith t = true -> kinded_real I t -> eval I (td t) = eval I t.
Proof.
  apply (td_equiv_ring R 0%R 1%R Rplus Rmult Rminus Ropp RTheory VReal).
  - intros x y H. now injection H.
  - intros z H. discriminate.
  - reflexivity.
  - reflexivity.
  - reflexivity.
  - intros a b z H. destruct a, b; cbn in H; try discriminate. eauto.
  - cbn. unfold Q2R'. f_equal. change (IZR (-1)) with (- 1)%R. field.
Qed.

Open Scope string_scope.
Example td_example :
  let x := TSym "x" TInt in let y := TSym "y" TInt in
  let t := T OTimes [T OPlus [x; TIntC 1]; T OMinus [y; TIntC 1]] in
  arith t = true /\
  td t = T OPlus [T OTimes [x; y]; T OTimes [x; T OTimes [TIntC (-1); TIntC 1]];
                  T OTimes [TIntC 1; y]; T OTimes [TIntC 1; T OTimes [TIntC (-1); TIntC 1]]].
Proof. split; reflexivity. Qed.
Example td_example_kinded I : wf_interp I ->
  kinded_int I (T OTimes [T OPlus [TSym "x" TInt; TIntC 1]; T OMinus [TSym "y" TInt; TIntC 1]]).
Proof.
  intros [H _]. pose proof (H "x" TInt) as Hx. pose proof (H "y" TInt) as Hy. cbn in Hx, Hy.
  unfold kinded_int. cbn. destruct (isym I "x" TInt) eqn:Ex; try contradiction. destruct (isym I "y" TInt) eqn:Ey; try contradiction.
  repeat split; eauto.
Qed.
