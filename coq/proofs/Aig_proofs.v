(* C10, AIG: the model of AIGer preserves the value of every formula under every interpretation
   and produces only And / Not (and quantifiers) above atoms. *)
From Coq Require Import List ZArith Bool String Reals.
From PySMT.core Require Import Syntax SyntaxLemmas Sem.
From PySMT.models Require Import Oracles TypeChecker C10Local Aig.
From PySMT.proofs Require Import Coincidence C10Local_proofs.
Import ListNotations.
Open Scope bool_scope.
Open Scope string_scope.

(* Truth-value form: for EVERY term and EVERY interpretation (atoms arbitrary). *)
Lemma aig_tv : forall t I, tv I (aig t) = tv I t.
Proof.
  induction t as [o args IH] using term_ind'. intros I.
  destruct o; try reflexivity.
  - (* forall *) destruct args as [|b [|c r]]; try reflexivity. inversion IH as [|? ? IHb _]; subst.
    cbn [aig]. apply tv_forall_congr. intros xs _. apply IHb.
  - destruct args as [|b [|c r]]; try reflexivity. inversion IH as [|? ? IHb _]; subst.
    cbn [aig]. apply tv_exists_congr. intros xs _. apply IHb.
  - (* and *) cbn [aig]. rewrite tv_mk_and, tv_and, forallb_map. apply forallb_ext_Forall.
    eapply Forall_impl; [|exact IH]. intros a Ha. apply Ha.
  - (* or *) cbn [aig]. rewrite tv_mk_not, tv_mk_and, tv_or, forallb_map.
    rewrite (forallb_ext_Forall _ (fun x => negb (tv I x))).
    + rewrite forallb_negb_existsb. apply negb_involutive.
    + eapply Forall_impl; [|exact IH]. intros a Ha. cbn beta. now rewrite tv_mk_not, Ha.
  - (* not *) destruct args as [|a [|c r]]; try reflexivity. inversion IH as [|? ? IHa _]; subst.
    cbn [aig]. now rewrite tv_mk_not, IHa, tv_not.
  - (* implies *) destruct args as [|a [|b [|c r]]]; try reflexivity.
    inversion IH as [|? ? IHa IH1]; subst. inversion IH1 as [|? ? IHb _]; subst.
    cbn [aig]. rewrite tv_mk_not, tv_and. cbn [forallb]. rewrite tv_mk_not, IHa, IHb, tv_implies.
    destruct (tv I a), (tv I b); reflexivity.
  - (* iff *) destruct args as [|a [|b [|c r]]]; try reflexivity.
    inversion IH as [|? ? IHa IH1]; subst. inversion IH1 as [|? ? IHb _]; subst.
    cbn [aig]. rewrite tv_and. cbn [forallb]. rewrite !tv_mk_not, !tv_and. cbn [forallb].
    rewrite !tv_mk_not, IHa, IHb, tv_iff. destruct (tv I a), (tv I b); reflexivity.
  - (* ite *) destruct args as [|i [|th [|el [|d r]]]]; try reflexivity.
    inversion IH as [|? ? IHi IH1]; subst. inversion IH1 as [|? ? IHt IH2]; subst.
    inversion IH2 as [|? ? IHe _]; subst.
    cbn [aig]. destruct (is_bool_ty (tc (aig th))); [|reflexivity].
    rewrite tv_and. cbn [forallb]. rewrite !tv_mk_not, !tv_and. cbn [forallb].
    rewrite !tv_mk_not, IHi, IHt, IHe, tv_ite. destruct (tv I i), (tv I th), (tv I el); reflexivity.
Qed.

Theorem aig_holds : forall t I, holds I (aig t) <-> holds I t.
Proof. intros t I. rewrite !holds_tv. now rewrite aig_tv. Qed.

Lemma aig_boolish : forall t, boolish t = true -> boolish (aig t) = true.
Proof.
  induction t as [o args IH] using term_ind'. intros H.
  destruct o; try exact H.
  - destruct args as [|b [|c r]]; cbn in H; try discriminate. inversion IH as [|? ? IHb _]; subst.
    cbn [aig]. apply boolish_mk_forall; auto.
  - destruct args as [|b [|c r]]; cbn in H; try discriminate. inversion IH as [|? ? IHb _]; subst.
    cbn [aig]. apply boolish_mk_exists; auto.
  - cbn in H. rewrite forallb_forall in H. rewrite Forall_forall in IH. cbn [aig].
    apply boolish_mk_and. rewrite forallb_map. apply forallb_forall. intros x Hx. apply IH; auto.
  - cbn in H. rewrite forallb_forall in H. rewrite Forall_forall in IH. cbn [aig].
    apply boolish_mk_not, boolish_mk_and. rewrite forallb_map. apply forallb_forall. intros x Hx.
    apply boolish_mk_not, IH; auto.
  - destruct args as [|a [|c r]]; cbn in H; try discriminate. inversion IH as [|? ? IHa _]; subst.
    cbn [aig]. apply boolish_mk_not; auto.
  - destruct args as [|a [|b [|c r]]]; cbn in H; try discriminate.
    apply andb_true_iff in H. destruct H as [Ha Hb].
    inversion IH as [|? ? IHa IH1]; subst. inversion IH1 as [|? ? IHb _]; subst.
    cbn [aig mk_not]. cbn [boolish forallb]. rewrite IHa, boolish_mk_not; auto.
  - destruct args as [|a [|b [|c r]]]; cbn in H; try discriminate.
    apply andb_true_iff in H. destruct H as [Ha Hb].
    inversion IH as [|? ? IHa IH1]; subst. inversion IH1 as [|? ? IHb _]; subst.
    cbn [aig mk_not]. cbn [boolish forallb]. rewrite IHa, IHb, !boolish_mk_not; auto.
  - destruct args as [|i [|th [|el [|d r]]]]; cbn in H; try discriminate.
    pose proof H as H0.
    apply andb_true_iff in H. destruct H as [H He]. apply andb_true_iff in H. destruct H as [Hi Ht].
    inversion IH as [|? ? IHi IH1]; subst. inversion IH1 as [|? ? IHt IH2]; subst.
    inversion IH2 as [|? ? IHe _]; subst.
    cbn [aig]. destruct (is_bool_ty (tc (aig th))); [|exact H0].
    cbn [mk_not]. cbn [boolish forallb]. rewrite IHi, !boolish_mk_not; auto.
Qed.

(* C10, AIG, semantic clause *)
Theorem aig_equiv : forall t I, wf_interp I -> boolish t = true -> eval I (aig t) = eval I t.
Proof.
  intros t I HI H. apply eval_eq_of_boolish; auto.
  - now apply aig_boolish.
  - apply aig_tv.
Qed.

(* ------------------------------------------------------------------ typing through tc *)
Fixpoint tcs (l : list term) : option (list ty) :=
  match l with
  | [] => Some []
  | x :: r => match tc x, tcs r with Some a, Some b => Some (a :: b) | _, _ => None end
  end.
Definition tc_go :=
  fix go (l : list term) : option (list ty) :=
    match l with
    | [] => Some []
    | x :: r => match tc x, go r with Some tx, Some tr => Some (tx :: tr) | _, _ => None end
    end.
Lemma tc_go_tcs l : tc_go l = tcs l.
Proof. induction l as [|x r IHl]; cbn; auto; try (rewrite <- IHl; reflexivity). Qed.
Lemma tc_unfold o args : tc (T o args) = match tcs args with Some tys => tc_rule o tys | None => None end.
Proof. rewrite <- tc_go_tcs. reflexivity. Qed.

Definition tcb (t : term) : bool := is_bool_ty (tc t).

Lemma tcs_all_bool l :
  match tcs l with Some tys => forallb (fun x => ty_eqb x TBool) tys | None => false end = forallb tcb l.
Proof.
  induction l as [|x r IHl]; cbn; auto. unfold tcb at 1.
  destruct (tc x) as [tx|]; cbn; [|reflexivity].
  destruct (tcs r) as [tr|]; cbn in *.
  - rewrite <- IHl. destruct tx; reflexivity.
  - rewrite <- IHl. destruct tx; reflexivity.
Qed.

Lemma tcb_nary o l : (o = OAnd \/ o = OOr) -> tcb (T o l) = forallb tcb l.
Proof.
  intros Ho. unfold tcb at 1. rewrite tc_unfold, <- tcs_all_bool.
  destruct (tcs l) as [tys|]; [|reflexivity].
  destruct Ho; subst o; cbn; unfold type_to_type; destruct (forallb _ tys); reflexivity.
Qed.
Lemma tcb_not a : tcb (T ONot [a]) = tcb a.
Proof.
  unfold tcb. rewrite tc_unfold. cbn. destruct (tc a) as [ta|]; [|reflexivity].
  cbn. unfold type_to_type. cbn. destruct ta; reflexivity.
Qed.
Lemma tcb_bin o a b : (o = OImplies \/ o = OIff) -> tcb (T o [a; b]) = tcb a && tcb b.
Proof.
  intros Ho. unfold tcb. rewrite tc_unfold. cbn. destruct (tc a) as [ta|]; [|reflexivity].
  destruct (tc b) as [tb|]; [|destruct Ho; subst o; cbn; now rewrite andb_false_r].
  destruct Ho; subst o; cbn; unfold type_to_type; cbn; destruct ta, tb; reflexivity.
Qed.
Lemma tcb_quant o b : (exists vs, o = OForall vs \/ o = OExists vs) -> tcb (T o [b]) = tcb b.
Proof.
  intros (vs & Ho). unfold tcb. rewrite tc_unfold. cbn. destruct (tc b) as [tb|]; [|reflexivity].
  destruct Ho; subst o; cbn; destruct tb; reflexivity.
Qed.
Lemma tcb_ite_inv i th el : tcb (T OIte [i; th; el]) = true -> tcb i = true /\ tcb th = true /\ tcb el = true.
Proof.
  unfold tcb. rewrite tc_unfold. cbn. destruct (tc i) as [ti|]; [|discriminate].
  destruct (tc th) as [tt|]; [|discriminate]. destruct (tc el) as [te|]; [|discriminate]. cbn.
  destruct (ty_eqb ti TBool) eqn:E1; [|discriminate]. destruct (ty_eqb tt te) eqn:E2; [|discriminate].
  cbn. apply ty_eqb_eq in E1, E2. subst. destruct te; try discriminate. auto.
Qed.
Lemma tcb_ite i th el : tcb i = true -> tcb th = true -> tcb el = true -> tcb (T OIte [i; th; el]) = true.
Proof.
  unfold tcb. rewrite tc_unfold. cbn. destruct (tc i) as [[]|]; try discriminate.
  destruct (tc th) as [[]|]; try discriminate. destruct (tc el) as [[]|]; try discriminate. reflexivity.
Qed.

Lemma tcb_mk_and l : forallb tcb l = true -> tcb (mk_and l) = true.
Proof.
  destruct l as [|x [|y r]]; cbn [mk_and]; auto.
  - cbn. now rewrite andb_true_r.
  - intros H. rewrite tcb_nary; auto.
Qed.
Lemma tcb_mk_not u : tcb u = true -> tcb (mk_not u) = true.
Proof.
  destruct u as [o args]. destruct o; try (intros H; cbn [mk_not]; now rewrite tcb_not).
  destruct args as [|x [|y r]]; try (intros H; cbn [mk_not]; now rewrite tcb_not).
  cbn [mk_not]. now rewrite tcb_not.
Qed.
Lemma tcb_mk_forall vs b : tcb b = true -> tcb (mk_forall vs b) = true.
Proof. destruct vs; auto. intros H. cbn [mk_forall]. rewrite tcb_quant; eauto. Qed.
Lemma tcb_mk_exists vs b : tcb b = true -> tcb (mk_exists vs b) = true.
Proof. destruct vs; auto. intros H. cbn [mk_exists]. rewrite tcb_quant; eauto. Qed.

(* AIGer keeps Boolean formulas Boolean for the type checker *)
Lemma aig_tcb : forall t, tcb t = true -> tcb (aig t) = true.
Proof.
  induction t as [o args IH] using term_ind'. intros H.
  destruct o; try exact H.
  - destruct args as [|b [|c r]]; try exact H. inversion IH as [|? ? IHb _]; subst.
    rewrite tcb_quant in H by eauto. cbn [aig]. apply tcb_mk_forall; auto.
  - destruct args as [|b [|c r]]; try exact H. inversion IH as [|? ? IHb _]; subst.
    rewrite tcb_quant in H by eauto. cbn [aig]. apply tcb_mk_exists; auto.
  - rewrite tcb_nary in H by auto. rewrite forallb_forall in H. rewrite Forall_forall in IH. cbn [aig].
    apply tcb_mk_and. rewrite forallb_map. apply forallb_forall. intros x Hx. apply IH; auto.
  - rewrite tcb_nary in H by auto. rewrite forallb_forall in H. rewrite Forall_forall in IH. cbn [aig].
    apply tcb_mk_not, tcb_mk_and. rewrite forallb_map. apply forallb_forall. intros x Hx.
    apply tcb_mk_not, IH; auto.
  - destruct args as [|a [|c r]]; try exact H. inversion IH as [|? ? IHa _]; subst.
    rewrite tcb_not in H. cbn [aig]. apply tcb_mk_not; auto.
  - destruct args as [|a [|b [|c r]]]; try exact H.
    rewrite tcb_bin in H by auto. apply andb_true_iff in H. destruct H as [Ha Hb].
    inversion IH as [|? ? IHa IH1]; subst. inversion IH1 as [|? ? IHb _]; subst.
    cbn [aig]. apply tcb_mk_not. rewrite tcb_nary by auto. cbn [forallb]. rewrite IHa, tcb_mk_not; auto.
  - destruct args as [|a [|b [|c r]]]; try exact H.
    rewrite tcb_bin in H by auto. apply andb_true_iff in H. destruct H as [Ha Hb].
    inversion IH as [|? ? IHa IH1]; subst. inversion IH1 as [|? ? IHb _]; subst.
    cbn [aig]. rewrite tcb_nary by auto. cbn [forallb].
    rewrite !tcb_mk_not; auto; rewrite tcb_nary by auto; cbn [forallb]; rewrite ?IHa, ?IHb, ?tcb_mk_not; auto.
  - destruct args as [|i [|th [|el [|d r]]]]; try exact H.
    destruct (tcb_ite_inv _ _ _ H) as (Hi & Ht & He).
    inversion IH as [|? ? IHi IH1]; subst. inversion IH1 as [|? ? IHt IH2]; subst.
    inversion IH2 as [|? ? IHe _]; subst.
    cbn [aig]. destruct (is_bool_ty (tc (aig th))); [|exact H].
    rewrite tcb_nary by auto. cbn [forallb].
    rewrite !tcb_mk_not; auto; rewrite tcb_nary by auto; cbn [forallb]; rewrite ?IHi, ?tcb_mk_not; auto.
Qed.

(* ------------------------------------------------------------------ shape *)
Lemma bool_atom_aig_atom o args : bool_atom_op o args = true -> aig_atom_op o = true.
Proof. destruct o; cbn; try discriminate; auto. Qed.
Lemma aig_shape_mk_and l : forallb aig_shape l = true -> aig_shape (mk_and l) = true.
Proof. destruct l as [|x [|y r]]; cbn [mk_and]; auto. cbn. now rewrite andb_true_r. Qed.
Lemma aig_shape_mk_not u : aig_shape u = true -> aig_shape (mk_not u) = true.
Proof.
  destruct u as [o args]. destruct o; auto. destruct args as [|x [|y r]]; auto.
Qed.
Lemma aig_shape_mk_forall vs b : aig_shape b = true -> aig_shape (mk_forall vs b) = true.
Proof. destruct vs; auto. Qed.
Lemma aig_shape_mk_exists vs b : aig_shape b = true -> aig_shape (mk_exists vs b) = true.
Proof. destruct vs; auto. Qed.

(* C10, AIG, shape clause: for every well-typed Boolean skeleton *)
Theorem aig_shape_thm : forall t, boolish t = true -> tcb t = true -> aig_shape (aig t) = true.
Proof.
  induction t as [o args IH] using term_ind'. intros H Ht.
  destruct o; try (cbn; apply (bool_atom_aig_atom _ _ H)).
  - destruct args as [|b [|c r]]; cbn in H; try discriminate. inversion IH as [|? ? IHb _]; subst.
    rewrite tcb_quant in Ht by eauto. cbn [aig]. apply aig_shape_mk_forall; auto.
  - destruct args as [|b [|c r]]; cbn in H; try discriminate. inversion IH as [|? ? IHb _]; subst.
    rewrite tcb_quant in Ht by eauto. cbn [aig]. apply aig_shape_mk_exists; auto.
  - cbn in H. rewrite tcb_nary in Ht by auto. rewrite forallb_forall in H, Ht. rewrite Forall_forall in IH.
    cbn [aig]. apply aig_shape_mk_and. rewrite forallb_map. apply forallb_forall. intros x Hx. apply IH; auto.
  - cbn in H. rewrite tcb_nary in Ht by auto. rewrite forallb_forall in H, Ht. rewrite Forall_forall in IH.
    cbn [aig]. apply aig_shape_mk_not, aig_shape_mk_and. rewrite forallb_map. apply forallb_forall.
    intros x Hx. apply aig_shape_mk_not, IH; auto.
  - destruct args as [|a [|c r]]; cbn in H; try discriminate. inversion IH as [|? ? IHa _]; subst.
    rewrite tcb_not in Ht. cbn [aig]. apply aig_shape_mk_not; auto.
  - destruct args as [|a [|b [|c r]]]; cbn in H; try discriminate.
    apply andb_true_iff in H. destruct H as [Ha Hb].
    rewrite tcb_bin in Ht by auto. apply andb_true_iff in Ht. destruct Ht as [Ta Tb].
    inversion IH as [|? ? IHa IH1]; subst. inversion IH1 as [|? ? IHb _]; subst.
    cbn [aig mk_not]. cbn [aig_shape forallb]. rewrite IHa, aig_shape_mk_not; auto.
  - destruct args as [|a [|b [|c r]]]; cbn in H; try discriminate.
    apply andb_true_iff in H. destruct H as [Ha Hb].
    rewrite tcb_bin in Ht by auto. apply andb_true_iff in Ht. destruct Ht as [Ta Tb].
    inversion IH as [|? ? IHa IH1]; subst. inversion IH1 as [|? ? IHb _]; subst.
    cbn [aig mk_not]. cbn [aig_shape forallb]. rewrite IHa, IHb, !aig_shape_mk_not; auto.
  - destruct args as [|i [|th [|el [|d r]]]]; cbn in H; try discriminate.
    apply andb_true_iff in H. destruct H as [H He]. apply andb_true_iff in H. destruct H as [Hi Hth].
    destruct (tcb_ite_inv _ _ _ Ht) as (Ti & Tt & Te).
    inversion IH as [|? ? IHi IH1]; subst. inversion IH1 as [|? ? IHt IH2]; subst.
    inversion IH2 as [|? ? IHe _]; subst.
    cbn [aig]. pose proof (aig_tcb th Tt) as Tt'. unfold tcb in Tt'. rewrite Tt'.
    cbn [mk_not]. cbn [aig_shape forallb]. rewrite IHi, !aig_shape_mk_not; auto.
Qed.

Example aig_example :
  let t := T OOr [T ONot [TSym "a" TBool]; T OIte [TSym "c" TBool; TSym "a" TBool; T OLt [TSym "x" TInt; TIntC 1]]] in
  boolish t = true /\ tcb t = true /\ aig_shape t = false /\ aig_shape (aig t) = true.
Proof. repeat split. Qed.
