(* C10, NNF: the model of NNFizer preserves the value of every formula under every
   interpretation; shape theorem. *)
From Coq Require Import List ZArith Bool String Reals.
From PySMT.core Require Import Syntax SyntaxLemmas Sem.
From PySMT.models Require Import Oracles C10Local Nnf.
From PySMT.proofs Require Import Coincidence C10Local_proofs.
Import ListNotations.
Open Scope bool_scope.
Open Scope string_scope.

Definition pol (pos b : bool) : bool := if pos then b else negb b.

Ltac nnf_default pos :=
  destruct pos; cbn [nnf_p pol]; [reflexivity | try apply tv_mk_not; reflexivity].

(* Truth-value form: for EVERY term (no fragment condition at all: atoms are arbitrary, nodes
   with a wrong number of arguments are left alone) and EVERY interpretation. *)
Lemma nnf_p_tv : forall t pos I, tv I (nnf_p pos t) = pol pos (tv I t).
Proof.
  induction t as [o args IH] using term_ind'. intros pos I.
  destruct o; try solve [nnf_default pos].
  - (* forall *)
    destruct args as [|b [|c r]]; try solve [nnf_default pos].
    inversion IH as [|? ? IHb _]; subst. destruct pos; cbn [nnf_p pol].
    + apply tv_forall_congr. intros xs _. apply (IHb true).
    + apply tv_exists_neg_congr. intros xs _. apply (IHb false).
  - (* exists *)
    destruct args as [|b [|c r]]; try solve [nnf_default pos].
    inversion IH as [|? ? IHb _]; subst. destruct pos; cbn [nnf_p pol].
    + apply tv_exists_congr. intros xs _. apply (IHb true).
    + apply tv_forall_neg_congr. intros xs _. apply (IHb false).
  - (* and *)
    destruct pos; cbn [nnf_p pol].
    + rewrite tv_mk_and, tv_and, forallb_map. apply forallb_ext_Forall.
      eapply Forall_impl; [|exact IH]. intros a Ha. apply (Ha true).
    + rewrite tv_mk_or, tv_and, existsb_map, <- existsb_negb_forallb. apply existsb_ext_Forall.
      eapply Forall_impl; [|exact IH]. intros a Ha. apply (Ha false).
  - (* or *)
    destruct pos; cbn [nnf_p pol].
    + rewrite tv_mk_or, tv_or, existsb_map. apply existsb_ext_Forall.
      eapply Forall_impl; [|exact IH]. intros a Ha. apply (Ha true).
    + rewrite tv_mk_and, tv_or, forallb_map, <- forallb_negb_existsb. apply forallb_ext_Forall.
      eapply Forall_impl; [|exact IH]. intros a Ha. apply (Ha false).
  - (* not *)
    destruct args as [|s [|c r]]; try solve [nnf_default pos].
    inversion IH as [|? ? IHs _]; subst. cbn [nnf_p]. rewrite IHs, tv_not.
    destruct pos; cbn; auto. now rewrite negb_involutive.
  - (* implies *)
    destruct args as [|a [|b [|c r]]]; try solve [nnf_default pos].
    inversion IH as [|? ? IHa IH1]; subst. inversion IH1 as [|? ? IHb _]; subst.
    destruct pos; cbn [nnf_p pol].
    + rewrite tv_mk_or, tv_implies. cbn [existsb]. rewrite (IHa false), (IHb true). cbn [pol].
      destruct (tv I a), (tv I b); reflexivity.
    + rewrite tv_mk_and, tv_implies. cbn [forallb]. rewrite (IHa true), (IHb false). cbn [pol].
      destruct (tv I a), (tv I b); reflexivity.
  - (* iff *)
    destruct args as [|a [|b [|c r]]]; try solve [nnf_default pos].
    inversion IH as [|? ? IHa IH1]; subst. inversion IH1 as [|? ? IHb _]; subst.
    destruct pos; cbn [nnf_p pol].
    + rewrite tv_and. cbn [forallb]. rewrite !tv_or. cbn [existsb].
      rewrite (IHa false), (IHb true), (IHb false), (IHa true), tv_iff. cbn [pol].
      destruct (tv I a), (tv I b); reflexivity.
    + rewrite tv_or. cbn [existsb]. rewrite !tv_and. cbn [forallb].
      rewrite (IHa false), (IHb true), (IHb false), (IHa true), tv_iff. cbn [pol].
      destruct (tv I a), (tv I b); reflexivity.
  - (* ite *)
    destruct args as [|i [|th [|el [|d r]]]]; try solve [nnf_default pos].
    inversion IH as [|? ? IHi IH1]; subst. inversion IH1 as [|? ? IHt IH2]; subst.
    inversion IH2 as [|? ? IHe _]; subst.
    destruct pos; cbn [nnf_p pol].
    + rewrite tv_and. cbn [forallb]. rewrite !tv_or. cbn [existsb].
      rewrite (IHi false), (IHi true), (IHt true), (IHe true), tv_ite. cbn [pol].
      destruct (tv I i), (tv I th), (tv I el); reflexivity.
    + rewrite tv_and. cbn [forallb]. rewrite !tv_or. cbn [existsb].
      rewrite (IHi false), (IHi true), (IHt false), (IHe false), tv_ite. cbn [pol].
      destruct (tv I i), (tv I th), (tv I el); reflexivity.
Qed.

Theorem nnf_holds : forall t I, holds I (nnf t) <-> holds I t.
Proof. intros t I. rewrite !holds_tv. unfold nnf. now rewrite nnf_p_tv. Qed.

(* the skeleton stays a skeleton *)
Lemma bool_atom_not_not o args : bool_atom_op o args = true -> mk_not (T o args) = T ONot [T o args].
Proof. destruct o; cbn; try discriminate; reflexivity. Qed.

Lemma nnf_p_boolish : forall t pos, boolish t = true -> boolish (nnf_p pos t) = true.
Proof.
  induction t as [o args IH] using term_ind'. intros pos H.
  destruct o;
    try solve [destruct pos; cbn [nnf_p]; [exact H | rewrite bool_atom_not_not by exact H; exact H]].
  - destruct args as [|b [|c r]]; cbn in H; try discriminate.
    inversion IH as [|? ? IHb _]; subst.
    destruct pos; cbn [nnf_p]; [apply boolish_mk_forall | apply boolish_mk_exists]; auto.
  - destruct args as [|b [|c r]]; cbn in H; try discriminate.
    inversion IH as [|? ? IHb _]; subst.
    destruct pos; cbn [nnf_p]; [apply boolish_mk_exists | apply boolish_mk_forall]; auto.
  - cbn in H. rewrite forallb_forall in H. rewrite Forall_forall in IH.
    destruct pos; cbn [nnf_p]; [apply boolish_mk_and | apply boolish_mk_or];
      rewrite forallb_map; apply forallb_forall; intros x Hx; apply IH; auto.
  - cbn in H. rewrite forallb_forall in H. rewrite Forall_forall in IH.
    destruct pos; cbn [nnf_p]; [apply boolish_mk_or | apply boolish_mk_and];
      rewrite forallb_map; apply forallb_forall; intros x Hx; apply IH; auto.
  - destruct args as [|s [|c r]]; cbn in H; try discriminate.
    inversion IH as [|? ? IHs _]; subst. cbn [nnf_p]. auto.
  - destruct args as [|a [|b [|c r]]]; cbn in H; try discriminate.
    apply andb_true_iff in H. destruct H as [Ha Hb].
    inversion IH as [|? ? IHa IH1]; subst. inversion IH1 as [|? ? IHb _]; subst.
    destruct pos; cbn [nnf_p mk_or mk_and]; cbn [boolish forallb]; rewrite IHa, IHb; auto.
  - destruct args as [|a [|b [|c r]]]; cbn in H; try discriminate.
    apply andb_true_iff in H. destruct H as [Ha Hb].
    inversion IH as [|? ? IHa IH1]; subst. inversion IH1 as [|? ? IHb _]; subst.
    destruct pos; cbn [nnf_p]; cbn [boolish forallb]; rewrite !IHa, !IHb; auto.
  - (* symbol *) destruct pos; cbn [nnf_p]; [exact H | exact H].
  - (* ite *)
    destruct args as [|i [|th [|el [|d r]]]]; cbn in H; try discriminate.
    apply andb_true_iff in H. destruct H as [H He]. apply andb_true_iff in H. destruct H as [Hi Ht].
    inversion IH as [|? ? IHi IH1]; subst. inversion IH1 as [|? ? IHt IH2]; subst.
    inversion IH2 as [|? ? IHe _]; subst.
    destruct pos; cbn [nnf_p]; cbn [boolish forallb]; rewrite !IHi, IHt, IHe; auto.
Qed.

(* C10, NNF, semantic clause *)
Theorem nnf_equiv : forall t I, wf_interp I -> boolish t = true -> eval I (nnf t) = eval I t.
Proof.
  intros t I HI H. apply eval_eq_of_boolish; auto.
  - now apply nnf_p_boolish.
  - unfold nnf. now rewrite nnf_p_tv.
Qed.

(* ------------------------------------------------------------------ shape *)
Lemma bool_atom_is_atom o args : bool_atom_op o args = true -> is_atom_op o = true.
Proof. destruct o; cbn; try discriminate; auto. Qed.

Lemma nnf_shape_mk_and l : forallb nnf_shape l = true -> nnf_shape (mk_and l) = true.
Proof. destruct l as [|x [|y r]]; cbn [mk_and]; auto. cbn. now rewrite andb_true_r. Qed.
Lemma nnf_shape_mk_or l : forallb nnf_shape l = true -> nnf_shape (mk_or l) = true.
Proof. destruct l as [|x [|y r]]; cbn [mk_or]; auto. cbn. now rewrite andb_true_r. Qed.
Lemma nnf_shape_mk_forall vs b : nnf_shape b = true -> nnf_shape (mk_forall vs b) = true.
Proof. destruct vs; auto. Qed.
Lemma nnf_shape_mk_exists vs b : nnf_shape b = true -> nnf_shape (mk_exists vs b) = true.
Proof. destruct vs; auto. Qed.

Lemma nnf_p_shape : forall t pos, boolish t = true -> nnf_shape (nnf_p pos t) = true.
Proof.
  induction t as [o args IH] using term_ind'. intros pos H.
  destruct o;
    try solve [destruct pos; cbn [nnf_p];
               [cbn; apply (bool_atom_is_atom _ _ H)
               | rewrite bool_atom_not_not by exact H; cbn; apply (bool_atom_is_atom _ _ H)]].
  - destruct args as [|b [|c r]]; cbn in H; try discriminate.
    inversion IH as [|? ? IHb _]; subst.
    destruct pos; cbn [nnf_p]; [apply nnf_shape_mk_forall | apply nnf_shape_mk_exists]; auto.
  - destruct args as [|b [|c r]]; cbn in H; try discriminate.
    inversion IH as [|? ? IHb _]; subst.
    destruct pos; cbn [nnf_p]; [apply nnf_shape_mk_exists | apply nnf_shape_mk_forall]; auto.
  - cbn in H. rewrite forallb_forall in H. rewrite Forall_forall in IH.
    destruct pos; cbn [nnf_p]; [apply nnf_shape_mk_and | apply nnf_shape_mk_or];
      rewrite forallb_map; apply forallb_forall; intros x Hx; apply IH; auto.
  - cbn in H. rewrite forallb_forall in H. rewrite Forall_forall in IH.
    destruct pos; cbn [nnf_p]; [apply nnf_shape_mk_or | apply nnf_shape_mk_and];
      rewrite forallb_map; apply forallb_forall; intros x Hx; apply IH; auto.
  - destruct args as [|s [|c r]]; cbn in H; try discriminate.
    inversion IH as [|? ? IHs _]; subst. cbn [nnf_p]. auto.
  - destruct args as [|a [|b [|c r]]]; cbn in H; try discriminate.
    apply andb_true_iff in H. destruct H as [Ha Hb].
    inversion IH as [|? ? IHa IH1]; subst. inversion IH1 as [|? ? IHb _]; subst.
    destruct pos; cbn [nnf_p mk_or mk_and]; cbn [nnf_shape forallb]; rewrite IHa, IHb; auto.
  - destruct args as [|a [|b [|c r]]]; cbn in H; try discriminate.
    apply andb_true_iff in H. destruct H as [Ha Hb].
    inversion IH as [|? ? IHa IH1]; subst. inversion IH1 as [|? ? IHb _]; subst.
    destruct pos; cbn [nnf_p]; cbn [nnf_shape forallb]; rewrite !IHa, !IHb; auto.
  - (* symbol *) destruct pos; cbn [nnf_p]; reflexivity.
  - (* ite *)
    destruct args as [|i [|th [|el [|d r]]]]; cbn in H; try discriminate.
    apply andb_true_iff in H. destruct H as [H He]. apply andb_true_iff in H. destruct H as [Hi Ht].
    inversion IH as [|? ? IHi IH1]; subst. inversion IH1 as [|? ? IHt IH2]; subst.
    inversion IH2 as [|? ? IHe _]; subst.
    destruct pos; cbn [nnf_p]; cbn [nnf_shape forallb]; rewrite !IHi, IHt, IHe; auto.
Qed.

(* C10, NNF, shape clause (full, since /repo commit 777db40) *)
Theorem nnf_shape_thm : forall t, boolish t = true -> nnf_shape (nnf t) = true.
Proof. intros. now apply nnf_p_shape. Qed.

(* the former refuting witness (negation of a Boolean ITE) is now normalised *)
Definition nnf_witness : term :=
  T ONot [T OIte [TSym "a" TBool; TSym "b" TBool; TSym "c" TBool]].
Example nnf_witness_value :
  nnf nnf_witness =
  T OAnd [T OOr [T ONot [TSym "a" TBool]; T ONot [TSym "b" TBool]]; T OOr [TSym "a" TBool; T ONot [TSym "c" TBool]]].
Proof. reflexivity. Qed.

(* the hypotheses are satisfiable by a non-trivial formula *)
Example nnf_example :
  let t := T ONot [T OIff [TSym "a" TBool; T (OForall [("x", TInt)]) [T OLe [TSym "x" TInt; TIntC 0]]]] in
  boolish t = true /\ term_eqb (nnf t) t = false.
Proof. repeat split. Qed.
