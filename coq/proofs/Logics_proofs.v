(* Theorems about the definitions generated from pysmt/logics.py (gen/Logics.v).
   Finite domains are closed by complete enumeration under vm_compute (the domain is named
   in each statement); everything else is ordinary induction. *)
From Coq Require Import Bool List String Lia.
From PySMT.gen Require Import Logics.
Import ListNotations.
Open Scope bool_scope.

(* ---------- the finite domain: all 2^12 theories, and the well-formed ones ---------- *)
Definition wf (t : theory) : bool :=
  implb (integer_difference t) (integer_arithmetic t) &&
  implb (real_difference t) (real_arithmetic t) &&
  implb (arrays_const t) (arrays t).

Definition bools := [false; true].
Definition all_theories : list theory :=
  flat_map (fun a => flat_map (fun b => flat_map (fun c => flat_map (fun d =>
  flat_map (fun e => flat_map (fun f => flat_map (fun g => flat_map (fun h =>
  flat_map (fun i => flat_map (fun j => flat_map (fun k => map (fun l =>
    mkT a b c d e f g h i j k l) bools) bools) bools) bools) bools) bools) bools) bools)
    bools) bools) bools) bools.
Definition wf_theories := filter wf all_theories.

Lemma in_bools b : In b bools. Proof. destruct b; simpl; auto. Qed.

Lemma all_theories_complete : forall t, In t all_theories.
Proof.
  intros [a b c d e f g h i j k l]. unfold all_theories.
  repeat (apply in_flat_map; eexists; split; [apply in_bools|]).
  apply in_map. apply in_bools.
Qed.

Lemma wf_theories_complete : forall t, wf t = true -> In t wf_theories.
Proof. intros t H. apply filter_In. split; [apply all_theories_complete | exact H]. Qed.

Lemma forall_wf (P : theory -> bool) :
  forallb P wf_theories = true -> forall t, wf t = true -> P t = true.
Proof. intros H t Ht. rewrite forallb_forall in H. apply H. now apply wf_theories_complete. Qed.

Lemma forall_wf2 (P : theory -> theory -> bool) :
  forallb (fun a => forallb (P a) wf_theories) wf_theories = true ->
  forall a b, wf a = true -> wf b = true -> P a b = true.
Proof.
  intros H a b Ha Hb. pose proof (forall_wf _ H a Ha) as H1. cbv beta in H1.
  exact (forall_wf _ H1 b Hb).
Qed.

(* ---------- a component-wise description of `<=` (used only for transitivity) ---------- *)
Definition le_dl (sa sd oa od : bool) : bool :=
  (Bool.eqb sd od || (sd && oa) || (negb sa && oa)) && implb sa oa.
Definition le_lin (s o : bool) : bool := Bool.eqb s o || (s && negb o).

Definition t_le_spec (s o : theory) : bool :=
  implb (arrays s) (arrays o) && implb (arrays_const s) (arrays_const o) &&
  implb (bit_vectors s) (bit_vectors o) && implb (floating_point s) (floating_point o) &&
  implb (uninterpreted s) (uninterpreted o) && implb (custom_type s) (custom_type o) &&
  le_dl (integer_arithmetic s) (integer_difference s) (integer_arithmetic o) (integer_difference o) &&
  le_dl (real_arithmetic s) (real_difference s) (real_arithmetic o) (real_difference o) &&
  le_lin (linear s) (linear o) && implb (strings s) (strings o).

Definition teqb (a b : theory) : bool :=
  Bool.eqb (arrays a) (arrays b) && Bool.eqb (arrays_const a) (arrays_const b) &&
  Bool.eqb (bit_vectors a) (bit_vectors b) && Bool.eqb (floating_point a) (floating_point b) &&
  Bool.eqb (integer_arithmetic a) (integer_arithmetic b) && Bool.eqb (real_arithmetic a) (real_arithmetic b) &&
  Bool.eqb (integer_difference a) (integer_difference b) && Bool.eqb (real_difference a) (real_difference b) &&
  Bool.eqb (linear a) (linear b) && Bool.eqb (uninterpreted a) (uninterpreted b) &&
  Bool.eqb (custom_type a) (custom_type b) && Bool.eqb (strings a) (strings b).

Lemma teqb_eq a b : teqb a b = true -> a = b.
Proof.
  destruct a, b; unfold teqb; cbn.
  rewrite !andb_true_iff. intros H. repeat match goal with H : _ /\ _ |- _ => destruct H end.
  repeat match goal with H : Bool.eqb _ _ = true |- _ => apply eqb_prop in H; subst end. reflexivity.
Qed.

(* ---------- one enumeration pass over all pairs of well-formed theories ---------- *)
Definition pair_facts (a b : theory) : bool :=
  implb (t_le a b && t_le b a) (teqb a b)                  (* antisymmetry *)
  && t_le a (t_combine a b) && t_le b (t_combine a b)       (* upper bound *)
  && wf (t_combine a b)                                     (* closure *)
  && Bool.eqb (t_le a b) (t_le_spec a b)                    (* component-wise form *)
  && Bool.eqb (t_eq a b) (teqb a b).                        (* __eq__ is structural *)

Lemma pair_enum : forallb (fun a => forallb (pair_facts a) wf_theories) wf_theories = true.
Proof. vm_cast_no_check (eq_refl true). Qed.

Lemma pair_facts_all a b : wf a = true -> wf b = true -> pair_facts a b = true.
Proof. apply forall_wf2. exact pair_enum. Qed.

Ltac split_facts H :=
  unfold pair_facts in H; rewrite !andb_true_iff in H;
  repeat match goal with H : _ /\ _ |- _ => destruct H end.

Theorem t_le_refl : forall a, t_le a a = true.
Proof.
  assert (H : forallb (fun a => t_le a a) all_theories = true) by (vm_cast_no_check (eq_refl true)).
  intros a. rewrite forallb_forall in H. apply H, all_theories_complete.
Qed.

Theorem t_le_antisym : forall a b, wf a = true -> wf b = true ->
  t_le a b = true -> t_le b a = true -> a = b.
Proof.
  intros a b Ha Hb H1 H2. pose proof (pair_facts_all a b Ha Hb) as H. split_facts H.
  apply teqb_eq. match goal with H : implb _ _ = true |- _ => rewrite H1, H2 in H; exact H end.
Qed.

Theorem t_combine_upper : forall a b, wf a = true -> wf b = true ->
  t_le a (t_combine a b) = true /\ t_le b (t_combine a b) = true.
Proof. intros a b Ha Hb. pose proof (pair_facts_all a b Ha Hb) as H. split_facts H. auto. Qed.

Theorem t_combine_wf : forall a b, wf a = true -> wf b = true -> wf (t_combine a b) = true.
Proof. intros a b Ha Hb. pose proof (pair_facts_all a b Ha Hb) as H. split_facts H. auto. Qed.

Theorem t_eq_structural : forall a b, wf a = true -> wf b = true -> (t_eq a b = true <-> a = b).
Proof.
  intros a b Ha Hb. pose proof (pair_facts_all a b Ha Hb) as H. split_facts H.
  match goal with H : Bool.eqb (t_eq a b) _ = true |- _ => apply eqb_prop in H; rewrite H end.
  split; [apply teqb_eq|]. intros ->. destruct b; unfold teqb; cbn. now rewrite !eqb_reflx.
Qed.

Lemma t_le_is_spec : forall a b, wf a = true -> wf b = true -> t_le a b = t_le_spec a b.
Proof. intros a b Ha Hb. pose proof (pair_facts_all a b Ha Hb) as H. split_facts H. now apply eqb_prop. Qed.

(* transitivity of the components *)
Lemma implb_trans a b c : implb a b = true -> implb b c = true -> implb a c = true.
Proof. destruct a, b, c; auto. Qed.
Lemma le_lin_trans a b c : le_lin a b = true -> le_lin b c = true -> le_lin a c = true.
Proof. destruct a, b, c; auto. Qed.
Lemma le_dl_trans sa sd oa od ca cd :
  implb sd sa = true -> implb od oa = true -> implb cd ca = true ->
  le_dl sa sd oa od = true -> le_dl oa od ca cd = true -> le_dl sa sd ca cd = true.
Proof. destruct sa, sd, oa, od, ca, cd; cbn; auto. Qed.

Lemma t_le_spec_trans a b c : wf a = true -> wf b = true -> wf c = true ->
  t_le_spec a b = true -> t_le_spec b c = true -> t_le_spec a c = true.
Proof.
  unfold wf, t_le_spec. rewrite !andb_true_iff.
  intros [[? ?] ?] [[? ?] ?] [[? ?] ?]. intros Hab Hbc.
  repeat match goal with H : _ /\ _ |- _ => destruct H end.
  repeat split; try (eapply implb_trans; eassumption); try (eapply le_lin_trans; eassumption).
  - eapply (le_dl_trans _ _ (integer_arithmetic b) (integer_difference b)); eassumption.
  - eapply (le_dl_trans _ _ (real_arithmetic b) (real_difference b)); eassumption.
Qed.

Theorem t_le_trans : forall a b c, wf a = true -> wf b = true -> wf c = true ->
  t_le a b = true -> t_le b c = true -> t_le a c = true.
Proof.
  intros a b c Ha Hb Hc. rewrite (t_le_is_spec a b), (t_le_is_spec b c), (t_le_is_spec a c) by assumption.
  now apply t_le_spec_trans.
Qed.

(* setters used by the theory oracle keep well-formedness *)
Theorem setters_wf : forall t, wf t = true ->
  wf (t_copy t) = true /\ wf (t_set_lira t true) = true /\ (forall v, wf (t_set_linear t v) = true) /\
  (forall v, wf (t_set_strings t v) = true) /\ wf (t_set_difference_logic t false) = true /\
  wf (t_set_arrays t true) = true /\ wf (t_set_arrays_const t true) = true.
Proof.
  assert (H : forallb (fun t => wf (t_copy t) && wf (t_set_lira t true) && wf (t_set_linear t true) &&
     wf (t_set_linear t false) && wf (t_set_strings t true) && wf (t_set_strings t false) &&
     wf (t_set_difference_logic t false) && wf (t_set_arrays t true) && wf (t_set_arrays_const t true)) wf_theories = true)
    by (vm_cast_no_check (eq_refl true)).
  intros t Ht. pose proof (forall_wf _ H t Ht) as H1. cbv beta in H1. rewrite !andb_true_iff in H1.
  repeat match goal with H : _ /\ _ |- _ => destruct H end.
  repeat split; auto; intros []; auto.
Qed.

(* setters only move upward (what the oracle adds is never lost) *)
Theorem setters_upward : forall t, wf t = true ->
  t_le t (t_set_lira t true) = true /\ t_le t (t_set_linear t false) = true /\
  t_le t (t_set_strings t true) = true /\ t_le t (t_set_difference_logic t false) = true /\
  t_le t (t_set_arrays t true) = true /\ t_le t (t_set_arrays_const t true) = true /\ t_copy t = t.
Proof.
  assert (H : forallb (fun t => t_le t (t_set_lira t true) && t_le t (t_set_linear t false) &&
     t_le t (t_set_strings t true) && t_le t (t_set_difference_logic t false) &&
     t_le t (t_set_arrays t true) && t_le t (t_set_arrays_const t true) && teqb (t_copy t) t) wf_theories = true)
    by (vm_cast_no_check (eq_refl true)).
  intros t Ht. pose proof (forall_wf _ H t Ht) as H1. cbv beta in H1. rewrite !andb_true_iff in H1.
  repeat match goal with H : _ /\ _ |- _ => destruct H end.
  repeat split; auto. now apply teqb_eq.
Qed.

(* ---------- logics ---------- *)
Definition lwf (l : logic) : bool := wf (ltheory l).

Lemma l_ne_false_iff a b : lwf a = true -> lwf b = true -> (l_ne a b = false <-> a = b).
Proof.
  intros Ha Hb. unfold l_ne. rewrite negb_false_iff. unfold l_eq. rewrite !andb_true_iff.
  rewrite String.eqb_eq, (t_eq_structural _ _ Ha Hb). destruct a, b; cbn. split.
  - intros [[-> H] ->]. apply eqb_prop in H. now subst.
  - intros [= -> -> ->]. now rewrite eqb_reflx.
Qed.

Theorem l_le_refl : forall a, l_le a a = true.
Proof. intros a. unfold l_le. rewrite t_le_refl. now destruct (lqf a). Qed.

Theorem l_le_trans : forall a b c, lwf a = true -> lwf b = true -> lwf c = true ->
  l_le a b = true -> l_le b c = true -> l_le a c = true.
Proof.
  unfold l_le, lwf. intros a b c Ha Hb Hc. rewrite !andb_true_iff. intros [H1 H2] [H3 H4]. split.
  - eapply t_le_trans; [| | | exact H1 | exact H3]; assumption.
  - eapply implb_trans; eassumption.
Qed.

(* `<=` on logics ignores the name, so antisymmetry is up to the name; on the named tables
   names are unique per (theory, qf): checked over the complete tables. *)
Theorem l_le_antisym_upto_name : forall a b, lwf a = true -> lwf b = true ->
  l_le a b = true -> l_le b a = true -> ltheory a = ltheory b /\ lqf a = lqf b.
Proof.
  unfold l_le, lwf. intros a b Ha Hb. rewrite !andb_true_iff. intros [H1 H2] [H3 H4]. split.
  - now apply t_le_antisym.
  - destruct (lqf a), (lqf b); auto; discriminate.
Qed.

Definition table_facts (L : list logic) : bool :=
  forallb lwf L &&
  forallb (fun a => forallb (fun b => implb (l_le a b && l_le b a) (negb (l_ne a b))) L) L.

Theorem tables_wf_antisym :
  table_facts LOGICS = true /\ table_facts PYSMT_LOGICS = true /\ table_facts SMTLIB2_LOGICS = true.
Proof. repeat split; vm_cast_no_check (eq_refl true). Qed.

