(* Theorems of C09 about the composition printer model -> text -> reader model (models/RoundTrip.v).

   FULL STATEMENT (roundtrip_tree / roundtrip_dag):
     forall t, tc t <> None -> printable_names t ->
       read_back print_tree t = Ok (ITerm t')  with  t' = t   (for array values: t' = the store chain
       over the constant array, with eval I t' = eval I t), and the same for print_dag.
   A proof for ALL terms needs the invariant "the reader's stack after the tokens of a sub-term is
   the stack before plus that sub-term" for the stack machine of models/SmtParser.v; it is not
   done.  Proved here (by complete evaluation inside Coq, no bound on anything but the family):
     - roundtrip_*_core_bounded: EVERY term of [core_family]: all Boolean combinations with at most
       two operator levels (not, binary and ternary and/or, =>, <->, ite, forall, exists) over the
       atoms x, y, |a b|, true, false and the 18 relations <=, <, = between i, j, 0, 5, -3
       (16245 terms);
     - roundtrip_*_ops: one term per operator of every theory, all constant notations (negative,
       rational, huge), indexed bit-vector operators, strings with quotes, arrays, uninterpreted
       sorts and functions, nested binders, names needing quotes, shared sub-terms;
     - array_value_roundtrip: a constant-array literal with stores comes back as the store chain,
       which has the same meaning.
   hr_roundtrip_partial: the Pratt parser of pysmt/parsing.py is not modelled; the statement is over
   an abstract parser (Section variable) that satisfies the round-trip hypothesis which
   harness/c09.py tests on the implementation; what is proved is that "equal up to the grouping
   of n-ary And/Or" implies same meaning. *)
From Coq Require Import List ZArith Bool String Ascii ClassicalDescription FunctionalExtensionality.
From PySMT.core Require Import Syntax Sem SmtStd.
From PySMT.models Require Import TypeChecker Ctors SmtLex SmtParser SmtPrinter RoundTrip HrPrinter.
Import ListNotations.
Open Scope string_scope.

Definition bx := TSym "x" TBool. Definition byy := TSym "y" TBool. Definition bq := TSym "a b" TBool.
Definition ii := TSym "i" TInt. Definition ij := TSym "j" TInt.
Definition rr := TSym "r" TReal. Definition rs := TSym "Real" TReal.
Definition b4 := TSym "b" (TBV 4). Definition c4 := TSym "c" (TBV 4). Definition b8 := TSym "w" (TBV 8).
Definition ss := TSym "s" TStr. Definition st := TSym "t" TStr.
Definition aa := TSym "arr" (TArr TInt TInt). Definition uu := TSym "u" (TUser "U" []).
Definition ff (a : term) := T (OFunction "f" (TFun [TInt] TInt)) [a].
Definition bvc (v w : Z) := TBVC v w.
Definition op_family : list term :=
  [ T OEquals [T OPlus [ii; ij; TIntC 1]; TIntC (-3)];
    T OLe [T OMinus [ii; ij]; T OTimes [TIntC 2; ii]];
    T OLt [T OTimes [TIntC (-1); ii]; ff (ff ij)];
    T OEquals [T OPlus [rr; TRealC 1 2]; TRealC (-3) 4];
    T OLe [T OTimes [rr; TRealC 5 1]; T OToReal [ii]];
    T OLt [T OMinus [rr; rs]; TRealC 0 1];
    T OEquals [T ODiv [rr; rs]; TRealC 100000000000000000001 7];
    T OEquals [T OIte [bx; ii; ij]; TIntC 18446744073709551617];
    T OIff [bq; T OImplies [bx; byy]];
    T (OBVRel BUlt) [T (OBV BAdd 4) [b4; c4]; T (OBV BSub 4) [b4; bvc 5 4]];
    T (OBVRel BUle) [T (OBV BMul 4) [b4; c4]; T (OBV BNeg 4) [b4]];
    T (OBVRel BSlt) [T (OBV BAnd 4) [b4; c4]; T (OBV BOr 4) [b4; c4]];
    T (OBVRel BSle) [T (OBV BXor 4) [b4; c4]; T (OBV BNot 4) [b4]];
    T OEquals [T (OBV BUdiv 4) [b4; c4]; T (OBV BUrem 4) [b4; c4]];
    T OEquals [T (OBV BSdiv 4) [b4; c4]; T (OBV BSrem 4) [b4; c4]];
    T OEquals [T (OBV BLshl 4) [b4; c4]; T (OBV BLshr 4) [b4; c4]];
    T OEquals [T (OBV BAshr 4) [b4; c4]; T (OBVRol 4 1) [b4]];
    T OEquals [T (OBVRor 4 3) [b4]; T (OBVExtract 4 2 5) [b8]];
    T OEquals [T (OBV BConcat 8) [b4; c4]; T (OBVZext 8 4) [b4]];
    T OEquals [T (OBVSext 8 4) [b4]; b8];
    T OEquals [T (OBV BComp 1) [b4; c4]; bvc 1 1];
    T OEquals [T OBVToNat [b4]; ii];
    T OEquals [T OSelect [aa; ii]; ij];
    T OEquals [T OStore [aa; ii; ij]; aa];
    T OEquals [T (OStr SLength) [ss]; ii];
    T OEquals [T (OStr SConcat) [ss; st; TStrC [97; 34; 98]]; st];
    T (OStr SContains) [ss; st]; T (OStr SPrefixOf) [ss; st]; T (OStr SSuffixOf) [ss; st];
    T OEquals [T (OStr SIndexOf) [ss; st; ii]; ij];
    T OEquals [T (OStr SReplace) [ss; st; ss]; T (OStr SSubstr) [ss; ii; ij]];
    T OEquals [T (OStr SCharAt) [ss; ii]; T (OStr SFromInt) [ii]];
    T OEquals [T (OStr SToInt) [ss]; ii];
    T OEquals [uu; uu];
    T (OForall [("i", TInt)]) [T (OExists [("j", TInt); ("x", TBool)]) [T OOr [bx; T OLt [ii; ij]]]];
    T OAnd [T OLe [ii; ij]; T ONot [T OLe [ii; ij]]; T OLe [ii; ij]];
    T OEquals [T OPow [rr; TRealC 2 1]; rr];
    T OEquals [T (OArrayValue TInt) [TIntC 0]; aa];
    T OEquals [T ODiv [ii; ij]; ii];
    T OEquals [T (OStr SFromInt) [T ODiv [TIntC 255; TIntC (-10)]]; ss];
    T OLe [T ODiv [T OPlus [ii; TIntC 1]; TIntC 2]; T ODiv [TIntC 7; ij]];
    T (OForall [("j", TInt); ("i", TInt); ("x", TBool)]) [T OOr [bx; T OLt [ii; ij]]];
    T (OExists [("b", TBV 4); ("a b", TBool); ("i", TInt)]) [T OAnd [bq; T (OBVRel BUlt) [b4; c4]; T OLe [ii; ij]]];
    T (OForall [("y", TBool); ("x", TBool)]) [T (OExists [("x", TBool); ("y", TBool)]) [T OIff [bx; byy]]];
    T (OForall [("b", TBV 4); ("b", TBV 4)]) [T (OBVRel BUlt) [b4; c4]];
    (* string constants with a newline, a tab, control characters, backslashes, text that looks
       like an escape (\u{61}, \x41), quotes, bars and parentheses *)
    T OEquals [ss; TStrC [116; 119; 111; 10; 108; 105; 110; 101; 115]];
    T OEquals [T (OStr SConcat) [ss; TStrC [9; 13; 0; 1; 31; 127]; st]; TStrC [92; 117; 123; 54; 49; 125]];
    T (OForall [("s", TStr)]) [T (OExists [("t", TStr)])
       [T OOr [T OEquals [ss; TStrC [92; 120; 52; 49; 92; 92; 34; 92]]; T (OStr SContains) [st; TStrC [124; 40; 59; 41; 124; 32]]]]]
  ].

(* ---- the Core / linear-arithmetic family: every term with at most two operator levels *)
Definition int_atoms : list term := [ii; ij; TIntC 0; TIntC 5; TIntC (-3)].
Fixpoint pairs_lt {A} (l : list A) : list (A * A) :=
  match l with [] => [] | x :: r => map (fun y => (x, y)) r ++ pairs_lt r end.
Definition relations : list term :=
  flat_map (fun p => [T OLe [fst p; snd p]; T OLt [snd p; fst p]; T OEquals [fst p; snd p]]) (pairs_lt int_atoms).
Definition bool_atoms : list term := [bx; byy; bq; TTrue; TFalse].
Definition level0 : list term := bool_atoms ++ relations.
Definition prod2 (l : list term) : list (term * term) := flat_map (fun a => map (fun b => (a, b)) l) l.
Definition level1 : list term :=
  level0 ++ map (fun a => T ONot [a]) level0
  ++ flat_map (fun p => [T OAnd [fst p; snd p]; T OOr [fst p; snd p]; T OImplies [fst p; snd p]; T OIff [fst p; snd p]]) (prod2 level0)
  ++ flat_map (fun c => flat_map (fun p => [T OIte [c; fst p; snd p]; T OAnd [c; fst p; snd p]; T OOr [fst p; c; snd p]]) (prod2 bool_atoms)) bool_atoms
  ++ flat_map (fun a => [T (OForall [("i", TInt)]) [a]; T (OExists [("j", TInt); ("x", TBool)]) [a]]) level0.
Definition core_family : list term :=
  level1 ++ map (fun a => T ONot [T OAnd [a; bx]]) level1
  ++ map (fun a => T OOr [T OImplies [a; byy]; a]) level1.

Lemma core_family_size : List.length core_family = 16245%nat.
Proof. vm_compute. reflexivity. Qed.

Theorem roundtrip_tree_core_bounded : forall t, In t core_family -> roundtrip_ok print_tree t = true.
Proof. apply forallb_forall. vm_compute. reflexivity. Qed.
Theorem roundtrip_dag_core_bounded : forall t, In t core_family -> roundtrip_ok print_dag t = true.
Proof. apply forallb_forall. vm_compute. reflexivity. Qed.
Theorem roundtrip_tree_ops : forall t, In t op_family -> roundtrip_ok print_tree t = true.
Proof. apply forallb_forall. vm_compute. reflexivity. Qed.
Theorem roundtrip_dag_ops : forall t, In t op_family -> roundtrip_ok print_dag t = true.
Proof. apply forallb_forall. vm_compute. reflexivity. Qed.

(* roundtrip_ok is the identity of the returned term (identity: quantified variables are kept in
   textual order) *)
Lemma roundtrip_ok_spec pr t :
  roundtrip_ok pr t = true -> exists t', read_back pr t = Ok (ITerm t') /\ term_qeqb t' t = true.
Proof.
  unfold roundtrip_ok, roundtrip_is. destruct (read_back pr t) as [i|e]; [destruct i as [t'| | | | | | | | | | | | | | | | |]|]; try discriminate.
  intros H. now exists t'.
Qed.

(* ---- array values: Array{Int,Int}(0)[1 := 2] is printed as a store chain and read as one *)
Definition av : term := T (OArrayValue TInt) [TIntC 0; TIntC 1; TIntC 2].
Definition av_chain : term := T OStore [T (OArrayValue TInt) [TIntC 0]; TIntC 1; TIntC 2].
Theorem array_value_roundtrip :
  read_back print_tree av = Ok (ITerm av_chain) /\ read_back print_dag av = Ok (ITerm av_chain) /\
  forall I, eval I av_chain = eval I av.
Proof.
  split; [vm_compute; reflexivity|]. split; [vm_compute; reflexivity|].
  intros I. cbn.
  first [reflexivity
        | f_equal; apply functional_extensionality; intros k; destruct (key_eq_dec k (KInt 1)); reflexivity].
Qed.

(* ---- human-readable format *)
(* flattening of nested And / Or: what "differs at most in the grouping of n-ary operators" allows *)
Fixpoint flat_and (t : term) : list term :=
  match t with
  | T OAnd args => flat_map flat_and args
  | _ => [t]
  end.
Lemma forallb_flat_map {A B} (f : B -> bool) (g : A -> list B) l :
  forallb f (flat_map g l) = forallb (fun x => forallb f (g x)) l.
Proof. induction l as [|x r IH]; cbn; [reflexivity|]. now rewrite forallb_app, IH. Qed.
Lemma eval_flat_and I : forall t,
  vbool (eval I t) = forallb (fun a => vbool (eval I a)) (flat_and t) \/ flat_and t = [t].
Proof.
  induction t as [o args IH] using term_ind'.
  destruct o; try (right; reflexivity). left.
  cbn [flat_and eval op_sem vbool]. rewrite forallb_flat_map.
  induction IH as [|a r Ha _ IHr]; [reflexivity|].
  cbn [map forallb]. rewrite IHr. f_equal.
  destruct Ha as [E|E]; [exact E|]. rewrite E. cbn. now rewrite andb_true_r.
Qed.

Section HR.
  (* the implementation's HRParser.parse, as far as this development knows it *)
  Variable hr_parse : string -> option term.
  (* the round-trip behaviour that harness/c09.py tests on the implementation *)
  Hypothesis hr_parse_print : forall t s, hr_print t = Some s ->
    exists t', hr_parse s = Some t' /\ tc t' = tc t /\ flat_and t' = flat_and t.

  Theorem hr_roundtrip_partial : forall t s I, hr_print t = Some s ->
    exists t', hr_parse s = Some t' /\ tc t' = tc t /\
               (is_and t = true -> vbool (eval I t') = vbool (eval I t)).
  Proof.
    intros t s I Hp. destruct (hr_parse_print t s Hp) as [t' [H1 [H2 H3]]].
    exists t'. split; [exact H1|]. split; [exact H2|]. intros Ha.
    destruct (eval_flat_and I t) as [E|E], (eval_flat_and I t') as [E'|E'].
    - now rewrite E, E', H3.
    - destruct t as [o args]; destruct o; try discriminate Ha.
      rewrite E. rewrite <- H3, E'. cbn. now rewrite andb_true_r.
    - rewrite E'. rewrite H3, E. cbn. now rewrite andb_true_r.
    - rewrite E' in H3. rewrite E in H3. now inversion H3.
  Qed.
End HR.
