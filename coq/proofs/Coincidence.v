(* C12 (semantic half): the value of a formula depends only on the symbols reported free by
   the model of FreeVarsOracle (models/Oracles.v : fv).  For every term and every pair of
   interpretations. *)
From Coq Require Import List ZArith Bool String Reals.
From Coq Require Import ClassicalDescription.
From PySMT.core Require Import Syntax SyntaxLemmas Sem.
From PySMT.models Require Import Oracles.
From PySMT.proofs Require Import Sets_proofs.
Import ListNotations.

Definition sumbool_of_bool_var (a b : var) : {a = b} + {a <> b}.
Proof. destruct (var_eqb a b) eqn:E; [left; now apply var_eqb_eq | right; intros ->; rewrite (proj2 (var_eqb_eq b b) eq_refl) in E; discriminate]. Defined.

(* names of applied function symbols *)
Fixpoint fnames (t : term) : list var :=
  match t with
  | T (OFunction n ty) args => (n, ty) :: flat_map fnames args
  | T _ args => flat_map fnames args
  end.

Definition agree (Ps Pf : var -> Prop) (I I' : interp) : Prop :=
  rdiv0 I = rdiv0 I' /\ idiv0 I = idiv0 I' /\
  (forall n t, Ps (n, t) -> isym I n t = isym I' n t) /\
  (forall n t, Pf (n, t) -> ifun I n t = ifun I' n t).

Lemma agree_weaken (Ps Pf Qs Qf : var -> Prop) I I' :
  (forall v, Qs v -> Ps v) -> (forall v, Qf v -> Pf v) -> agree Ps Pf I I' -> agree Qs Qf I I'.
Proof. intros H1 H2 (A & B & C & D). repeat split; auto. Qed.

Lemma op_sem_agree Ps Pf I I' o vs : agree Ps Pf I I' -> op_sem I o vs = op_sem I' o vs.
Proof.
  intros (A & B & _). destruct o; cbn; auto.
  - destruct vs as [|a [|b [|c r]]]; auto. unfold vdiv. now rewrite A, B.
  - destruct vs as [|a [|b [|c r]]]; auto. unfold vpow, rpow_neg. now rewrite A.
Qed.

Lemma bind1_agree Ps Pf I I' v x :
  agree Ps Pf I I' -> agree (fun u => Ps u \/ u = v) Pf (bind1 I v x) (bind1 I' v x).
Proof.
  intros (A & B & C & D). repeat split; auto; cbn.
  intros n t [H|H].
  - rewrite (C _ _ H). reflexivity.
  - subst v. cbn. now rewrite String.eqb_refl, ty_eqb_refl.
Qed.

Lemma bind_agree : forall vs xs Ps Pf I I', vals_ok xs vs ->
  agree Ps Pf I I' -> agree (fun u => Ps u \/ In u vs) Pf (bind I vs xs) (bind I' vs xs).
Proof.
  induction vs as [|v vs IH]; intros xs Ps Pf I I' Hok H.
  - destruct xs; cbn in *; [|contradiction]. eapply agree_weaken; [| |exact H]; cbn; tauto.
  - destruct xs as [|x xs]; cbn in Hok; [contradiction|]. destruct Hok as [_ Hok]. cbn [bind].
    eapply agree_weaken; [| |apply (IH xs _ Pf _ _ Hok (bind1_agree Ps Pf I I' v x H))]; cbn; [|auto].
    intros u [Hu|[<-|Hu]]; auto.
Qed.

Lemma emi_iff (P Q : Prop) : (P <-> Q) ->
  (if excluded_middle_informative P then true else false) =
  (if excluded_middle_informative Q then true else false).
Proof.
  intros H. destruct (excluded_middle_informative P), (excluded_middle_informative Q); tauto.
Qed.

Lemma map_ext_Forall {A B} (f g : A -> B) l : Forall (fun x => f x = g x) l -> map f l = map g l.
Proof. induction 1; cbn; congruence. Qed.

Lemma fv_arg_incl o args a : In a args ->
  match o with OSymbol _ _ | OForall _ | OExists _ | OBoolC _ | OIntC _ | ORealC _ _ | OBVC _ _ | OStrC _ => False | _ => True end ->
  forall v, In v (fv a) -> In v (fv (T o args)).
Proof.
  intros Ha Ho v Hv.
  assert (Hu : In v (unions var_eqb (map fv args))).
  { apply (unions_In var_eqb var_eqb_eq). exists (fv a). split; auto. now apply in_map. }
  destruct o; cbn [fv]; try contradiction; auto.
  apply (union_In var_eqb var_eqb_eq). auto.
Qed.

Lemma fnames_arg_incl o args a : In a args -> forall v, In v (fnames a) -> In v (fnames (T o args)).
Proof.
  intros Ha v Hv.
  assert (In v (flat_map fnames args)) by (apply in_flat_map; eauto).
  destruct o; cbn; auto.
Qed.

Lemma fv_forall vs args : fv (T (OForall vs) args) = diff var_eqb (unions var_eqb (map fv args)) vs.
Proof. reflexivity. Qed.
Lemma fv_exists vs args : fv (T (OExists vs) args) = diff var_eqb (unions var_eqb (map fv args)) vs.
Proof. reflexivity. Qed.

Lemma fv_body_incl vs b v : In v (fv b) -> ~ In v vs ->
  In v (diff var_eqb (unions var_eqb (map fv [b])) vs).
Proof.
  intros Hv Hn. apply (diff_In var_eqb var_eqb_eq). split; auto.
  apply (unions_In var_eqb var_eqb_eq). exists (fv b). split; [left; reflexivity | exact Hv].
Qed.

Theorem coincidence_gen : forall t I I',
  agree (fun v => In v (fv t)) (fun v => In v (fnames t)) I I' -> eval I t = eval I' t.
Proof.
  induction t as [o args IH] using term_ind'. intros I I' H.
  assert (Hargs : forall (Ho : match o with OSymbol _ _ | OForall _ | OExists _ | OBoolC _ | OIntC _ | ORealC _ _ | OBVC _ _ | OStrC _ => False | _ => True end),
             map (eval I) args = map (eval I') args).
  { intros Ho. apply map_ext_Forall. rewrite Forall_forall in IH |- *. intros a Ha. apply IH; auto.
    eapply agree_weaken; [| |exact H]; cbn.
    - apply fv_arg_incl; auto.
    - apply fnames_arg_incl; auto. }
  destruct o; cbn [eval];
    try (rewrite (Hargs Logic.I); apply (op_sem_agree _ _ _ _ _ _ H)).
  - (* forall *)
    destruct args as [|b [|c r]]; auto. f_equal. apply emi_iff.
    assert (E : forall xs, vals_ok xs vs -> eval (bind I vs xs) b = eval (bind I' vs xs) b).
    { intros xs Hok. inversion IH as [|? ? IHb _]; subst. apply IHb.
      eapply agree_weaken; [| |apply (bind_agree vs xs _ _ _ _ Hok H)]; cbn.
      - intros v Hv. destruct (in_dec (fun a b => sumbool_of_bool_var a b) v vs) as [Hin|Hnin]; auto.
        left. rewrite ?fv_forall, ?fv_exists. now apply fv_body_incl.
      - intros v Hv. cbn. rewrite app_nil_r. exact Hv. }
    split; intros G xs Hok; [rewrite <- E | rewrite E]; auto.
  - (* exists *)
    destruct args as [|b [|c r]]; auto. f_equal. apply emi_iff.
    assert (E : forall xs, vals_ok xs vs -> eval (bind I vs xs) b = eval (bind I' vs xs) b).
    { intros xs Hok. inversion IH as [|? ? IHb _]; subst. apply IHb.
      eapply agree_weaken; [| |apply (bind_agree vs xs _ _ _ _ Hok H)]; cbn.
      - intros v Hv. destruct (in_dec (fun a b => sumbool_of_bool_var a b) v vs) as [Hin|Hnin]; auto.
        left. rewrite ?fv_forall, ?fv_exists. now apply fv_body_incl.
      - intros v Hv. cbn. rewrite app_nil_r. exact Hv. }
    split; intros (xs & Hok & G); exists xs; split; auto; [rewrite <- E | rewrite E]; auto.
  - (* symbol *)
    destruct H as (_ & _ & C & _). apply C. cbn. auto.
  - (* function *)
    rewrite (Hargs Logic.I). destruct H as (_ & _ & _ & D). rewrite (D n t); auto. cbn. auto.
  - destruct args; reflexivity.
  - destruct args; reflexivity.
  - destruct args; reflexivity.
  - destruct args; reflexivity.
  - destruct args; reflexivity.
Qed.

(* Every applied function name is reported free unless a quantifier binds that very name
   (pySMT has no higher-order quantification; [fo_binders] states it). *)
Definition binder_ok (o : op) (args : list term) : Prop :=
  match o with
  | OForall vs | OExists vs => forall v, In v vs -> ~ In v (flat_map fnames args)
  | OSymbol _ _ | OBoolC _ | OIntC _ | ORealC _ _ | OBVC _ _ | OStrC _ => args = []
  | _ => True
  end.
Fixpoint fo_binders (t : term) : Prop :=
  match t with
  | T o args =>
      and (binder_ok o args)
          ((fix all (l : list term) : Prop :=
              match l with [] => True | x :: r => and (fo_binders x) (all r) end) args)
  end.

Lemma fo_binders_args o args : fo_binders (T o args) -> Forall fo_binders args.
Proof.
  intros [_ H]. induction args as [|x r IH]; constructor; destruct H; auto.
Qed.

Lemma fnames_in_fv : forall t, fo_binders t -> forall v, In v (fnames t) -> In v (fv t).
Proof.
  induction t as [o args IH] using term_ind'. intros Hfo v Hv.
  pose proof (fo_binders_args _ _ Hfo) as Hargs.
  assert (Hsub : In v (flat_map fnames args) -> In v (unions var_eqb (map fv args))).
  { intros Hin. apply in_flat_map in Hin. destruct Hin as (a & Ha & Hva).
    apply (unions_In var_eqb var_eqb_eq). exists (fv a). split; [now apply in_map|].
    rewrite Forall_forall in IH, Hargs. apply IH; auto. }
  destruct o; cbn [fnames] in Hv; cbn [fv]; auto.
  all: try solve [apply Hsub; exact Hv].
  all: try (destruct Hfo as [Hb _]; cbn in Hb; subst args; cbn in Hv; contradiction).
  - (* forall *) apply (diff_In var_eqb var_eqb_eq). split; [apply Hsub; exact Hv|].
    destruct Hfo as [Hb _]. intros Hin. exact (Hb v Hin Hv).
  - (* exists *) apply (diff_In var_eqb var_eqb_eq). split; [apply Hsub; exact Hv|].
    destruct Hfo as [Hb _]. intros Hin. exact (Hb v Hin Hv).
  - (* function *) apply (union_In var_eqb var_eqb_eq). destruct Hv as [<-|Hv]; [left; left; auto | right; auto].
Qed.

(* C12: the value depends only on the symbols reported free *)
Theorem coincidence : forall t I I', fo_binders t ->
  rdiv0 I = rdiv0 I' -> idiv0 I = idiv0 I' ->
  (forall n ty, In (n, ty) (fv t) -> isym I n ty = isym I' n ty /\ ifun I n ty = ifun I' n ty) ->
  eval I t = eval I' t.
Proof.
  intros t I I' Hfo A B C. apply coincidence_gen. repeat split; auto.
  - intros n ty H. apply C, H.
  - intros n ty H. apply C. now apply fnames_in_fv.
Qed.
