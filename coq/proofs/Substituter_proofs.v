(* C05: theorems about models/Substituter.v (MGSubstituter / MSSubstituter / interpretations). *)
From Coq Require Import List ZArith Bool String Reals Lia Lra.
From Coq Require Import ClassicalDescription.
From PySMT.core Require Import Syntax SyntaxLemmas PyPrims Sem.
From PySMT.models Require Import TypeChecker Oracles Ctors Substituter.
From PySMT.proofs Require Import Sets_proofs Coincidence.
Import ListNotations.
Open Scope bool_scope.

(* ------------------------------------------------------------------ statements' vocabulary *)
(* every key of the map is a symbol *)
Definition sym_keys (s : smap) : Prop := forall k v, In (k, v) s -> exists n ty, k = TSym n ty.

(* the interpretation updated with the values of the replacement terms *)
Definition upd (I : interp) (s : smap) : interp :=
  {| isym := fun n ty => match lookup s (TSym n ty) with Some v => eval I v | None => isym I n ty end;
     ifun := ifun I; rdiv0 := rdiv0 I; idiv0 := idiv0 I |}.

(* the proviso: no free symbol of a replacement term falls under a quantifier binding it.
   Only keys that survive the binder and are free in its body matter. *)
Fixpoint no_capture (s : smap) (t : term) {struct t} : Prop :=
  match t with
  | T o args =>
      match is_quant o with
      | Some (_, vs) =>
          match args with
          | [b] => (forall k v, In (k, v) (drop_bound vs s) -> incl (fv k) (fv b) ->
                                forall x, In x vs -> ~ In x (fv v))
                   /\ no_capture (drop_bound vs s) b
          | _ => True
          end
      | None => (fix all (l : list term) : Prop :=
                   match l with [] => True | a :: r => no_capture s a /\ all r end) args
      end
  end.

(* "Bool-valued by construction": used only for replacement terms of the form (not y) *)
Fixpoint bool_term (y : term) : bool :=
  match y with
  | T o args =>
      match o, args with
      | OAnd, _ | OOr, _ | ONot, _ | OImplies, _ | OIff, _ | OBoolC _, _ | OLe, _ | OLt, _ | OEquals, _
      | OBVRel _, _ | OForall _, _ | OExists _, _
      | OStr SContains, _ | OStr SPrefixOf, _ | OStr SSuffixOf, _ => true
      | OSymbol _ TBool, [] => true
      | OFunction _ (TFun _ TBool), _ => true
      | OIte, [_; a; b] => bool_term a && bool_term b
      | _, _ => false
      end
  end.
Definition neg_ok (v : term) : Prop :=
  forall l, v = T ONot l -> exists y, l = [y] /\ bool_term y = true.
Definition realc_ok (v : term) : Prop := forall n d l, v = T (ORealC n d) l -> l = [] /\ d <> 0%Z.
Definition neg_values_ok (s : smap) : Prop := forall k v, In (k, v) s -> neg_ok v /\ realc_ok v.

(* the fragment on which every constructor normalisation is proved meaning-preserving here *)
Definition frag_op (o : op) (n : nat) : bool :=
  match o with
  | OPow | OArrayValue _ | OToReal | OBVRol _ _ | OBVRor _ _ | OBVZext _ _ | OBVSext _ _ => false
  | OAnd | OOr | OPlus | OTimes => Nat.leb 2 n
  | OFunction _ _ => Nat.leb 1 n
  | ONot => Nat.eqb n 1
  | OForall vs | OExists vs => match vs with [] => false | _ => true end
  | ORealC n d => (let (n', d') := fr_norm n d in Z.eqb n' n && Z.eqb d' d) && negb (Z.eqb d 0)
  | _ => true
  end.
Fixpoint frag (t : term) : bool :=
  match t with
  | T o args =>
      frag_op o (List.length args)
      && match o, args with ONot, [c] | ODiv, [_; c] => negb (is_not c) | _, _ => true end
      && (fix all (l : list term) : bool := match l with [] => true | x :: r => frag x && all r end) args
  end.

(* ------------------------------------------------------------------ generic helpers *)
Lemma omap_Forall2 {A B} (f : A -> option B) l l' :
  omap f l = Some l' -> Forall2 (fun a b => f a = Some b) l l'.
Proof.
  revert l'. induction l as [|x r IH]; intros l'; cbn.
  - intros [= <-]. constructor.
  - destruct (f x) eqn:Ex; [|discriminate].
    change ((fix go (l : list A) : option (list B) :=
               match l with [] => Some [] | x :: r => match f x, go r with Some y, Some ys => Some (y :: ys) | _, _ => None end end) r)
      with (omap f r).
    destruct (omap f r) eqn:Er; [|discriminate]. intros [= <-]. constructor; auto.
Qed.

Lemma Forall2_length' {A B} (R : A -> B -> Prop) l l' : Forall2 R l l' -> List.length l = List.length l'.
Proof. induction 1; cbn; congruence. Qed.

Lemma lookup_In s k v : lookup s k = Some v -> In (k, v) s.
Proof.
  unfold lookup. induction s as [|[k' v'] r IH]; cbn [assoc_get]; [discriminate|].
  destruct (term_eqb k k') eqn:E.
  - intros [= <-]. apply term_eqb_eq in E. subst. now left.
  - intros H. right. auto.
Qed.

Lemma lookup_sym_keys s t v : sym_keys s -> lookup s t = Some v -> exists n ty, t = TSym n ty.
Proof. intros H L. apply lookup_In in L. eapply H; eauto. Qed.

Lemma drop_bound_In vs s k v : In (k, v) (drop_bound vs s) -> In (k, v) s.
Proof. unfold drop_bound. rewrite filter_In. tauto. Qed.

Lemma lookup_drop_bound vs s k :
  lookup (drop_bound vs s) k = if key_survives vs k then lookup s k else None.
Proof.
  unfold lookup, drop_bound. induction s as [|[k' v'] r IH]; cbn [filter assoc_get fst snd].
  - now destruct (key_survives vs k).
  - destruct (term_eqb k k') eqn:E.
    + assert (k' = k) by (symmetry; now apply term_eqb_eq). subst k'.
      destruct (key_survives vs k) eqn:S; cbn [assoc_get].
      * now rewrite E.
      * rewrite IH. reflexivity.
    + destruct (key_survives vs k') eqn:S'; cbn [assoc_get]; [rewrite E|]; exact IH.
Qed.

Lemma key_survives_sym vs n ty : key_survives vs (TSym n ty) = negb (mem var_eqb (n, ty) vs).
Proof. unfold key_survives. cbn. now rewrite andb_true_r. Qed.

Lemma sym_keys_drop vs s : sym_keys s -> sym_keys (drop_bound vs s).
Proof. intros H k v Hin. apply drop_bound_In in Hin. eauto. Qed.
Lemma neg_values_drop vs s : neg_values_ok s -> neg_values_ok (drop_bound vs s).
Proof. intros H k v Hin. apply drop_bound_In in Hin. eauto. Qed.

Lemma frag_args o args : frag (T o args) = true -> Forall (fun a => frag a = true) args.
Proof.
  cbn [frag]. rewrite !andb_true_iff. intros [_ H]. induction args as [|x r IH]; constructor.
  - apply andb_true_iff in H. tauto.
  - apply IH. apply andb_true_iff in H. tauto.
Qed.

Lemma no_capture_args s o args : is_quant o = None -> no_capture s (T o args) ->
  Forall (no_capture s) args.
Proof.
  intros Hq. cbn [no_capture]. rewrite Hq. induction args as [|x r IH]; intros H; constructor.
  - tauto.
  - apply IH. tauto.
Qed.

(* ------------------------------------------------------------------ binding lemmas *)
Lemma bind_isym_out : forall vs xs J n ty, ~ In (n, ty) vs -> isym (bind J vs xs) n ty = isym J n ty.
Proof.
  induction vs as [|v vs IH]; intros xs J n ty Hn; destruct xs as [|x xs]; cbn [bind]; auto.
  rewrite IH by (intros H; apply Hn; now right). cbn.
  destruct (String.eqb n (fst v) && ty_eqb ty (snd v)) eqn:E; auto.
  apply andb_true_iff in E. destruct E as [E1 E2]. apply String.eqb_eq in E1. apply ty_eqb_eq in E2.
  exfalso. apply Hn. left. destruct v; cbn in *; subst; reflexivity.
Qed.

Lemma bind_isym_in : forall vs xs J J' n ty, vals_ok xs vs -> In (n, ty) vs ->
  isym (bind J vs xs) n ty = isym (bind J' vs xs) n ty.
Proof.
  induction vs as [|v vs IH]; intros xs J J' n ty Hok Hin; [contradiction|].
  destruct xs as [|x xs]; cbn in Hok; [contradiction|]. destruct Hok as [_ Hok]. cbn [bind].
  destruct (in_dec (fun a b => sumbool_of_bool_var a b) (n, ty) vs) as [Hi|Hni].
  - apply IH; auto.
  - rewrite !bind_isym_out by auto. destruct Hin as [->|]; [|contradiction]. cbn.
    now rewrite String.eqb_refl, ty_eqb_refl.
Qed.

Lemma bind_ifun : forall vs xs J, ifun (bind J vs xs) = ifun J.
Proof. induction vs as [|v vs IH]; intros [|x xs] J; cbn [bind]; auto. now rewrite IH. Qed.
Lemma bind_rdiv0 : forall vs xs J, rdiv0 (bind J vs xs) = rdiv0 J.
Proof. induction vs as [|v vs IH]; intros [|x xs] J; cbn [bind]; auto. now rewrite IH. Qed.
Lemma bind_idiv0 : forall vs xs J, idiv0 (bind J vs xs) = idiv0 J.
Proof. induction vs as [|v vs IH]; intros [|x xs] J; cbn [bind]; auto. now rewrite IH. Qed.

(* What the theorems need of an interpretation: Bool symbols and Bool-valued functions denote
   Booleans.  (Implied by Sem.wf_interp; stated separately because wf_interp also asks for a value
   of sort (TBV w) for negative w, which does not exist.) *)
Definition bool_interp (I : interp) : Prop :=
  (forall n, exists b, isym I n TBool = VBool b) /\
  (forall n ps args, exists b, ifun I n (TFun ps TBool) args = VBool b).

Lemma wf_bool_interp I : wf_interp I -> bool_interp I.
Proof.
  intros [H1 H2]. split.
  - intros n. specialize (H1 n TBool). cbn in H1. destruct (isym I n TBool); try contradiction. eauto.
  - intros n ps args. specialize (H2 n ps TBool args). cbn in H2.
    destruct (ifun I n (TFun ps TBool) args); try contradiction. eauto.
Qed.

Lemma wf_bind1 I v x : bool_interp I -> has_ty x (snd v) -> bool_interp (bind1 I v x).
Proof.
  intros [H1 H2] Hx. split; [|exact H2]. intros n. cbn [bind1 isym].
  destruct (String.eqb n (fst v) && ty_eqb TBool (snd v)) eqn:E; [|apply H1].
  apply andb_true_iff in E. destruct E as [_ E]. apply ty_eqb_eq in E. rewrite <- E in Hx.
  cbn in Hx. destruct x; try contradiction. eauto.
Qed.
Lemma wf_bind : forall vs xs I, bool_interp I -> vals_ok xs vs -> bool_interp (bind I vs xs).
Proof.
  induction vs as [|v vs IH]; intros [|x xs] I H Hok; cbn in *; auto; try contradiction.
  destruct Hok. apply IH; auto. now apply wf_bind1.
Qed.

(* ------------------------------------------------------------------ Bool-valued terms *)
Ltac break_match :=
  repeat match goal with
         | |- context [match ?x with _ => _ end] => destruct x
         end.

Lemma bool_term_val : forall y I, bool_interp I -> bool_term y = true -> exists b, eval I y = VBool b.
Proof.
  induction y as [o args IH] using term_ind'. intros I Hwf Hb.
  destruct o; cbn [bool_term] in Hb; try discriminate; cbn [eval].
  all: try solve [cbn; break_match; eauto | cbn; break_match; unfold vle, vlt; break_match; eauto].
  - (* symbol *) destruct t; try discriminate. destruct args; [|discriminate].
    destruct Hwf as [H1 _]. apply H1.
  - (* function *) destruct t; try discriminate. destruct t; try discriminate.
    destruct Hwf as [_ H2]. apply H2.
  - (* ite *) destruct args as [|c [|a [|b [|d r]]]]; try discriminate.
    apply andb_true_iff in Hb. destruct Hb as [Ha Hb].
    inversion IH as [|? ? _ IH1]; subst. inversion IH1 as [|? ? IHa IH2]; subst.
    inversion IH2 as [|? ? IHb _]; subst. cbn.
    destruct (vbool (eval I c)); auto.
  - (* bvrel *) cbn. unfold bvrel_sem. break_match; eauto.
  - (* str *) destruct k; try discriminate; cbn; break_match; eauto.
Qed.

(* ------------------------------------------------------------------ rationals *)
Lemma Q2R_norm n d : Q2R' (fst (fr_norm n d)) (snd (fr_norm n d)) = Q2R' n d.
Proof.
  unfold fr_norm. destruct (Z.eqb_spec d 0) as [->|Hd]; [reflexivity|].
  pose proof (Z.gcd_divide_l n d) as [qn Hn]. pose proof (Z.gcd_divide_r n d) as [qd Hd'].
  set (g := Z.gcd n d) in *.
  assert (Hg : g <> 0%Z). { intros E. rewrite E in Hd'. lia. }
  assert (En : (n / g = qn)%Z). { rewrite Hn at 1. now apply Z.div_mul. }
  assert (Ed : (d / g = qd)%Z). { rewrite Hd' at 1. now apply Z.div_mul. }
  cbv zeta. rewrite En, Ed.
  assert (Hqd : qd <> 0%Z). { intros E. subst qd. lia. }
  assert (R1 : IZR g <> 0%R) by (now apply not_0_IZR).
  assert (R2 : IZR qd <> 0%R) by (now apply not_0_IZR).
  unfold Q2R'. destruct (qd <? 0)%Z; cbn [fst snd]; rewrite Hn at 1; rewrite Hd' at 1.
  - rewrite !opp_IZR, !mult_IZR. field. auto.
  - rewrite !mult_IZR. field. auto.
Qed.

(* ------------------------------------------------------------------ evaluation is compositional *)
Lemma eval_nonbinder I J o args args' :
  is_quant o = None -> (forall n ty, o <> OSymbol n ty) ->
  ifun I = ifun J -> rdiv0 I = rdiv0 J -> idiv0 I = idiv0 J ->
  map (eval I) args = map (eval J) args' ->
  eval I (T o args) = eval J (T o args').
Proof.
  intros Hq Hs Hf Hr Hi Hm.
  assert (A : agree (fun _ => False) (fun _ => True) I J).
  { repeat split; auto; try contradiction. intros n t _. now rewrite Hf. }
  destruct o; cbn [eval]; try discriminate; try (rewrite Hm; apply (op_sem_agree _ _ _ _ _ _ A)).
  - exfalso. eapply Hs; eauto.
  - rewrite Hm, Hf. reflexivity.
Qed.

(* ------------------------------------------------------------------ constructors preserve meaning *)
Lemma bvop_sem_width k w w' vs : bvop_sem k w vs = bvop_sem k w' vs.
Proof. reflexivity. Qed.

Lemma fold_vmul_real (x c : R) : fold_left vmul [VReal c] (VReal x) = VReal (x * c).
Proof. reflexivity. Qed.

Lemma mk_div_sem I a b r :
  (forall n d l, b = T (ORealC n d) l -> l = [] /\ d <> 0%Z) ->
  mk_div a b = Some r -> eval I r = eval I (T ODiv [a; b]).
Proof.
  intros Hb. unfold mk_div. destruct (is_zero b) eqn:Z; [intros [= <-]; reflexivity|].
  destruct b as [ob bargs]. cbn [top].
  destruct ob; try (intros [= <-]; reflexivity).
  destruct (Hb _ _ _ eq_refl) as [-> Hden].
  unfold fr_div. cbn [fst snd]. destruct (Z.eqb_spec num 0) as [->|Hn]; [discriminate|].
  unfold mk_times, mk_real. rewrite !Z.mul_1_l.
  pose proof (Q2R_norm den num) as Q1.
  pose proof (Q2R_norm (fst (fr_norm den num)) (snd (fr_norm den num))) as Q2.
  destruct (fr_norm (fst (fr_norm den num)) (snd (fr_norm den num))) as [n' d'] eqn:E. intros [= <-].
  cbn [fst snd] in Q2. assert (Q : Q2R' n' d' = Q2R' den num) by congruence.
  cbn [eval map op_sem fst snd].
  assert (R1 : IZR den <> 0%R) by (now apply not_0_IZR).
  assert (R2 : IZR num <> 0%R) by (now apply not_0_IZR).
  destruct (eval I a); cbn; auto. rewrite Q. unfold Q2R'.
  destruct (Req_EM_T (IZR num / IZR den) 0) as [E0|E0].
  - exfalso. apply (Rmult_eq_compat_r (IZR den)) in E0. unfold Rdiv in E0.
    rewrite Rmult_assoc, Rinv_l, Rmult_1_r, Rmult_0_l in E0; auto.
  - f_equal. field. auto.
Qed.

Ltac args4 args := destruct args as [|?a [|?b [|?c [|?d ?rest]]]].

Lemma rebuild_sem I o args r :
  frag_op o (List.length args) = true ->
  (forall a l, o = ONot -> args = [a] -> a = T ONot l -> exists y b, l = [y] /\ eval I y = VBool b) ->
  (forall a b, o = ODiv -> args = [a; b] -> realc_ok b) ->
  rebuild o args = Some r -> eval I r = eval I (T o args).
Proof.
  intros Hf Hnot Hdiv.
  destruct o; try discriminate Hf.
  all: try solve [args4 args; cbn in Hf |- *; try discriminate; intros [= <-]; reflexivity].
  - (* not *) args4 args; try discriminate Hf. cbn [rebuild]. unfold mk_not. intros [= <-].
    destruct a as [oa la]. unfold is_not. cbn [top].
    destruct oa; try reflexivity.
    destruct (Hnot _ _ eq_refl eq_refl eq_refl) as (y & bb & -> & Hy).
    unfold arg. cbn [targs nth eval map op_sem]. rewrite Hy. cbn. now rewrite negb_involutive.
  - (* function *) cbn [rebuild]. unfold mk_function. args4 args; try discriminate Hf;
      (destruct t; try discriminate; destruct (Nat.eqb _ _); [|discriminate]; intros [= <-]; reflexivity).
  - (* real constant *) args4 args; try discriminate. cbn [rebuild]. unfold mk_real. cbn [fst snd].
    cbn [frag_op] in Hf. destruct (fr_norm num den) as [n' d'].
    apply andb_true_iff in Hf. destruct Hf as [Hf _]. apply andb_true_iff in Hf. destruct Hf as [E1 E2].
    apply Z.eqb_eq in E1. apply Z.eqb_eq in E2. subst. intros [= <-]. reflexivity.
  - (* bv constant *) args4 args; try discriminate. cbn [rebuild]. unfold mk_bv.
    destruct (v <? 0)%Z; [discriminate|]. destruct (2 ^ w <=? v)%Z; [discriminate|]. intros [= <-]. reflexivity.
  - (* bv operators: the width payload is not used by the semantics *)
    destruct k; args4 args; cbn; try discriminate; intros [= <-]; reflexivity.
  - (* extract *) args4 args; try discriminate. cbn [rebuild]. unfold mk_bvextract.
    destruct ((e <? s)%Z || (s <? 0)%Z); [discriminate|]. destruct (bv_width a <? e - s + 1)%Z; [discriminate|].
    intros [= <-]. reflexivity.
  - (* strings *) destruct k; cbn [rebuild]; unfold mk_strconcat;
      try (destruct (Nat.eqb _ _); [|discriminate]); try (intros [= <-]; reflexivity).
    args4 args; try discriminate; intros [= <-]; reflexivity.
  - (* div *) args4 args; try discriminate. cbn [rebuild]. apply mk_div_sem. exact (Hdiv _ _ eq_refl eq_refl).
Qed.

Ltac head_done := split; [cbn; congruence | intros ?n ?d ?l [=]].

Lemma rebuild_head o args r :
  frag_op o (List.length args) = true -> o <> ONot -> rebuild o args = Some r ->
  top r <> ONot /\ realc_ok r.
Proof.
  intros Hf Hn.
  destruct o; try discriminate Hf; try congruence.
  all: try solve [args4 args; cbn in Hf |- *; try discriminate; intros [= <-]; head_done].
  - (* function *) cbn [rebuild]. unfold mk_function. args4 args; try discriminate Hf;
      (destruct t; try discriminate; destruct (Nat.eqb _ _); [|discriminate]; intros [= <-]; head_done).
  - (* real constant *) args4 args; try discriminate. cbn [rebuild]. unfold mk_real. cbn [fst snd].
    cbn [frag_op] in Hf. destruct (fr_norm num den) as [n' d'].
    apply andb_true_iff in Hf. destruct Hf as [Hf Hd]. apply andb_true_iff in Hf. destruct Hf as [E1 E2].
    apply Z.eqb_eq in E1. apply Z.eqb_eq in E2. subst. intros [= <-].
    split; [cbn; congruence|]. intros n d l [= <- <- <-]. split; auto.
    apply negb_true_iff in Hd. now apply Z.eqb_neq.
  - (* bv constant *) args4 args; try discriminate. cbn [rebuild]. unfold mk_bv.
    destruct (v <? 0)%Z; [discriminate|]. destruct (2 ^ w <=? v)%Z; [discriminate|]. intros [= <-]. head_done.
  - destruct k; args4 args; cbn; try discriminate; intros [= <-]; head_done.
  - (* extract *) args4 args; try discriminate. cbn [rebuild]. unfold mk_bvextract.
    destruct ((e <? s)%Z || (s <? 0)%Z); [discriminate|]. destruct (bv_width a <? e - s + 1)%Z; [discriminate|].
    intros [= <-]. head_done.
  - (* strings *) destruct k; cbn [rebuild]; unfold mk_strconcat;
      try (destruct (Nat.eqb _ _); [|discriminate]); try (intros [= <-]; head_done).
    args4 args; try discriminate; intros [= <-]; head_done.
  - (* div *) args4 args; try discriminate. cbn [rebuild]. unfold mk_div.
    destruct (is_zero b); [intros [= <-]; head_done|].
    destruct (top b); try (intros [= <-]; head_done).
    destruct (fr_div _ _); [|discriminate]. unfold mk_times. intros [= <-]. head_done.
Qed.

(* ------------------------------------------------------------------ the substitution lemma (MGS) *)
Lemma rebuild_fn_nil f o args : rebuild_fn f [] o args = checked (rebuild o args).
Proof. destruct o; reflexivity. Qed.

Lemma checked_Some r t : checked r = Some t -> r = Some t.
Proof. destruct r as [x|]; cbn; [|discriminate]. destruct (tc x); [intros [= <-]; reflexivity | discriminate]. Qed.

Lemma mgs_key p s t t' v : subst_mgs_i p s t = Some t' -> lookup s t = Some v -> t' = v.
Proof.
  destruct t as [o args]. cbn [subst_mgs_i]. intros H L. destruct (is_quant o) as [[fa vs]|].
  - destruct args as [|b [|c r]]; try discriminate. destruct (subst_mgs_i p (drop_bound vs s) b); [|discriminate].
    rewrite L in H. congruence.
  - destruct (omap (subst_mgs_i p s) args); [|discriminate]. rewrite L in H. congruence.
Qed.

Lemma upd_bind_agree s vs xs I b :
  vals_ok xs vs ->
  (forall k v, In (k, v) (drop_bound vs s) -> incl (fv k) (fv b) -> forall x, In x vs -> ~ In x (fv v)) ->
  agree (fun v => In v (fv b)) (fun _ => True) (upd (bind I vs xs) (drop_bound vs s)) (bind (upd I s) vs xs).
Proof.
  intros Hok Hcap. split; [|split; [|split]].
  - cbn. now rewrite !bind_rdiv0.
  - cbn. now rewrite !bind_idiv0.
  - intros n ty Hin. cbn [upd isym]. rewrite lookup_drop_bound, key_survives_sym.
    destruct (mem var_eqb (n, ty) vs) eqn:M; cbn [negb].
    + apply (mem_In var_eqb var_eqb_eq) in M. now apply bind_isym_in.
    + assert (Hni : ~ In (n, ty) vs).
      { intros H. apply (mem_In var_eqb var_eqb_eq) in H. congruence. }
      rewrite (bind_isym_out vs xs (upd I s)) by auto. cbn [upd isym].
      destruct (lookup s (TSym n ty)) as [v|] eqn:L.
      * apply coincidence_gen. split; [|split; [|split]].
        -- apply bind_rdiv0. -- apply bind_idiv0.
        -- intros m tm Hm. apply bind_isym_out. intros Hmv.
           assert (Hd : In (TSym n ty, v) (drop_bound vs s)).
           { apply lookup_In. rewrite lookup_drop_bound, key_survives_sym, M. exact L. }
           apply (Hcap _ _ Hd) with (x := (m, tm)); auto.
           intros u Hu. cbn in Hu. destruct Hu as [<-|[]]. exact Hin.
        -- intros m tm _. now rewrite bind_ifun.
      * now apply bind_isym_out.
  - intros n ty _. cbn. now rewrite !bind_ifun.
Qed.

Definition res_ok (s : smap) (t t' : term) : Prop :=
  lookup s t = None -> top t <> ONot -> top t' <> ONot /\ realc_ok t'.

Definition sem_stmt (t : term) : Prop :=
  forall s I t', sym_keys s -> neg_values_ok s -> frag t = true -> no_capture s t -> bool_interp I ->
                 subst_mgs_i [] s t = Some t' -> eval I t' = eval (upd I s) t /\ res_ok s t t'.

Definition child_ok (s : smap) (I : interp) (a a' : term) : Prop :=
  eval I a' = eval (upd I s) a /\
  (top a <> ONot -> (forall l, a' = T ONot l -> exists y, l = [y] /\ bool_term y = true) /\ realc_ok a').

Lemma children_ok s I : sym_keys s -> neg_values_ok s -> bool_interp I -> forall args args',
  Forall sem_stmt args -> Forall (fun a => frag a = true) args -> Forall (no_capture s) args ->
  Forall2 (fun a b => subst_mgs_i [] s a = Some b) args args' -> Forall2 (child_ok s I) args args'.
Proof.
  intros Hk Hv Hwf args args' IH Fa Ca Ea. induction Ea as [|a a' r r' Ha Hr IHr]; constructor.
  - inversion IH as [|? ? IHa _]; inversion Fa as [|? ? Fa1 _]; inversion Ca as [|? ? Ca1 _]; subst.
    destruct (IHa s I a' Hk Hv Fa1 Ca1 Hwf Ha) as [E R]. split; auto. intros Hna.
    destruct (lookup s a) as [v|] eqn:La.
    + pose proof (mgs_key _ _ _ _ _ Ha La). subst a'. destruct (Hv _ _ (lookup_In _ _ _ La)) as [N1 N2]. split; auto.
    + destruct (R La Hna) as [R1 R2]. split; auto. intros l ->. exfalso. apply R1. reflexivity.
  - apply IHr; [inversion IH | inversion Fa | inversion Ca]; auto.
Qed.

Lemma child_ok_map s I args args' : Forall2 (child_ok s I) args args' ->
  map (eval I) args' = map (eval (upd I s)) args.
Proof. induction 1 as [|a a' r r' [E _] _ IH]; cbn; congruence. Qed.

Theorem subst_mgs_sem : forall t, sem_stmt t.
Proof.
  induction t as [o args IH] using term_ind'. intros s I t' Hk Hv Hf Hc Hwf Hs.
  cbn [subst_mgs_i] in Hs. destruct (is_quant o) as [[fa vs]|] eqn:Hq.
  - (* quantifier *)
    destruct args as [|b [|c r]]; try discriminate.
    destruct (subst_mgs_i [] (drop_bound vs s) b) as [b'|] eqn:Eb; [|discriminate].
    assert (L : lookup s (T o [b]) = None).
    { destruct (lookup s (T o [b])) eqn:L; auto. destruct (lookup_sym_keys _ _ _ Hk L) as (n & ty & E).
      inversion E. }
    rewrite L in Hs. apply checked_Some in Hs. injection Hs as <-.
    inversion IH as [|? ? IHb _]; subst.
    cbn [frag] in Hf. rewrite !andb_true_iff in Hf. destruct Hf as [[Hfo _] [Hfb _]].
    cbn [no_capture] in Hc. rewrite Hq in Hc. destruct Hc as [Hcap Hcb].
    assert (E : forall xs, vals_ok xs vs -> eval (bind I vs xs) b' = eval (bind (upd I s) vs xs) b).
    { intros xs Hok.
      destruct (IHb (drop_bound vs s) (bind I vs xs) b' (sym_keys_drop _ _ Hk) (neg_values_drop _ _ Hv)
                    Hfb Hcb (wf_bind _ _ _ Hwf Hok) Eb) as [E _].
      rewrite E. apply coincidence_gen.
      eapply agree_weaken; [| |apply (upd_bind_agree s vs xs I b Hok Hcap)]; cbn; auto. }
    destruct o; try discriminate; injection Hq as <- <-; destruct vs0 as [|v0 vs']; try discriminate Hfo;
      cbn [mk_quant mk_forall mk_exists]; (split; [|intros _ _; head_done]); cbn [eval]; f_equal; apply emi_iff.
    + split; intros G xs Hok; [rewrite <- E | rewrite E]; auto.
    + split; intros (xs & Hok & G); exists xs; split; auto; [rewrite <- E | rewrite E]; auto.
  - (* other operators *)
    destruct (omap (subst_mgs_i [] s) args) as [args'|] eqn:Ea; [|discriminate]. apply omap_Forall2 in Ea.
    destruct (lookup s (T o args)) as [v|] eqn:L.
    + injection Hs as <-. destruct (lookup_sym_keys _ _ _ Hk L) as (n & ty & E). inversion E; subst. split.
      * cbn [eval upd isym]. unfold TSym. now rewrite L.
      * intros L'. congruence.
    + rewrite rebuild_fn_nil in Hs. apply checked_Some in Hs.
      pose proof (children_ok s I Hk Hv Hwf args args' IH (frag_args _ _ Hf) (no_capture_args _ _ _ Hq Hc) Ea) as Hch.
      pose proof (child_ok_map _ _ _ _ Hch) as Hm.
      pose proof (Forall2_length' _ _ _ Hch) as Hlen.
      cbn [frag] in Hf. rewrite !andb_true_iff in Hf. destruct Hf as [[Hfo Hfx] _].
      destruct (match o with OSymbol _ _ => true | _ => false end) eqn:Hsym.
      * (* a symbol that is not a key *)
        destruct o; try discriminate. destruct args' as [|x r]; [|discriminate Hs].
        inversion Hch; subst. cbn in Hs. injection Hs as <-. split.
        -- cbn [eval upd isym]. unfold TSym in *. now rewrite L.
        -- intros _ _. head_done.
      * assert (Hns : forall n ty, o <> OSymbol n ty) by (intros n ty ->; discriminate).
        split.
        -- rewrite (rebuild_sem I o args' t'); auto.
           ++ apply eval_nonbinder; auto.
           ++ now rewrite <- Hlen.
           ++ intros a' l -> -> ->. inversion Hch as [|a ? ? ? [_ Ca] Hr]; subst. inversion Hr; subst.
              cbn in Hfx. apply negb_true_iff in Hfx.
              assert (Hna : top a <> ONot). { intros Et. unfold is_not in Hfx. now rewrite Et in Hfx. }
              destruct (Ca Hna) as [N _]. destruct (N _ eq_refl) as (y & -> & Hy).
              destruct (bool_term_val y I Hwf Hy) as [bb Hb]. eauto.
           ++ intros a' b' -> ->. inversion Hch as [|a ? ? ? _ Hr]; subst.
              inversion Hr as [|b ? ? ? [_ Cb] Hr']; subst. inversion Hr'; subst.
              cbn in Hfx. apply negb_true_iff in Hfx.
              assert (Hnb : top b <> ONot). { intros Et. unfold is_not in Hfx. now rewrite Et in Hfx. }
              now destruct (Cb Hnb).
        -- intros _ Hno. cbn [top] in Hno. apply (rebuild_head o args'); auto. now rewrite <- Hlen.
Qed.

Theorem subst_lemma_partial : forall s t I t',
  sym_keys s -> neg_values_ok s -> frag t = true -> no_capture s t -> bool_interp I ->
  subst_mgs s t = Some t' -> eval I t' = eval (upd I s) t.
Proof. intros s t I t' H1 H2 H3 H4 H5 H6. exact (proj1 (subst_mgs_sem t s I t' H1 H2 H3 H4 H5 H6)). Qed.

(* the hypotheses are satisfiable by a non-trivial instance: (forall y. x < y) /\ not b with
   x := z + 1 and b := not c *)
Definition ex_I : interp :=
  {| isym := fun _ ty => match ty with TBool => VBool true | TInt => VInt 0 | _ => VBool false end;
     ifun := fun _ _ _ => VBool false; rdiv0 := fun r => r; idiv0 := fun z => z |}.
Definition ex_x := TSym "x" TInt.  Definition ex_y := TSym "y" TInt.  Definition ex_z := TSym "z" TInt.
Definition ex_b := TSym "b" TBool. Definition ex_c := TSym "c" TBool.
Definition ex_t := T OAnd [T (OForall [("y"%string, TInt)]) [T OLt [ex_x; ex_y]]; T ONot [ex_b]].
Definition ex_s : smap := [(ex_x, T OPlus [ex_z; TIntC 1]); (ex_b, T ONot [ex_c])].

Lemma ex_bool_interp : bool_interp ex_I.
Proof. split; cbn; eauto. Qed.

Example subst_lemma_example :
  sym_keys ex_s /\ neg_values_ok ex_s /\ frag ex_t = true /\ no_capture ex_s ex_t /\ bool_interp ex_I /\
  subst_mgs ex_s ex_t
  = Some (T OAnd [T (OForall [("y"%string, TInt)]) [T OLt [T OPlus [ex_z; TIntC 1]; ex_y]]; ex_c]).
Proof.
  split; [|split; [|split; [|split; [|split]]]].
  - intros k v [[= <- <-]|[[= <- <-]|[]]]; do 2 eexists; reflexivity.
  - intros k v [[= <- <-]|[[= <- <-]|[]]]; split.
    + intros l H; discriminate.
    + intros n d l H; discriminate.
    + intros l [= <-]. exists ex_c. split; reflexivity.
    + intros n d l H; discriminate.
  - reflexivity.
  - cbn. repeat split; auto. intros k v [[= <- <-]|[[= <- <-]|[]]] _ x [<-|[]]; cbn; intuition congruence.
  - exact ex_bool_interp.
  - vm_compute. reflexivity.
Qed.

(* The proviso is needed: capture changes the meaning (excluded by the property). *)
Example capture_changes_meaning :
  let t := T (OExists [("y"%string, TInt)]) [T OLt [ex_x; ex_y]] in
  let s := [(ex_x, ex_y)] in
  subst_mgs s t = Some (T (OExists [("y"%string, TInt)]) [T OLt [ex_y; ex_y]]) /\ ~ no_capture s t.
Proof.
  split; [vm_compute; reflexivity|]. cbn. intros [H _].
  apply (H ex_x ex_y (or_introl eq_refl)) with (x := ("y"%string, TInt)); cbn; auto.
  intros u [<-|[]]. cbn. auto.
Qed.

(* ------------------------------------------------------------------ MSS: the lemma is false *)
Definition mssw_t := T ONot [ex_b].
Definition mssw_s : smap := [(ex_b, T ONot [ex_b])].

Lemma mssw_facts :
  sym_keys mssw_s /\ neg_values_ok mssw_s /\ frag mssw_t = true /\ no_capture mssw_s mssw_t /\
  canon mssw_t = true /\ tc (T ONot [ex_b]) = tc ex_b /\
  subst_mgs mssw_s mssw_t = Some ex_b /\ subst_mss mssw_s mssw_t = Some (T ONot [ex_b]).
Proof.
  split; [|split; [|split; [|split; [|split; [|split; [|split]]]]]]; try (vm_compute; reflexivity).
  - intros k v [[= <- <-]|[]]; do 2 eexists; reflexivity.
  - intros k v [[= <- <-]|[]]; split; [intros l [= <-]; exists ex_b; split; reflexivity | intros n d l H; discriminate].
  - cbn. auto.
Qed.

(* MSSubstituter(Not b, {b: Not b}) = Not b: the rebuilt node Not(Not b) is normalised to b by
   the constructor, and b is a key again, so it is replaced a second time. *)
Theorem subst_lemma_mss_refuted :
  exists s t t' I, sym_keys s /\ neg_values_ok s /\ frag t = true /\ no_capture s t /\ bool_interp I /\
                   subst_mss s t = Some t' /\ eval I t' <> eval (upd I s) t.
Proof.
  exists mssw_s, mssw_t, (T ONot [ex_b]), ex_I.
  destruct mssw_facts as (A & B & C & D & _ & _ & _ & E).
  split; [exact A|]. split; [exact B|]. split; [exact C|]. split; [exact D|].
  split; [exact ex_bool_interp|]. split; [exact E|].
  vm_compute. discriminate.
Qed.

Theorem mgs_mss_sym_refuted :
  exists s t, sym_keys s /\ canon t = true /\ (forall k v, In (k, v) s -> tc v = tc k) /\
              subst_mgs s t <> subst_mss s t.
Proof.
  exists mssw_s, mssw_t. destruct mssw_facts as (A & _ & _ & _ & C & T1 & M1 & M2).
  repeat split; auto.
  - intros k v [[= <- <-]|[]]. exact T1.
  - rewrite M1, M2. discriminate.
Qed.

(* ------------------------------------------------------------------ bound occurrences are never replaced:
   a map entry whose key mentions a variable bound by the quantifier (in particular the entry for
   the bound symbol itself) has no effect on the quantified formula, for both strategies, with or
   without interpretations. *)
Lemma key_dropped vs k x : In x vs -> In x (fv k) -> key_survives vs k = false.
Proof.
  intros Hv Hk. unfold key_survives. destruct (forallb _ (fv k)) eqn:E; auto.
  rewrite forallb_forall in E. specialize (E x Hk). apply negb_true_iff in E.
  apply (mem_In var_eqb var_eqb_eq) in Hv. congruence.
Qed.

Lemma lookup_cons_ne k v s q : k <> q -> lookup ((k, v) :: s) q = lookup s q.
Proof.
  intros H. unfold lookup. cbn [assoc_get]. destruct (term_eqb q k) eqn:E; auto.
  apply term_eqb_eq in E. congruence.
Qed.

Definition quant_op (fa : bool) (vs : list var) : op := if fa then OForall vs else OExists vs.

Theorem bound_untouched_mgs : forall p s k v fa vs b x,
  In x vs -> In x (fv k) -> k <> T (quant_op fa vs) [b] ->
  subst_mgs_i p ((k, v) :: s) (T (quant_op fa vs) [b]) = subst_mgs_i p s (T (quant_op fa vs) [b]).
Proof.
  intros p s k v fa vs b x Hv Hk Hne.
  assert (D : drop_bound vs ((k, v) :: s) = drop_bound vs s).
  { unfold drop_bound. cbn [filter fst]. now rewrite (key_dropped vs k x Hv Hk). }
  destruct fa; cbn [quant_op] in *; cbn [subst_mgs_i is_quant]; rewrite D, (lookup_cons_ne k v s _ Hne); reflexivity.
Qed.

Theorem bound_untouched_mss : forall p s k v fa vs b x,
  In x vs -> In x (fv k) ->
  subst_mss_i p ((k, v) :: s) (T (quant_op fa vs) [b]) = subst_mss_i p s (T (quant_op fa vs) [b]).
Proof.
  intros p s k v fa vs b x Hv Hk.
  assert (D : drop_bound vs ((k, v) :: s) = drop_bound vs s).
  { unfold drop_bound. cbn [filter fst]. now rewrite (key_dropped vs k x Hv Hk). }
  assert (R : forall b', replace_after ((k, v) :: s) (checked (Some (mk_quant fa vs b')))
                         = replace_after s (checked (Some (mk_quant fa vs b')))).
  { intros b'. destruct (checked (Some (mk_quant fa vs b'))) as [r|] eqn:C; [|reflexivity].
    apply checked_Some in C. injection C as <-. cbn [replace_after]. rewrite lookup_cons_ne; auto.
    (* the rebuilt quantifier binds x, the key mentions x free *)
    intros ->. destruct vs as [|v0 vs']; [contradiction|].
    assert (~ In x (fv (mk_quant fa (v0 :: vs') b'))).
    { destruct fa; cbn [mk_quant mk_forall mk_exists fv]; intros H;
        apply (diff_In var_eqb var_eqb_eq) in H; tauto. }
    contradiction. }
  destruct fa; cbn [quant_op subst_mss_i is_quant]; rewrite D;
    (destruct (subst_mss_i p (drop_bound vs s) b); [apply R | reflexivity]).
Qed.

(* ------------------------------------------------------------------ most-general: a key wins over everything
   below it - whenever the call returns.  The children of a key are nevertheless walked and
   rebuilt first (post-order stack), so a constructor that raises below a key makes the whole
   call raise although the documented result is the replacement of the key. *)
Theorem mgs_key_first : forall p s t t' v,
  subst_mgs_i p s t = Some t' -> lookup s t = Some v -> t' = v.
Proof. exact mgs_key. Qed.

Definition keyw_x := TSym "x" TReal.  Definition keyw_r := TSym "r" TReal.
Definition keyw_t := T OLt [T OPow [keyw_x; TRealC 2 1]; TRealC 1 1].
Definition keyw_s : smap := [(keyw_t, TTrue); (TRealC 2 1, keyw_r)].

Theorem mgs_key_raises_witness :
  exists s t v, lookup s t = Some v /\ (forall k v', In (k, v') s -> tc v' = tc k) /\ canon t = true /\
                args_ok s t = true /\ subst_mgs s t = None.
Proof.
  exists keyw_s, keyw_t, TTrue. repeat split; try (vm_compute; reflexivity).
  intros k v' [[= <- <-]|[[= <- <-]|[]]]; vm_compute; reflexivity.
Qed.

(* ------------------------------------------------------------------ MGS = MSS on symbol keys, where it holds:
   no replacement term is a negation (the refuted case), formula in the fragment *)
Definition is_sym_op (o : op) : bool := match o with OSymbol _ _ => true | _ => false end.
Ltac nosym_done := cbn; congruence.

Lemma rebuild_not_sym o args r :
  frag_op o (List.length args) = true -> is_sym_op o = false ->
  (forall a, o = ONot -> args = [a] -> top a <> ONot) ->
  rebuild o args = Some r -> is_sym_op (top r) = false.
Proof.
  intros Hf Hn Hnot.
  destruct o; try discriminate Hf; try discriminate Hn.
  all: try solve [args4 args; cbn in Hf |- *; try discriminate; intros [= <-]; reflexivity].
  - (* not *) args4 args; try discriminate Hf. cbn [rebuild]. unfold mk_not, is_not.
    specialize (Hnot a eq_refl eq_refl). destruct (top a); try (intros [= <-]; reflexivity). congruence.
  - cbn [rebuild]. unfold mk_function. args4 args; try discriminate Hf;
      (destruct t; try discriminate; destruct (Nat.eqb _ _); [|discriminate]; intros [= <-]; reflexivity).
  - args4 args; try discriminate. cbn [rebuild]. unfold mk_real. cbn [fst snd].
    destruct (fr_norm num den). intros [= <-]. reflexivity.
  - args4 args; try discriminate. cbn [rebuild]. unfold mk_bv.
    destruct (v <? 0)%Z; [discriminate|]. destruct (2 ^ w <=? v)%Z; [discriminate|]. intros [= <-]. reflexivity.
  - destruct k; args4 args; cbn; try discriminate; intros [= <-]; reflexivity.
  - args4 args; try discriminate. cbn [rebuild]. unfold mk_bvextract.
    destruct ((e <? s)%Z || (s <? 0)%Z); [discriminate|]. destruct (bv_width a <? e - s + 1)%Z; [discriminate|].
    intros [= <-]. reflexivity.
  - destruct k; cbn [rebuild]; unfold mk_strconcat;
      try (destruct (Nat.eqb _ _); [|discriminate]); try (intros [= <-]; reflexivity).
    args4 args; try discriminate; intros [= <-]; reflexivity.
  - args4 args; try discriminate. cbn [rebuild]. unfold mk_div.
    destruct (is_zero b); [intros [= <-]; reflexivity|].
    destruct (top b); try (intros [= <-]; reflexivity).
    destruct (fr_div _ _); [|discriminate]. unfold mk_times. intros [= <-]. reflexivity.
Qed.

Definition no_neg_values (s : smap) : Prop := forall k v, In (k, v) s -> top v <> ONot.

Lemma lookup_not_sym s r : sym_keys s -> is_sym_op (top r) = false -> lookup s r = None.
Proof.
  intros Hk Hr. destruct (lookup s r) eqn:L; auto.
  destruct (lookup_sym_keys _ _ _ Hk L) as (n & ty & ->). discriminate.
Qed.

Lemma mgs_head s t t' : sym_keys s -> no_neg_values s -> frag t = true -> top t <> ONot ->
  subst_mgs_i [] s t = Some t' -> top t' <> ONot.
Proof.
  intros Hk Hv Hf Hn. destruct t as [o args]. cbn [subst_mgs_i top] in *.
  cbn [frag] in Hf. rewrite !andb_true_iff in Hf. destruct Hf as [[Hfo _] _].
  destruct (is_quant o) as [[fa vs]|] eqn:Hq.
  - destruct args as [|b [|c r]]; try discriminate.
    destruct (subst_mgs_i [] (drop_bound vs s) b); [|discriminate].
    destruct (lookup s (T o [b])) eqn:L.
    + intros [= <-]. apply lookup_In in L. eauto.
    + intros H. apply checked_Some in H. injection H as <-.
      destruct o; try discriminate; injection Hq as <- <-; destruct vs0; try discriminate Hfo; cbn; congruence.
  - destruct (omap (subst_mgs_i [] s) args) as [args'|] eqn:Ea; [|discriminate].
    apply omap_Forall2 in Ea. pose proof (Forall2_length' _ _ _ Ea) as Hl.
    destruct (lookup s (T o args)) eqn:L.
    + intros [= <-]. apply lookup_In in L. eauto.
    + rewrite rebuild_fn_nil. intros H. apply checked_Some in H.
      apply (rebuild_head o args'); auto. now rewrite <- Hl.
Qed.

Lemma omap_ext_Forall {A B} (f g : A -> option B) l :
  Forall (fun a => f a = g a) l -> omap f l = omap g l.
Proof.
  induction 1 as [|x r Hx _ IH]; [reflexivity|]. cbn.
  change ((fix go (l : list A) : option (list B) :=
             match l with [] => Some [] | x :: r => match f x, go r with Some y, Some ys => Some (y :: ys) | _, _ => None end end) r)
    with (omap f r).
  change ((fix go (l : list A) : option (list B) :=
             match l with [] => Some [] | x :: r => match g x, go r with Some y, Some ys => Some (y :: ys) | _, _ => None end end) r)
    with (omap g r).
  now rewrite Hx, IH.
Qed.

Lemma no_neg_drop vs s : no_neg_values s -> no_neg_values (drop_bound vs s).
Proof. intros H k v Hin. apply drop_bound_In in Hin. eauto. Qed.

Theorem mgs_mss_sym_partial : forall t s,
  sym_keys s -> no_neg_values s -> frag t = true -> subst_mgs s t = subst_mss s t.
Proof.
  unfold subst_mgs, subst_mss.
  induction t as [o args IH] using term_ind'. intros s Hk Hv Hf.
  pose proof (frag_args _ _ Hf) as Fa.
  cbn [subst_mgs_i subst_mss_i]. destruct (is_quant o) as [[fa vs]|] eqn:Hq.
  - destruct args as [|b [|c r]]; try reflexivity.
    inversion IH as [|? ? IHb _]; inversion Fa as [|? ? Fb _]; subst.
    rewrite <- (IHb (drop_bound vs s) (sym_keys_drop _ _ Hk) (no_neg_drop _ _ Hv) Fb).
    destruct (subst_mgs_i [] (drop_bound vs s) b) as [b'|]; [|reflexivity].
    assert (L : lookup s (T o [b]) = None).
    { apply lookup_not_sym; auto. destruct o; try discriminate; reflexivity. }
    rewrite L. destruct (checked (Some (mk_quant fa vs b'))) as [r|] eqn:C; [|reflexivity].
    cbn [replace_after]. apply checked_Some in C. injection C as <-.
    cbn [frag] in Hf. rewrite !andb_true_iff in Hf. destruct Hf as [[Hfo _] _].
    rewrite lookup_not_sym; auto.
    destruct o; try discriminate; injection Hq as <- <-; destruct vs0; try discriminate Hfo; reflexivity.
  - assert (E : omap (subst_mgs_i [] s) args = omap (subst_mss_i [] s) args).
    { apply omap_ext_Forall. rewrite Forall_forall in IH, Fa |- *. intros a Ha. apply IH; auto. }
    rewrite <- E. destruct (omap (subst_mgs_i [] s) args) as [args'|] eqn:Ea; [|reflexivity].
    apply omap_Forall2 in Ea. pose proof (Forall2_length' _ _ _ Ea) as Hl.
    rewrite rebuild_fn_nil.
    cbn [frag] in Hf. rewrite !andb_true_iff in Hf. destruct Hf as [[Hfo Hfx] _].
    destruct (is_sym_op o) eqn:Hs.
    + (* a symbol: rebuilt as itself *)
      destruct o; try discriminate. destruct args' as [|x r].
      * inversion Ea; subst. cbn [rebuild checked TSym tc tc_rule replace_after]. unfold TSym.
        destruct (lookup s (T (OSymbol n t) [])); reflexivity.
      * inversion Ea; subst. cbn [rebuild checked replace_after].
        destruct (lookup s (T (OSymbol n t) (_ :: _))) eqn:L; [|reflexivity].
        destruct (lookup_sym_keys _ _ _ Hk L) as (n' & ty' & E'). discriminate E'.
    + rewrite (lookup_not_sym s (T o args)) by auto.
      destruct (checked (rebuild o args')) as [r|] eqn:C; [|reflexivity]. cbn [replace_after].
      apply checked_Some in C. rewrite lookup_not_sym; auto.
      apply (rebuild_not_sym o args'); auto; [now rewrite <- Hl|].
      intros a' -> ->. inversion Ea as [|a ? ? ? Ha Hr]; subst. inversion Hr; subst.
      cbn in Hfx. apply negb_true_iff in Hfx. inversion Fa; subst.
      eapply (mgs_head s a a'); eauto. intros Et. unfold is_not in Hfx. now rewrite Et in Hfx.
Qed.

Theorem subst_lemma_mss_partial : forall s t I t',
  sym_keys s -> no_neg_values s -> (forall k v, In (k, v) s -> realc_ok v) ->
  frag t = true -> no_capture s t -> bool_interp I ->
  subst_mss s t = Some t' -> eval I t' = eval (upd I s) t.
Proof.
  intros s t I t' Hk Hn Hr Hf Hc Hb Hs. rewrite <- (mgs_mss_sym_partial t s Hk Hn Hf) in Hs.
  apply (subst_lemma_partial s t I t'); auto.
  intros k v Hin. split; [|eauto]. intros l ->. exfalso. apply (Hn _ _ Hin). reflexivity.
Qed.
