(* C05: theorems about models/Substituter.v *)
From Coq Require Import List ZArith Bool String.
From PySMT.core Require Import Syntax SyntaxLemmas.
From PySMT.models Require Import TypeChecker Oracles Ctors Substituter.
Import ListNotations.

Lemma lookup_nil t : lookup [] t = None.
Proof. reflexivity. Qed.
