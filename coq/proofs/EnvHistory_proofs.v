(* C14 on the memo-table machine: answers do not depend on the history. *)
From Coq Require Import List Arith Bool Lia.
From PySMT.core Require Import DagWalk.
From PySMT.models Require Import WalkerFail EnvHistory.
From PySMT.proofs Require Import DagWalk_proofs WalkerFail_proofs.
Import ListNotations.

Section EnvProofs.
  Variable A : Type.
  Variable children : nat -> nat -> list nat.
  Hypothesis children_lt : forall w n c, In c (children w n) -> c < n.
  Variable f : nat -> nat -> list A -> option A.
  Variable early : nat -> bool.
  Variable fuel : nat.

  Local Notation env := (env A).
  Local Notation env_call := (env_call A children f early fuel).
  Local Notation env_run := (env_run A children f early fuel).
  Local Notation env_init := (env_init A).

  Definition env_clean (e : env) : Prop := forall w, clean A (children w) (f w) (e w).

  (* the only requirement on a call (succeeding or raising): the loop is given enough fuel *)
  Definition api_ok (c : api_call) : Prop := enough_fuel (children (fst c)) (snd c) <= fuel.

  Lemma env_init_clean : env_clean env_init.
  Proof. intros w. apply clean_init. Qed.

  Lemma env_call_clean e c : env_clean e -> api_ok c -> env_clean (fst (env_call e c)).
  Proof.
    intros He Hc w. unfold EnvHistory.env_call.
    pose proof (proj1 (do_call_clean A (children (fst c)) (children_lt (fst c)) (f (fst c)) (early (fst c)) fuel
                  (e (fst c)) (tt, snd c) (He (fst c)) Hc)) as H.
    unfold WalkerFail.do_call in H. cbn [fst snd] in H.
    destruct (walk A (children (fst c)) (f (fst c)) (early (fst c)) false fuel (e (fst c)) (snd c)) as [s a].
    cbn [fst] in *. unfold EnvHistory.upd_env. destruct (Nat.eqb_spec w (fst c)) as [->|Hne]; [exact H|apply He].
  Qed.

  Lemma env_call_indep e1 e2 c : env_clean e1 -> env_clean e2 ->
    enough_fuel (children (fst c)) (snd c) <= fuel ->
    ans_equiv (snd (env_call e1 c)) (snd (env_call e2 c)).
  Proof.
    intros H1 H2 Hfuel. unfold EnvHistory.env_call.
    pose proof (do_call_indep A (children (fst c)) (children_lt (fst c)) (f (fst c)) (early (fst c)) fuel
                  (e1 (fst c)) (e2 (fst c)) (tt, snd c) (H1 (fst c)) (H2 (fst c)) Hfuel) as H.
    unfold WalkerFail.do_call in H. cbn [fst snd] in H.
    destruct (walk A (children (fst c)) (f (fst c)) (early (fst c)) false fuel (e1 (fst c)) (snd c)) as [s1 a1].
    destruct (walk A (children (fst c)) (f (fst c)) (early (fst c)) false fuel (e2 (fst c)) (snd c)) as [s2 a2].
    exact H.
  Qed.

  Lemma env_run_clean : forall h e, env_clean e -> Forall api_ok h -> env_clean (env_run e h).
  Proof.
    induction h as [|c h IH]; intros e He Hh; cbn; [exact He|].
    inversion Hh as [|? ? Hc Hh']; subst. apply IH; [apply env_call_clean; assumption|assumption].
  Qed.

  (* history_independent: whatever was built, queried or transformed before (on any of the
     environment's walkers, sharing any part of the DAG), the query answers as in a fresh
     environment *)
  Theorem history_independent : forall h q, Forall api_ok h -> api_ok q ->
    ans_equiv (result_after A children f early fuel h q) (result_fresh A children f early fuel q).
  Proof.
    intros h q Hh Hq. unfold result_after, result_fresh.
    apply env_call_indep; [apply env_run_clean; [apply env_init_clean|exact Hh] | apply env_init_clean | exact Hq].
  Qed.

  (* repeat_same: a repeated query returns the memoised value itself and invokes no callback *)
  Theorem repeat_same : forall h q v, Forall api_ok h -> api_ok q ->
    result_after A children f early fuel h q = Ok v ->
    let e1 := fst (env_call (env_run env_init h) q) in
    snd (env_call e1 q) = Ok v /\
    mm (e1 (fst q)) (snd q) = Some v /\
    calls (fst (env_call e1 q) (fst q)) = calls (e1 (fst q)).
  Proof.
    intros h q v Hh Hq Hr. set (e0 := env_run env_init h).
    assert (H0 : env_clean e0) by (apply env_run_clean; [apply env_init_clean|exact Hh]).
    unfold result_after in Hr. fold e0 in Hr. cbn zeta. unfold EnvHistory.env_call in *.
    set (w := fst q) in *. set (root := snd q) in *.
    pose proof Hq as Hfuel. unfold api_ok in Hfuel. fold w root in Hfuel.
    assert (HF : F A (children w) (f w) root = Some v).
    { pose proof (walk_refines A (children w) (children_lt w) (f w) (early w) false (e0 w) root fuel) as R.
      destruct (walk A (children w) (f w) (early w) false fuel (e0 w) root) as [s a] eqn:E.
      cbn [snd] in Hr. subst a. specialize (R s (Ok v) (H0 w) Hfuel eq_refl).
      destruct (F A (children w) (f w) root) as [v'|].
      - inversion R. reflexivity.
      - destruct R as (x & Hx & _). discriminate. }
    destruct (walk_ok A (children w) (children_lt w) (f w) (early w) false (e0 w) root fuel v (H0 w) Hfuel HF)
      as (s1 & new1 & E1 & Hcl1 & _ & Hp1 & _).
    rewrite E1. cbn [fst snd]. destruct (Hp1 eq_refl) as [_ Hroot1].
    assert (Hu : upd_env A e0 w s1 w = s1) by (unfold EnvHistory.upd_env; rewrite Nat.eqb_refl; reflexivity).
    rewrite Hu.
    destruct (walk_ok A (children w) (children_lt w) (f w) (early w) false s1 root fuel v Hcl1 Hfuel HF)
      as (s2 & new2 & E2 & _ & _ & _ & Hfresh2 & Hcalls2 & _).
    rewrite E2. cbn [fst snd]. split; [reflexivity|]. split; [exact Hroot1|].
    unfold EnvHistory.upd_env. rewrite Nat.eqb_refl.
    rewrite (fresh_memoised_root A (children w) (f w) (mm s1) root new2 (proj2 Hcl1)
               (some_inm A _ _ _ Hroot1) Hfresh2) in Hcalls2.
    cbn in Hcalls2. lia.
  Qed.
End EnvProofs.

(* the one-shot walker of the environment (env.substituter): the callback depends on the
   keyword arguments of each call (the substitution map) *)
Section OneShotHistory.
  Variable A P : Type.
  Variable children : nat -> list nat.
  Hypothesis children_lt : forall n c, In c (children n) -> c < n.
  Variable f : P -> nat -> list A -> option A.
  Variable early : bool.
  Variable fuel : nat.
  Local Notation do_call := (do_call A P children f early true fuel).
  Local Notation run_calls := (run_calls A P children f early true fuel).

  Definition os_ok (c : call P) : Prop := enough_fuel children (snd c) <= fuel.

  Lemma run_pristine : forall h w, pristine A w -> Forall os_ok h -> pristine A (fst (run_calls w h)).
  Proof.
    induction h as [|c h IH]; intros w Hw Hh; cbn; [exact Hw|].
    inversion Hh as [|? ? Hc Hh']; subst.
    pose proof (oneshot_pristine A P children children_lt f early fuel w c Hw Hc) as H1.
    destruct (do_call w c) as [w1 a]. cbn [fst] in H1. specialize (IH w1 H1 Hh').
    destruct (run_calls w1 h) as [w2 l]. exact IH.
  Qed.

  Theorem oneshot_history_independent : forall h q, Forall os_ok h -> os_ok q ->
    ans_equiv (snd (do_call (fst (run_calls (init A) h)) q)) (fresh_answer A P children f early true fuel q).
  Proof.
    intros h q Hh Hfuel. unfold os_ok in Hfuel.
    assert (Hp : pristine A (fst (run_calls (init A) h))) by (apply run_pristine; [split; reflexivity|exact Hh]).
    set (w := fst (run_calls (init A) h)) in *.
    pose proof (pristine_clean A P children f w (fst q) Hp) as C1.
    pose proof (clean_init A children (f (fst q))) as C2.
    unfold fresh_answer, WalkerFail.do_call.
    destruct (F A children (f (fst q)) (snd q)) as [v|] eqn:HF.
    - destruct (walk_ok A children children_lt (f (fst q)) early true w (snd q) fuel v C1 Hfuel HF) as (s1 & n1 & E1 & _).
      destruct (walk_ok A children children_lt (f (fst q)) early true (init A) (snd q) fuel v C2 Hfuel HF) as (s2 & n2 & E2 & _).
      rewrite E1, E2. reflexivity.
    - destruct (walk_err A children children_lt (f (fst q)) early true w (snd q) fuel C1 Hfuel HF) as (s1 & x1 & E1 & _).
      destruct (walk_err A children children_lt (f (fst q)) early true (init A) (snd q) fuel C2 Hfuel HF) as (s2 & x2 & E2 & _).
      rewrite E1, E2. exact I.
  Qed.
End OneShotHistory.

(* the hypotheses are satisfiable: two walkers over the diamond DAG of DagWalk_proofs *)
Module EnvExample.
  Import DagWalkExample.
  Definition chs (_ : nat) := ch.
  Definition fs (w : nat) (n : nat) (args : list nat) : option nat :=
    if Nat.eqb w 0 then sz n args else Some (n + list_sum args).
  Example ex_history : result_after nat chs fs (fun _ => true) 100 [(0, 3); (1, 4); (0, 2)] (0, 4) = Ok 12
                       /\ result_fresh nat chs fs (fun _ => true) 100 (0, 4) = Ok 12.
  Proof. split; reflexivity. Qed.
End EnvExample.
