(* C07: the s-expression written by the model of SmtPrinter denotes, in the SMT-LIB reading of
   core/SmtStd.v, the value core/Sem.v gives to the formula - for all terms of the stated fragment,
   all interpretations, all nestings of binders.  Refutations for the operators whose spelling is
   not SMT-LIB.  Script well-formedness. *)
From Coq Require Import List ZArith Bool String Ascii Reals Lia Lra.
From Coq Require Import ClassicalDescription DecimalString Decimal DecimalN DecimalPos DecimalFacts.
From PySMT.core Require Import Syntax SyntaxLemmas Sem SmtStd.
From PySMT.models Require Import TypeChecker Oracles SmtPrinter SmtScript.
From PySMT.proofs Require Import TypeChecker_proofs.
(* C01's fragment predicate [okt] and its type-soundness theorem [okt_sound] (used where the
   printed text's meaning depends on the SORT of an argument: Iff, indexed bit-vector operators).
   Required, not imported: several of its names (pairs_of, bv, ...) clash with the models'. *)
From PySMT.proofs Require SimplifierSemBase_proofs.
From Coq Require Import Permutation.
Import ListNotations.
Notation okt := SimplifierSemBase_proofs.okt.
Notation key_const := SimplifierSemBase_proofs.key_const.
Open Scope bool_scope.
Open Scope string_scope.
(* models/Oracles.v has an identical [all_some]; the specification's is meant throughout *)
Local Notation all_some := SmtStd.all_some.

(* ========================================================================= lexical layer *)
Lemma to_uint_nonnil n : N.to_uint n <> Nil.
Proof. destruct n; cbn; [discriminate | apply DecimalPos.Unsigned.to_uint_nonnil]. Qed.

Lemma numeral_dec n : (0 <= n)%Z -> numeral_val (dec_string n) = Some n.
Proof.
  intros H. unfold numeral_val, dec_string.
  rewrite (NilZero.usu _ (to_uint_nonnil _)), DecimalN.Unsigned.of_to, String.eqb_refl.
  now rewrite Z2N.id.
Qed.

Lemma nilempty_digits d : str_forall is_digit_c (NilEmpty.string_of_uint d) = true.
Proof. induction d; cbn; auto. Qed.
Lemma dec_digits n : str_forall is_digit_c (dec_string n) = true.
Proof.
  unfold dec_string, NilZero.string_of_uint. destruct (N.to_uint (Z.to_N n)) eqn:E; try reflexivity;
    cbn; apply nilempty_digits.
Qed.

Lemma digit_not_dot c : is_digit_c c = true -> Ascii.eqb c "." = false.
Proof. intros H. destruct (Ascii.eqb_spec c "."); auto. subst. discriminate. Qed.

Lemma split_dot_app s r : str_forall is_digit_c s = true -> split_dot (s ++ String "." r) = Some (s, r).
Proof.
  induction s as [|c s IH]; cbn; intros H; [reflexivity|].
  apply andb_true_iff in H. destruct H as [Hc Hs]. now rewrite (digit_not_dot _ Hc), (IH Hs).
Qed.

Lemma nilempty_dot s r : NilEmpty.uint_of_string (s ++ String "." r) = None.
Proof.
  induction s as [|c s IH]; cbn.
  - destruct (NilEmpty.uint_of_string r); reflexivity.
  - rewrite IH. reflexivity.
Qed.
Lemma numeral_dot s r : numeral_val (s ++ String "." r) = None.
Proof.
  unfold numeral_val, NilZero.uint_of_string.
  destruct (s ++ String "." r) eqn:E; [reflexivity|]. rewrite <- E, nilempty_dot. reflexivity.
Qed.

Lemma decimal_dec n : (0 <= n)%Z -> decimal_val (dec_string n ++ ".0") = Some (n * 10 + 0, 10)%Z.
Proof.
  intros H. unfold decimal_val. rewrite (split_dot_app _ _ (dec_digits n)), (numeral_dec _ H). reflexivity.
Qed.

Lemma dec_point_value n : (IZR (n * 10 + 0) / IZR 10 = IZR n)%R.
Proof. rewrite Z.add_0_r, mult_IZR. field. Qed.

(* #b literals *)
Lemma bits_val_app s1 : forall s2 acc,
  bits_val (s1 ++ s2) acc = match bits_val s1 acc with Some a => bits_val s2 a | None => None end.
Proof.
  induction s1 as [|c s1 IH]; intros s2 acc; cbn; [reflexivity|].
  destruct (Ascii.eqb c "0"); [apply IH|]. destruct (Ascii.eqb c "1"); [apply IH | reflexivity].
Qed.
Lemma bits_string_spec w : forall v acc,
  bits_val (bits_string w v acc) 0 =
  match bits_val acc (v mod 2 ^ Z.of_nat w) with Some x => Some x | None => None end /\
  String.length (bits_string w v acc) = (w + String.length acc)%nat.
Proof.
  induction w as [|w IH]; intros v acc.
  - cbn [bits_string]. rewrite Z.pow_0_r, Z.mod_1_r. split; [destruct (bits_val acc 0); reflexivity | reflexivity].
  - cbn [bits_string]. destruct (IH (v / 2)%Z (String (if Z.odd v then "1"%char else "0"%char) acc)) as [E L].
    split.
    + rewrite E.
      assert (D : (v mod 2 ^ Z.of_nat (S w) = 2 * ((v / 2) mod 2 ^ Z.of_nat w) + (if Z.odd v then 1 else 0))%Z).
      { rewrite Nat2Z.inj_succ, Z.pow_succ_r by lia.
        rewrite Z.rem_mul_r by lia. rewrite (Zmod_odd v). destruct (Z.odd v); lia. }
      rewrite D. destruct (Z.odd v) eqn:O; cbn [bits_val]; cbn; [| rewrite Z.add_0_r];
        destruct (bits_val acc _); reflexivity.
    + rewrite L. cbn. lia.
Qed.
Lemma bvlit_bv w v : (0 < w)%Z -> (0 <= v < 2 ^ w)%Z -> bvlit_val (bv_string w v) = Some (w, v).
Proof.
  intros Hw Hv. unfold bv_string. cbn [append bvlit_val].
  destruct (bits_string_spec (Z.to_nat w) v EmptyString) as [E L]. cbn [bits_val] in E.
  rewrite Z2Nat.id in E by lia. rewrite Z.mod_small in E by lia.
  destruct (bits_string (Z.to_nat w) v "") eqn:B.
  - cbn in L. lia.
  - rewrite E. replace (Z.of_nat (String.length (String a s))) with w; [reflexivity|].
    rewrite L. cbn [String.length]. rewrite Nat.add_0_r, Z2Nat.id by lia. reflexivity.
Qed.
Lemma numeral_hash r : numeral_val (String "#" r) = None.
Proof. unfold numeral_val. cbn. destruct (NilEmpty.uint_of_string r); reflexivity. Qed.
Lemma split_dot_hash r a b : split_dot (String "#" r) = Some (a, b) -> exists a', a = String "#" a'.
Proof. cbn. destruct (split_dot r) as [[x y]|]; intros [= <- <-]; eauto. Qed.
Lemma decimal_hash r : decimal_val (String "#" r) = None.
Proof.
  unfold decimal_val. destruct (split_dot (String "#" r)) as [[a b]|] eqn:E; [|reflexivity].
  destruct (split_dot_hash _ _ _ E) as [a' ->]. now rewrite numeral_hash.
Qed.

(* string literals *)
Definition str_plain (s : list Z) : bool :=
  forallb (fun c => (32 <=? c)%Z && (c <=? 126)%Z && negb (c =? 92)%Z) s.
Lemma numeral_quote r : numeral_val (String """" r) = None.
Proof. unfold numeral_val. cbn. destruct (NilEmpty.uint_of_string r); reflexivity. Qed.
Lemma split_dot_quote r a b : split_dot (String """" r) = Some (a, b) -> exists a', a = String """" a'.
Proof. cbn. destruct (split_dot r) as [[x y]|]; intros [= <- <-]; eauto. Qed.
Lemma decimal_quote r : decimal_val (String """" r) = None.
Proof.
  unfold decimal_val. destruct (split_dot (String """" r)) as [[a b]|] eqn:E; [|reflexivity].
  destruct (split_dot_quote _ _ _ E) as [a' ->]. now rewrite numeral_quote.
Qed.
Lemma ascii_code c : (0 <= c < 256)%Z -> Z.of_nat (code (ascii_of_N (Z.to_N c))) = c.
Proof.
  intros H. unfold code. replace (ascii_of_N (Z.to_N c)) with (ascii_of_nat (Z.to_nat c)).
  - rewrite nat_ascii_embedding by lia. lia.
  - unfold ascii_of_nat. f_equal. lia.
Qed.
Lemma strlit_plain s : str_plain s = true -> strlit_body (str_body s) = Some s.
Proof.
  induction s as [|c s IH]; intros H; [reflexivity|].
  cbn [str_plain forallb] in H. apply andb_true_iff in H. destruct H as [Hc Hs].
  apply andb_true_iff in Hc. destruct Hc as [Hc _]. apply andb_true_iff in Hc. destruct Hc as [H1 H2].
  apply Z.leb_le in H1, H2. specialize (IH Hs). cbn [str_body].
  destruct (c =? 34)%Z eqn:E.
  - apply Z.eqb_eq in E. subst c. cbn [strlit_body]. cbn [Ascii.eqb Bool.eqb]. rewrite IH. reflexivity.
  - apply Z.eqb_neq in E. unfold utf8. destruct (c <? 128)%Z eqn:E2; [|apply Z.ltb_ge in E2; lia].
    cbn [fold_right strlit_body].
    pose proof (ascii_code c ltac:(lia)) as HC. set (b := ascii_of_N (Z.to_N c)) in *.
    destruct (Ascii.eqb_spec b """").
    + exfalso. rewrite e in HC. cbn in HC. lia.
    + unfold is_printable_c.
      replace ((32 <=? code b)%nat && (code b <=? 126)%nat) with true
        by (symmetry; apply andb_true_iff; split; apply Nat.leb_le; lia).
      cbn [orb]. rewrite IH, HC. reflexivity.
Qed.

(* ========================================================================= helpers *)
Lemma all_some_map {A B} (f : A -> option B) l vs :
  Forall2 (fun x v => f x = Some v) l vs -> all_some (map f l) = Some vs.
Proof. induction 1 as [|x v l vs Hx _ IH]; cbn; [reflexivity|]. now rewrite Hx, IH. Qed.

Lemma veqb_bool x y : veqb (VBool x) (VBool y) = Bool.eqb x y.
Proof.
  unfold veqb. destruct (excluded_middle_informative (VBool x = VBool y)) as [E|E].
  - injection E as ->. now rewrite Bool.eqb_reflx.
  - destruct x, y; cbn; try reflexivity; exfalso; apply E; reflexivity.
Qed.

Lemma vle_bool a b : VBool (vbool (vle a b) && true) = vle a b.
Proof. destruct a, b; cbn; try reflexivity; now rewrite andb_true_r. Qed.
Lemma vlt_bool a b : VBool (vbool (vlt a b) && true) = vlt a b.
Proof. destruct a, b; cbn; try reflexivity; now rewrite andb_true_r. Qed.

(* an atom that is a symbol and nothing else *)
Definition symbol_atom (a n : string) : bool :=
  match numeral_val a, decimal_val a, bvlit_val a, strlit_val a, sym_name a with
  | None, None, None, None, Some m => String.eqb m n
  | _, _, _, _, _ => false
  end.

(* what the property demands of a symbol name: its printed form is a symbol atom denoting the name,
   and it is not a theory symbol (SMT-LIB cannot declare those) *)
Definition good_name (n : string) : bool :=
  symbol_atom (quote n) n &&
  match assoc n std_consts with None => true | Some _ => false end &&
  match assoc n std_table with None => true | Some _ => false end.

Lemma good_name_inv n : good_name n = true ->
  symbol_atom (quote n) n = true /\ assoc n std_consts = None /\ assoc n std_table = None.
Proof.
  unfold good_name. intros H. apply andb_true_iff in H. destruct H as [H H3].
  apply andb_true_iff in H. destruct H as [H1 H2].
  destruct (assoc n std_consts); [discriminate|]. destruct (assoc n std_table); [discriminate|]. auto.
Qed.
Lemma symbol_atom_sym a n : symbol_atom a n = true -> sym_name a = Some n.
Proof.
  unfold symbol_atom. destruct (numeral_val a), (decimal_val a), (bvlit_val a), (strlit_val a), (sym_name a);
    try discriminate. intros H. apply String.eqb_eq in H. now subst.
Qed.

(* heads of applications that are not binders / let / ! / _ *)
Definition head_plain (h : string) : bool :=
  negb (String.eqb h "let") && negb (String.eqb h "forall" || String.eqb h "exists") &&
  negb (String.eqb h "!") && negb (String.eqb h "_").

(* ------------------------------------------------ array values: store chains vs arr_assign *)
Fixpoint chain_fun (f : key -> value) (ps : list (value * value)) : key -> value :=
  match ps with
  | [] => f
  | (i, v) :: r => chain_fun (fun k => if key_eq_dec k (to_key i) then v else f k) r
  end.
Fixpoint flat_pairs (ps : list (value * value)) : list value :=
  match ps with [] => [] | (i, v) :: r => i :: v :: flat_pairs r end.
Definition pkeys (ps : list (value * value)) : list key := map (fun p => to_key (fst p)) ps.
Fixpoint alookup (k : key) (ps : list (value * value)) : option value :=
  match ps with
  | [] => None
  | (i, v) :: r => if key_eq_dec k (to_key i) then Some v else alookup k r
  end.

Lemma arr_assign_lookup f ps k :
  arr_assign f (flat_pairs ps) k = match alookup k ps with Some v => v | None => f k end.
Proof.
  induction ps as [|[i v] r IH]; cbn [flat_pairs arr_assign alookup]; [reflexivity|].
  destruct (key_eq_dec k (to_key i)); [reflexivity | exact IH].
Qed.
Lemma alookup_in k ps v : alookup k ps = Some v -> In k (pkeys ps).
Proof.
  induction ps as [|[i w] r IH]; cbn; [discriminate|].
  destruct (key_eq_dec k (to_key i)); [intros _; left; auto | intros H; right; auto].
Qed.
Lemma chain_fun_lookup : forall ps f k, NoDup (pkeys ps) ->
  chain_fun f ps k = match alookup k ps with Some v => v | None => f k end.
Proof.
  induction ps as [|[i v] r IH]; intros f k HN; cbn [chain_fun alookup]; [reflexivity|].
  inversion HN as [|? ? Hni HN']; subst. rewrite (IH _ k HN').
  destruct (key_eq_dec k (to_key i)) as [E|E].
  - destruct (alookup k r) as [v'|] eqn:A; [|reflexivity].
    exfalso. apply Hni. cbn [fst]. rewrite <- E. eapply alookup_in; eauto.
  - reflexivity.
Qed.
Lemma alookup_perm k ps ps' : Permutation ps ps' -> NoDup (pkeys ps) -> alookup k ps = alookup k ps'.
Proof.
  induction 1 as [|[i v] l l' HP IH|[i v] [j w] l|l l' l'' HP1 IH1 HP2 IH2]; intros HN.
  - reflexivity.
  - cbn [alookup]. inversion HN; subst. now rewrite IH.
  - cbn [alookup]. inversion HN as [|? ? Hn1 HN1]; subst. cbn [fst] in *.
    destruct (key_eq_dec k (to_key j)) as [E1|E1], (key_eq_dec k (to_key i)) as [E2|E2]; try reflexivity.
    exfalso. apply Hn1. left. congruence.
  - rewrite IH1 by assumption. apply IH2.
    eapply Permutation_NoDup; [|exact HN]. unfold pkeys. now apply Permutation_map.
Qed.
Lemma chain_fun_assign f ps ps' : Permutation ps ps' -> NoDup (pkeys ps) ->
  chain_fun f ps' = arr_assign f (flat_pairs ps).
Proof.
  intros HP HN. apply FunctionalExtensionality.functional_extensionality. intros k.
  rewrite chain_fun_lookup, arr_assign_lookup.
  - now rewrite (alookup_perm k ps ps' HP HN).
  - eapply Permutation_NoDup; [|exact HN]. unfold pkeys. now apply Permutation_map.
Qed.

Lemma pairs_of_map {A B} (g : A -> B) : forall l, pairs_of (map g l) = map (fun kv => (g (fst kv), g (snd kv))) (pairs_of l).
Proof.
  fix IH 1. intros [|a [|b r]]; cbn; try reflexivity. now rewrite IH.
Qed.
Lemma arr_assign_pairs f : forall l, arr_assign f l = arr_assign f (flat_pairs (pairs_of l)).
Proof.
  fix IH 1. intros [|a [|b r]]; cbn [pairs_of flat_pairs arr_assign]; try reflexivity. now rewrite <- IH.
Qed.

(* sorted(..., key=str) is a permutation *)
Lemma insert_by_perm {A} k (x : A) l : Permutation (insert_by k x l) ((k, x) :: l).
Proof.
  induction l as [|[k' y] r IH]; cbn [insert_by]; [reflexivity|].
  destruct (codes_ltb k k'); [reflexivity|]. rewrite IH. apply perm_swap.
Qed.
Lemma sort_by_key_perm {A} (l : list (list Z * A)) : Permutation (sort_by_key l) l.
Proof.
  unfold sort_by_key.
  assert (G : forall (l : list (list Z * A)) acc, Permutation (fold_left (fun acc kx => insert_by (fst kx) (snd kx) acc) l acc) (l ++ acc)).
  { induction l0 as [|[k x] r IH]; intros acc; cbn [fold_left app]; [reflexivity|].
    rewrite IH. cbn [fst snd]. rewrite insert_by_perm. symmetry. apply Permutation_middle. }
  rewrite G. now rewrite List.app_nil_r.
Qed.
Lemma map_snd_combine {A B} : forall (a : list A) (b : list B), List.length a = List.length b -> map snd (combine a b) = b.
Proof. induction a as [|x a IH]; intros [|y b] H; cbn in *; try discriminate; auto. f_equal. apply IH. lia. Qed.

(* distinct index constants denote distinct indices *)
Fixpoint nodup_terms (l : list term) : bool :=
  match l with [] => true | x :: r => negb (existsb (term_eqb x) r) && nodup_terms r end.
Definition av_keys_ok (assigns : list term) : bool :=
  forallb key_const (map fst (pairs_of assigns)) && nodup_terms (map fst (pairs_of assigns)).
Lemma key_const_inj J a b : key_const a = true -> key_const b = true ->
  to_key (eval J a) = to_key (eval J b) -> a = b.
Proof.
  destruct a as [oa [|? ?]]; destruct oa; try discriminate; destruct b as [ob [|? ?]]; destruct ob; try discriminate;
    cbn; intros Ha Hb E; try discriminate E; try congruence.
  (* Real constants in lowest terms (C01's key_const): same value, same fraction *)
  apply andb_true_iff in Ha, Hb. destruct Ha as [D1 G1]. destruct Hb as [D2 G2].
  apply Z.ltb_lt in D1, D2. apply Z.eqb_eq in G1, G2. injection E as E.
  apply (SimplifierSemBase_proofs.Q2R'_eq _ _ _ _ D1 D2) in E.
  destruct (SimplifierSemBase_proofs.lowest_terms_inj _ _ _ _ D1 D2 G1 G2 E) as [-> ->]. reflexivity.
Qed.
Lemma nodup_keys J : forall l, forallb key_const l = true -> nodup_terms l = true ->
  NoDup (map (fun a => to_key (eval J a)) l).
Proof.
  induction l as [|a r IH]; intros HK HN; cbn [map]; [constructor|].
  cbn [forallb nodup_terms] in *. apply andb_true_iff in HK, HN. destruct HK as [Ka Kr], HN as [Na Nr].
  constructor; [|auto]. intros HI. apply in_map_iff in HI. destruct HI as (b & E & Hb).
  assert (b = a) by (apply (key_const_inj J); auto; rewrite forallb_forall in Kr; auto). subst b.
  apply negb_true_iff in Na. assert (existsb (term_eqb a) r = true); [|congruence].
  apply existsb_exists. exists a. split; [assumption | now apply term_eqb_eq].
Qed.

Section Sound.
  Variable Sg : sig.
  Variable I : interp.

  Lemma eval_atom_symbol rho a n : symbol_atom a n = true ->
    eval_atom Sg I rho a =
    match assoc n rho with
    | Some v => Some v
    | None => match assoc n std_consts with
              | Some v => Some v
              | None => match assoc n (sg_funs Sg) with
                        | Some (TFun _ _) => None
                        | Some t => Some (isym I n t)
                        | None => None
                        end
              end
    end.
  Proof.
    unfold symbol_atom, eval_atom.
    destruct (numeral_val a), (decimal_val a), (bvlit_val a), (strlit_val a), (sym_name a); try discriminate.
    intros H. apply String.eqb_eq in H. now subst.
  Qed.

  Lemma seval_app h ss rho : head_plain h = true ->
    seval Sg I rho (SList (Atom h :: ss)) =
    match sym_name h, all_some (map (seval Sg I rho) ss) with
    | Some f, Some args => apply_sym Sg I rho f args
    | _, _ => None
    end.
  Proof.
    unfold head_plain. intros H. repeat (apply andb_true_iff in H; destruct H as [H ?]).
    cbn [seval].
    destruct (String.eqb h "let"); [discriminate|].
    destruct (String.eqb h "forall" || String.eqb h "exists"); [discriminate|].
    destruct (String.eqb h "!"); [discriminate|]. destruct (String.eqb h "_"); [discriminate|].
    reflexivity.
  Qed.

  (* ------------------------------------------------ binders: environment of the text vs interpretation *)
  Definition env_rel (bound : list var) (rho : env) (J : interp) : Prop :=
    (forall n, match assoc n bound with
               | Some ty => assoc n rho = Some (isym J n ty)
               | None => assoc n rho = None /\ forall ty, isym J n ty = isym I n ty
               end) /\
    ifun J = ifun I /\ rdiv0 J = rdiv0 I /\ idiv0 J = idiv0 I.

  Definition bound_good (bound : list var) : Prop :=
    forall n ty, assoc n bound = Some ty -> assoc n std_table = None /\ assoc n std_consts = None.

  Lemma env_rel_bind1 bound rho J v x :
    env_rel bound rho J -> env_rel (v :: bound) ((fst v, x) :: rho) (bind1 J v x).
  Proof.
    intros (H & F & R & D). split; [|cbn; auto]. intros n. destruct v as [m t]. cbn.
    destruct (String.eqb n m) eqn:E.
    - now rewrite ty_eqb_refl.
    - specialize (H n). destruct (assoc n bound) as [ty|]; cbn; auto.
  Qed.

  Lemma env_rel_bind : forall vs xs bound rho J, vals_ok xs vs -> env_rel bound rho J ->
    env_rel (List.rev vs ++ bound) (bind_env rho (map fst vs) xs) (bind J vs xs).
  Proof.
    induction vs as [|v vs IH]; intros xs bound rho J Hok H.
    - destruct xs; cbn in *; [assumption | contradiction].
    - destruct xs as [|x xs]; cbn in Hok; [contradiction|]. destruct Hok as [_ Hok].
      cbn [List.rev map bind_env bind]. rewrite <- app_assoc. cbn [app].
      apply IH; [assumption|]. now apply env_rel_bind1.
  Qed.

  Lemma assoc_app_none {A} n (l1 l2 : list (string * A)) :
    assoc n (l1 ++ l2) = match assoc n l1 with Some v => Some v | None => assoc n l2 end.
  Proof. induction l1 as [|[k v] l1 IH]; cbn; [reflexivity|]. destruct (String.eqb n k); auto. Qed.
  Lemma assoc_in {A} n (l : list (string * A)) v : assoc n l = Some v -> In (n, v) l.
  Proof.
    induction l as [|[k w] l IH]; cbn; [discriminate|]. destruct (String.eqb_spec n k).
    - intros [= ->]. subst. now left.
    - intros H. right. auto.
  Qed.

  Lemma bound_good_bind vs bound :
    Forall (fun v : var => assoc (fst v) std_table = None /\ assoc (fst v) std_consts = None) vs ->
    bound_good bound -> bound_good (List.rev vs ++ bound).
  Proof.
    intros HF HB n ty H. unfold var in *. rewrite assoc_app_none in H. destruct (assoc n (List.rev vs)) as [t|] eqn:E.
    - apply assoc_in, in_rev in E. rewrite Forall_forall in HF. exact (HF _ E).
    - eauto.
  Qed.

  Lemma theory_head_unbound bound rho J name k :
    env_rel bound rho J -> bound_good bound -> assoc name std_table = Some k -> assoc name rho = None.
  Proof.
    intros (H & _) HB Hk. specialize (H name). destruct (assoc name bound) as [ty|] eqn:E.
    - rewrite (proj1 (HB _ _ E)) in Hk. discriminate.
    - tauto.
  Qed.
  Lemma const_head_unbound bound rho J name c :
    env_rel bound rho J -> bound_good bound -> assoc name std_consts = Some c -> assoc name rho = None.
  Proof.
    intros (H & _) HB Hk. specialize (H name). destruct (assoc name bound) as [ty|] eqn:E.
    - rewrite (proj2 (HB _ _ E)) in Hk. discriminate.
    - tauto.
  Qed.

  Lemma theory_case name k (v : value) ss vals rho :
    (forall n k', assoc n std_table = Some k' -> assoc n rho = None) ->
    head_plain name = true -> sym_name name = Some name -> assoc name std_table = Some k ->
    all_some (map (seval Sg I rho) ss) = Some vals ->
    apply_kind I k vals = Some v ->
    seval Sg I rho (SList (Atom name :: ss)) = Some v.
  Proof.
    intros HU Hp Hs Hk Hv Ha. rewrite (seval_app _ _ _ Hp), Hs, Hv. unfold apply_sym.
    now rewrite (HU _ _ Hk), Hk.
  Qed.

  (* what the meaning of ONE node's text needs of the environment rho of the text and of the
     interpretation J the node is evaluated in: theory symbols are not shadowed, the division-by-0
     and function tables of J are I's *)
  Record scope (rho : env) (J : interp) : Prop := {
    sc_table : forall n k, assoc n std_table = Some k -> assoc n rho = None;
    sc_consts : forall n c, assoc n std_consts = Some c -> assoc n rho = None;
    sc_div : rdiv0 J = rdiv0 I /\ idiv0 J = idiv0 I;
    sc_fun : ifun J = ifun I
  }.
  Lemma env_rel_scope bound rho J : env_rel bound rho J -> bound_good bound -> scope rho J.
  Proof.
    intros HR HB. pose proof HR as (_ & F & R & D). split; auto.
    - intros n k. apply (theory_head_unbound _ _ _ _ _ HR HB).
    - intros n c. apply (const_head_unbound _ _ _ _ _ HR HB).
  Qed.

  (* ------------------------------------------------ one node, in a fixed scope *)
  (* operators whose text is (name args) with name an SMT-LIB theory symbol of the same meaning,
     with the number of arguments the FormulaManager constructors guarantee *)
  Definition op_ok (o : op) (n : nat) : bool :=
    match o with
    | ONot | OToReal | OBVToNat | OBV BNot _ | OBV BNeg _ | OStr SLength | OStr SToInt | OStr SFromInt => Nat.eqb n 1
    | OImplies | OIff | OMinus | ODiv | OLe | OLt | OEquals | OBVRel _ | OSelect
    | OBV _ _ | OStr SContains | OStr SPrefixOf | OStr SSuffixOf | OStr SCharAt => Nat.eqb n 2
    | OIte | OStore | OStr SIndexOf | OStr SReplace | OStr SSubstr => Nat.eqb n 3
    | OAnd | OOr | OPlus | OTimes | OStr SConcat => Nat.leb 2 n
    | _ => false
    end.

  Section Node.
    Variables (rho : env) (J : interp).
    Hypothesis HS : scope rho J.
    Let HU := sc_table rho J HS.

    Ltac th name k Hv :=
      eapply (theory_case name k); [exact HU | reflexivity | reflexivity | reflexivity | exact Hv | ].

    Lemma vdiv_J a b : vdiv I a b = vdiv J a b.
    Proof. destruct (sc_div rho J HS) as [R D]. unfold vdiv. now rewrite R, D. Qed.

    Lemma node_sound o ss vals :
      op_ok o (List.length vals) = true ->
      (o = OIff -> exists x y, vals = [VBool x; VBool y]) ->
      all_some (map (seval Sg I rho) ss) = Some vals ->
      seval Sg I rho (node_sexp o ss) = Some (op_sem J o vals).
    Proof.
      intros Hok Hiff Hv. unfold node_sexp.
      destruct o; try discriminate Hok; cbn [op_head bvop_name bvrel_name strop_name].
      - (* and *) th "and" (FNary OAnd) Hv. destruct vals as [|a [|b r]]; try discriminate Hok. reflexivity.
      - (* or *) th "or" (FNary OOr) Hv. destruct vals as [|a [|b r]]; try discriminate Hok. reflexivity.
      - (* not *) th "not" (FExact 1 ONot) Hv. destruct vals as [|a [|b r]]; try discriminate Hok. reflexivity.
      - (* => *) th "=>" (FRight OImplies) Hv. destruct vals as [|a [|b [|c r]]]; try discriminate Hok. reflexivity.
      - (* iff *) th "=" (FChain OEquals) Hv. destruct (Hiff eq_refl) as (x & y & ->). cbn.
        now rewrite veqb_bool, andb_true_r.
      - (* + *) th "+" (FNary OPlus) Hv. destruct vals as [|a [|b r]]; try discriminate Hok. reflexivity.
      - (* - *) th "-" FMinus Hv. destruct vals as [|a [|b [|c r]]]; try discriminate Hok. reflexivity.
      - (* * *) th "*" (FNary OTimes) Hv. destruct vals as [|a [|b r]]; try discriminate Hok. reflexivity.
      - (* <= *) th "<=" (FChain OLe) Hv. destruct vals as [|a [|b [|c r]]]; try discriminate Hok. cbn. now rewrite vle_bool.
      - (* < *) th "<" (FChain OLt) Hv. destruct vals as [|a [|b [|c r]]]; try discriminate Hok. cbn. now rewrite vlt_bool.
      - (* = *) th "=" (FChain OEquals) Hv. destruct vals as [|a [|b [|c r]]]; try discriminate Hok. cbn. now rewrite andb_true_r.
      - (* ite *) th "ite" (FExact 3 OIte) Hv. destruct vals as [|a [|b [|c [|d r]]]]; try discriminate Hok. reflexivity.
      - (* to_real *) th "to_real" (FExact 1 OToReal) Hv. destruct vals as [|a [|b r]]; try discriminate Hok. reflexivity.
      - (* bv *) destruct k; cbn [bvop_name];
          [ th "bvnot" (FExact 1 (BVop BNot)) Hv | th "bvand" (FLeft (BVop BAnd)) Hv | th "bvor" (FLeft (BVop BOr)) Hv
          | th "bvxor" (FLeft (BVop BXor)) Hv | th "concat" (FExact 2 (BVop BConcat)) Hv | th "bvneg" (FExact 1 (BVop BNeg)) Hv
          | th "bvadd" (FLeft (BVop BAdd)) Hv | th "bvsub" (FExact 2 (BVop BSub)) Hv | th "bvmul" (FLeft (BVop BMul)) Hv
          | th "bvudiv" (FExact 2 (BVop BUdiv)) Hv | th "bvurem" (FExact 2 (BVop BUrem)) Hv | th "bvshl" (FExact 2 (BVop BLshl)) Hv
          | th "bvlshr" (FExact 2 (BVop BLshr)) Hv | th "bvcomp" (FExact 2 (BVop BComp)) Hv | th "bvsdiv" (FExact 2 (BVop BSdiv)) Hv
          | th "bvsrem" (FExact 2 (BVop BSrem)) Hv | th "bvashr" (FExact 2 (BVop BAshr)) Hv ];
          destruct vals as [|a [|b [|c r]]]; try discriminate Hok; reflexivity.
      - (* bv relations *) destruct k; cbn [bvrel_name];
          [ th "bvult" (FExact 2 (OBVRel BUlt)) Hv | th "bvule" (FExact 2 (OBVRel BUle)) Hv
          | th "bvslt" (FExact 2 (OBVRel BSlt)) Hv | th "bvsle" (FExact 2 (OBVRel BSle)) Hv ];
          destruct vals as [|a [|b [|c r]]]; try discriminate Hok; reflexivity.
      - (* strings *) destruct k; try discriminate Hok; cbn [strop_name];
          [ th "str.len" (FExact 1 (OStr SLength)) Hv | th "str.++" (FNary (OStr SConcat)) Hv
          | th "str.contains" (FExact 2 (OStr SContains)) Hv | th "str.indexof" (FExact 3 (OStr SIndexOf)) Hv
          | th "str.replace" (FExact 3 (OStr SReplace)) Hv | th "str.substr" (FExact 3 (OStr SSubstr)) Hv
          | th "str.prefixof" (FExact 2 (OStr SPrefixOf)) Hv | th "str.suffixof" (FExact 2 (OStr SSuffixOf)) Hv
          | th "str.to_int" (FExact 1 (OStr SToInt)) Hv | th "str.from_int" (FExact 1 (OStr SFromInt)) Hv
          | th "str.at" (FExact 2 (OStr SCharAt)) Hv ];
          destruct vals as [|a [|b [|c [|d r]]]]; try discriminate Hok; reflexivity.
      - (* select *) th "select" (FExact 2 OSelect) Hv. destruct vals as [|a [|b [|c r]]]; try discriminate Hok. reflexivity.
      - (* store *) th "store" (FExact 3 OStore) Hv. destruct vals as [|a [|b [|c [|d r]]]]; try discriminate Hok. reflexivity.
      - (* / *) th "/" FRealDiv Hv. destruct vals as [|a [|b [|c r]]]; try discriminate Hok. cbn. now rewrite vdiv_J.
      - (* bv2nat *) th "bv2nat" (FExact 1 OBVToNat) Hv. destruct vals as [|a [|b r]]; try discriminate Hok. reflexivity.
    Qed.

    (* Div: written "div" on Int operands, "/" otherwise; both are Sem.v's vdiv *)
    Lemma div_sound name ss vals :
      name = "/" \/ name = "div" -> List.length vals = 2%nat ->
      all_some (map (seval Sg I rho) ss) = Some vals ->
      seval Sg I rho (SList (Atom name :: ss)) = Some (op_sem J ODiv vals).
    Proof.
      intros [-> | ->] Hl Hv; [th "/" FRealDiv Hv | th "div" FIntDiv Hv];
        destruct vals as [|a [|b [|c r]]]; try discriminate Hl; cbn; now rewrite vdiv_J.
    Qed.
  End Node.

  (* ------------------------------------------------ constants *)
  Definition const_ok (o : op) : bool :=
    match o with
    | OBoolC _ | OIntC _ => true
    | ORealC n d => (0 <? d)%Z
    | OBVC v w => (0 <? w)%Z && (0 <=? v)%Z && (v <? 2 ^ w)%Z
    | _ => false
    end.

  Section Consts.
    Variables (rho : env) (J : interp).
    Hypothesis HS : scope rho J.
    Let HU := sc_table rho J HS.

    Lemma numeral_atom n : (0 <= n)%Z -> seval Sg I rho (Atom (dec_string n)) = Some (VInt n).
    Proof. intros H. cbn [seval]. unfold eval_atom. now rewrite numeral_dec. Qed.
    Lemma decimal_atom n : (0 <= n)%Z -> seval Sg I rho (Atom (dec_string n ++ ".0")) = Some (VReal (IZR n)).
    Proof.
      intros H. cbn [seval]. unfold eval_atom. rewrite numeral_dot, decimal_dec by assumption.
      now rewrite dec_point_value.
    Qed.

    Lemma int_const_sound z : seval Sg I rho (int_const z) = Some (VInt z).
    Proof.
      unfold int_const. destruct (z <? 0)%Z eqn:E.
      - apply Z.ltb_lt in E.
        eapply (theory_case "-" FMinus); [exact HU | reflexivity | reflexivity | reflexivity | | ].
        + cbn [map all_some]. rewrite numeral_atom by lia. reflexivity.
        + cbn. now rewrite Z.opp_involutive.
      - apply Z.ltb_ge in E. now apply numeral_atom.
    Qed.

    Lemma real_body_sound n d : (0 <= n)%Z -> (0 < d)%Z ->
      seval Sg I rho (if (d =? 1)%Z then Atom (dec_string n ++ ".0")
                      else SList [Atom "/"; Atom (dec_string n ++ ".0"); Atom (dec_string d ++ ".0")])
      = Some (VReal (IZR n / IZR d)).
    Proof.
      intros Hn Hd. destruct (d =? 1)%Z eqn:E.
      - apply Z.eqb_eq in E. subst. rewrite decimal_atom by assumption. do 2 f_equal. field.
      - eapply (theory_case "/" FRealDiv); [exact HU | reflexivity | reflexivity | reflexivity | | ].
        + cbn [map all_some]. rewrite !decimal_atom by lia. reflexivity.
        + cbn. destruct (Req_EM_T (IZR d) 0) as [Z|Z]; [|reflexivity].
          apply eq_IZR_R0 in Z. lia.
    Qed.

    Lemma real_const_sound n d : (0 < d)%Z -> seval Sg I rho (real_const n d) = Some (VReal (Q2R' n d)).
    Proof.
      intros Hd. unfold real_const, Q2R'. destruct (n <? 0)%Z eqn:E.
      - apply Z.ltb_lt in E.
        eapply (theory_case "-" FMinus); [exact HU | reflexivity | reflexivity | reflexivity | | ].
        + cbn [map all_some]. rewrite (real_body_sound (Z.abs n) d) by lia. reflexivity.
        + cbn. do 2 f_equal. rewrite Z.abs_neq by lia. rewrite opp_IZR. field.
          intros Z. apply eq_IZR_R0 in Z. lia.
      - apply Z.ltb_ge in E. rewrite (real_body_sound (Z.abs n) d) by lia. now rewrite Z.abs_eq.
    Qed.

    Lemma bv_const_sound v w : (0 < w)%Z -> (0 <= v < 2 ^ w)%Z ->
      seval Sg I rho (Atom (bv_string w v)) = Some (VBV w v).
    Proof.
      intros Hw Hv. cbn [seval]. unfold eval_atom.
      pose proof (bvlit_bv w v Hw Hv) as L. unfold bv_string in *. cbn [append] in *.
      now rewrite numeral_hash, decimal_hash, L.
    Qed.

    Lemma const_sound o : const_ok o = true -> seval Sg I rho (leaf_sexp o) = Some (op_sem J o []).
    Proof.
      destruct o; try discriminate; cbn [const_ok leaf_sexp op_sem]; intros H.
      - apply real_const_sound. now apply Z.ltb_lt.
      - destruct b; cbn [seval].
        + rewrite (eval_atom_symbol rho "true" "true" eq_refl).
          now rewrite (sc_consts rho J HS "true" _ eq_refl).
        + rewrite (eval_atom_symbol rho "false" "false" eq_refl).
          now rewrite (sc_consts rho J HS "false" _ eq_refl).
      - apply int_const_sound.
      - apply andb_true_iff in H. destruct H as [H H3]. apply andb_true_iff in H. destruct H as [H1 H2].
        apply bv_const_sound; lia.
    Qed.
  End Consts.

  (* ------------------------------------------------ array values *)
  Section Arr.
    Variables (rho : env) (J : interp).
    Hypothesis HS : scope rho J.
    Let HU := sc_table rho J HS.

    Lemma const_array_sound t pd dv i e :
      sort_of_sexp Sg (sort_sexp t) = Some (TArr i e) -> seval Sg I rho pd = Some dv ->
      seval Sg I rho (const_array t pd) = Some (VArr (fun k => if key_sortb k i then dv else junk)).
    Proof.
      intros Ht Hd. unfold const_array. cbn [seval]. cbn [String.eqb Ascii.eqb Bool.eqb].
      now rewrite Ht, Hd.
    Qed.

    Lemma store_chain_sound : forall pps vps base f,
      seval Sg I rho base = Some (VArr f) ->
      Forall2 (fun (p : sexp * sexp) (iv : value * value) =>
                 seval Sg I rho (fst p) = Some (fst iv) /\ seval Sg I rho (snd p) = Some (snd iv)) pps vps ->
      seval Sg I rho (store_chain base pps) = Some (VArr (chain_fun f vps)).
    Proof.
      intros pps vps base f Hb HF. revert base f Hb.
      induction HF as [|[pk pv] [i v] pps vps [Hk Hv] _ IH]; intros base f Hb; cbn [store_chain chain_fun]; [exact Hb|].
      apply IH. cbn [fst snd] in *.
      eapply (theory_case "store" (FExact 3 OStore));
        [exact HU | reflexivity | reflexivity | reflexivity
        | cbn [map all_some]; rewrite Hb, Hk, Hv; reflexivity | reflexivity].
    Qed.
  End Arr.

  (* ------------------------------------------------ sorts of values (C01's okt_sound) *)
  Lemma okt_bool a J : okt a = true -> tc a = Some TBool -> wf_interp J -> exists b, eval J a = VBool b.
  Proof.
    intros Ho Ht HJ. pose proof (SimplifierSemBase_proofs.okt_sound a J TBool Ho Ht
                                   (proj1 (SimplifierSemBase_proofs.wf_interp_wfi J) HJ)) as H.
    destruct (eval J a); try contradiction. eauto.
  Qed.
  Lemma okt_bv a J w : okt a = true -> tc a = Some (TBV w) -> wf_interp J -> exists x, eval J a = VBV w x.
  Proof.
    intros Ho Ht HJ. pose proof (SimplifierSemBase_proofs.okt_sound a J (TBV w) Ho Ht
                                   (proj1 (SimplifierSemBase_proofs.wf_interp_wfi J) HJ)) as H.
    destruct (eval J a); try contradiction. destruct H as [-> _]. eauto.
  Qed.

  (* ------------------------------------------------ indexed identifiers, string literals *)
  Lemma seval_indexed name idx ss rho :
    seval Sg I rho (SList (SList (Atom "_" :: Atom name :: idx) :: ss)) =
    match idx_vals idx, all_some (map (seval Sg I rho) ss) with
    | Some ix, Some args => apply_indexed name ix args
    | _, _ => None
    end.
  Proof. reflexivity. Qed.
  Lemma idx_numeral z : (0 <= z)%Z -> numeral_val (py_int_str z) = Some z.
  Proof.
    intros H. unfold py_int_str. destruct (z <? 0)%Z eqn:E; [apply Z.ltb_lt in E; lia|]. now apply numeral_dec.
  Qed.
  Lemma indexed1_sound rho name k pa av v :
    (0 <= k)%Z -> seval Sg I rho pa = Some av -> apply_indexed name [k] [av] = Some v ->
    seval Sg I rho (SList [SList [Atom "_"; Atom name; Atom (py_int_str k)]; pa]) = Some v.
  Proof.
    intros Hk Ha Hv. rewrite seval_indexed. unfold idx_vals. cbn [map all_some].
    now rewrite (idx_numeral _ Hk), Ha.
  Qed.
  Lemma indexed2_sound rho name i j pa av v :
    (0 <= i)%Z -> (0 <= j)%Z -> seval Sg I rho pa = Some av -> apply_indexed name [i; j] [av] = Some v ->
    seval Sg I rho (SList [SList [Atom "_"; Atom name; Atom (py_int_str i); Atom (py_int_str j)]; pa]) = Some v.
  Proof.
    intros Hi Hj Ha Hv. rewrite seval_indexed. unfold idx_vals. cbn [map all_some].
    now rewrite (idx_numeral _ Hi), (idx_numeral _ Hj), Ha.
  Qed.
  Lemma str_const_sound rho s : str_plain s = true -> seval Sg I rho (str_const s) = Some (VStr s).
  Proof.
    intros H. unfold str_const. cbn [seval]. unfold eval_atom.
    rewrite numeral_quote, decimal_quote. cbn [bvlit_val strlit_val]. cbn [Ascii.eqb Bool.eqb].
    now rewrite (strlit_plain _ H).
  Qed.

  (* ------------------------------------------------ well-formedness for printing (syntactic) *)
  Section ConjAll.
    Variable P : term -> Prop.
    Fixpoint conj_all (l : list term) : Prop := match l with [] => True | x :: r => P x /\ conj_all r end.
  End ConjAll.

  Definition good_binder (v : var) : Prop :=
    good_name (fst v) = true /\ sort_of_sexp Sg (sort_sexp (snd v)) = Some (snd v).

  (* [bound]: the variables bound by enclosing quantifiers, innermost first *)
  Fixpoint wfp (bound : list var) (t : term) {struct t} : Prop :=
    match t with
    | T o args =>
        match o with
        | OSymbol n ty =>
            args = [] /\ good_name n = true /\
            match assoc n bound with
            | Some ty' => ty' = ty
            | None => assoc n (sg_funs Sg) = Some ty /\ is_fo ty = true
            end
        | OFunction n fty =>
            good_name n = true /\ assoc n bound = None /\ assoc n (sg_funs Sg) = Some fty /\
            (exists ps r, fty = TFun ps r /\ List.length ps = List.length args /\ args <> []) /\
            conj_all (wfp bound) args
        | OForall vs | OExists vs =>
            vs <> [] /\ Forall good_binder vs /\
            match args with [b] => wfp (List.rev vs ++ bound) b | _ => False end
        | OIff =>
            match args with
            | [a; b] => tc a = Some TBool /\ tc b = Some TBool /\ okt a = true /\ okt b = true /\
                        wfp bound a /\ wfp bound b
            | _ => False
            end
        | OBVExtract _ s e =>
            match args with
            | [a] => okt a = true /\ (exists wa, tc a = Some (TBV wa)) /\ (0 <= s)%Z /\ (0 <= e)%Z /\ wfp bound a
            | _ => False
            end
        | OBVRol w k | OBVRor w k =>
            match args with
            | [a] => okt a = true /\ tc a = Some (TBV w) /\ (0 <= k)%Z /\ wfp bound a
            | _ => False
            end
        | OBVZext w k | OBVSext w k =>
            match args with
            | [a] => okt a = true /\ (exists wa, tc a = Some (TBV wa) /\ w = (wa + k)%Z) /\ (0 <= k)%Z /\ wfp bound a
            | _ => False
            end
        | OStrC s => args = [] /\ str_plain s = true
        | OArrayValue it =>
            match args with
            | d :: assigns =>
                (exists e, sort_of_sexp Sg (sort_sexp (array_value_type it d)) = Some (TArr it e)) /\
                av_keys_ok assigns = true /\ conj_all (wfp bound) args
            | [] => False
            end
        | _ => (args = [] /\ const_ok o = true \/ op_ok o (List.length args) = true) /\ conj_all (wfp bound) args
        end
    end.

  Lemma wf_bind1 J v x : wf_interp J -> has_ty x (snd v) -> wf_interp (bind1 J v x).
  Proof.
    intros [H1 H2] Hx. split; [|exact H2]. intros n t. cbn.
    destruct (String.eqb n (fst v) && ty_eqb t (snd v)) eqn:E; [|apply H1].
    apply andb_true_iff in E. destruct E as [_ E]. apply ty_eqb_eq in E. subst t.
    destruct (snd v); auto.
  Qed.
  Lemma wf_bind : forall vs xs J, wf_interp J -> vals_ok xs vs -> wf_interp (bind J vs xs).
  Proof.
    induction vs as [|v vs IH]; intros xs J HJ Hok; destruct xs as [|x xs]; cbn in *; auto; try contradiction.
    destruct Hok as [Hx Hok]. apply IH; auto. now apply wf_bind1.
  Qed.

  Lemma emi_iff' (P Q : Prop) : (P <-> Q) ->
    (if excluded_middle_informative P then true else false) =
    (if excluded_middle_informative Q then true else false).
  Proof. intros H. destruct (excluded_middle_informative P), (excluded_middle_informative Q); tauto. Qed.

  Lemma sym_head_plain h f : sym_name h = Some f -> head_plain h = true.
  Proof.
    intros H. unfold head_plain.
    destruct (String.eqb_spec h "let"); [subst; discriminate H|].
    destruct (String.eqb_spec h "forall"); [subst; discriminate H|].
    destruct (String.eqb_spec h "exists"); [subst; discriminate H|].
    destruct (String.eqb_spec h "!"); [subst; discriminate H|].
    destruct (String.eqb_spec h "_"); [subst; discriminate H|]. reflexivity.
  Qed.

  Lemma binders_read vs : Forall good_binder vs -> all_some (map (sorted_var Sg) (map binder vs)) = Some vs.
  Proof.
    induction 1 as [|[n t] vs [Hn Ht] _ IH]; cbn [map all_some]; [reflexivity|].
    cbn [binder sorted_var fst snd] in *. apply good_name_inv in Hn. destruct Hn as (Hs & _).
    rewrite (symbol_atom_sym _ _ Hs), Ht, IH. reflexivity.
  Qed.

  (* ------------------------------------------------ ONE node, from the values of its arguments' texts *)
  Definition clause (bound : list var) (rho : env) (J : interp) (n : string) : Prop :=
    match assoc n bound with
    | Some ty => assoc n rho = Some (isym J n ty)
    | None => assoc n rho = None /\ forall ty, isym J n ty = isym I n ty
    end.
  (* the node's own name, if it is a symbol or an applied function, is looked up correctly *)
  Definition name_ok (bound : list var) (rho : env) (J : interp) (t : term) : Prop :=
    match t with
    | T (OSymbol n _) _ => clause bound rho J n
    | T (OFunction n _) _ => assoc n rho = None
    | _ => True
    end.
  Definition is_quant (o : op) : bool := match o with OForall _ | OExists _ => true | _ => false end.
  (* the text of a node: for an array value, a store chain over the assignments in SOME order *)
  Definition node_text (t : term) (ss : list sexp) (ordered : list (sexp * sexp)) : sexp :=
    match t, ss with
    | T (OArrayValue it) (d :: _), pd :: _ => store_chain (const_array (array_value_type it d) pd) ordered
    | _, _ => term_sexp t ss
    end.

  Lemma args_vals (rho : env) (J : interp) args ss :
    Forall2 (fun a s => seval Sg I rho s = Some (eval J a)) args ss ->
    all_some (map (seval Sg I rho) ss) = Some (map (eval J) args).
  Proof. induction 1 as [|a s args ss Hs _ IH]; cbn; [reflexivity|]. now rewrite Hs, IH. Qed.

  Lemma generic_case o args ss rho J :
    term_sexp (T o args) ss = node_sexp o ss ->
    eval J (T o args) = op_sem J o (map (eval J) args) ->
    o <> OIff -> scope rho J ->
    all_some (map (seval Sg I rho) ss) = Some (map (eval J) args) ->
    (args = [] /\ const_ok o = true \/ op_ok o (List.length args) = true) ->
    seval Sg I rho (term_sexp (T o args) ss) = Some (eval J (T o args)).
  Proof.
    intros -> -> Hn HS Hv [[-> Hc]|Hok].
    - cbn [map] in *. destruct ss as [|s0 r];
        [| cbn [map all_some] in Hv; destruct (seval Sg I rho s0); [destruct (all_some _)|]; discriminate Hv].
      unfold node_sexp. destruct o; try discriminate Hc; cbn [op_head]; now apply const_sound.
    - apply node_sound; auto; [now rewrite map_length | intros ->; contradiction].
  Qed.

  Lemma node_value o args ss ordered bound rho J :
    is_quant o = false -> wfp bound (T o args) -> scope rho J -> name_ok bound rho J (T o args) -> wf_interp J ->
    Forall2 (fun a s => seval Sg I rho s = Some (eval J a)) args ss ->
    Permutation (pairs_of (List.tl ss)) ordered ->
    seval Sg I rho (node_text (T o args) ss ordered) = Some (eval J (T o args)).
  Proof.
    intros Hq HW HS HN HJ HF HP. pose proof (args_vals rho J args ss HF) as Hargs.
    destruct o; try discriminate Hq;
      try (cbn [wfp] in HW; destruct HW as [Hc Hrec];
           change (node_text (T ?o args) ss ordered) with (term_sexp (T o args) ss);
           apply generic_case; [reflexivity | reflexivity | discriminate | assumption | assumption | exact Hc]);
      try (exfalso; cbn [wfp] in HW; destruct HW as [[[_ Hc]|Hok] _]; [discriminate Hc | discriminate Hok]).
    - (* iff *)
      destruct args as [|a [|b [|c r]]]; cbn [wfp] in HW; try contradiction.
      destruct HW as (Ta & Tb & Oa & Ob & Wa & Wb).
      change (eval J (T OIff [a; b])) with (op_sem J OIff [eval J a; eval J b]).
      change (node_text (T OIff [a; b]) ss ordered) with (node_sexp OIff ss).
      apply node_sound; auto.
      intros _. destruct (okt_bool a J Oa Ta HJ) as [x ->]. destruct (okt_bool b J Ob Tb HJ) as [y ->]. eauto.
    - (* symbol *)
      cbn [wfp] in HW. destruct HW as (-> & Hn & Hs). apply good_name_inv in Hn. destruct Hn as (Hsym & Hc & _).
      inversion HF; subst. cbn [node_text term_sexp node_sexp op_head leaf_sexp seval eval].
      rewrite (eval_atom_symbol rho _ _ Hsym). cbn [name_ok] in HN. unfold clause in HN.
      unfold var in *. destruct (assoc n bound) as [ty'|].
      + subst ty'. now rewrite HN.
      + destruct HN as [-> HI]. destruct Hs as [-> Hfo]. rewrite Hc. rewrite HI. destruct t; try discriminate Hfo; reflexivity.
    - (* function *)
      cbn [wfp] in HW. destruct HW as (Hn & Hnb & Hd & (ps & r & -> & Hlen & Hne) & Hrec).
      apply good_name_inv in Hn. destruct Hn as (Hsym & _ & Ht). apply symbol_atom_sym in Hsym.
      cbn [node_text term_sexp node_sexp op_head eval].
      rewrite (seval_app _ _ _ (sym_head_plain _ _ Hsym)), Hsym, Hargs.
      unfold apply_sym. cbn [name_ok] in HN. rewrite HN, Ht, Hd, map_length, Hlen, Nat.eqb_refl, (sc_fun rho J HS).
      destruct args; [contradiction Hne; reflexivity|]. reflexivity.
    - (* string constant *)
      cbn [wfp] in HW. destruct HW as [-> Hs]. inversion HF; subst.
      cbn [node_text term_sexp node_sexp op_head leaf_sexp eval op_sem map].
      now apply str_const_sound.
    - (* extract *)
      destruct args as [|a [|b r]]; cbn [wfp] in HW; try contradiction.
      destruct HW as (Oa & (wa & Ta) & Hs & He & Wa).
      inversion HF as [|? sa ? ? Hsa HF']; subst. inversion HF'; subst.
      change (eval J (T (OBVExtract w s e) [a])) with (op_sem J (OBVExtract w s e) [eval J a]).
      destruct (okt_bv a J wa Oa Ta HJ) as [x Ex]. rewrite Ex in *.
      cbn [node_text term_sexp node_sexp op_head].
      apply (indexed2_sound rho "extract" e s sa (VBV wa x)); [exact He | exact Hs | exact Hsa | reflexivity].
    - (* rotate_left *)
      destruct args as [|a [|b r]]; cbn [wfp] in HW; try contradiction.
      destruct HW as (Oa & Ta & Hk & Wa).
      inversion HF as [|? sa ? ? Hsa HF']; subst. inversion HF'; subst.
      change (eval J (T (OBVRol w k) [a])) with (op_sem J (OBVRol w k) [eval J a]).
      destruct (okt_bv a J w Oa Ta HJ) as [x Ex]. rewrite Ex in *.
      cbn [node_text term_sexp node_sexp op_head].
      apply (indexed1_sound rho "rotate_left" k sa (VBV w x)); [exact Hk | exact Hsa | reflexivity].
    - (* rotate_right *)
      destruct args as [|a [|b r]]; cbn [wfp] in HW; try contradiction.
      destruct HW as (Oa & Ta & Hk & Wa).
      inversion HF as [|? sa ? ? Hsa HF']; subst. inversion HF'; subst.
      change (eval J (T (OBVRor w k) [a])) with (op_sem J (OBVRor w k) [eval J a]).
      destruct (okt_bv a J w Oa Ta HJ) as [x Ex]. rewrite Ex in *.
      cbn [node_text term_sexp node_sexp op_head].
      apply (indexed1_sound rho "rotate_right" k sa (VBV w x)); [exact Hk | exact Hsa | reflexivity].
    - (* zero_extend *)
      destruct args as [|a [|b r]]; cbn [wfp] in HW; try contradiction.
      destruct HW as (Oa & (wa & Ta & ->) & Hk & Wa).
      inversion HF as [|? sa ? ? Hsa HF']; subst. inversion HF'; subst.
      change (eval J (T (OBVZext (wa + k) k) [a])) with (op_sem J (OBVZext (wa + k) k) [eval J a]).
      destruct (okt_bv a J wa Oa Ta HJ) as [x Ex]. rewrite Ex in *.
      cbn [node_text term_sexp node_sexp op_head].
      apply (indexed1_sound rho "zero_extend" k sa (VBV wa x)); [exact Hk | exact Hsa | reflexivity].
    - (* sign_extend *)
      destruct args as [|a [|b r]]; cbn [wfp] in HW; try contradiction.
      destruct HW as (Oa & (wa & Ta & ->) & Hk & Wa).
      inversion HF as [|? sa ? ? Hsa HF']; subst. inversion HF'; subst.
      change (eval J (T (OBVSext (wa + k) k) [a])) with (op_sem J (OBVSext (wa + k) k) [eval J a]).
      destruct (okt_bv a J wa Oa Ta HJ) as [x Ex]. rewrite Ex in *.
      cbn [node_text term_sexp node_sexp op_head].
      apply (indexed1_sound rho "sign_extend" k sa (VBV wa x)); [exact Hk | exact Hsa | reflexivity].
    - (* array value *)
      destruct args as [|d assigns]; cbn [wfp] in HW; [contradiction|].
      destruct HW as ((te & Hsort) & Hkeys & Hrec).
      inversion HF as [|? pd ? sa Hd HFa]; subst.
      change (eval J (T (OArrayValue it) (d :: assigns)))
        with (VArr (arr_assign (fun k => if key_sortb k it then eval J d else junk) (map (eval J) assigns))).
      cbn [node_text List.tl] in *.
      set (tps := pairs_of assigns).
      set (vps := map (fun kv : term * term => (eval J (fst kv), eval J (snd kv))) tps).
      assert (F : Forall2 (fun (p : sexp * sexp) (iv : value * value) =>
                             seval Sg I rho (fst p) = Some (fst iv) /\ seval Sg I rho (snd p) = Some (snd iv))
                          (pairs_of sa) vps).
      { subst vps tps. clear - HFa. revert sa HFa. generalize assigns.
        fix IHl 1. intros [|a [|b r]] sa HFa; inversion HFa as [|? s1 ? sr H1 HF1]; subst; cbn [pairs_of map]; try constructor.
        - inversion HF1; subst. constructor.
        - inversion HF1 as [|? s2 ? sr2 H2 HF2]; subst. cbn [pairs_of]. constructor; [cbn [fst snd]; auto | now apply IHl]. }
      destruct (Permutation_Forall2 HP F) as (vps' & HPv & F').
      rewrite (store_chain_sound rho J HS ordered vps' _ (fun k => if key_sortb k it then eval J d else junk)
                 (const_array_sound rho _ _ _ _ _ Hsort Hd) F').
      do 2 f_equal.
      rewrite (arr_assign_pairs _ (map (eval J) assigns)), (pairs_of_map (eval J)). fold tps. fold vps.
      apply chain_fun_assign; [exact HPv|].
      subst vps. unfold pkeys. rewrite map_map. cbn [fst].
      unfold av_keys_ok in Hkeys. apply andb_true_iff in Hkeys. destruct Hkeys as [K1 K2].
      rewrite <- (map_map fst (fun a => to_key (eval J a))). now apply nodup_keys.
    - (* div *)
      cbn [wfp] in HW. destruct HW as [Hc Hrec]. destruct Hc as [[_ Hc]|Hok]; [discriminate Hc|].
      change (eval J (T ODiv args)) with (op_sem J ODiv (map (eval J) args)).
      change (node_text (T ODiv args) ss ordered) with (SList (Atom (div_name (T ODiv args)) :: ss)).
      apply div_sound; auto.
      + unfold div_name. destruct (tc (T ODiv args)) as [[]|]; auto.
      + rewrite map_length. now apply Nat.eqb_eq.
  Qed.

  (* ------------------------------------------------ the tree printer *)
  Definition sound_at (t : term) : Prop :=
    forall bound rho J, wfp bound t -> env_rel bound rho J -> bound_good bound -> wf_interp J ->
                        seval Sg I rho (print_tree t) = Some (eval J t).

  Lemma wfp_args o args bound : is_quant o = false -> wfp bound (T o args) -> conj_all (wfp bound) args.
  Proof.
    intros Hq HW. destruct o; try discriminate Hq; cbn [wfp] in HW;
      try (destruct HW as [_ HW]; exact HW).
    - destruct args as [|a [|b [|c r]]]; try contradiction. cbn. tauto.
    - destruct HW as (-> & _). exact Logic.I.
    - tauto.
    - destruct HW as (-> & _). exact Logic.I.
    - destruct args as [|a [|b r]]; try contradiction. cbn. tauto.
    - destruct args as [|a [|b r]]; try contradiction. cbn. tauto.
    - destruct args as [|a [|b r]]; try contradiction. cbn. tauto.
    - destruct args as [|a [|b r]]; try contradiction. cbn. tauto.
    - destruct args as [|a [|b r]]; try contradiction. cbn. tauto.
    - destruct args as [|d assigns]; [contradiction|]. tauto.
  Qed.

  Lemma env_rel_name_ok bound rho J t : env_rel bound rho J -> wfp bound t -> name_ok bound rho J t.
  Proof.
    intros (H & _) HW. destruct t as [o args]. destruct o; cbn [name_ok]; auto.
    - exact (H n).
    - cbn [wfp] in HW. destruct HW as (_ & Hnb & _). specialize (H n). unfold var in *. rewrite Hnb in H. tauto.
  Qed.

  Lemma quant_sound (q : string) vs b bound rho J :
    (String.eqb q "forall" || String.eqb q "exists") = true ->
    sound_at b -> vs <> [] -> Forall good_binder vs -> wfp (List.rev vs ++ bound) b ->
    env_rel bound rho J -> bound_good bound -> wf_interp J ->
    forall xs, vals_ok xs vs ->
      seval Sg I (bind_env rho (map fst vs) xs) (print_tree b) = Some (eval (bind J vs xs) b).
  Proof.
    intros _ Hb Hne HG HW HR HB HJ xs Hok. apply (Hb (List.rev vs ++ bound)%list); auto.
    - now apply env_rel_bind.
    - apply bound_good_bind; auto. rewrite Forall_forall in *. intros v Hv. destruct (HG v Hv) as [Hn _].
      apply good_name_inv in Hn. tauto.
    - now apply wf_bind.
  Qed.

  Lemma print_tree_node o args :
    is_quant o = false ->
    print_tree (T o args) =
    node_text (T o args) (map print_tree args)
      (map snd (sort_by_key (combine (map (fun kv : term * term => hr_const (fst kv)) (pairs_of (List.tl args)))
                                     (pairs_of (List.tl (map print_tree args)))))).
  Proof.
    intros Hq. destruct o; try discriminate Hq; try reflexivity.
    destruct args as [|d assigns]; reflexivity.
  Qed.

  Theorem print_tree_sound_gen : forall t, sound_at t.
  Proof.
    induction t as [o args IH] using term_ind'. intros bound rho J HW HR HB HJ.
    destruct (is_quant o) eqn:Hq.
    2:{ rewrite (print_tree_node o args Hq).
        apply (node_value o args _ _ bound); auto.
        - now apply (env_rel_scope bound).
        - now apply env_rel_name_ok.
        - pose proof (wfp_args o args bound Hq HW) as Hrec. clear HW Hq.
          induction IH as [|a r Ha _ IHr]; cbn [map]; [constructor|]. destruct Hrec as [Hwa Hwr].
          constructor; [exact (Ha _ _ _ Hwa HR HB HJ) | now apply IHr].
        - rewrite <- (map_snd_combine (map (fun kv : term * term => hr_const (fst kv)) (pairs_of (List.tl args)))
                                     (pairs_of (List.tl (map print_tree args)))) at 1.
          + apply Permutation_map. symmetry. apply sort_by_key_perm.
          + replace (List.tl (map print_tree args)) with (map print_tree (List.tl args)) by (destruct args; reflexivity).
            rewrite (pairs_of_map print_tree), !map_length. reflexivity. }
    destruct o; try discriminate Hq.
    - (* forall *)
      cbn [wfp] in HW. destruct HW as (Hne & HG & HW). destruct args as [|b [|c r]]; try contradiction.
      inversion IH as [|? ? Hb _]; subst.
      cbn [print_tree map quant_sexp seval eval]. cbn [String.eqb Ascii.eqb Bool.eqb orb].
      rewrite (binders_read _ HG). destruct vs as [|v vs]; [contradiction Hne; reflexivity|].
      do 2 f_equal. apply emi_iff'. split; intros H xs Hok.
      + specialize (H xs Hok). rewrite (quant_sound "forall" (v :: vs) b bound rho J eq_refl Hb Hne HG HW HR HB HJ xs Hok) in H.
        now injection H.
      + rewrite (quant_sound "forall" (v :: vs) b bound rho J eq_refl Hb Hne HG HW HR HB HJ xs Hok). now rewrite (H xs Hok).
    - (* exists *)
      cbn [wfp] in HW. destruct HW as (Hne & HG & HW). destruct args as [|b [|c r]]; try contradiction.
      inversion IH as [|? ? Hb _]; subst.
      cbn [print_tree map quant_sexp seval eval]. cbn [String.eqb Ascii.eqb Bool.eqb orb].
      rewrite (binders_read _ HG). destruct vs as [|v vs]; [contradiction Hne; reflexivity|].
      do 2 f_equal. apply emi_iff'. split; intros [xs [Hok H]]; exists xs; (split; [exact Hok|]).
      + rewrite (quant_sound "exists" (v :: vs) b bound rho J eq_refl Hb Hne HG HW HR HB HJ xs Hok) in H.
        now injection H.
      + rewrite (quant_sound "exists" (v :: vs) b bound rho J eq_refl Hb Hne HG HW HR HB HJ xs Hok). now rewrite H.
  Qed.
End Sound.

(* ========================================================================= the theorems *)
(* Full statement (DESIGN.md C07), for the record:
     print_tree_sound : tc t = Some ty -> printable_names t ->
                        std_eval Sigma_t I (print_tree t) = Some (eval I t)     for ALL terms t.
   It is FALSE of the faithful model (print_tree_sound_refuted_pow: pow is not an SMT-LIB symbol),
   so what is proved is the _partial statement.  [wfp Sg [] t] is the explicit, syntactic fragment
   predicate.  It admits EVERY operator except Pow, and asks:
     - constructor arities (n-ary operators have >= 2 arguments), Real constants with positive
       denominator, BV constants in range;
     - every symbol name is [good_name] (its quoted form reads back as that symbol; it is not a
       theory symbol - the property's own exclusions, plus the open finding about | and \), is
       used at one sort per scope, and free symbols are declared in Sg at that sort; sorts of
       bound variables and of array values are sorts [sort_of_sexp] reads back (declared);
     - string constants are [str_plain]: printable ASCII without backslash (the open finding
       string-literal-escape: anything else is not denoted by its verbatim text);
     - array values: the assigned indices are pairwise distinct Bool/Int/Real/BV/String
       constants, Real ones in lowest terms with positive denominator ([av_keys_ok], through C01's
       key_const; what Array() guarantees);
     - where the meaning of the text depends on the SORT of an argument - both arguments of Iff,
       the argument of extract / rotate / extend - that argument is Bool- resp. BV-typed by [tc]
       and lies in C01's fragment [okt] (whose theorem okt_sound gives the sort of its value);
       extend: the stored width is argument width + k. *)
Theorem print_tree_sound_partial : forall Sg I t,
  wfp Sg [] t -> wf_interp I -> std_eval Sg I (print_tree t) = Some (eval I t).
Proof.
  intros Sg I t HW HI. unfold std_eval. apply (print_tree_sound_gen Sg I t [] [] I); auto.
  - split; [|auto]. intros n. cbn. auto.
  - intros n ty H. discriminate H.
Qed.

(* the hypotheses are satisfiable by a non-trivial term: quantifier re-binding a free name, a name
   that needs quoting, negative and rational constants, UF, Iff, BV operators *)
Definition ex_sig : sig :=
  {| sg_sorts := []; sg_funs := [("x", TInt); ("a b", TReal); ("f", TFun [TInt] TBool); ("v", TBV 4)] |}.
Definition ex_term : term :=
  let x := TSym "x" TInt in
  T OAnd [ T (OForall [("x", TInt); (".def_0", TBool)])
             [T OIff [T (OFunction "f" (TFun [TInt] TBool)) [T OPlus [x; TIntC (-5)]]; TSym ".def_0" TBool]];
           T OLt [T OTimes [TSym "a b" TReal; TRealC (-3) 4]; TRealC 2 1];
           T (OBVRel BUlt) [T (OBV BAdd 4) [TSym "v" (TBV 4); TBVC 5 4]; TSym "v" (TBV 4)];
           T OLe [x; TIntC 12345678901234567890] ].
Example ex_term_wfp : wfp ex_sig [] ex_term.
Proof.
  cbn. repeat split; try reflexivity; try discriminate; eauto.
  - repeat constructor.
  - exists [TInt], TBool. repeat split; discriminate.
Qed.
(* ... and by one with indexed bit-vector operators, a string constant with quotes, an array value *)
Definition ex_term3 : term :=
  let v := TSym "v" (TBV 4) in
  T OAnd [ T OEquals [T (OBVExtract 2 1 2) [T (OBVRol 4 3) [v]]; T (OBVExtract 2 0 1) [T (OBVSext 6 2) [T (OBVZext 4 0) [T (OBVRor 4 1) [v]]]]];
           T OEquals [T (OStr SConcat) [TStrC [97; 34; 98]; TStrC []]; TStrC [32]];
           T OLt [T OSelect [T (OArrayValue TInt) [TRealC 1 2; TIntC 10; TRealC (-1) 1; TIntC 9; TRealC 0 1]; TSym "x" TInt]; TRealC 2 1] ].
Example ex_term3_wfp : wfp ex_sig [] ex_term3 /\ tc ex_term3 = Some TBool.
Proof.
  split; [|reflexivity]. cbn. repeat split; try reflexivity; try discriminate; try lia; eauto.
  all: try (eexists; split; reflexivity). all: try (do 2 eexists; reflexivity).
Qed.
Example ex_term_typed : tc ex_term = Some TBool.
Proof. reflexivity. Qed.

(* ------------------------------------------------ refutations: spellings that are not SMT-LIB *)
Definition sig_sxr : sig := {| sg_sorts := []; sg_funs := [("s", TStr); ("x", TInt); ("y", TInt); ("r", TReal)] |}.

(* the repaired spellings (str.to_int, str.from_int, div on Int) are in the fragment *)
Definition ex_term2 : term :=
  T OAnd [ T OEquals [T (OStr SToInt) [TSym "s" TStr]; T ODiv [TSym "x" TInt; TSym "y" TInt]];
           T OEquals [T (OStr SFromInt) [TSym "x" TInt]; TSym "s" TStr];
           T OLt [T ODiv [TSym "r" TReal; TSym "r" TReal]; TRealC 1 2] ].
Example print_tree_repaired_spellings :
  wfp sig_sxr [] ex_term2 /\ tc ex_term2 = Some TBool /\
  flatten (print_tree ex_term2) =
    ["("; "and"; "("; "="; "("; "str.to_int"; "s"; ")"; "("; "div"; "x"; "y"; ")"; ")";
     "("; "="; "("; "str.from_int"; "x"; ")"; "s"; ")";
     "("; "<"; "("; "/"; "r"; "r"; ")"; "("; "/"; "1.0"; "2.0"; ")"; ")"; ")"] /\
  std_sort sig_sxr (print_tree ex_term2) = Some TBool.
Proof. split; [cbn; repeat split; try reflexivity; try discriminate; eauto | repeat split]. Qed.

Lemma print_tree_sound_refuted_pow :
  exists t, tc t = Some TReal /\ print_tree t = SList [Atom "pow"; Atom "r"; Atom "2.0"] /\
            forall I, std_eval sig_sxr I (print_tree t) = None.
Proof. exists (T OPow [TSym "r" TReal; TRealC 2 1]). repeat split. Qed.

(* ------------------------------------------------ let: what the DAG printer's output means *)
(* Full statement, for the record:
     print_dag_sound : tc t = Some ty -> printable_names t ->
                       std_eval Sigma_t I (print_dag t) = Some (eval I t)
   (invariant: every let-name is fresh for everything in scope; each memo entry evaluates, in the
   environment of the lets written so far, to the value of its term).  NOT proved yet beyond the
   two facts below: the meaning of the let chain the printer builds, and terms printed without
   any let.  The token-exact correspondence and the independent reader cover the rest by test. *)
Definition mk_let (nt : string * sexp) (body : sexp) : sexp :=
  SList [Atom "let"; SList [SList [Atom (fst nt); snd nt]]; body].

Lemma let1_sound Sg I rho n e body x :
  sym_name n = Some n -> seval Sg I rho e = Some x ->
  seval Sg I rho (mk_let (n, e) body) = seval Sg I ((n, x) :: rho) body.
Proof.
  intros Hn He. unfold mk_let. cbn [seval fst snd]. cbn [String.eqb Ascii.eqb Bool.eqb].
  cbn [map SmtStd.all_some]. rewrite Hn, He. cbn [nodup_str mem_str existsb negb andb List.length Nat.eqb bind_env].
  reflexivity.
Qed.

(* the environment the chain of lets builds, oldest let first; None if a bound text has no value *)
Fixpoint lets_env (Sg : sig) (I : interp) (l : list (string * sexp)) (rho : env) : option env :=
  match l with
  | [] => Some rho
  | (n, e) :: r =>
      match sym_name n, seval Sg I rho e with
      | Some m, Some x => if String.eqb m n then lets_env Sg I r ((n, x) :: rho) else None
      | _, _ => None
      end
  end.

Lemma wrap_lets_sound Sg I key : forall lets rho rho',
  lets_env Sg I (List.rev lets) rho = Some rho' ->
  seval Sg I rho (wrap_lets lets key) = seval Sg I rho' key.
Proof.
  intros lets. unfold wrap_lets.
  replace (fold_left (fun body nt => SList [Atom "let"; SList [SList [Atom (fst nt); snd nt]]; body]) lets key)
    with (fold_right mk_let key (List.rev lets)).
  2:{ rewrite fold_left_rev_right. reflexivity. }
  induction (List.rev lets) as [|[n e] L IH]; intros rho rho' H; cbn [lets_env fold_right] in *.
  - now injection H as ->.
  - destruct (sym_name n) as [m|] eqn:Hn; [|discriminate]. destruct (seval Sg I rho e) as [x|] eqn:He; [|discriminate].
    destruct (String.eqb_spec m n); [|discriminate]. subst m.
    rewrite (let1_sound Sg I rho n e _ x Hn He). now apply IH.
Qed.

(* ========================================================================= the DAG printer *)
(* ------------------------------------------------ let-names: lexical facts *)
Lemma def_name_unfold k :
  def_name k = String "." (String "d" (String "e" (String "f" (String "_" (dec_string (Z.of_nat k)))))).
Proof. reflexivity. Qed.
Lemma digit_symchar c : is_digit_c c = true -> is_symchar c = true.
Proof. intros H. unfold is_symchar. now rewrite H. Qed.
Lemma str_forall_imp (p q : ascii -> bool) s : (forall c, p c = true -> q c = true) ->
  str_forall p s = true -> str_forall q s = true.
Proof.
  intros Hpq. induction s as [|c s IH]; cbn; [auto|]. intros H. apply andb_true_iff in H. destruct H as [Hc Hs].
  now rewrite (Hpq _ Hc), (IH Hs).
Qed.
Lemma dec_symchars n : str_forall is_symchar (dec_string n) = true.
Proof. apply (str_forall_imp is_digit_c); [apply digit_symchar | apply dec_digits]. Qed.
Lemma def_symbol k : symbol_atom (def_name k) (def_name k) = true.
Proof.
  rewrite def_name_unfold. set (d := dec_string (Z.of_nat k)). unfold symbol_atom.
  assert (N : numeral_val (String "." (String "d" (String "e" (String "f" (String "_" d))))) = None).
  { unfold numeral_val. cbn. destruct (NilEmpty.uint_of_string d); reflexivity. }
  rewrite N. unfold decimal_val. cbn [split_dot Ascii.eqb Bool.eqb]. cbn [numeral_val NilZero.uint_of_string].
  cbn [bvlit_val strlit_val Ascii.eqb Bool.eqb].
  unfold sym_name, simple_symbol.
  assert (S1 : str_forall is_symchar (String "." (String "d" (String "e" (String "f" (String "_" d))))) = true)
    by (cbn [str_forall]; subst d; rewrite dec_symchars; reflexivity).
  assert (S2 : mem_str (String "." (String "d" (String "e" (String "f" (String "_" d))))) reserved_words = false)
    by reflexivity.
  rewrite S1, S2. cbn [negb andb is_digit_c code nat_of_ascii]. cbn. apply String.eqb_refl.
Qed.
Lemma def_sym_name k : sym_name (def_name k) = Some (def_name k).
Proof. apply symbol_atom_sym, def_symbol. Qed.
Lemma def_not_theory k : assoc (def_name k) std_table = None /\ assoc (def_name k) std_consts = None.
Proof. rewrite def_name_unfold. split; reflexivity. Qed.
Lemma dec_string_inj a b : (0 <= a)%Z -> (0 <= b)%Z -> dec_string a = dec_string b -> a = b.
Proof. intros Ha Hb E. pose proof (numeral_dec a Ha) as H1. rewrite E, (numeral_dec b Hb) in H1. congruence. Qed.
Lemma def_name_inj j k : def_name j = def_name k -> j = k.
Proof.
  rewrite !def_name_unfold. intros E. injection E as E. apply dec_string_inj in E; lia.
Qed.
Lemma strip_symchars s : str_forall is_symchar s = true -> strip_final_newline s = s.
Proof.
  induction s as [|c s IH]; [reflexivity|]. cbn [str_forall]. intros H. apply andb_true_iff in H. destruct H as [Hc Hs].
  cbn [strip_final_newline]. destruct s as [|c' s'].
  - destruct (Ascii.eqb_spec c (ascii_of_nat 10)); [subst; discriminate Hc | reflexivity].
  - now rewrite (IH Hs).
Qed.
Lemma def_symchars k : str_forall is_symchar (def_name k) = true.
Proof. rewrite def_name_unfold. cbn [str_forall]. rewrite dec_symchars. reflexivity. Qed.
Lemma quote_def k : quote (def_name k) = def_name k.
Proof.
  unfold quote. assert (E : mem_str (def_name k) ["Int"; "Real"; "Bool"] = false) by (rewrite def_name_unfold; reflexivity).
  rewrite E. unfold py_simple_symbol. rewrite (strip_symchars _ (def_symchars k)).
  pose proof (def_symchars k) as H. rewrite def_name_unfold in *.
  cbn [str_forall] in H. apply andb_true_iff in H. destruct H as [_ H]. cbn [str_forall]. rewrite H. reflexivity.
Qed.

(* ------------------------------------------------ _new_symbol returns a name that is not taken *)
Lemma mem_str_In x l : mem_str x l = true <-> In x l.
Proof.
  unfold mem_str. rewrite existsb_exists. split.
  - intros (y & Hy & E). apply String.eqb_eq in E. now subst.
  - intros H. exists x. split; [assumption | apply String.eqb_refl].
Qed.
Lemma skip_used_spec names : forall f seed,
  let k := skip_used f names seed in
  (seed <= k <= seed + f)%nat /\ (forall j, (seed <= j < k)%nat -> In (def_name j) names) /\
  ((k < seed + f)%nat -> ~ In (def_name k) names).
Proof.
  induction f as [|f IH]; intros seed; cbn [skip_used].
  - split; [lia|]. split; [intros j Hj; lia | intros Hk; lia].
  - destruct (mem_str (def_name seed) names) eqn:E.
    + apply mem_str_In in E. destruct (IH (S seed)) as (H1 & H2 & H3). split; [lia|]. split.
      * intros j Hj. destruct (Nat.eq_dec j seed) as [->|]; [assumption | apply H2; lia].
      * intros Hk. apply H3. lia.
    + split; [lia|]. split; [intros j Hj; lia|]. intros _ HI. apply mem_str_In in HI. congruence.
Qed.
Lemma new_symbol_fresh names seed :
  let '(sym, seed') := new_symbol names seed in
  exists k, sym = def_name k /\ seed' = S k /\ (seed <= k)%nat /\ ~ In sym names.
Proof.
  unfold new_symbol. set (f := S (List.length names)). set (k := skip_used f names seed).
  destruct (skip_used_spec names f seed) as (H1 & H2 & H3). fold k in H1, H2, H3.
  exists k. repeat split; [lia|].
  destruct (Nat.lt_ge_cases k (seed + f)) as [Hlt|Hge]; [now apply H3|].
  exfalso. assert (k = (seed + f)%nat) by lia.
  assert (Hincl : incl (map def_name (seq seed f)) names).
  { intros x Hx. apply in_map_iff in Hx. destruct Hx as (j & <- & Hj). apply in_seq in Hj. apply H2. lia. }
  assert (HN : NoDup (map def_name (seq seed f))).
  { apply FinFun.Injective_map_NoDup; [intros a b; apply def_name_inj | apply seq_NoDup]. }
  pose proof (NoDup_incl_length HN Hincl) as HL. rewrite map_length, seq_length in HL. subst f. lia.
Qed.

(* ------------------------------------------------ texts kept in the memo: weakening *)
Fixpoint anames (s : sexp) : list string :=
  match s with
  | Atom a => match sym_name a with Some n => [n] | None => [] end
  | SList l => flat_map anames l
  end.
(* applications of plain heads to such texts, and atoms: what the printer returns inline *)
Fixpoint mtext (s : sexp) : Prop :=
  match s with
  | Atom _ => True
  | SList (Atom h :: l) =>
      head_plain h = true /\ (fix all (l : list sexp) : Prop := match l with [] => True | x :: r => mtext x /\ all r end) l
  | _ => False
  end.

Lemma seval_agree_m Sg I rho1 rho2 : forall s, mtext s ->
  (forall n, In n (anames s) -> assoc n rho1 = assoc n rho2) -> seval Sg I rho1 s = seval Sg I rho2 s.
Proof.
  induction s as [a | l IH] using sexp_ind'; intros HM HA.
  - cbn [seval]. unfold eval_atom.
    destruct (numeral_val a); [reflexivity|]. destruct (decimal_val a) as [[? ?]|]; [reflexivity|].
    destruct (bvlit_val a) as [[? ?]|]; [reflexivity|]. destruct (strlit_val a); [reflexivity|].
    destruct (sym_name a) as [n|] eqn:E; [|reflexivity].
    rewrite (HA n); [reflexivity|]. cbn [anames]. rewrite E. now left.
  - destruct l as [|[h|?] l]; cbn [mtext] in HM; try contradiction. destruct HM as [Hp HM].
    rewrite !(seval_app Sg I _ _ _ Hp). inversion IH as [|? ? _ IHl]; subst.
    assert (E : map (seval Sg I rho1) l = map (seval Sg I rho2) l).
    { assert (HAl : forall n, In n (flat_map anames l) -> assoc n rho1 = assoc n rho2).
      { intros n Hn. apply HA. cbn [anames flat_map]. apply in_or_app. now right. }
      clear HA Hp IH. induction IHl as [|x r Hx _ IHr]; [reflexivity|]. cbn [map]. destruct HM as [Mx Mr]. f_equal.
      - apply Hx; [exact Mx|]. intros n Hn. apply HAl. cbn [flat_map]. apply in_or_app. now left.
      - apply IHr; [exact Mr|]. intros n Hn. apply HAl. cbn [flat_map]. apply in_or_app. now right. }
    rewrite E. destruct (sym_name h) as [f|] eqn:Ef; [|reflexivity].
    destruct (SmtStd.all_some (map (seval Sg I rho2) l)); [|reflexivity].
    unfold apply_sym. rewrite (HA f); [reflexivity|]. cbn [anames flat_map]. rewrite Ef. now left.
Qed.

(* ------------------------------------------------ inline texts never mention a let-name by accident *)
Lemma sym_name_cases a n : sym_name a = Some n -> n = a \/ exists r, a = String "|" r.
Proof.
  destruct a as [|c r]; [cbn; discriminate|].
  destruct c as [[] [] [] [] [] [] [] []];
    try (cbn [sym_name]; destruct (simple_symbol _); [intros [= <-]; now left | discriminate]).
  intros _. right. eauto.
Qed.
Definition plain_first (a : string) : bool :=
  match a with String c _ => negb (Ascii.eqb c ".") && negb (Ascii.eqb c "|") | EmptyString => true end.
Definition nodef (s : sexp) : Prop := forall j, ~ In (def_name j) (anames s).
Lemma nodef_atom a : plain_first a = true -> nodef (Atom a).
Proof.
  intros H j HI. cbn [anames] in HI. destruct (sym_name a) as [n|] eqn:E; [|contradiction].
  destruct HI as [->|[]]. destruct (sym_name_cases _ _ E) as [E'|[r ->]]; [|discriminate H].
  rewrite <- E', def_name_unfold in H. discriminate H.
Qed.
Lemma nodef_list l : Forall nodef l -> nodef (SList l).
Proof.
  intros HF j HI. cbn [anames] in HI. apply in_flat_map in HI. destruct HI as (x & Hx & HI).
  rewrite Forall_forall in HF. exact (HF x Hx j HI).
Qed.
Lemma dec_first n : plain_first (dec_string n) = true.
Proof. unfold dec_string, NilZero.string_of_uint. destruct (N.to_uint (Z.to_N n)); reflexivity. Qed.
Lemma dec0_first n : plain_first (dec_string n ++ ".0") = true.
Proof. unfold dec_string, NilZero.string_of_uint. destruct (N.to_uint (Z.to_N n)); reflexivity. Qed.
Lemma nodef_leaf o :
  match o with OIntC _ | ORealC _ _ | OBoolC _ | OBVC _ _ | OStrC _ => True | _ => False end -> nodef (leaf_sexp o).
Proof.
  destruct o; try contradiction; intros _; cbn [leaf_sexp].
  - unfold real_const. destruct (num <? 0)%Z, (den =? 1)%Z;
      repeat first [apply nodef_list; repeat constructor | apply nodef_atom; first [reflexivity | apply dec0_first]].
  - destruct b; apply nodef_atom; reflexivity.
  - unfold int_const. destruct (z <? 0)%Z;
      repeat first [apply nodef_list; repeat constructor | apply nodef_atom; first [reflexivity | apply dec_first]].
  - apply nodef_atom. reflexivity.
  - apply nodef_atom. reflexivity.
Qed.

(* ------------------------------------------------ free symbols of arguments; environments *)
Lemma fv_arg Sg bound o args a : is_quant o = false -> wfp Sg bound (T o args) -> In a args ->
  incl (fv a) (fv (T o args)).
Proof.
  intros Hq HW Ha v Hv.
  assert (R : In v (unions var_eqb (map fv args))).
  { apply (Sets_proofs.unions_In var_eqb var_eqb_eq). exists (fv a). split; [now apply in_map | assumption]. }
  destruct o; try discriminate Hq; cbn [fv]; try exact R;
    try (cbn [wfp] in HW; destruct HW as [[[-> _]|Hok] _]; [contradiction Ha | discriminate Hok]).
  - cbn [wfp] in HW. destruct HW as (-> & _). contradiction Ha.
  - apply (Sets_proofs.union_In var_eqb var_eqb_eq). now right.
  - cbn [wfp] in HW. destruct HW as (-> & _). contradiction Ha.
Qed.
Lemma bind_env_app : forall ns xs rho, bind_env rho ns xs = (List.rev (combine ns xs) ++ rho)%list.
Proof.
  induction ns as [|n ns IH]; intros xs rho; [reflexivity|]. destruct xs as [|x xs]; [reflexivity|].
  cbn [bind_env combine List.rev]. rewrite IH, <- app_assoc. reflexivity.
Qed.
Lemma assoc_app {A} n (l1 l2 : list (string * A)) :
  assoc n (l1 ++ l2) = match assoc n l1 with Some v => Some v | None => assoc n l2 end.
Proof. induction l1 as [|[k v] l1 IH]; cbn; [reflexivity|]. destruct (String.eqb n k); auto. Qed.
Lemma assoc_none_notin {A} n (l : list (string * A)) : assoc n l = None -> ~ In n (map fst l).
Proof.
  induction l as [|[k v] l IH]; cbn; [tauto|]. destruct (String.eqb_spec n k); [discriminate|].
  intros H [E|HI]; [congruence | exact (IH H HI)].
Qed.
Lemma vals_ok_length : forall xs vs, vals_ok xs vs -> List.length xs = List.length vs.
Proof. induction xs as [|x xs IH]; intros [|v vs] H; cbn in *; try contradiction; auto. f_equal. apply IH. tauto. Qed.

(* ------------------------------------------------ the invariant of one printer instance *)
Lemma lets_env_app Sg I : forall l1 l2 rho,
  lets_env Sg I (l1 ++ l2) rho = match lets_env Sg I l1 rho with Some r => lets_env Sg I l2 r | None => None end.
Proof.
  induction l1 as [|[n e] l1 IH]; intros l2 rho; cbn [List.app lets_env]; [reflexivity|].
  destruct (sym_name n) as [m|]; [|reflexivity]. destruct (seval Sg I rho e) as [x|]; [|reflexivity].
  destruct (String.eqb m n); [apply IH | reflexivity].
Qed.
Lemma tsize_arg o args a : In a args -> (tsize a < tsize (T o args))%nat.
Proof.
  intros H. cbn [tsize]. induction args as [|x r IH]; [contradiction|]. cbn [fold_right].
  destruct H as [->|H]; [lia | specialize (IH H); lia].
Qed.
Lemma memo_has_cons t' t s m : memo_has t' m = true -> memo_has t' ((t, s) :: m) = true.
Proof. unfold memo_has. cbn [memo_get]. destruct (term_eqb t' t); auto. Qed.
Lemma memo_has_get t m : memo_has t m = true -> exists s, memo_get t m = Some s.
Proof. unfold memo_has. destruct (memo_get t m); [eauto | discriminate]. Qed.

Lemma combine_fst_eq {A B} : forall (a : list A) (b : list B), List.length a = List.length b -> map fst (combine a b) = a.
Proof. induction a as [|x a IH]; intros [|y b] H; cbn in *; try discriminate; auto. f_equal. apply IH. lia. Qed.

Section Dag.
  Variable Sg : sig.
  Variable I : interp.

  Definition relevant (fvs : list var) (n : string) : Prop :=
    assoc n std_table <> None \/ assoc n std_consts <> None \/ In n (map fst fvs).

  (* the DAG printer's text for t, read in an environment rho1 that agrees with a clean one (rho2,
     related to J by env_rel) on the names t can look up, has the value of t *)
  Definition dag_ok (t : term) : Prop :=
    forall bound rho2 J rho1,
      wfp Sg bound t -> env_rel I bound rho2 J -> bound_good bound -> wf_interp J ->
      (forall n, relevant (fv t) n -> assoc n rho1 = assoc n rho2) ->
      seval Sg I rho1 (print_dag t) = Some (eval J t).

  Section Inv.
    Variables (bound : list var) (rho2 : env) (J : interp) (rho1 : env) (fvs : list var).
    Let names := map (fun v : var => quote (fst v)) fvs.
    Hypothesis HR : env_rel I bound rho2 J.
    Hypothesis HB : bound_good bound.
    Hypothesis HJ : wf_interp J.
    Hypothesis HA : forall n, relevant fvs n -> assoc n rho1 = assoc n rho2.
    Variable N : nat.
    Hypothesis HIH : forall b, (tsize b < N)%nat -> dag_ok b.

    Definition good (t : term) : Prop := wfp Sg bound t /\ incl (fv t) fvs.
    Definition atoms_ok (seed : nat) (s : sexp) : Prop :=
      forall j, In (def_name j) (anames s) -> In (def_name j) names \/ (j < seed)%nat.
    Definition Inv (st : dst) : Prop :=
      exists rho_st,
        lets_env Sg I (List.rev (d_lets st)) rho1 = Some rho_st /\
        (forall n, relevant fvs n -> assoc n rho_st = assoc n rho1) /\
        (forall t s, memo_get t (d_memo st) = Some s ->
           good t /\ mtext s /\ seval Sg I rho_st s = Some (eval J t) /\ atoms_ok (d_seed st) s).

    Lemma def_not_relevant k : ~ In (def_name k) names -> ~ relevant fvs (def_name k).
    Proof.
      intros Hn [H|[H|H]].
      - now rewrite (proj1 (def_not_theory k)) in H.
      - now rewrite (proj2 (def_not_theory k)) in H.
      - apply Hn. apply in_map_iff in H. destruct H as (v & E & Hv). unfold names.
        apply in_map_iff. exists v. split; [|assumption]. now rewrite E, quote_def.
    Qed.

    Lemma inv_add st t text :
      Inv st -> good t ->
      (forall rho_st, lets_env Sg I (List.rev (d_lets st)) rho1 = Some rho_st ->
                      (forall n, relevant fvs n -> assoc n rho_st = assoc n rho1) ->
                      seval Sg I rho_st text = Some (eval J t)) ->
      Inv (add_let names st t text) /\ memo_has t (d_memo (add_let names st t text)) = true /\
      (forall t', memo_has t' (d_memo st) = true -> memo_has t' (d_memo (add_let names st t text)) = true).
    Proof.
      intros (rho_st & HL & HRl & HM) HG HT. unfold add_let.
      pose proof (new_symbol_fresh names (d_seed st)) as HF.
      destruct (new_symbol names (d_seed st)) as [sym seed']. destruct HF as (k & -> & -> & Hk & Hfresh).
      cbn [d_memo d_seed d_lets]. split; [|split].
      - exists ((def_name k, eval J t) :: rho_st). cbn [d_memo d_seed d_lets]. split; [|split].
        + cbn [List.rev]. rewrite lets_env_app, HL. cbn [lets_env].
          now rewrite def_sym_name, (HT rho_st HL HRl), String.eqb_refl.
        + intros n Hn. cbn [assoc]. destruct (String.eqb_spec n (def_name k)) as [->|]; [|now apply HRl].
          exfalso. exact (def_not_relevant k Hfresh Hn).
        + intros t' s Hget. cbn [memo_get] in Hget. destruct (term_eqb t' t) eqn:E.
          * injection Hget as <-. apply term_eqb_eq in E. subst t'. split; [assumption|]. split; [exact Logic.I|]. split.
            -- cbn [seval]. rewrite (eval_atom_symbol Sg I _ _ _ (def_symbol k)). cbn [assoc]. now rewrite String.eqb_refl.
            -- intros j Hj. cbn [anames] in Hj. rewrite def_sym_name in Hj. destruct Hj as [Hj|[]].
               apply def_name_inj in Hj. right. lia.
          * destruct (HM t' s Hget) as (G & M & V & A). split; [assumption|]. split; [assumption|]. split.
            -- rewrite <- V. apply seval_agree_m; [assumption|]. intros n Hn. cbn [assoc].
               destruct (String.eqb_spec n (def_name k)) as [->|]; [|reflexivity].
               exfalso. destruct (A k Hn) as [Hin|Hlt]; [exact (Hfresh Hin) | lia].
            -- intros j Hj. destruct (A j Hj); [now left | right; lia].
      - unfold memo_has. cbn [memo_get]. now rewrite (proj2 (term_eqb_eq t t) eq_refl).
      - intros t'. apply memo_has_cons.
    Qed.

    Lemma inv_inline st t text :
      Inv st -> good t -> mtext text -> atoms_ok (d_seed st) text ->
      (forall rho_st, lets_env Sg I (List.rev (d_lets st)) rho1 = Some rho_st ->
                      (forall n, relevant fvs n -> assoc n rho_st = assoc n rho1) ->
                      seval Sg I rho_st text = Some (eval J t)) ->
      Inv {| d_memo := (t, text) :: d_memo st; d_seed := d_seed st; d_lets := d_lets st |}.
    Proof.
      intros (rho_st & HL & HRl & HM) HG HMt HAt HT. exists rho_st. cbn [d_memo d_seed d_lets]. split; [assumption|]. split; [assumption|].
      intros t' s Hget. cbn [memo_get] in Hget. destruct (term_eqb t' t) eqn:E; [|now apply HM].
      injection Hget as <-. apply term_eqb_eq in E. subst t'.
      split; [assumption|]. split; [assumption|]. split; [exact (HT rho_st HL HRl) | assumption].
    Qed.

    (* scope and name facts at the environment of the lets written so far *)
    Lemma scope_st rho_st : (forall n, relevant fvs n -> assoc n rho_st = assoc n rho1) -> scope I rho_st J.
    Proof.
      intros HRl. pose proof (env_rel_scope I bound rho2 J HR HB) as [S1 S2 S3 S4]. split; auto.
      - intros n k Hk. rewrite HRl, HA; [eauto | left; congruence | left; congruence].
      - intros n c Hc. rewrite HRl, HA; [eauto | right; left; congruence | right; left; congruence].
    Qed.
    Lemma name_ok_st rho_st t : (forall n, relevant fvs n -> assoc n rho_st = assoc n rho1) -> good t ->
      name_ok I bound rho_st J t.
    Proof.
      intros HRl [HW Hincl]. destruct t as [o args]. destruct o; cbn [name_ok]; auto.
      - assert (Rn : relevant fvs n).
        { right; right. apply in_map_iff. exists (n, t). split; [reflexivity|]. apply Hincl. cbn [fv]. now left. }
        destruct HR as (H & _). specialize (H n). unfold clause. unfold var in *.
        destruct (assoc n bound); rewrite HRl, HA; auto.
      - assert (Rn : relevant fvs n).
        { right; right. apply in_map_iff. exists (n, t). split; [reflexivity|]. apply Hincl. cbn [fv].
          apply (Sets_proofs.union_In var_eqb var_eqb_eq). left. now left. }
        cbn [wfp] in HW. destruct HW as (_ & Hnb & _). destruct HR as (H & _). specialize (H n). unfold var in *.
        rewrite Hnb in H. rewrite HRl, HA; tauto.
    Qed.

    (* ---- one node ---- *)
    Definition mono (st st' : dst) : Prop :=
      forall t', memo_has t' (d_memo st) = true -> memo_has t' (d_memo st') = true.
    Definition texts_of (st : dst) (args : list term) : list sexp :=
      map (fun c => match memo_get c (d_memo st) with Some r => r | None => Atom "?" end) args.

    Lemma leaf_mtext o : match o with OIntC _ | ORealC _ _ | OBoolC _ | OBVC _ _ | OStrC _ => True | _ => False end ->
      mtext (leaf_sexp o).
    Proof.
      destruct o; try contradiction; intros _; cbn [leaf_sexp]; try exact Logic.I.
      - unfold real_const. destruct (num <? 0)%Z, (den =? 1)%Z; cbn; auto 10.
      - unfold int_const. destruct (z <? 0)%Z; cbn; auto.
    Qed.

    Lemma inline_text_ok st o args :
      dag_inline o = true -> good (T o args) ->
      Forall (fun s => mtext s /\ atoms_ok (d_seed st) s) (texts_of st args) ->
      mtext (term_sexp (T o args) (texts_of st args)) /\ atoms_ok (d_seed st) (term_sexp (T o args) (texts_of st args)).
    Proof.
      intros Hi [HW Hincl] HF.
      destruct o; try discriminate Hi; cbn [term_sexp node_sexp op_head].
      - (* symbol *) split; [exact Logic.I|]. cbn [leaf_sexp]. intros j Hj.
        cbn [wfp] in HW. destruct HW as (_ & Hn & _). apply good_name_inv in Hn. destruct Hn as (Hs & _).
        cbn [anames] in Hj. rewrite (symbol_atom_sym _ _ Hs) in Hj. destruct Hj as [->|[]]. left.
        unfold names. apply in_map_iff. exists (def_name j, t). split; [cbn [fst]; apply quote_def|].
        apply Hincl. cbn [fv]. now left.
      - split; [now apply leaf_mtext|]. intros j Hj. exfalso. exact (nodef_leaf (ORealC num den) Logic.I j Hj).
      - split; [now apply leaf_mtext|]. intros j Hj. exfalso. exact (nodef_leaf (OBoolC b) Logic.I j Hj).
      - split; [now apply leaf_mtext|]. intros j Hj. exfalso. exact (nodef_leaf (OIntC z) Logic.I j Hj).
      - split; [now apply leaf_mtext|]. intros j Hj. exfalso. exact (nodef_leaf (OStrC s) Logic.I j Hj).
      - split; [now apply leaf_mtext|]. intros j Hj. exfalso. exact (nodef_leaf (OBVC v w) Logic.I j Hj).
      - (* inline string operators *)
        assert (Hp : head_plain (strop_name k) = true /\ plain_first (strop_name k) = true)
          by (destruct k; try discriminate Hi; split; reflexivity).
        destruct Hp as [Hp Hf]. split.
        + cbn [mtext]. split; [exact Hp|]. induction HF as [|x r [Hx _] _ IH]; cbn; auto.
        + intros j Hj. cbn [anames flat_map] in Hj. apply in_app_or in Hj. destruct Hj as [Hj|Hj].
          * exfalso. exact (nodef_atom _ Hf j Hj).
          * apply in_flat_map in Hj. destruct Hj as (x & Hx & Hj). rewrite Forall_forall in HF. exact (proj2 (HF x Hx) j Hj).
    Qed.

    Lemma dag_compute_unfold st o args : (forall it, o <> OArrayValue it) ->
      dag_compute names st (T o args) =
      if memo_has (T o args) (d_memo st) then st else
      if dag_inline o
      then {| d_memo := (T o args, term_sexp (T o args) (texts_of st args)) :: d_memo st; d_seed := d_seed st; d_lets := d_lets st |}
      else add_let names st (T o args) (term_sexp (T o args) (texts_of st args)).
    Proof. intros Hna. destruct o; try reflexivity. exfalso. exact (Hna it eq_refl). Qed.

    Lemma compute_ok st o args :
      is_quant o = false -> Inv st -> good (T o args) ->
      Forall (fun a => memo_has a (d_memo st) = true) args ->
      Inv (dag_compute names st (T o args)) /\ memo_has (T o args) (d_memo (dag_compute names st (T o args))) = true /\
      mono st (dag_compute names st (T o args)).
    Proof.
      intros Hq HI HG Hargs.
      destruct (memo_has (T o args) (d_memo st)) eqn:Em.
      { assert (E : dag_compute names st (T o args) = st) by (unfold dag_compute; now rewrite Em).
        rewrite E. split; [assumption|]. split; [assumption|]. intros t' H; exact H. }
      pose proof HI as (rho0 & HL0 & HRl0 & HM).
      (* the texts of the arguments have the arguments' values *)
      assert (VAL : forall rho_st, lets_env Sg I (List.rev (d_lets st)) rho1 = Some rho_st ->
                 (forall n, relevant fvs n -> assoc n rho_st = assoc n rho1) ->
                 seval Sg I rho_st (node_text (T o args) (texts_of st args) (pairs_of (List.tl (texts_of st args))))
                 = Some (eval J (T o args))).
      { intros rho_st HL HRl. rewrite HL0 in HL. injection HL as <-.
        apply (node_value Sg I o args _ _ bound); auto.
        - exact (proj1 HG).
        - now apply scope_st.
        - now apply name_ok_st.
        - unfold texts_of. clear - Hargs HM. induction Hargs as [|a r Ha _ IH]; cbn [map]; constructor; [|exact IH].
          destruct (memo_has_get _ _ Ha) as [s Hs]. rewrite Hs. exact (proj1 (proj2 (proj2 (HM a s Hs)))). }
      assert (TXT : Forall (fun s => mtext s /\ atoms_ok (d_seed st) s) (texts_of st args)).
      { unfold texts_of. clear - Hargs HM. induction Hargs as [|a r Ha _ IH]; cbn [map]; constructor; [|exact IH].
        destruct (memo_has_get _ _ Ha) as [s Hs]. rewrite Hs. destruct (HM a s Hs) as (_ & M & _ & A). auto. }
      destruct (match o with OArrayValue _ => true | _ => false end) eqn:Ea.
      - (* array value *)
        destruct o; try discriminate Ea. destruct args as [|d assigns].
        { exfalso. exact (proj1 HG). }
        unfold dag_compute. rewrite Em. fold (texts_of st (d :: assigns)).
        inversion Hargs; subst. cbn [texts_of map] in *.
        apply inv_add; auto.
      - rewrite dag_compute_unfold, Em by (intros it ->; discriminate Ea).
        assert (NT : node_text (T o args) (texts_of st args) (pairs_of (List.tl (texts_of st args)))
                     = term_sexp (T o args) (texts_of st args)).
        { destruct o; try reflexivity. discriminate Ea. }
        rewrite NT in VAL. destruct (dag_inline o) eqn:Ei.
        + destruct (inline_text_ok st o args Ei HG TXT) as [M A]. split; [|split].
          * now apply inv_inline.
          * unfold memo_has. cbn [d_memo memo_get]. now rewrite (proj2 (term_eqb_eq _ _) eq_refl).
          * intros t'. cbn [d_memo]. apply memo_has_cons.
        + now apply inv_add.
    Qed.

    (* ---- the walk ---- *)
    Fixpoint visit_args (m0 : list (term * sexp)) (st : dst) (l : list term) : dst :=
      match l with
      | [] => st
      | c :: r => let s := visit_args m0 st r in if memo_has c m0 then s else dag_visit names c s
      end.
    Lemma dag_visit_unfold o args st : is_quant o = false ->
      dag_visit names (T o args) st =
      if memo_has (T o args) (d_memo st) then st
      else dag_compute names (visit_args (d_memo st) st args) (T o args).
    Proof.
      intros Hq.
      assert (G : forall m0 st0 l,
                 (fix go (l : list term) : dst :=
                    match l with
                    | [] => st0
                    | c :: r => let s := go r in if memo_has c m0 then s else dag_visit names c s
                    end) l = visit_args m0 st0 l).
      { intros m0 st0 l. induction l as [|c r IH]; [reflexivity|]. cbn [visit_args]. now rewrite <- IH. }
      destruct o; try discriminate Hq; cbn [dag_visit]; rewrite G; reflexivity.
    Qed.

    Definition post (st st' : dst) (t : term) : Prop :=
      Inv st' /\ memo_has t (d_memo st') = true /\ mono st st'.

    Lemma quant_value vs b rho_st :
      (tsize b < N)%nat -> vs <> [] -> Forall (good_binder Sg) vs -> wfp Sg (List.rev vs ++ bound) b ->
      (forall n, relevant fvs n -> assoc n rho_st = assoc n rho1) ->
      (forall v, In v (fv b) -> ~ In v vs -> In v fvs) ->
      forall xs, vals_ok xs vs ->
        seval Sg I (bind_env rho_st (map fst vs) xs) (print_dag b) = Some (eval (bind J vs xs) b).
    Proof.
      intros Hsz Hne HG HWb HRl Hfv xs Hok.
      apply (HIH b Hsz (List.rev vs ++ bound)%list (bind_env rho2 (map fst vs) xs)); auto.
      - now apply env_rel_bind.
      - apply bound_good_bind; auto. rewrite Forall_forall in *. intros v Hv. destruct (HG v Hv) as [Hn _].
        apply good_name_inv in Hn. tauto.
      - now apply wf_bind.
      - intros n Hn. rewrite !bind_env_app, !assoc_app.
        destruct (assoc n (List.rev (combine (map fst vs) xs))) as [x|] eqn:E; [reflexivity|].
        rewrite HRl, HA; auto.
        + destruct Hn as [H|[H|H]]; [now left | now right; left | right; right].
          apply in_map_iff in H. destruct H as ([m ty] & <- & Hv). cbn [fst].
          apply in_map_iff. exists (m, ty). split; [reflexivity|]. apply Hfv; [assumption|].
          intros Hin. apply assoc_none_notin in E. apply E.
          rewrite map_rev. apply -> in_rev.
          assert (L : List.length (map fst vs) = List.length xs) by (rewrite map_length; symmetry; now apply vals_ok_length).
          rewrite (combine_fst_eq _ _ L). apply in_map_iff. exists (m, ty). now split.
        + destruct Hn as [H|[H|H]]; [now left | now right; left | right; right].
          apply in_map_iff in H. destruct H as ([m ty] & <- & Hv). cbn [fst].
          apply in_map_iff. exists (m, ty). split; [reflexivity|]. apply Hfv; [assumption|].
          intros Hin. apply assoc_none_notin in E. apply E.
          rewrite map_rev. apply -> in_rev.
          assert (L : List.length (map fst vs) = List.length xs) by (rewrite map_length; symmetry; now apply vals_ok_length).
          rewrite (combine_fst_eq _ _ L). apply in_map_iff. exists (m, ty). now split.
    Qed.

    Lemma quant_node (q : string) (isf : bool) vs b st :
      (q = if isf then "forall" else "exists") ->
      let t := T (if isf then OForall vs else OExists vs) [b] in
      (tsize t <= N)%nat -> Inv st -> good t ->
      post st (add_let names st t (quant_sexp q vs (print_dag b))) t.
    Proof.
      intros Hqn t Hsz HI HG. unfold post, mono. apply inv_add; auto.
      intros rho_st HL HRl. destruct HG as [HW Hincl].
      assert (HW' : vs <> [] /\ Forall (good_binder Sg) vs /\ wfp Sg (List.rev vs ++ bound) b)
        by (subst t; destruct isf; exact HW).
      destruct HW' as (Hne & HGb & HWb).
      assert (Hb : (tsize b < N)%nat) by (subst t; destruct isf; cbn [tsize fold_right] in Hsz; lia).
      assert (Hfv : forall v, In v (fv b) -> ~ In v vs -> In v fvs).
      { intros v Hv Hnv. apply Hincl. subst t. destruct isf; cbn [fv map];
          apply (Sets_proofs.diff_In var_eqb var_eqb_eq); (split; [|assumption]);
          apply (Sets_proofs.unions_In var_eqb var_eqb_eq); exists (fv b); (split; [now left | assumption]). }
      pose proof (quant_value vs b rho_st Hb Hne HGb HWb HRl Hfv) as QV.
      subst t q. destruct isf.
      - cbn [quant_sexp seval eval]. cbn [String.eqb Ascii.eqb Bool.eqb orb].
        rewrite (binders_read Sg _ HGb). destruct vs as [|v vs]; [contradiction Hne; reflexivity|].
        do 2 f_equal. apply emi_iff'. split; intros H xs Hok.
        + specialize (H xs Hok). rewrite (QV xs Hok) in H. now injection H.
        + rewrite (QV xs Hok). now rewrite (H xs Hok).
      - cbn [quant_sexp seval eval]. cbn [String.eqb Ascii.eqb Bool.eqb orb].
        rewrite (binders_read Sg _ HGb). destruct vs as [|v vs]; [contradiction Hne; reflexivity|].
        do 2 f_equal. apply emi_iff'. split; intros [xs [Hok H]]; exists xs; (split; [exact Hok|]).
        + rewrite (QV xs Hok) in H. now injection H.
        + rewrite (QV xs Hok). now rewrite H.
    Qed.

    Lemma visit_ok : forall t, (tsize t <= N)%nat -> forall st, Inv st -> good t -> post st (dag_visit names t st) t.
    Proof.
      induction t as [o args IH] using term_ind'. intros Hsz st HI HG.
      destruct (is_quant o) eqn:Hq.
      - destruct o; try discriminate Hq.
        + destruct args as [|b [|c r]]; try (exfalso; exact (proj2 (proj2 (proj1 HG)))).
          exact (quant_node "forall" true vs b st eq_refl Hsz HI HG).
        + destruct args as [|b [|c r]]; try (exfalso; exact (proj2 (proj2 (proj1 HG)))).
          exact (quant_node "exists" false vs b st eq_refl Hsz HI HG).
      - rewrite (dag_visit_unfold o args st Hq).
        destruct (memo_has (T o args) (d_memo st)) eqn:Em.
        { split; [assumption|]. split; [assumption|]. intros t' H; exact H. }
        assert (W : Inv (visit_args (d_memo st) st args) /\ mono st (visit_args (d_memo st) st args) /\
                    Forall (fun a => memo_has a (d_memo (visit_args (d_memo st) st args)) = true) args).
        { assert (GA : forall a, In a args -> good a /\ (tsize a <= N)%nat).
          { intros a Ha. split.
            - split.
              + pose proof (wfp_args Sg o args bound Hq (proj1 HG)) as Hrec. clear - Ha Hrec.
                induction args as [|x r IHr]; [contradiction|]. destruct Hrec as [Hx Hr]. destruct Ha as [->|Ha]; auto.
              + intros v Hv. apply (proj2 HG). exact (fv_arg Sg bound o args a Hq (proj1 HG) Ha v Hv).
            - pose proof (tsize_arg o args a Ha). lia. }
          clear Em Hsz HG. set (m0 := d_memo st). assert (M0 : mono st st) by (intros t' H; exact H).
          assert (M00 : forall c, memo_has c m0 = true -> memo_has c (d_memo st) = true) by auto.
          clearbody m0. induction IH as [|c r Hc _ IHr]; cbn [visit_args].
          - split; [assumption|]. split; [assumption | constructor].
          - destruct IHr as (I1 & M1 & F1); [intros a Ha; apply GA; now right|].
            destruct (memo_has c m0) eqn:Ec.
            + split; [assumption|]. split; [assumption|]. constructor; [apply M1; now apply M00 | assumption].
            + destruct (GA c (or_introl eq_refl)) as [Gc Sc].
              destruct (Hc Sc _ I1 Gc) as (I2 & Mc & M2). split; [assumption|]. split.
              * intros t' H. apply M2, M1, H.
              * constructor; [assumption|]. rewrite Forall_forall in *. intros a Ha. apply M2, F1, Ha. }
        destruct W as (I1 & M1 & F1).
        destruct (compute_ok _ o args Hq I1 HG F1) as (I2 & Mt & M2).
        split; [assumption|]. split; [assumption|]. intros t' H. apply M2, M1, H.
    Qed.
  End Inv.

  Theorem dag_sound : forall n t, (tsize t <= n)%nat -> dag_ok t.
  Proof.
    induction n as [|n IHn]; intros t Hsz; [destruct t; cbn in Hsz; lia|].
    intros bound rho2 J rho1 HW HR HB HJ HA.
    assert (HIH : forall b, (tsize b < S n)%nat -> dag_ok b) by (intros b Hb; apply IHn; lia).
    assert (I0 : Inv bound J rho1 (fv t) dst0).
    { exists rho1. split; [reflexivity|]. split; [auto|]. intros t' s H. discriminate H. }
    assert (G0 : good bound (fv t) t) by (split; [assumption | intros v Hv; exact Hv]).
    destruct (visit_ok bound rho2 J rho1 (fv t) HR HB HJ HA (S n) HIH t Hsz dst0 I0 G0) as ((rho_st & HL & _ & HM) & Hm & _).
    unfold print_dag, names_of. cbv zeta.
    destruct (memo_has_get _ _ Hm) as [s Hs]. unfold var in *. rewrite Hs.
    rewrite (wrap_lets_sound Sg I s _ rho1 rho_st HL). exact (proj1 (proj2 (proj2 (HM t s Hs)))).
  Qed.
End Dag.

(* FULL STATEMENT: tc t = Some ty -> printable_names t -> std_eval Sigma_t I (print_dag t) = Some (eval I t).
   Proved for the same fragment [wfp] as the tree printer (everything but Pow, with the side
   conditions listed there): the invariant is that every let-name is fresh for the names the
   printed term can look up (its free symbols - [names] - theory symbols), every memo entry
   evaluates, in the environment of the lets written so far, to the value of its term, and a
   quantifier body is printed by a fresh printer whose lets may shadow outer ones harmlessly. *)
Theorem print_dag_sound_partial : forall Sg I t,
  wfp Sg [] t -> wf_interp I -> std_eval Sg I (print_dag t) = Some (eval I t).
Proof.
  intros Sg I t HW HI. unfold std_eval.
  apply (dag_sound Sg I (tsize t) t (Nat.le_refl _) [] [] I []); auto.
  - split; [|auto]. intros n. cbn. auto.
  - intros n ty H. discriminate H.
Qed.

(* ========================================================================= scripts *)
(* Full statement, for the record:  script_wellformed : std_script_ok (script_of dag logic t) = true
   for every t with printable names.  Before the repairs of 2026-09 it was FALSE of the faithful
   model (a parametric sort was declared once per instance; a custom sort occurring only inside
   the arguments of a function application or as the index sort of an array value was never
   declared); the two witnesses are now well-formed scripts: *)
Definition TList (a : ty) := TUser "List" [a].
Definition param_witness : term :=
  T OAnd [T OEquals [TSym "l1" (TList TInt); TSym "l2" (TList TInt)];
          T OEquals [TSym "k1" (TList TReal); TSym "k2" (TList TReal)]].
Example script_wellformed_param_sort :
  tc param_witness = Some TBool /\
  (forall dag, std_script_ok (script_of dag "QF_UF" param_witness) = true) /\
  map flatten (firstn 3 (script_of false "QF_UF" param_witness)) =
    [["("; "set-logic"; "QF_UF"; ")"]; ["("; "declare-sort"; "List"; "1"; ")"];
     ["("; "declare-fun"; "l1"; "("; ")"; "("; "List"; "Int"; ")"; ")"]].
Proof. split; [reflexivity|]. split; [intros []; vm_compute; reflexivity | vm_compute; reflexivity]. Qed.

Definition undeclared_sort_witness : term :=
  T OAnd [ T (OFunction "p" (TFun [TInt] TBool))
             [T OIte [T OEquals [TSym "u1" (TUser "U" []); TSym "u2" (TUser "U" [])]; TIntC 1; TIntC 2]];
           T OEquals [T (OArrayValue (TUser "my sort" [])) [TIntC 0]; TSym "a" (TArr (TUser "my sort" []) TInt)] ].
Example script_wellformed_sorts_declared :
  tc undeclared_sort_witness = Some TBool /\
  (forall dag, std_script_ok (script_of dag "QF_UFLIA" undeclared_sort_witness) = true) /\
  map flatten (firstn 2 (List.tl (script_of false "QF_UFLIA" undeclared_sort_witness))) =
    [["("; "declare-sort"; "U"; "0"; ")"]; ["("; "declare-sort"; "|my sort|"; "0"; ")"]].
Proof. split; [reflexivity|]. split; [intros []; vm_compute; reflexivity | vm_compute; reflexivity]. Qed.

(* The general statement needs the static-sorting half (std_sort Sigma_t (print t) = Some Bool),
   which is checked on every correspondence case by evaluating std_script_ok inside Coq, not
   proved. *)
Example script_wellformed_example :
  std_script_ok (script_of false "ALL" ex_term) = true /\ std_script_ok (script_of true "ALL" ex_term) = true /\
  std_script_ok (script_of false "ALL" ex_term2) = true /\ std_script_ok (script_of true "ALL" ex_term2) = true.
Proof. repeat split; vm_compute; reflexivity. Qed.
