(* C07: the s-expression written by the model of SmtPrinter denotes, in the SMT-LIB reading of
   core/SmtStd.v, the value core/Sem.v gives to the formula - for all terms of the stated fragment,
   all interpretations, all nestings of binders.  Refutations for the operators whose spelling is
   not SMT-LIB.  Script well-formedness. *)
From Coq Require Import List ZArith Bool String Ascii Reals Lia Lra.
From Coq Require Import ClassicalDescription DecimalString Decimal DecimalN DecimalPos DecimalFacts.
From PySMT.core Require Import Syntax SyntaxLemmas Sem SmtStd.
From PySMT.models Require Import TypeChecker Oracles SmtPrinter SmtScript.
From PySMT.proofs Require Import TypeChecker_proofs.
Import ListNotations.
Open Scope bool_scope.
Open Scope string_scope.
(* models/Oracles.v has an identical [all_some]; the specification's is meant throughout *)
Local Notation all_some := SmtStd.all_some.

(* ========================================================================= lexical layer *)
Lemma to_uint_nonnil n : N.to_uint n <> Nil.
Proof. destruct n; cbn; [discriminate | apply DecimalPos.Unsigned.to_uint_nonnil]. Qed.

Lemma numeral_dec n : (0 <= n)%Z -> numeral_val (dec_string n) = Some n.
Proof.
  intros H. unfold numeral_val, dec_string.
  rewrite (NilZero.usu _ (to_uint_nonnil _)), DecimalN.Unsigned.of_to, String.eqb_refl.
  now rewrite Z2N.id.
Qed.

Lemma nilempty_digits d : str_forall is_digit_c (NilEmpty.string_of_uint d) = true.
Proof. induction d; cbn; auto. Qed.
Lemma dec_digits n : str_forall is_digit_c (dec_string n) = true.
Proof.
  unfold dec_string, NilZero.string_of_uint. destruct (N.to_uint (Z.to_N n)) eqn:E; try reflexivity;
    cbn; apply nilempty_digits.
Qed.

Lemma digit_not_dot c : is_digit_c c = true -> Ascii.eqb c "." = false.
Proof. intros H. destruct (Ascii.eqb_spec c "."); auto. subst. discriminate. Qed.

Lemma split_dot_app s r : str_forall is_digit_c s = true -> split_dot (s ++ String "." r) = Some (s, r).
Proof.
  induction s as [|c s IH]; cbn; intros H; [reflexivity|].
  apply andb_true_iff in H. destruct H as [Hc Hs]. now rewrite (digit_not_dot _ Hc), (IH Hs).
Qed.

Lemma nilempty_dot s r : NilEmpty.uint_of_string (s ++ String "." r) = None.
Proof.
  induction s as [|c s IH]; cbn.
  - destruct (NilEmpty.uint_of_string r); reflexivity.
  - rewrite IH. reflexivity.
Qed.
Lemma numeral_dot s r : numeral_val (s ++ String "." r) = None.
Proof.
  unfold numeral_val, NilZero.uint_of_string.
  destruct (s ++ String "." r) eqn:E; [reflexivity|]. rewrite <- E, nilempty_dot. reflexivity.
Qed.

Lemma decimal_dec n : (0 <= n)%Z -> decimal_val (dec_string n ++ ".0") = Some (n * 10 + 0, 10)%Z.
Proof.
  intros H. unfold decimal_val. rewrite (split_dot_app _ _ (dec_digits n)), (numeral_dec _ H). reflexivity.
Qed.

Lemma dec_point_value n : (IZR (n * 10 + 0) / IZR 10 = IZR n)%R.
Proof. rewrite Z.add_0_r, mult_IZR. field. Qed.

(* #b literals *)
Lemma bits_val_app s1 : forall s2 acc,
  bits_val (s1 ++ s2) acc = match bits_val s1 acc with Some a => bits_val s2 a | None => None end.
Proof.
  induction s1 as [|c s1 IH]; intros s2 acc; cbn; [reflexivity|].
  destruct (Ascii.eqb c "0"); [apply IH|]. destruct (Ascii.eqb c "1"); [apply IH | reflexivity].
Qed.
Lemma bits_string_spec w : forall v acc,
  bits_val (bits_string w v acc) 0 =
  match bits_val acc (v mod 2 ^ Z.of_nat w) with Some x => Some x | None => None end /\
  String.length (bits_string w v acc) = (w + String.length acc)%nat.
Proof.
  induction w as [|w IH]; intros v acc.
  - cbn [bits_string]. rewrite Z.pow_0_r, Z.mod_1_r. split; [destruct (bits_val acc 0); reflexivity | reflexivity].
  - cbn [bits_string]. destruct (IH (v / 2)%Z (String (if Z.odd v then "1"%char else "0"%char) acc)) as [E L].
    split.
    + rewrite E.
      assert (D : (v mod 2 ^ Z.of_nat (S w) = 2 * ((v / 2) mod 2 ^ Z.of_nat w) + (if Z.odd v then 1 else 0))%Z).
      { rewrite Nat2Z.inj_succ, Z.pow_succ_r by lia.
        rewrite Z.rem_mul_r by lia. rewrite (Zmod_odd v). destruct (Z.odd v); lia. }
      rewrite D. destruct (Z.odd v) eqn:O; cbn [bits_val]; cbn; [| rewrite Z.add_0_r];
        destruct (bits_val acc _); reflexivity.
    + rewrite L. cbn. lia.
Qed.
Lemma bvlit_bv w v : (0 < w)%Z -> (0 <= v < 2 ^ w)%Z -> bvlit_val (bv_string w v) = Some (w, v).
Proof.
  intros Hw Hv. unfold bv_string. cbn [append bvlit_val].
  destruct (bits_string_spec (Z.to_nat w) v EmptyString) as [E L]. cbn [bits_val] in E.
  rewrite Z2Nat.id in E by lia. rewrite Z.mod_small in E by lia.
  destruct (bits_string (Z.to_nat w) v "") eqn:B.
  - cbn in L. lia.
  - rewrite E. replace (Z.of_nat (String.length (String a s))) with w; [reflexivity|].
    rewrite L. cbn [String.length]. rewrite Nat.add_0_r, Z2Nat.id by lia. reflexivity.
Qed.
Lemma numeral_hash r : numeral_val (String "#" r) = None.
Proof. unfold numeral_val. cbn. destruct (NilEmpty.uint_of_string r); reflexivity. Qed.
Lemma split_dot_hash r a b : split_dot (String "#" r) = Some (a, b) -> exists a', a = String "#" a'.
Proof. cbn. destruct (split_dot r) as [[x y]|]; intros [= <- <-]; eauto. Qed.
Lemma decimal_hash r : decimal_val (String "#" r) = None.
Proof.
  unfold decimal_val. destruct (split_dot (String "#" r)) as [[a b]|] eqn:E; [|reflexivity].
  destruct (split_dot_hash _ _ _ E) as [a' ->]. now rewrite numeral_hash.
Qed.

(* ========================================================================= helpers *)
Lemma all_some_map {A B} (f : A -> option B) l vs :
  Forall2 (fun x v => f x = Some v) l vs -> all_some (map f l) = Some vs.
Proof. induction 1 as [|x v l vs Hx _ IH]; cbn; [reflexivity|]. now rewrite Hx, IH. Qed.

Lemma veqb_bool x y : veqb (VBool x) (VBool y) = Bool.eqb x y.
Proof.
  unfold veqb. destruct (excluded_middle_informative (VBool x = VBool y)) as [E|E].
  - injection E as ->. now rewrite Bool.eqb_reflx.
  - destruct x, y; cbn; try reflexivity; exfalso; apply E; reflexivity.
Qed.

Lemma vle_bool a b : VBool (vbool (vle a b) && true) = vle a b.
Proof. destruct a, b; cbn; try reflexivity; now rewrite andb_true_r. Qed.
Lemma vlt_bool a b : VBool (vbool (vlt a b) && true) = vlt a b.
Proof. destruct a, b; cbn; try reflexivity; now rewrite andb_true_r. Qed.

(* an atom that is a symbol and nothing else *)
Definition symbol_atom (a n : string) : bool :=
  match numeral_val a, decimal_val a, bvlit_val a, strlit_val a, sym_name a with
  | None, None, None, None, Some m => String.eqb m n
  | _, _, _, _, _ => false
  end.

(* what the property demands of a symbol name: its printed form is a symbol atom denoting the name,
   and it is not a theory symbol (SMT-LIB cannot declare those) *)
Definition good_name (n : string) : bool :=
  symbol_atom (quote n) n &&
  match assoc n std_consts with None => true | Some _ => false end &&
  match assoc n std_table with None => true | Some _ => false end.

Lemma good_name_inv n : good_name n = true ->
  symbol_atom (quote n) n = true /\ assoc n std_consts = None /\ assoc n std_table = None.
Proof.
  unfold good_name. intros H. apply andb_true_iff in H. destruct H as [H H3].
  apply andb_true_iff in H. destruct H as [H1 H2].
  destruct (assoc n std_consts); [discriminate|]. destruct (assoc n std_table); [discriminate|]. auto.
Qed.
Lemma symbol_atom_sym a n : symbol_atom a n = true -> sym_name a = Some n.
Proof.
  unfold symbol_atom. destruct (numeral_val a), (decimal_val a), (bvlit_val a), (strlit_val a), (sym_name a);
    try discriminate. intros H. apply String.eqb_eq in H. now subst.
Qed.

(* heads of applications that are not binders / let / ! / _ *)
Definition head_plain (h : string) : bool :=
  negb (String.eqb h "let") && negb (String.eqb h "forall" || String.eqb h "exists") &&
  negb (String.eqb h "!") && negb (String.eqb h "_").

Section Sound.
  Variable Sg : sig.
  Variable I : interp.

  Lemma eval_atom_symbol rho a n : symbol_atom a n = true ->
    eval_atom Sg I rho a =
    match assoc n rho with
    | Some v => Some v
    | None => match assoc n std_consts with
              | Some v => Some v
              | None => match assoc n (sg_funs Sg) with
                        | Some (TFun _ _) => None
                        | Some t => Some (isym I n t)
                        | None => None
                        end
              end
    end.
  Proof.
    unfold symbol_atom, eval_atom.
    destruct (numeral_val a), (decimal_val a), (bvlit_val a), (strlit_val a), (sym_name a); try discriminate.
    intros H. apply String.eqb_eq in H. now subst.
  Qed.

  Lemma seval_app h ss rho : head_plain h = true ->
    seval Sg I rho (SList (Atom h :: ss)) =
    match sym_name h, all_some (map (seval Sg I rho) ss) with
    | Some f, Some args => apply_sym Sg I rho f args
    | _, _ => None
    end.
  Proof.
    unfold head_plain. intros H. repeat (apply andb_true_iff in H; destruct H as [H ?]).
    cbn [seval].
    destruct (String.eqb h "let"); [discriminate|].
    destruct (String.eqb h "forall" || String.eqb h "exists"); [discriminate|].
    destruct (String.eqb h "!"); [discriminate|]. destruct (String.eqb h "_"); [discriminate|].
    reflexivity.
  Qed.

  (* ------------------------------------------------ binders: environment of the text vs interpretation *)
  Definition env_rel (bound : list var) (rho : env) (J : interp) : Prop :=
    (forall n, match assoc n bound with
               | Some ty => assoc n rho = Some (isym J n ty)
               | None => assoc n rho = None /\ forall ty, isym J n ty = isym I n ty
               end) /\
    ifun J = ifun I /\ rdiv0 J = rdiv0 I /\ idiv0 J = idiv0 I.

  Definition bound_good (bound : list var) : Prop :=
    forall n ty, assoc n bound = Some ty -> assoc n std_table = None /\ assoc n std_consts = None.

  Lemma env_rel_bind1 bound rho J v x :
    env_rel bound rho J -> env_rel (v :: bound) ((fst v, x) :: rho) (bind1 J v x).
  Proof.
    intros (H & F & R & D). split; [|cbn; auto]. intros n. destruct v as [m t]. cbn.
    destruct (String.eqb n m) eqn:E.
    - now rewrite ty_eqb_refl.
    - specialize (H n). destruct (assoc n bound) as [ty|]; cbn; auto.
  Qed.

  Lemma env_rel_bind : forall vs xs bound rho J, vals_ok xs vs -> env_rel bound rho J ->
    env_rel (List.rev vs ++ bound) (bind_env rho (map fst vs) xs) (bind J vs xs).
  Proof.
    induction vs as [|v vs IH]; intros xs bound rho J Hok H.
    - destruct xs; cbn in *; [assumption | contradiction].
    - destruct xs as [|x xs]; cbn in Hok; [contradiction|]. destruct Hok as [_ Hok].
      cbn [List.rev map bind_env bind]. rewrite <- app_assoc. cbn [app].
      apply IH; [assumption|]. now apply env_rel_bind1.
  Qed.

  Lemma assoc_app_none {A} n (l1 l2 : list (string * A)) :
    assoc n (l1 ++ l2) = match assoc n l1 with Some v => Some v | None => assoc n l2 end.
  Proof. induction l1 as [|[k v] l1 IH]; cbn; [reflexivity|]. destruct (String.eqb n k); auto. Qed.
  Lemma assoc_in {A} n (l : list (string * A)) v : assoc n l = Some v -> In (n, v) l.
  Proof.
    induction l as [|[k w] l IH]; cbn; [discriminate|]. destruct (String.eqb_spec n k).
    - intros [= ->]. subst. now left.
    - intros H. right. auto.
  Qed.

  Lemma bound_good_bind vs bound :
    Forall (fun v : var => assoc (fst v) std_table = None /\ assoc (fst v) std_consts = None) vs ->
    bound_good bound -> bound_good (List.rev vs ++ bound).
  Proof.
    intros HF HB n ty H. unfold var in *. rewrite assoc_app_none in H. destruct (assoc n (List.rev vs)) as [t|] eqn:E.
    - apply assoc_in, in_rev in E. rewrite Forall_forall in HF. exact (HF _ E).
    - eauto.
  Qed.

  Lemma theory_head_unbound bound rho J name k :
    env_rel bound rho J -> bound_good bound -> assoc name std_table = Some k -> assoc name rho = None.
  Proof.
    intros (H & _) HB Hk. specialize (H name). destruct (assoc name bound) as [ty|] eqn:E.
    - rewrite (proj1 (HB _ _ E)) in Hk. discriminate.
    - tauto.
  Qed.
  Lemma const_head_unbound bound rho J name c :
    env_rel bound rho J -> bound_good bound -> assoc name std_consts = Some c -> assoc name rho = None.
  Proof.
    intros (H & _) HB Hk. specialize (H name). destruct (assoc name bound) as [ty|] eqn:E.
    - rewrite (proj2 (HB _ _ E)) in Hk. discriminate.
    - tauto.
  Qed.

  Lemma theory_case name k (v : value) ss vals rho J bound :
    env_rel bound rho J -> bound_good bound ->
    head_plain name = true -> sym_name name = Some name -> assoc name std_table = Some k ->
    all_some (map (seval Sg I rho) ss) = Some vals ->
    apply_kind I k vals = Some v ->
    seval Sg I rho (SList (Atom name :: ss)) = Some v.
  Proof.
    intros HR HB Hp Hs Hk Hv Ha. rewrite (seval_app _ _ _ Hp), Hs, Hv. unfold apply_sym.
    now rewrite (theory_head_unbound _ _ _ _ _ HR HB Hk), Hk.
  Qed.

  (* ------------------------------------------------ one node, in a fixed scope *)
  (* operators whose text is (name args) with name an SMT-LIB theory symbol of the same meaning,
     with the number of arguments the FormulaManager constructors guarantee *)
  Definition op_ok (o : op) (n : nat) : bool :=
    match o with
    | ONot | OToReal | OBVToNat | OBV BNot _ | OBV BNeg _ | OStr SLength | OStr SToInt | OStr SFromInt => Nat.eqb n 1
    | OImplies | OIff | OMinus | ODiv | OLe | OLt | OEquals | OBVRel _ | OSelect
    | OBV _ _ | OStr SContains | OStr SPrefixOf | OStr SSuffixOf | OStr SCharAt => Nat.eqb n 2
    | OIte | OStore | OStr SIndexOf | OStr SReplace | OStr SSubstr => Nat.eqb n 3
    | OAnd | OOr | OPlus | OTimes | OStr SConcat => Nat.leb 2 n
    | _ => false
    end.

  Section Node.
    Variables (bound : list var) (rho : env) (J : interp).
    Hypothesis HR : env_rel bound rho J.
    Hypothesis HB : bound_good bound.

    Ltac th name k Hv :=
      eapply (theory_case name k); [exact HR | exact HB | reflexivity | reflexivity | reflexivity | exact Hv | ].

    Lemma vdiv_J a b : vdiv I a b = vdiv J a b.
    Proof. destruct HR as (_ & _ & R & D). unfold vdiv. now rewrite R, D. Qed.

    Lemma node_sound o ss vals :
      op_ok o (List.length vals) = true ->
      (o = OIff -> exists x y, vals = [VBool x; VBool y]) ->
      all_some (map (seval Sg I rho) ss) = Some vals ->
      seval Sg I rho (node_sexp o ss) = Some (op_sem J o vals).
    Proof.
      intros Hok Hiff Hv. unfold node_sexp.
      destruct o; try discriminate Hok; cbn [op_head bvop_name bvrel_name strop_name].
      - (* and *) th "and" (FNary OAnd) Hv. destruct vals as [|a [|b r]]; try discriminate Hok. reflexivity.
      - (* or *) th "or" (FNary OOr) Hv. destruct vals as [|a [|b r]]; try discriminate Hok. reflexivity.
      - (* not *) th "not" (FExact 1 ONot) Hv. destruct vals as [|a [|b r]]; try discriminate Hok. reflexivity.
      - (* => *) th "=>" (FRight OImplies) Hv. destruct vals as [|a [|b [|c r]]]; try discriminate Hok. reflexivity.
      - (* iff *) th "=" (FChain OEquals) Hv. destruct (Hiff eq_refl) as (x & y & ->). cbn.
        now rewrite veqb_bool, andb_true_r.
      - (* + *) th "+" (FNary OPlus) Hv. destruct vals as [|a [|b r]]; try discriminate Hok. reflexivity.
      - (* - *) th "-" FMinus Hv. destruct vals as [|a [|b [|c r]]]; try discriminate Hok. reflexivity.
      - (* * *) th "*" (FNary OTimes) Hv. destruct vals as [|a [|b r]]; try discriminate Hok. reflexivity.
      - (* <= *) th "<=" (FChain OLe) Hv. destruct vals as [|a [|b [|c r]]]; try discriminate Hok. cbn. now rewrite vle_bool.
      - (* < *) th "<" (FChain OLt) Hv. destruct vals as [|a [|b [|c r]]]; try discriminate Hok. cbn. now rewrite vlt_bool.
      - (* = *) th "=" (FChain OEquals) Hv. destruct vals as [|a [|b [|c r]]]; try discriminate Hok. cbn. now rewrite andb_true_r.
      - (* ite *) th "ite" (FExact 3 OIte) Hv. destruct vals as [|a [|b [|c [|d r]]]]; try discriminate Hok. reflexivity.
      - (* to_real *) th "to_real" (FExact 1 OToReal) Hv. destruct vals as [|a [|b r]]; try discriminate Hok. reflexivity.
      - (* bv *) destruct k; cbn [bvop_name];
          [ th "bvnot" (FExact 1 (BVop BNot)) Hv | th "bvand" (FLeft (BVop BAnd)) Hv | th "bvor" (FLeft (BVop BOr)) Hv
          | th "bvxor" (FLeft (BVop BXor)) Hv | th "concat" (FExact 2 (BVop BConcat)) Hv | th "bvneg" (FExact 1 (BVop BNeg)) Hv
          | th "bvadd" (FLeft (BVop BAdd)) Hv | th "bvsub" (FExact 2 (BVop BSub)) Hv | th "bvmul" (FLeft (BVop BMul)) Hv
          | th "bvudiv" (FExact 2 (BVop BUdiv)) Hv | th "bvurem" (FExact 2 (BVop BUrem)) Hv | th "bvshl" (FExact 2 (BVop BLshl)) Hv
          | th "bvlshr" (FExact 2 (BVop BLshr)) Hv | th "bvcomp" (FExact 2 (BVop BComp)) Hv | th "bvsdiv" (FExact 2 (BVop BSdiv)) Hv
          | th "bvsrem" (FExact 2 (BVop BSrem)) Hv | th "bvashr" (FExact 2 (BVop BAshr)) Hv ];
          destruct vals as [|a [|b [|c r]]]; try discriminate Hok; reflexivity.
      - (* bv relations *) destruct k; cbn [bvrel_name];
          [ th "bvult" (FExact 2 (OBVRel BUlt)) Hv | th "bvule" (FExact 2 (OBVRel BUle)) Hv
          | th "bvslt" (FExact 2 (OBVRel BSlt)) Hv | th "bvsle" (FExact 2 (OBVRel BSle)) Hv ];
          destruct vals as [|a [|b [|c r]]]; try discriminate Hok; reflexivity.
      - (* strings *) destruct k; try discriminate Hok; cbn [strop_name];
          [ th "str.len" (FExact 1 (OStr SLength)) Hv | th "str.++" (FNary (OStr SConcat)) Hv
          | th "str.contains" (FExact 2 (OStr SContains)) Hv | th "str.indexof" (FExact 3 (OStr SIndexOf)) Hv
          | th "str.replace" (FExact 3 (OStr SReplace)) Hv | th "str.substr" (FExact 3 (OStr SSubstr)) Hv
          | th "str.prefixof" (FExact 2 (OStr SPrefixOf)) Hv | th "str.suffixof" (FExact 2 (OStr SSuffixOf)) Hv
          | th "str.to_int" (FExact 1 (OStr SToInt)) Hv | th "str.from_int" (FExact 1 (OStr SFromInt)) Hv
          | th "str.at" (FExact 2 (OStr SCharAt)) Hv ];
          destruct vals as [|a [|b [|c [|d r]]]]; try discriminate Hok; reflexivity.
      - (* select *) th "select" (FExact 2 OSelect) Hv. destruct vals as [|a [|b [|c r]]]; try discriminate Hok. reflexivity.
      - (* store *) th "store" (FExact 3 OStore) Hv. destruct vals as [|a [|b [|c [|d r]]]]; try discriminate Hok. reflexivity.
      - (* / *) th "/" FRealDiv Hv. destruct vals as [|a [|b [|c r]]]; try discriminate Hok. cbn. now rewrite vdiv_J.
      - (* bv2nat *) th "bv2nat" (FExact 1 OBVToNat) Hv. destruct vals as [|a [|b r]]; try discriminate Hok. reflexivity.
    Qed.

    (* Div: written "div" on Int operands, "/" otherwise; both are Sem.v's vdiv *)
    Lemma div_sound name ss vals :
      name = "/" \/ name = "div" -> List.length vals = 2%nat ->
      all_some (map (seval Sg I rho) ss) = Some vals ->
      seval Sg I rho (SList (Atom name :: ss)) = Some (op_sem J ODiv vals).
    Proof.
      intros [-> | ->] Hl Hv; [th "/" FRealDiv Hv | th "div" FIntDiv Hv];
        destruct vals as [|a [|b [|c r]]]; try discriminate Hl; cbn; now rewrite vdiv_J.
    Qed.
  End Node.

  (* ------------------------------------------------ constants *)
  Definition const_ok (o : op) : bool :=
    match o with
    | OBoolC _ | OIntC _ => true
    | ORealC n d => (0 <? d)%Z
    | OBVC v w => (0 <? w)%Z && (0 <=? v)%Z && (v <? 2 ^ w)%Z
    | _ => false
    end.

  Section Consts.
    Variables (bound : list var) (rho : env) (J : interp).
    Hypothesis HR : env_rel bound rho J.
    Hypothesis HB : bound_good bound.

    Lemma numeral_atom n : (0 <= n)%Z -> seval Sg I rho (Atom (dec_string n)) = Some (VInt n).
    Proof. intros H. cbn [seval]. unfold eval_atom. now rewrite numeral_dec. Qed.
    Lemma decimal_atom n : (0 <= n)%Z -> seval Sg I rho (Atom (dec_string n ++ ".0")) = Some (VReal (IZR n)).
    Proof.
      intros H. cbn [seval]. unfold eval_atom. rewrite numeral_dot, decimal_dec by assumption.
      now rewrite dec_point_value.
    Qed.

    Lemma int_const_sound z : seval Sg I rho (int_const z) = Some (VInt z).
    Proof.
      unfold int_const. destruct (z <? 0)%Z eqn:E.
      - apply Z.ltb_lt in E.
        eapply (theory_case "-" FMinus); [exact HR | exact HB | reflexivity | reflexivity | reflexivity | | ].
        + cbn [map all_some]. rewrite numeral_atom by lia. reflexivity.
        + cbn. now rewrite Z.opp_involutive.
      - apply Z.ltb_ge in E. now apply numeral_atom.
    Qed.

    Lemma real_body_sound n d : (0 <= n)%Z -> (0 < d)%Z ->
      seval Sg I rho (if (d =? 1)%Z then Atom (dec_string n ++ ".0")
                      else SList [Atom "/"; Atom (dec_string n ++ ".0"); Atom (dec_string d ++ ".0")])
      = Some (VReal (IZR n / IZR d)).
    Proof.
      intros Hn Hd. destruct (d =? 1)%Z eqn:E.
      - apply Z.eqb_eq in E. subst. rewrite decimal_atom by assumption. do 2 f_equal. field.
      - eapply (theory_case "/" FRealDiv); [exact HR | exact HB | reflexivity | reflexivity | reflexivity | | ].
        + cbn [map all_some]. rewrite !decimal_atom by lia. reflexivity.
        + cbn. destruct (Req_EM_T (IZR d) 0) as [Z|Z]; [|reflexivity].
          apply eq_IZR_R0 in Z. lia.
    Qed.

    Lemma real_const_sound n d : (0 < d)%Z -> seval Sg I rho (real_const n d) = Some (VReal (Q2R' n d)).
    Proof.
      intros Hd. unfold real_const, Q2R'. destruct (n <? 0)%Z eqn:E.
      - apply Z.ltb_lt in E.
        eapply (theory_case "-" FMinus); [exact HR | exact HB | reflexivity | reflexivity | reflexivity | | ].
        + cbn [map all_some]. rewrite (real_body_sound (Z.abs n) d) by lia. reflexivity.
        + cbn. do 2 f_equal. rewrite Z.abs_neq by lia. rewrite opp_IZR. field.
          intros Z. apply eq_IZR_R0 in Z. lia.
      - apply Z.ltb_ge in E. rewrite (real_body_sound (Z.abs n) d) by lia. now rewrite Z.abs_eq.
    Qed.

    Lemma bv_const_sound v w : (0 < w)%Z -> (0 <= v < 2 ^ w)%Z ->
      seval Sg I rho (Atom (bv_string w v)) = Some (VBV w v).
    Proof.
      intros Hw Hv. cbn [seval]. unfold eval_atom.
      pose proof (bvlit_bv w v Hw Hv) as L. unfold bv_string in *. cbn [append] in *.
      now rewrite numeral_hash, decimal_hash, L.
    Qed.

    Lemma const_sound o : const_ok o = true -> seval Sg I rho (leaf_sexp o) = Some (op_sem J o []).
    Proof.
      destruct o; try discriminate; cbn [const_ok leaf_sexp op_sem]; intros H.
      - apply real_const_sound. now apply Z.ltb_lt.
      - destruct b; cbn [seval].
        + rewrite (eval_atom_symbol rho "true" "true" eq_refl).
          now rewrite (const_head_unbound _ _ _ "true" _ HR HB eq_refl).
        + rewrite (eval_atom_symbol rho "false" "false" eq_refl).
          now rewrite (const_head_unbound _ _ _ "false" _ HR HB eq_refl).
      - apply int_const_sound.
      - apply andb_true_iff in H. destruct H as [H H3]. apply andb_true_iff in H. destruct H as [H1 H2].
        apply bv_const_sound; lia.
    Qed.
  End Consts.

  (* ------------------------------------------------ Bool-typed terms evaluate to Booleans *)
  Fixpoint bfrag (t : term) : Prop :=
    match t with
    | T o args =>
        match o with
        | OIte => match args with [c; a; b] => bfrag a /\ bfrag b | _ => True end
        | OSymbol _ _ | OFunction _ _ | OForall _ | OExists _ | OAnd | OOr | ONot | OImplies | OIff
        | OLe | OLt | OEquals | OBVRel _ | OBoolC _ => True
        | _ => False
        end
    end.

  Lemma bool_kind : forall t J, wf_interp J -> bfrag t -> tc t = Some TBool -> exists b, eval J t = VBool b.
  Proof.
    induction t as [o args IH] using term_ind'. intros J HW HF HT.
    destruct o; cbn [bfrag] in HF; try contradiction; cbn [eval].
    - destruct args as [|b [|c r]]; eauto.
    - destruct args as [|b [|c r]]; eauto.
    - cbn; eauto.
    - cbn; eauto.
    - destruct (map (eval J) args) as [|a [|b r]]; cbn; eauto.
    - destruct (map (eval J) args) as [|a [|b [|c r]]]; cbn; eauto.
    - destruct (map (eval J) args) as [|a [|b [|c r]]]; cbn; eauto.
    - (* symbol *) rewrite tc_tcs in HT. destruct (tcs args) as [tys|]; [|discriminate]. cbn in HT.
      destruct tys; [|discriminate]. injection HT as ->. destruct HW as [HW _]. specialize (HW n TBool). cbn in HW.
      destruct (isym J n TBool); try contradiction. eauto.
    - (* function *) rewrite tc_tcs in HT. destruct (tcs args) as [tys|]; [|discriminate]. cbn in HT.
      destruct t; try discriminate. destruct (tys_eqb tys ps); [|discriminate]. injection HT as ->.
      destruct HW as [_ HW]. specialize (HW n ps TBool (map (eval J) args)). cbn in HW.
      destruct (ifun J n (TFun ps TBool) (map (eval J) args)); try contradiction. eauto.
    - destruct (map (eval J) args); cbn; eauto.
    - destruct (map (eval J) args) as [|a [|b [|c r]]]; cbn; eauto; destruct a, b; cbn; eauto.
    - destruct (map (eval J) args) as [|a [|b [|c r]]]; cbn; eauto; destruct a, b; cbn; eauto.
    - destruct (map (eval J) args) as [|a [|b [|c r]]]; cbn; eauto.
    - (* ite *) destruct args as [|c [|a [|b [|d r]]]]; cbn; eauto.
      destruct HF as [Fa Fb]. rewrite tc_tcs in HT. cbn [tcs] in HT.
      destruct (tc c) as [tc_|]; [|discriminate]. destruct (tc a) as [ta|] eqn:Ea; [|discriminate].
      destruct (tc b) as [tb|] eqn:Eb; [|discriminate]. cbn in HT.
      destruct (ty_eqb tc_ TBool && ty_eqb ta tb) eqn:E; [|discriminate]. injection HT as ->.
      apply andb_true_iff in E. destruct E as [_ E]. apply ty_eqb_eq in E. subst tb.
      inversion IH as [|? ? _ IH1]; subst. inversion IH1 as [|? ? Ha IH2]; subst. inversion IH2 as [|? ? Hb _]; subst.
      destruct (vbool (eval J c)); [apply Ha | apply Hb]; auto.
    - (* bv relations *) destruct (map (eval J) args) as [|a [|b [|c r]]]; destruct k; cbn; eauto; destruct a; cbn; eauto; destruct b; cbn; eauto.
  Qed.

  (* ------------------------------------------------ well-formedness for printing (syntactic) *)
  Section ConjAll.
    Variable P : term -> Prop.
    Fixpoint conj_all (l : list term) : Prop := match l with [] => True | x :: r => P x /\ conj_all r end.
  End ConjAll.

  Definition good_binder (v : var) : Prop :=
    good_name (fst v) = true /\ sort_of_sexp Sg (sort_sexp (snd v)) = Some (snd v).

  (* [bound]: the variables bound by enclosing quantifiers, innermost first *)
  Fixpoint wfp (bound : list var) (t : term) {struct t} : Prop :=
    match t with
    | T o args =>
        match o with
        | OSymbol n ty =>
            args = [] /\ good_name n = true /\
            match assoc n bound with
            | Some ty' => ty' = ty
            | None => assoc n (sg_funs Sg) = Some ty /\ is_fo ty = true
            end
        | OFunction n fty =>
            good_name n = true /\ assoc n bound = None /\ assoc n (sg_funs Sg) = Some fty /\
            (exists ps r, fty = TFun ps r /\ List.length ps = List.length args /\ args <> []) /\
            conj_all (wfp bound) args
        | OForall vs | OExists vs =>
            vs <> [] /\ Forall good_binder vs /\
            match args with [b] => wfp (List.rev vs ++ bound) b | _ => False end
        | OIff =>
            match args with
            | [a; b] => tc a = Some TBool /\ tc b = Some TBool /\ bfrag a /\ bfrag b /\ wfp bound a /\ wfp bound b
            | _ => False
            end
        | _ => (args = [] /\ const_ok o = true \/ op_ok o (List.length args) = true) /\ conj_all (wfp bound) args
        end
    end.

  Lemma wf_bind1 J v x : wf_interp J -> has_ty x (snd v) -> wf_interp (bind1 J v x).
  Proof.
    intros [H1 H2] Hx. split; [|exact H2]. intros n t. cbn.
    destruct (String.eqb n (fst v) && ty_eqb t (snd v)) eqn:E; [|apply H1].
    apply andb_true_iff in E. destruct E as [_ E]. apply ty_eqb_eq in E. subst t.
    destruct (snd v); auto.
  Qed.
  Lemma wf_bind : forall vs xs J, wf_interp J -> vals_ok xs vs -> wf_interp (bind J vs xs).
  Proof.
    induction vs as [|v vs IH]; intros xs J HJ Hok; destruct xs as [|x xs]; cbn in *; auto; try contradiction.
    destruct Hok as [Hx Hok]. apply IH; auto. now apply wf_bind1.
  Qed.

  Lemma emi_iff' (P Q : Prop) : (P <-> Q) ->
    (if excluded_middle_informative P then true else false) =
    (if excluded_middle_informative Q then true else false).
  Proof. intros H. destruct (excluded_middle_informative P), (excluded_middle_informative Q); tauto. Qed.

  Lemma sym_head_plain h f : sym_name h = Some f -> head_plain h = true.
  Proof.
    intros H. unfold head_plain.
    destruct (String.eqb_spec h "let"); [subst; discriminate H|].
    destruct (String.eqb_spec h "forall"); [subst; discriminate H|].
    destruct (String.eqb_spec h "exists"); [subst; discriminate H|].
    destruct (String.eqb_spec h "!"); [subst; discriminate H|].
    destruct (String.eqb_spec h "_"); [subst; discriminate H|]. reflexivity.
  Qed.

  Lemma binders_read vs : Forall good_binder vs -> all_some (map (sorted_var Sg) (map binder vs)) = Some vs.
  Proof.
    induction 1 as [|[n t] vs [Hn Ht] _ IH]; cbn [map all_some]; [reflexivity|].
    cbn [binder sorted_var fst snd] in *. apply good_name_inv in Hn. destruct Hn as (Hs & _).
    rewrite (symbol_atom_sym _ _ Hs), Ht, IH. reflexivity.
  Qed.

  Lemma generic_case o args bound rho J :
    print_tree (T o args) = node_sexp o (map print_tree args) ->
    eval J (T o args) = op_sem J o (map (eval J) args) ->
    o <> OIff -> env_rel bound rho J -> bound_good bound ->
    all_some (map (seval Sg I rho) (map print_tree args)) = Some (map (eval J) args) ->
    (args = [] /\ const_ok o = true \/ op_ok o (List.length args) = true) ->
    seval Sg I rho (print_tree (T o args)) = Some (eval J (T o args)).
  Proof.
    intros -> -> Hn HR HB Hv [[-> Hc]|Hok].
    - cbn [map]. unfold node_sexp. destruct o; try discriminate Hc; cbn [op_head]; eapply const_sound; eauto.
    - eapply node_sound; eauto; [now rewrite map_length | intros ->; contradiction].
  Qed.

  Definition sound_at (t : term) : Prop :=
    forall bound rho J, wfp bound t -> env_rel bound rho J -> bound_good bound -> wf_interp J ->
                        seval Sg I rho (print_tree t) = Some (eval J t).

  Lemma args_sound args bound rho J :
    Forall sound_at args -> conj_all (wfp bound) args -> env_rel bound rho J -> bound_good bound -> wf_interp J ->
    all_some (map (seval Sg I rho) (map print_tree args)) = Some (map (eval J) args).
  Proof.
    intros HF. induction HF as [|a r Ha _ IH]; cbn; intros HW HR HB HJ; [reflexivity|].
    destruct HW as [Hwa Hwr]. now rewrite (Ha _ _ _ Hwa HR HB HJ), (IH Hwr HR HB HJ).
  Qed.

  Lemma quant_sound (q : string) vs b bound rho J :
    (String.eqb q "forall" || String.eqb q "exists") = true ->
    sound_at b -> vs <> [] -> Forall good_binder vs -> wfp (List.rev vs ++ bound) b ->
    env_rel bound rho J -> bound_good bound -> wf_interp J ->
    forall xs, vals_ok xs vs ->
      seval Sg I (bind_env rho (map fst vs) xs) (print_tree b) = Some (eval (bind J vs xs) b).
  Proof.
    intros _ Hb Hne HG HW HR HB HJ xs Hok. apply (Hb (List.rev vs ++ bound)%list); auto.
    - now apply env_rel_bind.
    - apply bound_good_bind; auto. rewrite Forall_forall in *. intros v Hv. destruct (HG v Hv) as [Hn _].
      apply good_name_inv in Hn. tauto.
    - now apply wf_bind.
  Qed.

  Theorem print_tree_sound_gen : forall t, sound_at t.
  Proof.
    induction t as [o args IH] using term_ind'. intros bound rho J HW HR HB HJ.
    destruct o;
      try (cbn [wfp] in HW; destruct HW as [Hc Hrec];
           apply (generic_case _ _ bound); [reflexivity | reflexivity | discriminate | assumption | assumption
                               | now apply (args_sound args bound rho J) | exact Hc]);
      try (exfalso; cbn [wfp] in HW; destruct HW as [[[_ Hc]|Hok] _]; [discriminate Hc | discriminate Hok]).
    - (* forall *)
      cbn [wfp] in HW. destruct HW as (Hne & HG & HW). destruct args as [|b [|c r]]; try contradiction.
      inversion IH as [|? ? Hb _]; subst.
      cbn [print_tree map quant_sexp seval eval]. cbn [String.eqb Ascii.eqb Bool.eqb orb].
      rewrite (binders_read _ HG). destruct vs as [|v vs]; [contradiction Hne; reflexivity|].
      do 2 f_equal. apply emi_iff'. split; intros H xs Hok.
      + specialize (H xs Hok). rewrite (quant_sound "forall" (v :: vs) b bound rho J eq_refl Hb Hne HG HW HR HB HJ xs Hok) in H.
        now injection H.
      + rewrite (quant_sound "forall" (v :: vs) b bound rho J eq_refl Hb Hne HG HW HR HB HJ xs Hok). now rewrite (H xs Hok).
    - (* exists *)
      cbn [wfp] in HW. destruct HW as (Hne & HG & HW). destruct args as [|b [|c r]]; try contradiction.
      inversion IH as [|? ? Hb _]; subst.
      cbn [print_tree map quant_sexp seval eval]. cbn [String.eqb Ascii.eqb Bool.eqb orb].
      rewrite (binders_read _ HG). destruct vs as [|v vs]; [contradiction Hne; reflexivity|].
      do 2 f_equal. apply emi_iff'. split; intros [xs [Hok H]]; exists xs; (split; [exact Hok|]).
      + rewrite (quant_sound "exists" (v :: vs) b bound rho J eq_refl Hb Hne HG HW HR HB HJ xs Hok) in H.
        now injection H.
      + rewrite (quant_sound "exists" (v :: vs) b bound rho J eq_refl Hb Hne HG HW HR HB HJ xs Hok). now rewrite H.
    - (* iff *)
      destruct args as [|a [|b [|c r]]]; cbn [wfp] in HW; try contradiction.
      destruct HW as (Ta & Tb & Fa & Fb & Wa & Wb).
      inversion IH as [|? ? Ha IH1]; subst. inversion IH1 as [|? ? Hb _]; subst.
      change (print_tree (T OIff [a; b])) with (node_sexp OIff [print_tree a; print_tree b]).
      change (eval J (T OIff [a; b])) with (op_sem J OIff [eval J a; eval J b]).
      eapply node_sound; eauto.
      + intros _. destruct (bool_kind a J HJ Fa Ta) as [x ->]. destruct (bool_kind b J HJ Fb Tb) as [y ->]. eauto.
      + cbn [map all_some]. now rewrite (Ha _ _ _ Wa HR HB HJ), (Hb _ _ _ Wb HR HB HJ).
    - (* symbol *)
      cbn [wfp] in HW. destruct HW as (-> & Hn & Hs). apply good_name_inv in Hn. destruct Hn as (Hsym & Hc & _).
      cbn [print_tree map term_sexp node_sexp op_head leaf_sexp seval eval].
      rewrite (eval_atom_symbol rho _ _ Hsym). destruct HR as (HR & _). specialize (HR n).
      unfold var in *. destruct (assoc n bound) as [ty'|].
      + subst ty'. now rewrite HR.
      + destruct HR as [-> HI]. destruct Hs as [-> Hfo]. rewrite Hc. rewrite HI. destruct t; try discriminate Hfo; reflexivity.
    - (* function *)
      cbn [wfp] in HW. destruct HW as (Hn & Hnb & Hd & (ps & r & -> & Hlen & Hne) & Hrec).
      apply good_name_inv in Hn. destruct Hn as (Hsym & _ & Ht). apply symbol_atom_sym in Hsym.
      cbn [print_tree term_sexp node_sexp op_head eval].
      rewrite (seval_app _ _ _ (sym_head_plain _ _ Hsym)), Hsym, (args_sound args bound rho J IH Hrec HR HB HJ).
      unfold apply_sym. destruct HR as (HR & HF & _). specialize (HR n). unfold var in *. rewrite Hnb in HR.
      destruct HR as [-> _]. rewrite Ht, Hd, map_length, Hlen, Nat.eqb_refl, HF.
      destruct args; [contradiction Hne; reflexivity|]. reflexivity.
    - (* div *)
      cbn [wfp] in HW. destruct HW as [Hc Hrec]. destruct Hc as [[_ Hc]|Hok]; [discriminate Hc|].
      change (eval J (T ODiv args)) with (op_sem J ODiv (map (eval J) args)).
      change (print_tree (T ODiv args)) with (SList (Atom (div_name (T ODiv args)) :: map print_tree args)).
      eapply div_sound; eauto.
      + unfold div_name. destruct (tc (T ODiv args)) as [[]|]; auto.
      + rewrite map_length. now apply Nat.eqb_eq.
      + now apply (args_sound args bound rho J).
  Qed.
End Sound.

(* ========================================================================= the theorems *)
(* Full statement (DESIGN.md C07), for the record:
     print_tree_sound : tc t = Some ty -> printable_names t ->
                        std_eval Sigma_t I (print_tree t) = Some (eval I t)     for ALL terms t.
   It is FALSE of the faithful model (see the _refuted lemma below: pow is not an SMT-LIB symbol;
   before the repairs of 2026-09 also str.to.int, int.to.str and Int division written with the
   Real-only function /, now positive: print_tree_repaired_spellings), so what is proved is the
   _partial statement: [wfp Sg [] t] is the explicit fragment predicate
   (core/SmtStd.v-independent, syntactic):
     - every operator except Pow, the indexed BV operators (extract, rotate, extend), string
       constants and array values (stages not proved yet) - i.e. Bool, ITE, Equals, Int/Real
       arithmetic (Int and Real division) and constants, quantifiers, UF, BV constants and all
       non-indexed BV operators, select/store, all string operators;
     - constructor arities (n-ary operators have >= 2 arguments), Real constants with positive
       denominator, BV constants in range;
     - every symbol name is [good_name] (its quoted form reads back as that symbol; it is not a
       theory symbol), is used at one sort per scope, and free symbols are declared in Sg at that
       sort; bound variables have sorts that [sort_of_sexp] reads back;
     - the arguments of Iff are Bool-typed terms built without a Bool-valued array read. *)
Theorem print_tree_sound_partial : forall Sg I t,
  wfp Sg [] t -> wf_interp I -> std_eval Sg I (print_tree t) = Some (eval I t).
Proof.
  intros Sg I t HW HI. unfold std_eval. apply (print_tree_sound_gen Sg I t [] [] I); auto.
  - split; [|auto]. intros n. cbn. auto.
  - intros n ty H. discriminate H.
Qed.

(* the hypotheses are satisfiable by a non-trivial term: quantifier re-binding a free name, a name
   that needs quoting, negative and rational constants, UF, Iff, BV operators *)
Definition ex_sig : sig :=
  {| sg_sorts := []; sg_funs := [("x", TInt); ("a b", TReal); ("f", TFun [TInt] TBool); ("v", TBV 4)] |}.
Definition ex_term : term :=
  let x := TSym "x" TInt in
  T OAnd [ T (OForall [("x", TInt); (".def_0", TBool)])
             [T OIff [T (OFunction "f" (TFun [TInt] TBool)) [T OPlus [x; TIntC (-5)]]; TSym ".def_0" TBool]];
           T OLt [T OTimes [TSym "a b" TReal; TRealC (-3) 4]; TRealC 2 1];
           T (OBVRel BUlt) [T (OBV BAdd 4) [TSym "v" (TBV 4); TBVC 5 4]; TSym "v" (TBV 4)];
           T OLe [x; TIntC 12345678901234567890] ].
Example ex_term_wfp : wfp ex_sig [] ex_term.
Proof.
  cbn. repeat split; try reflexivity; try discriminate; eauto.
  - repeat constructor.
  - exists [TInt], TBool. repeat split; discriminate.
Qed.
Example ex_term_typed : tc ex_term = Some TBool.
Proof. reflexivity. Qed.

(* ------------------------------------------------ refutations: spellings that are not SMT-LIB *)
Definition sig_sxr : sig := {| sg_sorts := []; sg_funs := [("s", TStr); ("x", TInt); ("y", TInt); ("r", TReal)] |}.

(* the repaired spellings (str.to_int, str.from_int, div on Int) are in the fragment *)
Definition ex_term2 : term :=
  T OAnd [ T OEquals [T (OStr SToInt) [TSym "s" TStr]; T ODiv [TSym "x" TInt; TSym "y" TInt]];
           T OEquals [T (OStr SFromInt) [TSym "x" TInt]; TSym "s" TStr];
           T OLt [T ODiv [TSym "r" TReal; TSym "r" TReal]; TRealC 1 2] ].
Example print_tree_repaired_spellings :
  wfp sig_sxr [] ex_term2 /\ tc ex_term2 = Some TBool /\
  flatten (print_tree ex_term2) =
    ["("; "and"; "("; "="; "("; "str.to_int"; "s"; ")"; "("; "div"; "x"; "y"; ")"; ")";
     "("; "="; "("; "str.from_int"; "x"; ")"; "s"; ")";
     "("; "<"; "("; "/"; "r"; "r"; ")"; "("; "/"; "1.0"; "2.0"; ")"; ")"; ")"] /\
  std_sort sig_sxr (print_tree ex_term2) = Some TBool.
Proof. split; [cbn; repeat split; try reflexivity; try discriminate; eauto | repeat split]. Qed.

Lemma print_tree_sound_refuted_pow :
  exists t, tc t = Some TReal /\ print_tree t = SList [Atom "pow"; Atom "r"; Atom "2.0"] /\
            forall I, std_eval sig_sxr I (print_tree t) = None.
Proof. exists (T OPow [TSym "r" TReal; TRealC 2 1]). repeat split. Qed.

(* ------------------------------------------------ let: what the DAG printer's output means *)
(* Full statement, for the record:
     print_dag_sound : tc t = Some ty -> printable_names t ->
                       std_eval Sigma_t I (print_dag t) = Some (eval I t)
   (invariant: every let-name is fresh for everything in scope; each memo entry evaluates, in the
   environment of the lets written so far, to the value of its term).  NOT proved yet beyond the
   two facts below: the meaning of the let chain the printer builds, and terms printed without
   any let.  The token-exact correspondence and the independent reader cover the rest by test. *)
Definition mk_let (nt : string * sexp) (body : sexp) : sexp :=
  SList [Atom "let"; SList [SList [Atom (fst nt); snd nt]]; body].

Lemma let1_sound Sg I rho n e body x :
  sym_name n = Some n -> seval Sg I rho e = Some x ->
  seval Sg I rho (mk_let (n, e) body) = seval Sg I ((n, x) :: rho) body.
Proof.
  intros Hn He. unfold mk_let. cbn [seval fst snd]. cbn [String.eqb Ascii.eqb Bool.eqb].
  cbn [map SmtStd.all_some]. rewrite Hn, He. cbn [nodup_str mem_str existsb negb andb List.length Nat.eqb bind_env].
  reflexivity.
Qed.

(* the environment the chain of lets builds, oldest let first; None if a bound text has no value *)
Fixpoint lets_env (Sg : sig) (I : interp) (l : list (string * sexp)) (rho : env) : option env :=
  match l with
  | [] => Some rho
  | (n, e) :: r =>
      match sym_name n, seval Sg I rho e with
      | Some m, Some x => if String.eqb m n then lets_env Sg I r ((n, x) :: rho) else None
      | _, _ => None
      end
  end.

Lemma wrap_lets_sound Sg I key : forall lets rho rho',
  lets_env Sg I (List.rev lets) rho = Some rho' ->
  seval Sg I rho (wrap_lets lets key) = seval Sg I rho' key.
Proof.
  intros lets. unfold wrap_lets.
  replace (fold_left (fun body nt => SList [Atom "let"; SList [SList [Atom (fst nt); snd nt]]; body]) lets key)
    with (fold_right mk_let key (List.rev lets)).
  2:{ rewrite fold_left_rev_right. reflexivity. }
  induction (List.rev lets) as [|[n e] L IH]; intros rho rho' H; cbn [lets_env fold_right] in *.
  - now injection H as ->.
  - destruct (sym_name n) as [m|] eqn:Hn; [|discriminate]. destruct (seval Sg I rho e) as [x|] eqn:He; [|discriminate].
    destruct (String.eqb_spec m n); [|discriminate]. subst m.
    rewrite (let1_sound Sg I rho n e _ x Hn He). now apply IH.
Qed.

(* what is proved about the DAG printer's output for ALL terms: it is the chain of single-binding
   lets the printer accumulated (oldest outermost) around the memoised text of the root, and its
   standard meaning is the meaning of that text in the environment the lets build one after the
   other - parallel and sequential let coincide because every let binds one name.  The remaining
   obligation (each bound text and the root text evaluate to the value of their terms, because
   let-names are fresh) is the invariant not proved yet. *)
Theorem print_dag_sound_partial : forall Sg I t rho',
  let st := dag_visit (names_of t) t dst0 in
  lets_env Sg I (List.rev (d_lets st)) [] = Some rho' ->
  std_eval Sg I (print_dag t) =
  seval Sg I rho' (match memo_get t (d_memo st) with Some r => r | None => Atom "?" end).
Proof. intros Sg I t rho' st H. unfold std_eval, print_dag. now apply wrap_lets_sound. Qed.

(* ========================================================================= scripts *)
(* Full statement, for the record:  script_wellformed : std_script_ok (script_of dag logic t) = true
   for every t with printable names.  Before the repairs of 2026-09 it was FALSE of the faithful
   model (a parametric sort was declared once per instance; a custom sort occurring only inside
   the arguments of a function application or as the index sort of an array value was never
   declared); the two witnesses are now well-formed scripts: *)
Definition TList (a : ty) := TUser "List" [a].
Definition param_witness : term :=
  T OAnd [T OEquals [TSym "l1" (TList TInt); TSym "l2" (TList TInt)];
          T OEquals [TSym "k1" (TList TReal); TSym "k2" (TList TReal)]].
Example script_wellformed_param_sort :
  tc param_witness = Some TBool /\
  (forall dag, std_script_ok (script_of dag "QF_UF" param_witness) = true) /\
  map flatten (firstn 3 (script_of false "QF_UF" param_witness)) =
    [["("; "set-logic"; "QF_UF"; ")"]; ["("; "declare-sort"; "List"; "1"; ")"];
     ["("; "declare-fun"; "l1"; "("; ")"; "("; "List"; "Int"; ")"; ")"]].
Proof. split; [reflexivity|]. split; [intros []; vm_compute; reflexivity | vm_compute; reflexivity]. Qed.

Definition undeclared_sort_witness : term :=
  T OAnd [ T (OFunction "p" (TFun [TInt] TBool))
             [T OIte [T OEquals [TSym "u1" (TUser "U" []); TSym "u2" (TUser "U" [])]; TIntC 1; TIntC 2]];
           T OEquals [T (OArrayValue (TUser "my sort" [])) [TIntC 0]; TSym "a" (TArr (TUser "my sort" []) TInt)] ].
Example script_wellformed_sorts_declared :
  tc undeclared_sort_witness = Some TBool /\
  (forall dag, std_script_ok (script_of dag "QF_UFLIA" undeclared_sort_witness) = true) /\
  map flatten (firstn 2 (List.tl (script_of false "QF_UFLIA" undeclared_sort_witness))) =
    [["("; "declare-sort"; "U"; "0"; ")"]; ["("; "declare-sort"; "|my sort|"; "0"; ")"]].
Proof. split; [reflexivity|]. split; [intros []; vm_compute; reflexivity | vm_compute; reflexivity]. Qed.

(* The general statement needs the static-sorting half (std_sort Sigma_t (print t) = Some Bool),
   which is checked on every correspondence case by evaluating std_script_ok inside Coq, not
   proved. *)
Example script_wellformed_example :
  std_script_ok (script_of false "ALL" ex_term) = true /\ std_script_ok (script_of true "ALL" ex_term) = true /\
  std_script_ok (script_of false "ALL" ex_term2) = true /\ std_script_ok (script_of true "ALL" ex_term2) = true.
Proof. repeat split; vm_compute; reflexivity. Qed.
