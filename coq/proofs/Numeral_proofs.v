(* The reader's literal syntax on the numerals the printers write: the token str(n) (n >= 0) is read
   by [literal] as the Int constant n when no logic (or an integer logic) is set. *)
From Coq Require Import List ZArith Bool String Ascii Lia Decimal DecimalString DecimalPos DecimalN.
From PySMT.core Require Import Syntax PyPrims.
From PySMT.models Require Import Ctors SmtLex SmtParser SmtPrinter.
Import ListNotations.
Open Scope Z_scope.

(* big-endian Horner value of a decimal number *)
Fixpoint horner (d : Decimal.uint) (acc : Z) : Z :=
  match d with
  | Nil => acc
  | D0 u => horner u (acc * 10 + 0) | D1 u => horner u (acc * 10 + 1) | D2 u => horner u (acc * 10 + 2)
  | D3 u => horner u (acc * 10 + 3) | D4 u => horner u (acc * 10 + 4) | D5 u => horner u (acc * 10 + 5)
  | D6 u => horner u (acc * 10 + 6) | D7 u => horner u (acc * 10 + 7) | D8 u => horner u (acc * 10 + 8)
  | D9 u => horner u (acc * 10 + 9)
  end.

Lemma of_uint_acc_horner : forall d acc, Z.pos (Pos.of_uint_acc d acc) = horner d (Z.pos acc).
Proof.
  induction d; intros acc; cbn [Pos.of_uint_acc horner]; try reflexivity; rewrite IHd; f_equal; lia.
Qed.
Lemma of_uint_horner : forall d, Z.of_N (Pos.of_uint d) = horner d 0.
Proof.
  induction d; cbn [Pos.of_uint horner]; try reflexivity; try exact IHd;
    cbn [Z.of_N]; rewrite of_uint_acc_horner; reflexivity.
Qed.

Definition ucodes (d : Decimal.uint) : list Z := SmtParser.codes (NilEmpty.string_of_uint d).
Fixpoint ulen (d : Decimal.uint) : nat :=
  match d with
  | Nil => 0
  | D0 u | D1 u | D2 u | D3 u | D4 u | D5 u | D6 u | D7 u | D8 u | D9 u => S (ulen u)
  end.

Lemma digits_us_uint : forall d acc n,
  digits_us (ucodes d) acc n true = Some (horner d acc, (n + ulen d)%nat, []).
Proof.
  induction d; intros acc n.
  - cbn. now rewrite Nat.add_0_r.
  - change (ucodes (D0 d)) with (48 :: ucodes d). cbn [digits_us]. replace (PyPrims.is_digit 48) with true by reflexivity.
    rewrite IHd. cbn [horner ulen]. do 3 f_equal; lia.
  - change (ucodes (D1 d)) with (49 :: ucodes d). cbn [digits_us]. replace (PyPrims.is_digit 49) with true by reflexivity.
    rewrite IHd. cbn [horner ulen]. do 3 f_equal; lia.
  - change (ucodes (D2 d)) with (50 :: ucodes d). cbn [digits_us]. replace (PyPrims.is_digit 50) with true by reflexivity.
    rewrite IHd. cbn [horner ulen]. do 3 f_equal; lia.
  - change (ucodes (D3 d)) with (51 :: ucodes d). cbn [digits_us]. replace (PyPrims.is_digit 51) with true by reflexivity.
    rewrite IHd. cbn [horner ulen]. do 3 f_equal; lia.
  - change (ucodes (D4 d)) with (52 :: ucodes d). cbn [digits_us]. replace (PyPrims.is_digit 52) with true by reflexivity.
    rewrite IHd. cbn [horner ulen]. do 3 f_equal; lia.
  - change (ucodes (D5 d)) with (53 :: ucodes d). cbn [digits_us]. replace (PyPrims.is_digit 53) with true by reflexivity.
    rewrite IHd. cbn [horner ulen]. do 3 f_equal; lia.
  - change (ucodes (D6 d)) with (54 :: ucodes d). cbn [digits_us]. replace (PyPrims.is_digit 54) with true by reflexivity.
    rewrite IHd. cbn [horner ulen]. do 3 f_equal; lia.
  - change (ucodes (D7 d)) with (55 :: ucodes d). cbn [digits_us]. replace (PyPrims.is_digit 55) with true by reflexivity.
    rewrite IHd. cbn [horner ulen]. do 3 f_equal; lia.
  - change (ucodes (D8 d)) with (56 :: ucodes d). cbn [digits_us]. replace (PyPrims.is_digit 56) with true by reflexivity.
    rewrite IHd. cbn [horner ulen]. do 3 f_equal; lia.
  - change (ucodes (D9 d)) with (57 :: ucodes d). cbn [digits_us]. replace (PyPrims.is_digit 57) with true by reflexivity.
    rewrite IHd. cbn [horner ulen]. do 3 f_equal; lia.
Qed.

Lemma ucodes_head d : d <> Nil -> exists c r, ucodes d = c :: r /\ PyPrims.is_digit c = true.
Proof.
  destruct d; intros H; try congruence;
    match goal with |- context [ucodes (?D d)] =>
      let k := eval vm_compute in (hd 0 (ucodes (D Nil))) in
      exists k, (ucodes d); split; reflexivity end.
Qed.

Lemma digits_us_start c r acc n : PyPrims.is_digit c = true ->
  digits_us (c :: r) acc n false = digits_us (c :: r) acc n true.
Proof. intros H. cbn [digits_us]. now rewrite H. Qed.

Lemma is_digit_range c : PyPrims.is_digit c = true -> 48 <= c <= 57.
Proof. unfold PyPrims.is_digit. intros H%andb_true_iff. lia. Qed.

Lemma fr_norm_1 n : fr_norm n 1 = (n, 1).
Proof. unfold fr_norm. rewrite Z.gcd_1_r. cbn. now rewrite !Z.div_1_r. Qed.

Lemma py_fraction_uint d : d <> Nil ->
  py_fraction (NilEmpty.string_of_uint d) = FrOk (horner d 0, 1).
Proof.
  intros Hd. destruct (ucodes_head d Hd) as (c & r & Hc & Hdig).
  pose proof (is_digit_range c Hdig) as Hr.
  pose proof (digits_us_uint d 0 0%nat) as Hdu. unfold ucodes in Hc, Hdu.
  unfold py_fraction. rewrite Hc.
  assert (Hsp : re_space c = false) by (unfold re_space; lia).
  cbn [drop_re_space]. rewrite Hsp.
  replace (c =? 45) with false by lia. replace (c =? 43) with false by lia.
  rewrite Hdig. cbn [orb negb].
  rewrite (digits_us_start c r 0 0%nat Hdig), <- Hc, Hdu.
  cbn [drop_re_space end_ok]. rewrite fr_norm_1. reflexivity.
Qed.

Lemma dec_string_uint n : 0 <= n ->
  exists d, d <> Nil /\ dec_string n = NilEmpty.string_of_uint d /\ horner d 0 = n.
Proof.
  intros Hn. exists (N.to_uint (Z.to_N n)).
  assert (Hnn : N.to_uint (Z.to_N n) <> Nil).
  { destruct (Z.to_N n); cbn; [discriminate | apply DecimalPos.Unsigned.to_uint_nonnil]. }
  split; [exact Hnn|]. split.
  - unfold dec_string, NilZero.string_of_uint. destruct (N.to_uint (Z.to_N n)); congruence.
  - rewrite <- of_uint_horner. change (Pos.of_uint (N.to_uint (Z.to_N n))) with (N.of_uint (N.to_uint (Z.to_N n))).
    rewrite DecimalN.Unsigned.of_to. lia.
Qed.

Lemma no_dot d : str_mem "."%char (NilEmpty.string_of_uint d) = false.
Proof. induction d; cbn; auto. Qed.

(* the token str(n), n >= 0, is read as the Int constant n when no logic is set *)
Theorem literal_numeral n s : 0 <= n -> logic_ia s = None ->
  literal (dec_string n) s = ROk (TIntC n) s.
Proof.
  intros Hn Hl. destruct (dec_string_uint n Hn) as (d & Hd & -> & Hv).
  pose proof (py_fraction_uint d Hd) as Hf. pose proof (no_dot d) as Hdot.
  unfold literal. destruct d; try congruence; cbn [NilEmpty.string_of_uint] in *;
    (cbn [Ascii.eqb Bool.eqb andb]; change (Ascii.eqb _ c_dq) with false; cbv iota;
     rewrite Hf; cbn [snd fst]; change (1 =? 1) with true; cbv iota; rewrite Hl, Hdot, Hv; reflexivity).
Qed.

Lemma dec_string_not_paren n : 0 <= n ->
  String.eqb (dec_string n) "(" = false /\ String.eqb (dec_string n) ")" = false.
Proof.
  intros Hn. destruct (dec_string_uint n Hn) as (d & Hd & -> & _).
  destruct d; try congruence; cbn; auto.
Qed.
