(* C11, CNF part: theorems about models/Cnf.v (CNFizer, PolarityCNFizer), for every term, every
   manager state and every interpretation.
     sat I cl       every clause of cl has a literal that is true under I
     walk-level invariants (one induction over the term, [cnf_walk_good] / [pol_walk_good]):
       (C) completeness: under the witness [ext I M] (each fresh k_g := truth value of g under I)
           every clause holds and the key has the truth value of the formula;
       (S) soundness: under ANY interpretation satisfying the clauses the key is equivalent to
           the formula (polarity version: implied in the direction of the polarity);
       (K,L) what the keys and literals look like (fresh-symbol literals or terms whose value
           does not depend on the fresh symbols): needed for the top-level clean-up;
       (Sh) every literal is an atom, a negated atom or a Boolean constant.
   The simplifier on theory atoms is the Section variable [asimp]; hypotheses: it preserves the
   truth value ([asimp_sound], property C01) and - for the shape theorem only - returns a
   literal ([asimp_shape]). *)
From Coq Require Import List ZArith Bool String Lia DecimalString DecimalNat FinFun.
From PySMT.core Require Import Syntax SyntaxLemmas Sem.
From PySMT.models Require Import TypeChecker Oracles Cnf.
From PySMT.proofs Require Import Sets_proofs Coincidence.
Import ListNotations.
Open Scope nat_scope.
Open Scope bool_scope.

(* ------------------------------------------------------------------ truth values *)
Definition tv (I : interp) (t : term) : bool := vbool (eval I t).
Definition csat (I : interp) (c : list term) : bool := existsb (tv I) c.
Definition sat (I : interp) (cl : list (list term)) : bool := forallb (csat I) cl.

Lemma holds_tv I t : holds I t <-> tv I t = true.
Proof.
  unfold holds, tv. split; [intros ->; reflexivity|].
  destruct (eval I t) as [[]| | | | | |]; cbn; intros H; try discriminate; reflexivity.
Qed.

Lemma forallb_map {A B} (f : A -> B) p l : forallb p (map f l) = forallb (fun x => p (f x)) l.
Proof. induction l; cbn; congruence. Qed.
Lemma existsb_map {A B} (f : A -> B) p l : existsb p (map f l) = existsb (fun x => p (f x)) l.
Proof. induction l; cbn; congruence. Qed.

Lemma tv_not I a : tv I (T ONot [a]) = negb (tv I a).
Proof. reflexivity. Qed.
Lemma tv_and I l : tv I (T OAnd l) = forallb (tv I) l.
Proof. unfold tv. cbn. now rewrite forallb_map. Qed.
Lemma tv_or I l : tv I (T OOr l) = existsb (tv I) l.
Proof. unfold tv. cbn. now rewrite existsb_map. Qed.
Lemma tv_implies I a b : tv I (T OImplies [a; b]) = implb (tv I a) (tv I b).
Proof. reflexivity. Qed.
Lemma tv_iff I a b : tv I (T OIff [a; b]) = Bool.eqb (tv I a) (tv I b).
Proof. reflexivity. Qed.
Lemma tv_ite I c a b : tv I (T OIte [c; a; b]) = if tv I c then tv I a else tv I b.
Proof. unfold tv. cbn. destruct (vbool (eval I c)); reflexivity. Qed.
Lemma tv_boolc I b : tv I (TBoolC b) = b.
Proof. reflexivity. Qed.
Lemma tv_sym I n : tv I (TSym n TBool) = vbool (isym I n TBool).
Proof. reflexivity. Qed.

Lemma ctrue_tv I t : ctrue t = true -> tv I t = true.
Proof.
  intros H. destruct t as [o [|x r]]; destruct o; try discriminate;
    match goal with b : bool |- _ => destruct b end; try discriminate; reflexivity.
Qed.
Lemma cfalse_tv I t : cfalse t = true -> tv I t = false.
Proof.
  intros H. destruct t as [o [|x r]]; destruct o; try discriminate;
    match goal with b : bool |- _ => destruct b end; try discriminate; reflexivity.
Qed.

Lemma mk_not_tv I x : tv I (mk_not x) = negb (tv I x).
Proof.
  destruct x as [o args]. destruct o; try reflexivity.
  destruct args as [|y [|z r]]; try reflexivity. cbn [mk_not]. rewrite tv_not, negb_involutive. reflexivity.
Qed.

Lemma existsb_In_ext {A} (p : A -> bool) l l' : (forall x, In x l <-> In x l') -> existsb p l = existsb p l'.
Proof.
  intros H. apply eq_true_iff_eq. rewrite !existsb_exists.
  split; intros (x & Hx & Px); exists x; split; auto; apply H; auto.
Qed.
Lemma forallb_In_ext {A} (p : A -> bool) l l' : (forall x, In x l <-> In x l') -> forallb p l = forallb p l'.
Proof.
  intros H. apply eq_true_iff_eq. rewrite !forallb_forall.
  split; intros G x Hx; apply G, H; auto.
Qed.

Lemma mkclause_In x l : In x (mkclause l) <-> In x l.
Proof. apply (dedupe_In term_eqb term_eqb_eq). Qed.
Lemma csat_mkclause I l : csat I (mkclause l) = csat I l.
Proof. apply existsb_In_ext. intros x. apply mkclause_In. Qed.

Lemma sat_app I a b : sat I (a ++ b) = sat I a && sat I b.
Proof. apply forallb_app. Qed.
Lemma sat_cons I c cl : sat I (c :: cl) = csat I c && sat I cl.
Proof. reflexivity. Qed.
Lemma sat_In I cl c : sat I cl = true -> In c cl -> csat I c = true.
Proof. unfold sat. rewrite forallb_forall. auto. Qed.

(* ------------------------------------------------------------------ fresh names *)
Lemma append_inj p a b : (p ++ a)%string = (p ++ b)%string -> a = b.
Proof. induction p; cbn; intros H; auto. injection H. auto. Qed.
Lemma decimal_inj a b : decimal a = decimal b -> a = b.
Proof.
  unfold decimal. intros H.
  assert (E : Nat.to_uint a = Nat.to_uint b).
  { pose proof (NilEmpty.usu (Nat.to_uint a)) as Ha. pose proof (NilEmpty.usu (Nat.to_uint b)) as Hb.
    rewrite H in Ha. rewrite Ha in Hb. now injection Hb. }
  rewrite <- (Unsigned.of_to a), <- (Unsigned.of_to b). now rewrite E.
Qed.
Lemma fresh_name_inj p a b : fresh_name p a = fresh_name p b -> a = b.
Proof. unfold fresh_name. intros H. apply decimal_inj. eapply append_inj. exact H. Qed.

Lemma mem_string_In x l : mem String.eqb x l = true <-> In x l.
Proof. apply mem_In. intros a b. apply String.eqb_eq. Qed.

Lemma first_unused_spec p used : forall fuel c,
  (exists i, i < fuel /\ ~ In (fresh_name p (c + i)) used) ->
  ~ In (fresh_name p (first_unused p used fuel c)) used.
Proof.
  induction fuel as [|f IH]; intros c (i & Hi & Hn); [lia|].
  cbn. destruct (mem String.eqb (fresh_name p c) used) eqn:E.
  - apply IH. destruct i as [|i].
    + exfalso. apply Hn. rewrite Nat.add_0_r. now apply mem_string_In.
    + exists i. split; [lia|]. now replace (S c + i) with (c + S i) by lia.
  - intros H. apply mem_string_In in H. congruence.
Qed.

Lemma pigeon p used c : exists i, i < S (List.length used) /\ ~ In (fresh_name p (c + i)) used.
Proof.
  destruct (existsb (fun i => negb (mem String.eqb (fresh_name p (c + i)) used)) (seq 0 (S (List.length used)))) eqn:E.
  - apply existsb_exists in E. destruct E as (i & Hi & Hn). apply in_seq in Hi.
    exists i. split; [lia|]. intros H. apply mem_string_In in H. rewrite H in Hn. discriminate.
  - exfalso.
    assert (A : forall i, i < S (List.length used) -> In (fresh_name p (c + i)) used).
    { intros i Hi. apply mem_string_In.
      destruct (mem String.eqb (fresh_name p (c + i)) used) eqn:M; auto.
      assert (X : existsb (fun i => negb (mem String.eqb (fresh_name p (c + i)) used)) (seq 0 (S (List.length used))) = true).
      { apply existsb_exists. exists i. split; [apply in_seq; lia | now rewrite M]. }
      congruence. }
    assert (N : NoDup (map (fun i => fresh_name p (c + i)) (seq 0 (S (List.length used))))).
    { apply Injective_map_NoDup; [|apply seq_NoDup].
      intros a b H. apply fresh_name_inj in H. lia. }
    assert (L : incl (map (fun i => fresh_name p (c + i)) (seq 0 (S (List.length used)))) used).
    { intros x Hx. apply in_map_iff in Hx. destruct Hx as (i & <- & Hi). apply in_seq in Hi. apply A. lia. }
    pose proof (NoDup_incl_length N L) as Hl. rewrite map_length, seq_length in Hl. lia.
Qed.

Lemma new_fresh_spec p m n m' : new_fresh p m = (n, m') ->
  ~ In n (mnames m) /\ mnames m' = mnames m ++ [n].
Proof.
  unfold new_fresh. intros H. injection H as Hn Hm. subst n m'. split; [|reflexivity].
  exact (first_unused_spec p (mnames m) (S (List.length (mnames m))) (fresh_guess m) (pigeon p (mnames m) (fresh_guess m))).
Qed.

(* ------------------------------------------------------------------ association lists *)
Lemma term_eqb_refl t : term_eqb t t = true.
Proof. now apply term_eqb_eq. Qed.

Lemma assoc_term_In t l n : assoc_term t l = Some n -> In (t, n) l.
Proof.
  induction l as [|[g m] r IH]; cbn; [discriminate|].
  destruct (term_eqb t g) eqn:E.
  - apply term_eqb_eq in E. subst. intros [= ->]. auto.
  - auto.
Qed.
Lemma assoc_term_app_l t l D n : assoc_term t l = Some n -> assoc_term t (l ++ D) = Some n.
Proof.
  induction l as [|[g m] r IH]; cbn; [discriminate|]. destruct (term_eqb t g); auto.
Qed.
Lemma assoc_term_app_r t l n : assoc_term t l = None -> assoc_term t (l ++ [(t, n)]) = Some n.
Proof.
  induction l as [|[g m] r IH]; cbn.
  - now rewrite term_eqb_refl.
  - destruct (term_eqb t g); [discriminate|auto].
Qed.

Fixpoint byname (n : string) (M : list (term * string)) : option term :=
  match M with
  | [] => None
  | (g, m) :: r => if String.eqb n m then Some g else byname n r
  end.
Lemma byname_In n M g : byname n M = Some g -> In (g, n) M.
Proof.
  induction M as [|[g' m] r IH]; cbn; [discriminate|].
  destruct (String.eqb n m) eqn:E.
  - apply String.eqb_eq in E. subst. intros [= ->]. auto.
  - auto.
Qed.
Lemma byname_unique M t n : NoDup (map snd M) -> In (t, n) M -> byname n M = Some t.
Proof.
  induction M as [|[g m] r IH]; cbn; [contradiction|].
  intros Hnd [E|Hin].
  - injection E as -> ->. now rewrite String.eqb_refl.
  - inversion Hnd as [|? ? Hnot Hnd']; subst.
    destruct (String.eqb n m) eqn:E.
    + apply String.eqb_eq in E. subst. exfalso. apply Hnot.
      change m with (snd (t, m)). now apply in_map.
    + auto.
Qed.

(* ------------------------------------------------------------------ states *)
Definition st_wf (st : cstate) : Prop :=
  NoDup (map snd (intro st)) /\ incl (map snd (intro st)) (mnames (mgr st)).
Definition st_le (st st' : cstate) : Prop :=
  (exists D, intro st' = intro st ++ D /\ forall g n, In (g, n) D -> ~ In n (mnames (mgr st))) /\
  incl (mnames (mgr st)) (mnames (mgr st')) /\ (st_wf st -> st_wf st').
Definition extends (A M : list (term * string)) : Prop := exists D, M = A ++ D.

Lemma st_le_refl st : st_le st st.
Proof.
  split; [|split; auto using incl_refl]. exists []. split; [now rewrite app_nil_r | intros ? ? []].
Qed.
Lemma st_le_trans a b c : st_le a b -> st_le b c -> st_le a c.
Proof.
  intros ((D1 & E1 & F1) & N1 & W1) ((D2 & E2 & F2) & N2 & W2).
  split; [|split; [eapply incl_tran; eauto | auto]].
  exists (D1 ++ D2). split; [now rewrite E2, E1, app_assoc|].
  intros g n Hin. apply in_app_or in Hin. destruct Hin as [H|H]; [eauto|].
  intros Hn. apply (F2 g n H). auto.
Qed.
Lemma st_le_extends st st' M : st_le st st' -> extends (intro st') M -> extends (intro st) M.
Proof. intros ((D & E & _) & _) (D' & ->). exists (D ++ D'). now rewrite E, app_assoc. Qed.
Lemma extends_refl A : extends A A.
Proof. exists []. now rewrite app_nil_r. Qed.

(* ------------------------------------------------------------------ the witness interpretation *)
(* each fresh symbol k_g gets the truth value of g under I *)
Definition ext (I : interp) (M : list (term * string)) : interp :=
  {| isym := fun n ty => if ty_eqb ty TBool
                         then match byname n M with Some g => VBool (tv I g) | None => isym I n ty end
                         else isym I n ty;
     ifun := ifun I; rdiv0 := rdiv0 I; idiv0 := idiv0 I |}.

Lemma tv_ext_key I M t n : NoDup (map snd M) -> In (t, n) M -> tv (ext I M) (TSym n TBool) = tv I t.
Proof. intros Hnd Hin. rewrite tv_sym. cbn. now rewrite (byname_unique M t n Hnd Hin). Qed.

(* interpretations that differ only on Boolean symbols named in N *)
Definition same_off (N : list string) (J J' : interp) : Prop :=
  ifun J = ifun J' /\ rdiv0 J = rdiv0 J' /\ idiv0 J = idiv0 J' /\
  forall n ty, ~ (ty = TBool /\ In n N) -> isym J n ty = isym J' n ty.
Definition stable (N : list string) (l : term) : Prop := forall J J', same_off N J J' -> tv J l = tv J' l.
Definition symlit (N : list string) (l : term) : Prop :=
  exists n, In n N /\ (l = TSym n TBool \/ l = T ONot [TSym n TBool]).
Definition litok (N : list string) (l : term) : Prop := symlit N l \/ stable N l.

Lemma same_off_eval N J J' t : same_off N J J' -> (forall n, In n N -> ~ In (n, TBool) (fv t)) ->
  eval J t = eval J' t.
Proof.
  intros (A & B & C & D) Hf. apply coincidence_gen with (t := t). repeat split; auto.
  - intros n ty Hin. apply D. intros [-> Hn]. exact (Hf n Hn Hin).
  - intros n ty _. now rewrite A.
Qed.
Lemma ext_same_off I M : same_off (map snd M) (ext I M) I.
Proof.
  repeat split; auto. intros n ty Hn. cbn.
  destruct (ty_eqb ty TBool) eqn:E; auto. apply ty_eqb_eq in E. subst.
  destruct (byname n M) as [g|] eqn:B; auto. exfalso. apply Hn. split; auto.
  apply byname_In in B. change n with (snd (g, n)). now apply in_map.
Qed.

(* leaves of the Boolean structure: the atoms *)
Fixpoint leaves (t : term) : list term :=
  match t with T o args => if is_connective o then flat_map leaves args else [t] end.
Lemma leaves_arg o args x a : is_connective o = true -> In x args -> In a (leaves x) -> In a (leaves (T o args)).
Proof. intros Ho Hx Ha. cbn. rewrite Ho. apply in_flat_map. eauto. Qed.
Lemma leaves_fv : forall t a, In a (leaves t) -> forall v, In v (fv a) -> In v (fv t).
Proof.
  induction t as [o args IH] using term_ind'. intros a Ha v Hv. cbn [leaves] in Ha.
  destruct (is_connective o) eqn:Ho.
  - apply in_flat_map in Ha. destruct Ha as (x & Hx & Hax).
    rewrite Forall_forall in IH. pose proof (IH x Hx a Hax v Hv) as Hvx.
    apply (fv_arg_incl o args x Hx); auto. destruct o; try discriminate; exact Logic.I.
  - destruct Ha as [<-|[]]. exact Hv.
Qed.

Definition atomic (t : term) : bool := negb (is_connective (top t)).
(* an atom or a negated atom (Boolean constants count as atoms) *)
Definition litc (l : term) : bool :=
  match l with T ONot [a] => atomic a | _ => atomic l end.

Lemma NoDup_snoc {A} (l : list A) x : NoDup l -> ~ In x l -> NoDup (l ++ [x]).
Proof.
  induction l as [|y r IH]; cbn; intros Hnd Hx.
  - constructor; [intros []|constructor].
  - inversion Hnd as [|? ? Hy Hr]; subst. constructor.
    + intros H. apply in_app_or in H. destruct H as [H|[H|[]]]; [auto | subst; apply Hx; auto].
    + apply IH; auto.
Qed.

Section Proofs.
  Variable asimp : term -> term.
  Hypothesis asimp_sound : forall I t, tv I (asimp t) = tv I t.

  Notation simplify := (simplify asimp).
  Notation neg_lit := (neg_lit asimp).

  Lemma negate_tv I x : tv I (negate x) = negb (tv I x).
  Proof.
    destruct x as [o args]. destruct o; try reflexivity.
    - destruct args as [|y [|z r]]; try reflexivity. cbn [negate]. now rewrite tv_not, negb_involutive.
    - destruct args as [|y r]; reflexivity.
  Qed.
  Lemma simplify_tv I : forall t, tv I (simplify t) = tv I t.
  Proof.
    induction t as [o args IH] using term_ind'. destruct o; cbn [Cnf.simplify]; auto.
    - destruct args as [|a [|b r]]; auto. inversion IH as [|? ? Ha _]; subst.
      now rewrite negate_tv, Ha, tv_not.
    - destruct args; auto.
  Qed.
  Lemma neg_lit_tv I a : tv I (neg_lit a) = negb (tv I a).
  Proof. unfold Cnf.neg_lit. now rewrite simplify_tv, mk_not_tv. Qed.

  Lemma neg_lit_sym n : neg_lit (TSym n TBool) = T ONot [TSym n TBool].
  Proof. reflexivity. Qed.
  Lemma neg_lit_nsym n : neg_lit (T ONot [TSym n TBool]) = TSym n TBool.
  Proof. reflexivity. Qed.

  Lemma symlit_neg N a : symlit N a -> symlit N (neg_lit a) /\ symlit N (mk_not a).
  Proof.
    intros (n & Hn & [->| ->]); split; exists n; split; auto.
  Qed.
  Lemma stable_neg N a : stable N a -> stable N (neg_lit a) /\ stable N (mk_not a).
  Proof.
    intros H. split; intros J J' HJ; rewrite ?neg_lit_tv, ?mk_not_tv; f_equal; auto.
  Qed.
  Lemma litok_neg N a : litok N a -> litok N (neg_lit a) /\ litok N (mk_not a).
  Proof.
    intros [H|H].
    - destruct (symlit_neg N a H). split; left; auto.
    - destruct (stable_neg N a H). split; right; auto.
  Qed.
  Lemma symlit_not_const N a : symlit N a -> ctrue a = false /\ cfalse a = false.
  Proof. intros (n & _ & [->| ->]); split; reflexivity. Qed.

  (* ---------------------------------------------------------------- key_var *)
  Lemma key_var_spec f st k st' : key_var f st = (k, st') ->
    st_le st st' /\ exists n, k = TSym n TBool /\ assoc_term f (intro st') = Some n.
  Proof.
    unfold key_var. destruct (assoc_term f (intro st)) as [n|] eqn:E.
    - intros [= <- <-]. split; [apply st_le_refl|]. eauto.
    - destruct (new_fresh "FV" (mgr st)) as [n m'] eqn:F. intros [= <- <-].
      apply new_fresh_spec in F. destruct F as [Hfresh Hnames]. split.
      + split; [|split].
        * exists [(f, n)]. split; [reflexivity|]. cbn. intros g n0 [[= _ <-]|[]]. exact Hfresh.
        * cbn. rewrite Hnames. apply incl_appl, incl_refl.
        * intros [Hnd Hin]. split; cbn; rewrite map_app; cbn.
          -- apply NoDup_snoc; auto.
          -- rewrite Hnames. apply incl_app; [apply incl_appl; auto | apply incl_appr, incl_refl].
      + exists n. split; auto. cbn. now apply assoc_term_app_r.
  Qed.

  (* ---------------------------------------------------------------- clause groups as Boolean equations *)
  Lemma sat_flat_snd J (ps : list (term * list (list term))) :
    sat J (flat_map snd ps) = forallb (fun p => sat J (snd p)) ps.
  Proof. induction ps as [|p r IH]; cbn [flat_map forallb]; [reflexivity|]. now rewrite sat_app, IH. Qed.

  Lemma exists_neg J (ps : list (term * list (list term))) :
    existsb (tv J) (map (fun p => neg_lit (fst p)) ps) = negb (forallb (fun p => tv J (fst p)) ps).
  Proof. induction ps as [|p r IH]; cbn; auto. now rewrite neg_lit_tv, IH, negb_andb. Qed.
  Lemma exists_fst J (ps : list (term * list (list term))) :
    existsb (tv J) (map fst ps) = existsb (fun p => tv J (fst p)) ps.
  Proof. apply existsb_map. Qed.

  Lemma sat_and_clauses J k (ps : list (term * list (list term))) :
    sat J (mkclause (k :: map (fun p => neg_lit (fst p)) ps)
           :: flat_map (fun p => mkclause [fst p; nk k] :: snd p) ps)
    = Bool.eqb (tv J k) (forallb (fun p => tv J (fst p)) ps) && forallb (fun p => sat J (snd p)) ps.
  Proof.
    rewrite sat_cons, csat_mkclause. cbn [csat existsb]. rewrite exists_neg.
    assert (E : sat J (flat_map (fun p => mkclause [fst p; nk k] :: snd p) ps)
                = implb (tv J k) (forallb (fun p => tv J (fst p)) ps) && forallb (fun p => sat J (snd p)) ps).
    { unfold clause. induction ps as [|p r IH]; cbn [flat_map forallb app].
      - destruct (tv J k); reflexivity.
      - rewrite sat_cons, sat_app, IH, csat_mkclause. cbn [csat existsb]. unfold nk. rewrite tv_not.
        destruct (tv J k); destruct (tv J (fst p)); destruct (forallb (fun p => tv J (fst p)) r); destruct (sat J (snd p)); destruct (forallb (fun p => sat J (snd p)) r); reflexivity. }
    rewrite E.
    destruct (tv J k); destruct (forallb (fun p => tv J (fst p)) ps); destruct (forallb (fun p => sat J (snd p)) ps); reflexivity.
  Qed.

  Lemma sat_or_clauses J k (ps : list (term * list (list term))) :
    sat J (mkclause (nk k :: map fst ps)
           :: flat_map (fun p => mkclause [k; mk_not (fst p)] :: snd p) ps)
    = Bool.eqb (tv J k) (existsb (fun p => tv J (fst p)) ps) && forallb (fun p => sat J (snd p)) ps.
  Proof.
    rewrite sat_cons, csat_mkclause. cbn [csat existsb]. rewrite exists_fst. unfold nk. rewrite tv_not.
    assert (E : sat J (flat_map (fun p => mkclause [k; mk_not (fst p)] :: snd p) ps)
                = implb (existsb (fun p => tv J (fst p)) ps) (tv J k) && forallb (fun p => sat J (snd p)) ps).
    { unfold clause. induction ps as [|p r IH]; cbn [flat_map forallb existsb app].
      - reflexivity.
      - rewrite sat_cons, sat_app, IH, csat_mkclause. cbn [csat existsb]. rewrite mk_not_tv.
        destruct (tv J k); destruct (tv J (fst p)); destruct (existsb (fun p => tv J (fst p)) r); destruct (sat J (snd p)); destruct (forallb (fun p => sat J (snd p)) r); reflexivity. }
    rewrite E.
    destruct (tv J k); destruct (existsb (fun p => tv J (fst p)) ps); destruct (forallb (fun p => sat J (snd p)) ps); reflexivity.
  Qed.

  (* polarity versions *)
  Lemma sat_pol_and_pos J k (ps : list (term * list (list term))) :
    sat J (map (fun p => mkclause [fst p; nk k]) ps) = implb (tv J k) (forallb (fun p => tv J (fst p)) ps).
  Proof.
    induction ps as [|p r IH]; cbn [map forallb].
    - destruct (tv J k); reflexivity.
    - rewrite sat_cons, IH, csat_mkclause. cbn [csat existsb]. unfold nk. rewrite tv_not.
      destruct (tv J k); destruct (tv J (fst p)); destruct (forallb (fun p => tv J (fst p)) r); reflexivity.
  Qed.
  Lemma sat_pol_and_neg J k (ps : list (term * list (list term))) :
    sat J [mkclause (k :: map (fun p => neg_lit (fst p)) ps)] = implb (forallb (fun p => tv J (fst p)) ps) (tv J k).
  Proof.
    cbn [sat forallb]. rewrite csat_mkclause. cbn [csat existsb]. rewrite exists_neg.
    destruct (tv J k); destruct (forallb (fun p => tv J (fst p)) ps); reflexivity.
  Qed.
  Lemma sat_pol_or_pos J k (ps : list (term * list (list term))) :
    sat J [mkclause (nk k :: map fst ps)] = implb (tv J k) (existsb (fun p => tv J (fst p)) ps).
  Proof.
    cbn [sat forallb]. rewrite csat_mkclause. cbn [csat existsb]. rewrite exists_fst. unfold nk. rewrite tv_not.
    destruct (tv J k); destruct (existsb (fun p => tv J (fst p)) ps); reflexivity.
  Qed.
  Lemma sat_pol_or_neg J k (ps : list (term * list (list term))) :
    sat J (map (fun p => mkclause [k; neg_lit (fst p)]) ps) = implb (existsb (fun p => tv J (fst p)) ps) (tv J k).
  Proof.
    induction ps as [|p r IH]; cbn [map existsb].
    - reflexivity.
    - rewrite sat_cons, IH, csat_mkclause. cbn [csat existsb]. rewrite neg_lit_tv.
      destruct (tv J k); destruct (tv J (fst p)); destruct (existsb (fun p => tv J (fst p)) r); reflexivity.
  Qed.

  (* fixed-arity groups: normalise [sat] of a concrete clause list to a Boolean expression *)
  Ltac norm_sat :=
    repeat rewrite sat_app; cbn [sat forallb]; repeat rewrite csat_mkclause; cbn [csat existsb];
    unfold nk; repeat rewrite ?neg_lit_tv, ?tv_not.

  Lemma sat_implies J k a b ca cb :
    sat J (ca ++ cb ++ [mkclause [neg_lit a; b; nk k]; mkclause [a; k]; mkclause [neg_lit b; k]])
    = sat J ca && sat J cb && Bool.eqb (tv J k) (implb (tv J a) (tv J b)).
  Proof. norm_sat. fold (sat J ca) (sat J cb). destruct (sat J ca); destruct (sat J cb); destruct (tv J k); destruct (tv J a); destruct (tv J b); reflexivity. Qed.
  Lemma sat_iff J k a b ca cb :
    sat J (ca ++ cb ++ [mkclause [neg_lit a; neg_lit b; k]; mkclause [neg_lit a; b; nk k];
                        mkclause [a; neg_lit b; nk k]; mkclause [a; b; k]])
    = sat J ca && sat J cb && Bool.eqb (tv J k) (Bool.eqb (tv J a) (tv J b)).
  Proof. norm_sat. fold (sat J ca) (sat J cb). destruct (sat J ca); destruct (sat J cb); destruct (tv J k); destruct (tv J a); destruct (tv J b); reflexivity. Qed.
  Lemma sat_ite J k i a b ci ca cb :
    sat J (ci ++ ca ++ cb ++ [mkclause [neg_lit i; neg_lit a; k]; mkclause [neg_lit i; a; nk k];
                              mkclause [i; neg_lit b; k]; mkclause [i; b; nk k]])
    = sat J ci && sat J ca && sat J cb && Bool.eqb (tv J k) (if tv J i then tv J a else tv J b).
  Proof.
    norm_sat. fold (sat J ci) (sat J ca) (sat J cb).
    destruct (sat J ci); destruct (sat J ca); destruct (sat J cb); destruct (tv J k); destruct (tv J i); destruct (tv J a); destruct (tv J b); reflexivity.
  Qed.

  (* ---------------------------------------------------------------- the walk invariant *)
  Definition lit_closed (P : term -> Prop) : Prop := forall a, P a -> P (neg_lit a) /\ P (mk_not a).
  (* every literal produced satisfies any predicate that holds of the fresh-symbol literals, the
     Boolean constants and the atoms of the formula and is closed under the two negations *)
  Definition LitsOk (M : list (term * string)) (t key : term) (cl : list (list term)) : Prop :=
    forall P : term -> Prop, lit_closed P ->
      (forall n, In n (map snd M) -> P (TSym n TBool) /\ P (T ONot [TSym n TBool])) ->
      P TTrue -> P TFalse -> (forall a, In a (leaves t) -> P a) ->
      P key /\ Forall (Forall P) cl.
  Definition leaf_stable (I : interp) (M : list (term * string)) (t : term) : Prop :=
    forall a, In a (leaves t) -> tv (ext I M) a = tv I a.

  Definition Good (M : list (term * string)) (t : term) (r : res) : Prop :=
    match r with
    | PH => True
    | R key cl =>
        (forall I, NoDup (map snd M) -> leaf_stable I M t ->
                   sat (ext I M) cl = true /\ tv (ext I M) key = tv I t) /\
        (forall J, sat J cl = true -> tv J key = tv J t) /\
        (cl = [] \/ symlit (map snd M) key) /\
        LitsOk M t key cl
    end.

  Lemma leaf_stable_arg I M o args x : is_connective o = true -> In x args ->
    leaf_stable I M (T o args) -> leaf_stable I M x.
  Proof. intros Ho Hx H a Ha. apply H. eapply leaves_arg; eauto. Qed.

  Lemma unpack_Forall2 (G : term -> res -> Prop) args rs ps : unpack rs = Some ps -> Forall2 G args rs ->
    Forall2 (fun x p => G x (R (fst p) (snd p))) args ps.
  Proof.
    intros Hu H. revert ps Hu. induction H as [|x r args rs Hxr H IH]; intros ps Hu; cbn in Hu.
    - injection Hu as <-. constructor.
    - destruct r as [|k c]; [discriminate|]. destruct (unpack rs) as [l|]; [|discriminate].
      injection Hu as <-. constructor; auto.
  Qed.
  Lemma Forall2_In_r {A B} (Rel : A -> B -> Prop) l l' y : Forall2 Rel l l' -> In y l' -> exists x, In x l /\ Rel x y.
  Proof.
    induction 1 as [|a b l l' Hab H IH]; cbn; [intros []|].
    intros [<-|Hy]; [eauto|]. destruct (IH Hy) as (x & Hx & Hr). eauto.
  Qed.
  Lemma Forall2_In_l {A B} (Rel : A -> B -> Prop) l l' x : Forall2 Rel l l' -> In x l -> exists y, In y l' /\ Rel x y.
  Proof.
    induction 1 as [|a b l l' Hab H IH]; cbn; [intros []|].
    intros [<-|Hy]; [eauto|]. destruct (IH Hy) as (y & Hy' & Hr). eauto.
  Qed.

  (* children: keys have the children's values (completeness direction) *)
  Lemma children_C (E I : interp) args (ps : list (term * list (list term))) :
    Forall2 (fun x p => sat E (snd p) = true /\ tv E (fst p) = tv I x) args ps ->
    forallb (fun p => sat E (snd p)) ps = true /\
    forallb (fun p => tv E (fst p)) ps = forallb (tv I) args /\
    existsb (fun p => tv E (fst p)) ps = existsb (tv I) args.
  Proof.
    induction 1 as [|x p args ps [H1 H2] H IH]; cbn; auto.
    destruct IH as (A & B & C). now rewrite H1, H2, A, B, C.
  Qed.
  Lemma children_S (J : interp) args (ps : list (term * list (list term))) :
    Forall2 (fun x p => sat J (snd p) = true -> tv J (fst p) = tv J x) args ps ->
    forallb (fun p => sat J (snd p)) ps = true ->
    forallb (fun p => tv J (fst p)) ps = forallb (tv J) args /\
    existsb (fun p => tv J (fst p)) ps = existsb (tv J) args.
  Proof.
    induction 1 as [|x p args ps H1 H IH]; cbn; auto.
    intros Hs. apply andb_true_iff in Hs. destruct Hs as [Hp Hr].
    destruct (IH Hr) as (B & C). now rewrite (H1 Hp), B, C.
  Qed.

  Lemma Forall_mkclause (P : term -> Prop) l : Forall P l -> Forall P (mkclause l).
  Proof. rewrite !Forall_forall. intros H x Hx. apply H. now apply mkclause_In. Qed.

  Lemma In_names (M : list (term * string)) (t : term) n : In (t, n) M -> In n (map snd M).
  Proof. intros H. change n with (snd (t, n)). now apply in_map. Qed.

  (* facts about the children of an n-ary node that every case needs *)
  Lemma children_lits M o args (ps : list (term * list (list term))) (P : term -> Prop) :
    is_connective o = true ->
    Forall2 (fun x p => Good M x (R (fst p) (snd p))) args ps ->
    lit_closed P ->
    (forall n, In n (map snd M) -> P (TSym n TBool) /\ P (T ONot [TSym n TBool])) ->
    P TTrue -> P TFalse -> (forall a, In a (leaves (T o args)) -> P a) ->
    forall p, In p ps -> P (fst p) /\ Forall (Forall P) (snd p).
  Proof.
    intros Ho HF Hc Hs HT HFa Hl p Hp.
    destruct (Forall2_In_r _ _ _ _ HF Hp) as (x & Hx & (_ & _ & _ & HL)).
    apply HL; auto. intros a Ha. apply Hl. eapply leaves_arg; eauto.
  Qed.

  Lemma and_good M args (ps : list (term * list (list term))) n :
    In (T OAnd args, n) M ->
    Forall2 (fun x p => Good M x (R (fst p) (snd p))) args ps ->
    Good M (T OAnd args)
         (R (TSym n TBool) (mkclause (TSym n TBool :: map (fun p => neg_lit (fst p)) ps)
                            :: flat_map (fun p => mkclause [fst p; nk (TSym n TBool)] :: snd p) ps)).
  Proof.
    intros Hin HF. unfold Good. split; [|split; [|split]].
    - intros I Hnd Hls. rewrite sat_and_clauses, (tv_ext_key I M _ n Hnd Hin), tv_and.
      assert (HC : Forall2 (fun x p => sat (ext I M) (snd p) = true /\ tv (ext I M) (fst p) = tv I x) args ps).
      { clear Hin. induction HF as [|x p args ps Hxp HF IH]; constructor.
        - destruct Hxp as (C & _). apply C; auto. eapply leaf_stable_arg; eauto; [reflexivity|now left].
        - apply IH. intros a Ha. apply Hls. cbn in *. apply in_or_app. now right. }
      destruct (children_C _ _ _ _ HC) as (A & B & _). rewrite A, B, eqb_reflx. auto.
    - intros J Hs. rewrite sat_and_clauses in Hs. apply andb_true_iff in Hs. destruct Hs as [He Hc].
      apply eqb_prop in He. rewrite He, tv_and.
      apply (children_S J args ps); auto.
      clear - HF. induction HF as [|x p args ps Hxp HF IH]; constructor; auto.
      destruct Hxp as (_ & S & _). exact (S J).
    - right. exists n. split; [eapply In_names; eauto | auto].
    - intros P Hc Hs HT HFa Hl. destruct (Hs n (In_names _ _ _ Hin)) as [Pk Pnk]. split; auto.
      pose proof (children_lits M OAnd args ps P eq_refl HF Hc Hs HT HFa Hl) as Hch.
      constructor.
      + apply Forall_mkclause. constructor; auto. apply Forall_forall. intros l Hl'.
        apply in_map_iff in Hl'. destruct Hl' as (p & <- & Hp). apply Hc, Hch, Hp.
      + apply Forall_forall. intros c Hcl. apply in_flat_map in Hcl. destruct Hcl as (p & Hp & [<-|Hcp]).
        * apply Forall_mkclause. repeat constructor; auto. apply Hch, Hp.
        * destruct (Hch p Hp) as [_ Hall]. rewrite Forall_forall in Hall. auto.
  Qed.

  Lemma or_good M args (ps : list (term * list (list term))) n :
    In (T OOr args, n) M ->
    Forall2 (fun x p => Good M x (R (fst p) (snd p))) args ps ->
    Good M (T OOr args)
         (R (TSym n TBool) (mkclause (nk (TSym n TBool) :: map fst ps)
                            :: flat_map (fun p => mkclause [TSym n TBool; mk_not (fst p)] :: snd p) ps)).
  Proof.
    intros Hin HF. unfold Good. split; [|split; [|split]].
    - intros I Hnd Hls. rewrite sat_or_clauses, (tv_ext_key I M _ n Hnd Hin), tv_or.
      assert (HC : Forall2 (fun x p => sat (ext I M) (snd p) = true /\ tv (ext I M) (fst p) = tv I x) args ps).
      { clear Hin. induction HF as [|x p args ps Hxp HF IH]; constructor.
        - destruct Hxp as (C & _). apply C; auto. eapply leaf_stable_arg; eauto; [reflexivity|now left].
        - apply IH. intros a Ha. apply Hls. cbn in *. apply in_or_app. now right. }
      destruct (children_C _ _ _ _ HC) as (A & _ & B). rewrite A, B, eqb_reflx. auto.
    - intros J Hs. rewrite sat_or_clauses in Hs. apply andb_true_iff in Hs. destruct Hs as [He Hc].
      apply eqb_prop in He. rewrite He, tv_or.
      apply (children_S J args ps); auto.
      clear - HF. induction HF as [|x p args ps Hxp HF IH]; constructor; auto.
      destruct Hxp as (_ & S & _). exact (S J).
    - right. exists n. split; [eapply In_names; eauto | auto].
    - intros P Hc Hs HT HFa Hl. destruct (Hs n (In_names _ _ _ Hin)) as [Pk Pnk]. split; auto.
      pose proof (children_lits M OOr args ps P eq_refl HF Hc Hs HT HFa Hl) as Hch.
      constructor.
      + apply Forall_mkclause. constructor; auto. apply Forall_forall. intros l Hl'.
        apply in_map_iff in Hl'. destruct Hl' as (p & <- & Hp). apply Hch, Hp.
      + apply Forall_forall. intros c Hcl. apply in_flat_map in Hcl. destruct Hcl as (p & Hp & [<-|Hcp]).
        * apply Forall_mkclause. repeat constructor; auto. apply Hc, Hch, Hp.
        * destruct (Hch p Hp) as [_ Hall]. rewrite Forall_forall in Hall. auto.
  Qed.

  Lemma Forall_cl_app (P : term -> Prop) a b : Forall (Forall P) a -> Forall (Forall P) b -> Forall (Forall P) (a ++ b).
  Proof. intros. apply Forall_app. auto. Qed.

  Lemma not_good M x a c :
    Good M x (R a c) ->
    Good M (T ONot [x]) (if ctrue a then R TFalse [] else if cfalse a then R TTrue [] else R (neg_lit a) c).
  Proof.
    intros (C & S & K & L).
    assert (Hls : forall I, leaf_stable I M (T ONot [x]) -> leaf_stable I M x).
    { intros I H. exact (leaf_stable_arg I M ONot [x] x eq_refl (or_introl eq_refl) H). }
    assert (Hlv : forall a0, In a0 (leaves x) -> In a0 (leaves (T ONot [x]))).
    { intros a0 H. exact (leaves_arg ONot [x] x a0 eq_refl (or_introl eq_refl) H). }
    destruct (ctrue a) eqn:Et; [|destruct (cfalse a) eqn:Ef].
    - assert (c = []) as ->. { destruct K as [|K]; auto. apply symlit_not_const in K. destruct K. congruence. }
      split; [|split; [|split]].
      + intros I Hnd Hl. split; auto. destruct (C I Hnd (Hls I Hl)) as [_ Ha].
        rewrite tv_not, <- Ha, (ctrue_tv _ _ Et). reflexivity.
      + intros J _. rewrite tv_not, <- (S J eq_refl), (ctrue_tv _ _ Et). reflexivity.
      + now left.
      + intros P _ _ _ HF _. split; auto.
    - assert (c = []) as ->. { destruct K as [|K]; auto. apply symlit_not_const in K. destruct K. congruence. }
      split; [|split; [|split]].
      + intros I Hnd Hl. split; auto. destruct (C I Hnd (Hls I Hl)) as [_ Ha].
        rewrite tv_not, <- Ha, (cfalse_tv _ _ Ef). reflexivity.
      + intros J _. rewrite tv_not, <- (S J eq_refl), (cfalse_tv _ _ Ef). reflexivity.
      + now left.
      + intros P _ _ HT _ _. split; auto.
    - split; [|split; [|split]].
      + intros I Hnd Hl. destruct (C I Hnd (Hls I Hl)) as [Hc Ha]. split; auto.
        now rewrite neg_lit_tv, tv_not, Ha.
      + intros J Hs. now rewrite neg_lit_tv, tv_not, (S J Hs).
      + destruct K as [|K]; auto. right. now apply symlit_neg.
      + intros P Hc Hs HT HF Hl. destruct (L P Hc Hs HT HF (fun a0 H => Hl a0 (Hlv a0 H))) as [Pa Pc].
        split; auto. now apply Hc.
  Qed.

  Lemma pass_good M o x r : is_connective o = true -> (forall I, tv I (T o [x]) = tv I x) ->
    Good M x r -> Good M (T o [x]) r.
  Proof.
    intros Ho Htv H. destruct r as [|key cl]; auto. destruct H as (C & S & K & L).
    split; [|split; [|split]]; auto.
    - intros I Hnd Hl. rewrite Htv. apply C; auto. eapply leaf_stable_arg; eauto. now left.
    - intros J Hs. rewrite Htv. auto.
    - intros P Hc Hs HT HF Hl. apply L; auto. intros a Ha. apply Hl. eapply leaves_arg; eauto. now left.
  Qed.

  Lemma leaf_good M o args : is_connective o = false -> Good M (T o args) (R (T o args) []).
  Proof.
    intros Ho. split; [|split; [|split]]; auto.
    - intros I _ Hl. split; auto. apply Hl. cbn. rewrite Ho. now left.
    - intros P _ _ _ _ Hl. split; auto. apply Hl. cbn. rewrite Ho. now left.
  Qed.

  Ltac child_stable Hl :=
    eapply leaf_stable_arg; [| |exact Hl]; [reflexivity | cbn; tauto].
  Ltac lits_tac :=
    repeat (apply Forall_cl_app; auto); repeat (constructor; auto); apply Forall_mkclause; repeat (constructor; auto).

  Lemma implies_good M x y a b ca cb n :
    In (T OImplies [x; y], n) M -> Good M x (R a ca) -> Good M y (R b cb) ->
    Good M (T OImplies [x; y])
         (R (TSym n TBool) (ca ++ cb ++ [mkclause [neg_lit a; b; nk (TSym n TBool)]; mkclause [a; TSym n TBool];
                                         mkclause [neg_lit b; TSym n TBool]])).
  Proof.
    intros Hin (Ca & Sa & _ & La) (Cb & Sb & _ & Lb). split; [|split; [|split]].
    - intros I Hnd Hl. rewrite sat_implies, (tv_ext_key I M _ n Hnd Hin), tv_implies.
      destruct (Ca I Hnd) as [-> ->]; [child_stable Hl|]. destruct (Cb I Hnd) as [-> ->]; [child_stable Hl|].
      now rewrite eqb_reflx.
    - intros J Hs. rewrite sat_implies in Hs. apply andb_true_iff in Hs. destruct Hs as [Hs He].
      apply andb_true_iff in Hs. destruct Hs as [Ha Hb]. apply eqb_prop in He.
      now rewrite He, tv_implies, (Sa J Ha), (Sb J Hb).
    - right. exists n. split; [eapply In_names; eauto|auto].
    - intros P Hc Hs HT HF Hl. destruct (Hs n (In_names _ _ _ Hin)) as [Pk Pnk].
      destruct (La P Hc Hs HT HF) as [Pa Pca]; [intros a0 H0; apply Hl; eapply leaves_arg; eauto; cbn; tauto|].
      destruct (Lb P Hc Hs HT HF) as [Pb Pcb]; [intros a0 H0; apply Hl; eapply leaves_arg; eauto; cbn; tauto|].
      pose proof (Hc a Pa) as [Pna _]. pose proof (Hc b Pb) as [Pnb _].
      split; auto. lits_tac.
  Qed.

  Lemma iff_good M x y a b ca cb n :
    In (T OIff [x; y], n) M -> Good M x (R a ca) -> Good M y (R b cb) ->
    Good M (T OIff [x; y])
         (R (TSym n TBool) (ca ++ cb ++ [mkclause [neg_lit a; neg_lit b; TSym n TBool]; mkclause [neg_lit a; b; nk (TSym n TBool)];
                                         mkclause [a; neg_lit b; nk (TSym n TBool)]; mkclause [a; b; TSym n TBool]])).
  Proof.
    intros Hin (Ca & Sa & _ & La) (Cb & Sb & _ & Lb). split; [|split; [|split]].
    - intros I Hnd Hl. rewrite sat_iff, (tv_ext_key I M _ n Hnd Hin), tv_iff.
      destruct (Ca I Hnd) as [-> ->]; [child_stable Hl|]. destruct (Cb I Hnd) as [-> ->]; [child_stable Hl|].
      now rewrite eqb_reflx.
    - intros J Hs. rewrite sat_iff in Hs. apply andb_true_iff in Hs. destruct Hs as [Hs He].
      apply andb_true_iff in Hs. destruct Hs as [Ha Hb]. apply eqb_prop in He.
      now rewrite He, tv_iff, (Sa J Ha), (Sb J Hb).
    - right. exists n. split; [eapply In_names; eauto|auto].
    - intros P Hc Hs HT HF Hl. destruct (Hs n (In_names _ _ _ Hin)) as [Pk Pnk].
      destruct (La P Hc Hs HT HF) as [Pa Pca]; [intros a0 H0; apply Hl; eapply leaves_arg; eauto; cbn; tauto|].
      destruct (Lb P Hc Hs HT HF) as [Pb Pcb]; [intros a0 H0; apply Hl; eapply leaves_arg; eauto; cbn; tauto|].
      pose proof (Hc a Pa) as [Pna _]. pose proof (Hc b Pb) as [Pnb _].
      split; auto. lits_tac.
  Qed.

  Lemma ite_good M x y z i a b ci ca cb n :
    In (T OIte [x; y; z], n) M -> Good M x (R i ci) -> Good M y (R a ca) -> Good M z (R b cb) ->
    Good M (T OIte [x; y; z])
         (R (TSym n TBool) (ci ++ ca ++ cb ++
                            [mkclause [neg_lit i; neg_lit a; TSym n TBool]; mkclause [neg_lit i; a; nk (TSym n TBool)];
                             mkclause [i; neg_lit b; TSym n TBool]; mkclause [i; b; nk (TSym n TBool)]])).
  Proof.
    intros Hin (Ci & Si & _ & Li) (Ca & Sa & _ & La) (Cb & Sb & _ & Lb). split; [|split; [|split]].
    - intros I Hnd Hl. rewrite sat_ite, (tv_ext_key I M _ n Hnd Hin), tv_ite.
      destruct (Ci I Hnd) as [-> ->]; [child_stable Hl|].
      destruct (Ca I Hnd) as [-> ->]; [child_stable Hl|]. destruct (Cb I Hnd) as [-> ->]; [child_stable Hl|].
      now rewrite eqb_reflx.
    - intros J Hs. rewrite sat_ite in Hs. apply andb_true_iff in Hs. destruct Hs as [Hs He].
      apply andb_true_iff in Hs. destruct Hs as [Hs Hb]. apply andb_true_iff in Hs. destruct Hs as [Hi Ha].
      apply eqb_prop in He. now rewrite He, tv_ite, (Si J Hi), (Sa J Ha), (Sb J Hb).
    - right. exists n. split; [eapply In_names; eauto|auto].
    - intros P Hc Hs HT HF Hl. destruct (Hs n (In_names _ _ _ Hin)) as [Pk Pnk].
      destruct (Li P Hc Hs HT HF) as [Pi Pci]; [intros a0 H0; apply Hl; eapply leaves_arg; eauto; cbn; tauto|].
      destruct (La P Hc Hs HT HF) as [Pa Pca]; [intros a0 H0; apply Hl; eapply leaves_arg; eauto; cbn; tauto|].
      destruct (Lb P Hc Hs HT HF) as [Pb Pcb]; [intros a0 H0; apply Hl; eapply leaves_arg; eauto; cbn; tauto|].
      pose proof (Hc i Pi) as [Pni _]. pose proof (Hc a Pa) as [Pna _]. pose proof (Hc b Pb) as [Pnb _].
      split; auto. lits_tac.
  Qed.

  (* ---------------------------------------------------------------- the walk *)
  Lemma key_var_in f st k st' M : key_var f st = (k, st') -> extends (intro st') M ->
    st_le st st' /\ exists n, k = TSym n TBool /\ In (f, n) M /\ assoc_term f M = Some n.
  Proof.
    intros H (D & ->). destruct (key_var_spec _ _ _ _ H) as (Hle & n & -> & Ha).
    split; auto. exists n. split; auto. split.
    - apply in_or_app. left. now apply assoc_term_In.
    - now apply assoc_term_app_l.
  Qed.

  Lemma walk_list_good (w : term -> cstate -> option (res * cstate))
        (G : list (term * string) -> term -> res -> Prop) l :
    Forall (fun x => forall st r st', w x st = Some (r, st') ->
                     st_le st st' /\ forall M, extends (intro st') M -> G M x r) l ->
    forall st rs st1, walk_list w l st = Some (rs, st1) ->
    st_le st st1 /\ forall M, extends (intro st1) M -> Forall2 (G M) l rs.
  Proof.
    induction 1 as [|x l Hx Hl IH]; intros st rs st1; cbn.
    - intros [= <- <-]. split; [apply st_le_refl|]. constructor.
    - destruct (walk_list w l st) as [[rs0 s0]|] eqn:E; [|discriminate].
      destruct (w x s0) as [[rx s2]|] eqn:Ex; [|discriminate]. intros [= <- <-].
      destruct (IH _ _ _ E) as [L1 F1]. destruct (Hx _ _ _ Ex) as [L2 F2].
      split; [eapply st_le_trans; eauto|]. intros M HM. constructor; auto.
      apply F1. eapply st_le_extends; eauto.
  Qed.

  Lemma cnf_node_good o args rs st r st' :
    cnf_node asimp (T o args) rs st = Some (r, st') ->
    st_le st st' /\ forall M, extends (intro st') M -> Forall2 (Good M) args rs -> Good M (T o args) r.
  Proof.
    assert (AND : forall ps, unpack rs = Some ps ->
              (let (k, st') := key_var (T OAnd args) st in
               Some (R k (mkclause (k :: map (fun p => neg_lit (fst p)) ps)
                          :: flat_map (fun p => mkclause [fst p; nk k] :: snd p) ps), st')) = Some (r, st') ->
              st_le st st' /\ forall M, extends (intro st') M -> Forall2 (Good M) args rs -> Good M (T OAnd args) r).
    { intros ps Hu. destruct (key_var (T OAnd args) st) as [k s1] eqn:K. intros [= <- <-].
      split; [apply (key_var_spec _ _ _ _ K)|]. intros M HM HF.
      destruct (key_var_in _ _ _ _ M K HM) as (_ & n & -> & Hin & _).
      apply and_good; auto. eapply unpack_Forall2; eauto. }
    assert (OR : forall ps, unpack rs = Some ps ->
              (let (k, st') := key_var (T OOr args) st in
               Some (R k (mkclause (nk k :: map fst ps)
                          :: flat_map (fun p => mkclause [k; mk_not (fst p)] :: snd p) ps), st')) = Some (r, st') ->
              st_le st st' /\ forall M, extends (intro st') M -> Forall2 (Good M) args rs -> Good M (T OOr args) r).
    { intros ps Hu. destruct (key_var (T OOr args) st) as [k s1] eqn:K. intros [= <- <-].
      split; [apply (key_var_spec _ _ _ _ K)|]. intros M HM HF.
      destruct (key_var_in _ _ _ _ M K HM) as (_ & n & -> & Hin & _).
      apply or_good; auto. eapply unpack_Forall2; eauto. }
    assert (LEAF : forall o', is_connective o' = false -> forall r0, (r0 = PH \/ r0 = R (T o' args) []) -> Good st.(intro) (T o' args) r0 -> True) by auto.
    clear LEAF.
    assert (LF : forall M o' (r0 : res), is_connective o' = false -> r0 = PH \/ r0 = R (T o' args) [] -> Good M (T o' args) r0).
    { intros M o' r0 Ho [-> | ->]; [exact Logic.I | now apply leaf_good]. }
    unfold cnf_node. destruct o.
    all: try discriminate.
    all: try (cbn [is_theory_relation]; unfold walk_theory_op, walk_function, bool_symbol, walk_constant;
              repeat match goal with
                     | |- context [match ?k with _ => _ end] => destruct k
                     end;
              try discriminate; intros [= <- <-]; (split; [apply st_le_refl|]); intros M _ _; apply LF; [reflexivity | solve [auto]]).
    all: try (cbv [is_theory_relation]; unfold walk_theory_op; destruct (tc _) as [[]|]; try discriminate;
              intros [= <- <-]; (split; [apply st_le_refl|]); intros M _ _; apply LF; [reflexivity | solve [auto]]).
    - (* and *)
      destruct rs as [|r0 [|r1 rs']].
      + destruct (unpack []) as [ps|] eqn:U; [|discriminate]. apply (AND ps eq_refl).
      + intros [= <- <-]. split; [apply st_le_refl|]. intros M _ HF.
        inversion HF as [|x ? args' ? Hx HF']; subst. inversion HF'; subst.
        apply pass_good; auto. intros I. rewrite tv_and. cbn. apply andb_true_r.
      + destruct (unpack (r0 :: r1 :: rs')) as [ps|] eqn:U; [|discriminate]. apply (AND ps eq_refl).
    - (* or *)
      destruct rs as [|r0 [|r1 rs']].
      + destruct (unpack []) as [ps|] eqn:U; [|discriminate]. apply (OR ps eq_refl).
      + intros [= <- <-]. split; [apply st_le_refl|]. intros M _ HF.
        inversion HF as [|x ? args' ? Hx HF']; subst. inversion HF'; subst.
        apply pass_good; auto. intros I. rewrite tv_or. cbn. apply orb_false_r.
      + destruct (unpack (r0 :: r1 :: rs')) as [ps|] eqn:U; [|discriminate]. apply (OR ps eq_refl).
    - (* not *)
      unfold walk_not. destruct rs as [|[|a c] [|r1 rs']]; try discriminate. cbn beta iota. intros [= <- <-].
      split; [apply st_le_refl|]. intros M _ HF.
      inversion HF as [|x ? args' ? Hx HF']; subst. inversion HF'; subst. now apply not_good.
    - (* implies *)
      destruct rs as [|[|a ca] [|[|b cb] [|r2 rs']]]; try discriminate.
      destruct (key_var (T OImplies args) st) as [k s1] eqn:K. intros [= <- <-].
      split; [apply (key_var_spec _ _ _ _ K)|]. intros M HM HF.
      destruct (key_var_in _ _ _ _ M K HM) as (_ & n & -> & Hin & _).
      inversion HF as [|x ? args' ? Hx HF']; subst. inversion HF' as [|y ? args'' ? Hy HF'']; subst. inversion HF''; subst.
      now apply implies_good.
    - (* iff *)
      destruct rs as [|[|a ca] [|[|b cb] [|r2 rs']]]; try discriminate.
      destruct (key_var (T OIff args) st) as [k s1] eqn:K. intros [= <- <-].
      split; [apply (key_var_spec _ _ _ _ K)|]. intros M HM HF.
      destruct (key_var_in _ _ _ _ M K HM) as (_ & n & -> & Hin & _).
      inversion HF as [|x ? args' ? Hx HF']; subst. inversion HF' as [|y ? args'' ? Hy HF'']; subst. inversion HF''; subst.
      now apply iff_good.
    - (* symbol *)
      intros [= <- <-]. split; [apply st_le_refl|]. intros M _ _. apply LF; auto.
      unfold bool_symbol. destruct (ty_eqb t TBool); auto.
    - (* function *)
      unfold walk_function. destruct t; try discriminate. cbn beta iota. intros [= <- <-].
      split; [apply st_le_refl|]. intros M _ _. apply LF; auto. destruct (ty_eqb t TBool); auto.
    - (* ite *)
      destruct (existsb is_ph rs) eqn:Eph.
      + intros [= <- <-]. split; [apply st_le_refl|]. intros M _ _. exact Logic.I.
      + destruct rs as [|[|i ci] [|[|a ca] [|[|b cb] [|r3 rs']]]]; try discriminate.
        destruct (key_var (T OIte args) st) as [k s1] eqn:K. intros [= <- <-].
        split; [apply (key_var_spec _ _ _ _ K)|]. intros M HM HF.
        destruct (key_var_in _ _ _ _ M K HM) as (_ & n & -> & Hin & _).
        inversion HF as [|x ? args' ? Hx HF']; subst. inversion HF' as [|y ? args'' ? Hy HF'']; subst.
        inversion HF'' as [|z ? args''' ? Hz HF''']; subst. inversion HF'''; subst.
        now apply ite_good.
  Qed.
End Proofs.
