(* C11, CNF part: theorems about models/Cnf.v (CNFizer, PolarityCNFizer), for every term, every
   manager state and every interpretation.
     sat I cl       every clause of cl has a literal that is true under I
     walk-level invariants (one induction over the term, [cnf_walk_good] / [pol_walk_good]):
       (C) completeness: under the witness [ext I M] (each fresh k_g := truth value of g under I)
           every clause holds and the key has the truth value of the formula;
       (S) soundness: under ANY interpretation satisfying the clauses the key is equivalent to
           the formula (polarity version: implied in the direction of the polarity);
       (K,L) what the keys and literals look like (fresh-symbol literals or terms whose value
           does not depend on the fresh symbols): needed for the top-level clean-up;
       (Sh) every literal is an atom, a negated atom or a Boolean constant.
   The simplifier on theory atoms is the Section variable [asimp]; hypotheses: it preserves the
   truth value under the interpretations of a class [Pi] closed under giving Boolean values to
   Boolean symbols ([asimp_sound]; Pi = all interpretations gives the unconditional theorems,
   Pi = well-sorted interpretations is what C01 proves: proofs/CnfSimp_proofs.v) and - for the
   shape theorem only - returns a literal ([shape_hyp]). *)
From Coq Require Import List ZArith Bool String Lia DecimalString DecimalNat FinFun.
From PySMT.core Require Import Syntax SyntaxLemmas Sem.
From PySMT.models Require Import TypeChecker Oracles Cnf.
From PySMT.proofs Require Import Sets_proofs Coincidence.
Import ListNotations.
Open Scope nat_scope.
Open Scope bool_scope.

(* ------------------------------------------------------------------ truth values *)
Definition tv (I : interp) (t : term) : bool := vbool (eval I t).
Definition csat (I : interp) (c : list term) : bool := existsb (tv I) c.
Definition sat (I : interp) (cl : list (list term)) : bool := forallb (csat I) cl.

Lemma holds_tv I t : holds I t <-> tv I t = true.
Proof.
  unfold holds, tv. split; [intros ->; reflexivity|].
  destruct (eval I t) as [[]| | | | | |]; cbn; intros H; try discriminate; reflexivity.
Qed.

Lemma forallb_map {A B} (f : A -> B) p l : forallb p (map f l) = forallb (fun x => p (f x)) l.
Proof. induction l; cbn; congruence. Qed.
Lemma existsb_map {A B} (f : A -> B) p l : existsb p (map f l) = existsb (fun x => p (f x)) l.
Proof. induction l; cbn; congruence. Qed.

Lemma tv_not I a : tv I (T ONot [a]) = negb (tv I a).
Proof. reflexivity. Qed.
Lemma tv_and I l : tv I (T OAnd l) = forallb (tv I) l.
Proof. unfold tv. cbn. now rewrite forallb_map. Qed.
Lemma tv_or I l : tv I (T OOr l) = existsb (tv I) l.
Proof. unfold tv. cbn. now rewrite existsb_map. Qed.
Lemma tv_implies I a b : tv I (T OImplies [a; b]) = implb (tv I a) (tv I b).
Proof. reflexivity. Qed.
Lemma tv_iff I a b : tv I (T OIff [a; b]) = Bool.eqb (tv I a) (tv I b).
Proof. reflexivity. Qed.
Lemma tv_ite I c a b : tv I (T OIte [c; a; b]) = if tv I c then tv I a else tv I b.
Proof. unfold tv. cbn. destruct (vbool (eval I c)); reflexivity. Qed.
Lemma tv_boolc I b : tv I (TBoolC b) = b.
Proof. reflexivity. Qed.
Lemma tv_sym I n : tv I (TSym n TBool) = vbool (isym I n TBool).
Proof. reflexivity. Qed.

Lemma ctrue_tv I t : ctrue t = true -> tv I t = true.
Proof.
  intros H. destruct t as [o [|x r]]; destruct o; try discriminate;
    match goal with b : bool |- _ => destruct b end; try discriminate; reflexivity.
Qed.
Lemma cfalse_tv I t : cfalse t = true -> tv I t = false.
Proof.
  intros H. destruct t as [o [|x r]]; destruct o; try discriminate;
    match goal with b : bool |- _ => destruct b end; try discriminate; reflexivity.
Qed.

Lemma mk_not_tv I x : tv I (mk_not x) = negb (tv I x).
Proof.
  destruct x as [o args]. destruct o; try reflexivity.
  destruct args as [|y [|z r]]; try reflexivity. cbn [mk_not]. rewrite tv_not, negb_involutive. reflexivity.
Qed.

Lemma existsb_In_ext {A} (p : A -> bool) l l' : (forall x, In x l <-> In x l') -> existsb p l = existsb p l'.
Proof.
  intros H. apply eq_true_iff_eq. rewrite !existsb_exists.
  split; intros (x & Hx & Px); exists x; split; auto; apply H; auto.
Qed.
Lemma forallb_In_ext {A} (p : A -> bool) l l' : (forall x, In x l <-> In x l') -> forallb p l = forallb p l'.
Proof.
  intros H. apply eq_true_iff_eq. rewrite !forallb_forall.
  split; intros G x Hx; apply G, H; auto.
Qed.

Lemma mkclause_In x l : In x (mkclause l) <-> In x l.
Proof. apply (dedupe_In term_eqb term_eqb_eq). Qed.
Lemma csat_mkclause I l : csat I (mkclause l) = csat I l.
Proof. apply existsb_In_ext. intros x. apply mkclause_In. Qed.

Lemma sat_app I a b : sat I (a ++ b) = sat I a && sat I b.
Proof. apply forallb_app. Qed.
Lemma sat_cons I c cl : sat I (c :: cl) = csat I c && sat I cl.
Proof. reflexivity. Qed.
Lemma sat_In I cl c : sat I cl = true -> In c cl -> csat I c = true.
Proof. unfold sat. rewrite forallb_forall. auto. Qed.

(* ------------------------------------------------------------------ fresh names *)
Lemma append_inj p a b : (p ++ a)%string = (p ++ b)%string -> a = b.
Proof. induction p; cbn; intros H; auto. injection H. auto. Qed.
Lemma decimal_inj a b : decimal a = decimal b -> a = b.
Proof.
  unfold decimal. intros H.
  assert (E : Nat.to_uint a = Nat.to_uint b).
  { pose proof (NilEmpty.usu (Nat.to_uint a)) as Ha. pose proof (NilEmpty.usu (Nat.to_uint b)) as Hb.
    rewrite H in Ha. rewrite Ha in Hb. now injection Hb. }
  rewrite <- (Unsigned.of_to a), <- (Unsigned.of_to b). now rewrite E.
Qed.
Lemma fresh_name_inj p a b : fresh_name p a = fresh_name p b -> a = b.
Proof. unfold fresh_name. intros H. apply decimal_inj. eapply append_inj. exact H. Qed.

Lemma mem_string_In x l : mem String.eqb x l = true <-> In x l.
Proof. apply mem_In. intros a b. apply String.eqb_eq. Qed.

Lemma first_unused_spec p used : forall fuel c,
  (exists i, i < fuel /\ ~ In (fresh_name p (c + i)) used) ->
  ~ In (fresh_name p (first_unused p used fuel c)) used.
Proof.
  induction fuel as [|f IH]; intros c (i & Hi & Hn); [lia|].
  cbn. destruct (mem String.eqb (fresh_name p c) used) eqn:E.
  - apply IH. destruct i as [|i].
    + exfalso. apply Hn. rewrite Nat.add_0_r. now apply mem_string_In.
    + exists i. split; [lia|]. now replace (S c + i) with (c + S i) by lia.
  - intros H. apply mem_string_In in H. congruence.
Qed.

Lemma pigeon p used c : exists i, i < S (List.length used) /\ ~ In (fresh_name p (c + i)) used.
Proof.
  destruct (existsb (fun i => negb (mem String.eqb (fresh_name p (c + i)) used)) (seq 0 (S (List.length used)))) eqn:E.
  - apply existsb_exists in E. destruct E as (i & Hi & Hn). apply in_seq in Hi.
    exists i. split; [lia|]. intros H. apply mem_string_In in H. rewrite H in Hn. discriminate.
  - exfalso.
    assert (A : forall i, i < S (List.length used) -> In (fresh_name p (c + i)) used).
    { intros i Hi. apply mem_string_In.
      destruct (mem String.eqb (fresh_name p (c + i)) used) eqn:M; auto.
      assert (X : existsb (fun i => negb (mem String.eqb (fresh_name p (c + i)) used)) (seq 0 (S (List.length used))) = true).
      { apply existsb_exists. exists i. split; [apply in_seq; lia | now rewrite M]. }
      congruence. }
    assert (N : NoDup (map (fun i => fresh_name p (c + i)) (seq 0 (S (List.length used))))).
    { apply Injective_map_NoDup; [|apply seq_NoDup].
      intros a b H. apply fresh_name_inj in H. lia. }
    assert (L : incl (map (fun i => fresh_name p (c + i)) (seq 0 (S (List.length used)))) used).
    { intros x Hx. apply in_map_iff in Hx. destruct Hx as (i & <- & Hi). apply in_seq in Hi. apply A. lia. }
    pose proof (NoDup_incl_length N L) as Hl. rewrite map_length, seq_length in Hl. lia.
Qed.

Lemma new_fresh_spec p m n m' : new_fresh p m = (n, m') ->
  ~ In n (mnames m) /\ mnames m' = mnames m ++ [n].
Proof.
  unfold new_fresh. intros H. injection H as Hn Hm. subst n m'. split; [|reflexivity].
  exact (first_unused_spec p (mnames m) (S (List.length (mnames m))) (fresh_guess m) (pigeon p (mnames m) (fresh_guess m))).
Qed.

(* ------------------------------------------------------------------ association lists *)
Lemma term_eqb_refl t : term_eqb t t = true.
Proof. now apply term_eqb_eq. Qed.

Lemma assoc_term_In t l n : assoc_term t l = Some n -> In (t, n) l.
Proof.
  induction l as [|[g m] r IH]; cbn; [discriminate|].
  destruct (term_eqb t g) eqn:E.
  - apply term_eqb_eq in E. subst. intros [= ->]. auto.
  - auto.
Qed.
Lemma assoc_term_app_l t l D n : assoc_term t l = Some n -> assoc_term t (l ++ D) = Some n.
Proof.
  induction l as [|[g m] r IH]; cbn; [discriminate|]. destruct (term_eqb t g); auto.
Qed.
Lemma assoc_term_app_r t l n : assoc_term t l = None -> assoc_term t (l ++ [(t, n)]) = Some n.
Proof.
  induction l as [|[g m] r IH]; cbn.
  - now rewrite term_eqb_refl.
  - destruct (term_eqb t g); [discriminate|auto].
Qed.

Fixpoint byname (n : string) (M : list (term * string)) : option term :=
  match M with
  | [] => None
  | (g, m) :: r => if String.eqb n m then Some g else byname n r
  end.
Lemma byname_In n M g : byname n M = Some g -> In (g, n) M.
Proof.
  induction M as [|[g' m] r IH]; cbn; [discriminate|].
  destruct (String.eqb n m) eqn:E.
  - apply String.eqb_eq in E. subst. intros [= ->]. auto.
  - auto.
Qed.
Lemma byname_unique M t n : NoDup (map snd M) -> In (t, n) M -> byname n M = Some t.
Proof.
  induction M as [|[g m] r IH]; cbn; [contradiction|].
  intros Hnd [E|Hin].
  - injection E as -> ->. now rewrite String.eqb_refl.
  - inversion Hnd as [|? ? Hnot Hnd']; subst.
    destruct (String.eqb n m) eqn:E.
    + apply String.eqb_eq in E. subst. exfalso. apply Hnot.
      change m with (snd (t, m)). now apply in_map.
    + auto.
Qed.

(* ------------------------------------------------------------------ states *)
Definition st_wf (st : cstate) : Prop :=
  NoDup (map snd (intro st)) /\ incl (map snd (intro st)) (mnames (mgr st)).
Definition st_le (st st' : cstate) : Prop :=
  (exists D, intro st' = intro st ++ D /\ forall g n, In (g, n) D -> ~ In n (mnames (mgr st))) /\
  incl (mnames (mgr st)) (mnames (mgr st')) /\ (st_wf st -> st_wf st').
Definition extends (A M : list (term * string)) : Prop := exists D, M = A ++ D.

Lemma st_le_refl st : st_le st st.
Proof.
  split; [|split; auto using incl_refl]. exists []. split; [now rewrite app_nil_r | intros ? ? []].
Qed.
Lemma st_le_trans a b c : st_le a b -> st_le b c -> st_le a c.
Proof.
  intros ((D1 & E1 & F1) & N1 & W1) ((D2 & E2 & F2) & N2 & W2).
  split; [|split; [eapply incl_tran; eauto | auto]].
  exists (D1 ++ D2). split; [now rewrite E2, E1, app_assoc|].
  intros g n Hin. apply in_app_or in Hin. destruct Hin as [H|H]; [eauto|].
  intros Hn. apply (F2 g n H). auto.
Qed.
Lemma st_le_extends st st' M : st_le st st' -> extends (intro st') M -> extends (intro st) M.
Proof. intros ((D & E & _) & _) (D' & ->). exists (D ++ D'). now rewrite E, app_assoc. Qed.
Lemma extends_refl A : extends A A.
Proof. exists []. now rewrite app_nil_r. Qed.

(* ------------------------------------------------------------------ the witness interpretation *)
(* each fresh symbol k_g gets the truth value of g under I *)
Definition ext (I : interp) (M : list (term * string)) : interp :=
  {| isym := fun n ty => if ty_eqb ty TBool
                         then match byname n M with Some g => VBool (tv I g) | None => isym I n ty end
                         else isym I n ty;
     ifun := ifun I; rdiv0 := rdiv0 I; idiv0 := idiv0 I |}.

Lemma tv_ext_key I M t n : NoDup (map snd M) -> In (t, n) M -> tv (ext I M) (TSym n TBool) = tv I t.
Proof. intros Hnd Hin. rewrite tv_sym. cbn. now rewrite (byname_unique M t n Hnd Hin). Qed.

(* interpretations that differ only on Boolean symbols named in N *)
Definition same_off (N : list string) (J J' : interp) : Prop :=
  ifun J = ifun J' /\ rdiv0 J = rdiv0 J' /\ idiv0 J = idiv0 J' /\
  forall n ty, ~ (ty = TBool /\ In n N) -> isym J n ty = isym J' n ty.
Definition stable (Pi : interp -> Prop) (N : list string) (l : term) : Prop :=
  forall J J', Pi J -> Pi J' -> same_off N J J' -> tv J l = tv J' l.
Definition symlit (N : list string) (l : term) : Prop :=
  exists n, In n N /\ (l = TSym n TBool \/ l = T ONot [TSym n TBool]).
Definition litok (Pi : interp -> Prop) (N : list string) (l : term) : Prop := symlit N l \/ stable Pi N l.

Lemma same_off_eval N J J' t : same_off N J J' -> (forall n, In n N -> ~ In (n, TBool) (fv t)) ->
  eval J t = eval J' t.
Proof.
  intros (A & B & C & D) Hf. apply coincidence_gen with (t := t). repeat split; auto.
  - intros n ty Hin. apply D. intros [-> Hn]. exact (Hf n Hn Hin).
  - intros n ty _. now rewrite A.
Qed.
Lemma ext_same_off I M : same_off (map snd M) (ext I M) I.
Proof.
  repeat split; auto. intros n ty Hn. cbn.
  destruct (ty_eqb ty TBool) eqn:E; auto. apply ty_eqb_eq in E. subst.
  destruct (byname n M) as [g|] eqn:B; auto. exfalso. apply Hn. split; auto.
  apply byname_In in B. change n with (snd (g, n)). now apply in_map.
Qed.

(* leaves of the Boolean structure: the atoms *)
Fixpoint leaves (t : term) : list term :=
  match t with T o args => if is_connective o then flat_map leaves args else [t] end.
Lemma leaves_arg o args x a : is_connective o = true -> In x args -> In a (leaves x) -> In a (leaves (T o args)).
Proof. intros Ho Hx Ha. cbn. rewrite Ho. apply in_flat_map. eauto. Qed.
Lemma leaves_fv : forall t a, In a (leaves t) -> forall v, In v (fv a) -> In v (fv t).
Proof.
  induction t as [o args IH] using term_ind'. intros a Ha v Hv. cbn [leaves] in Ha.
  destruct (is_connective o) eqn:Ho.
  - apply in_flat_map in Ha. destruct Ha as (x & Hx & Hax).
    rewrite Forall_forall in IH. pose proof (IH x Hx a Hax v Hv) as Hvx.
    apply (fv_arg_incl o args x Hx); auto. destruct o; try discriminate; exact Logic.I.
  - destruct Ha as [<-|[]]. exact Hv.
Qed.

Definition atomic (t : term) : bool := negb (is_connective (top t)).
(* an atom or a negated atom (Boolean constants count as atoms) *)
Definition litc (l : term) : bool :=
  match l with T ONot [a] => atomic a | _ => atomic l end.

Lemma NoDup_snoc {A} (l : list A) x : NoDup l -> ~ In x l -> NoDup (l ++ [x]).
Proof.
  induction l as [|y r IH]; cbn; intros Hnd Hx.
  - constructor; [intros []|constructor].
  - inversion Hnd as [|? ? Hy Hr]; subst. constructor.
    + intros H. apply in_app_or in H. destruct H as [H|[H|[]]]; [auto | subst; apply Hx; auto].
    + apply IH; auto.
Qed.

Section Proofs.
  Variable asimp : term -> term.
  (* the interpretations the simplifier is sound for (all of them, or the well-sorted ones):
     closed under the two ways the proofs build interpretations *)
  Variable Pi : interp -> Prop.
  Hypothesis asimp_sound : forall I t, Pi I -> tv I (asimp t) = tv I t.
  Hypothesis Pi_ext : forall I M, Pi I -> Pi (ext I M).
  Hypothesis Pi_bind : forall J n b, Pi J -> Pi (bind1 J (n, TBool) (VBool b)).

  Notation simplify := (simplify asimp).
  Notation neg_lit := (neg_lit asimp).

  Lemma negate_tv I x : tv I (negate x) = negb (tv I x).
  Proof.
    destruct x as [o args]. destruct o; try reflexivity.
    - destruct args as [|y [|z r]]; try reflexivity. cbn [negate]. now rewrite tv_not, negb_involutive.
    - destruct args as [|y r]; reflexivity.
  Qed.
  Lemma simplify_tv I : Pi I -> forall t, tv I (simplify t) = tv I t.
  Proof.
    intros HP. induction t as [o args IH] using term_ind'. destruct o; cbn [Cnf.simplify]; auto.
    - destruct args as [|a [|b r]]; auto. inversion IH as [|? ? Ha _]; subst.
      now rewrite negate_tv, Ha, tv_not.
    - destruct args; auto.
  Qed.
  Lemma neg_lit_tv I a : Pi I -> tv I (neg_lit a) = negb (tv I a).
  Proof. intros HP. unfold Cnf.neg_lit. now rewrite simplify_tv, mk_not_tv. Qed.

  Lemma neg_lit_sym n : neg_lit (TSym n TBool) = T ONot [TSym n TBool].
  Proof. reflexivity. Qed.
  Lemma neg_lit_nsym n : neg_lit (T ONot [TSym n TBool]) = TSym n TBool.
  Proof. reflexivity. Qed.

  Lemma symlit_neg N a : symlit N a -> symlit N (neg_lit a) /\ symlit N (mk_not a).
  Proof.
    intros (n & Hn & [->| ->]); split; exists n; split; auto.
  Qed.
  Lemma stable_neg N a : stable Pi N a -> stable Pi N (neg_lit a) /\ stable Pi N (mk_not a).
  Proof.
    intros H. split; intros J J' HP HP' HJ; rewrite ?neg_lit_tv, ?mk_not_tv by assumption; f_equal; auto.
  Qed.
  Lemma litok_neg N a : litok Pi N a -> litok Pi N (neg_lit a) /\ litok Pi N (mk_not a).
  Proof.
    intros [H|H].
    - destruct (symlit_neg N a H). split; left; auto.
    - destruct (stable_neg N a H). split; right; auto.
  Qed.
  Lemma symlit_not_const N a : symlit N a -> ctrue a = false /\ cfalse a = false.
  Proof. intros (n & _ & [->| ->]); split; reflexivity. Qed.

  (* ---------------------------------------------------------------- key_var *)
  Lemma key_var_spec f st k st' : key_var f st = (k, st') ->
    st_le st st' /\ exists n, k = TSym n TBool /\ assoc_term f (intro st') = Some n.
  Proof.
    unfold key_var. destruct (assoc_term f (intro st)) as [n|] eqn:E.
    - intros [= <- <-]. split; [apply st_le_refl|]. eauto.
    - destruct (new_fresh "FV" (mgr st)) as [n m'] eqn:F. intros [= <- <-].
      apply new_fresh_spec in F. destruct F as [Hfresh Hnames]. split.
      + split; [|split].
        * exists [(f, n)]. split; [reflexivity|]. cbn. intros g n0 [[= _ <-]|[]]. exact Hfresh.
        * cbn. rewrite Hnames. apply incl_appl, incl_refl.
        * intros [Hnd Hin]. split; cbn; rewrite map_app; cbn.
          -- apply NoDup_snoc; auto.
          -- rewrite Hnames. apply incl_app; [apply incl_appl; auto | apply incl_appr, incl_refl].
      + exists n. split; auto. cbn. now apply assoc_term_app_r.
  Qed.

  (* ---------------------------------------------------------------- clause groups as Boolean equations *)
  Lemma sat_flat_snd J (ps : list (term * list (list term))) :
    sat J (flat_map snd ps) = forallb (fun p => sat J (snd p)) ps.
  Proof. induction ps as [|p r IH]; cbn [flat_map forallb]; [reflexivity|]. now rewrite sat_app, IH. Qed.

  Lemma exists_neg J (ps : list (term * list (list term))) : Pi J ->
    existsb (tv J) (map (fun p => neg_lit (fst p)) ps) = negb (forallb (fun p => tv J (fst p)) ps).
  Proof. intros HP. induction ps as [|p r IH]; cbn; auto. now rewrite neg_lit_tv, IH, negb_andb by assumption. Qed.
  Lemma exists_fst J (ps : list (term * list (list term))) :
    existsb (tv J) (map fst ps) = existsb (fun p => tv J (fst p)) ps.
  Proof. apply existsb_map. Qed.

  Lemma sat_and_clauses J k (ps : list (term * list (list term))) : Pi J ->
    sat J (mkclause (k :: map (fun p => neg_lit (fst p)) ps)
           :: flat_map (fun p => mkclause [fst p; nk k] :: snd p) ps)
    = Bool.eqb (tv J k) (forallb (fun p => tv J (fst p)) ps) && forallb (fun p => sat J (snd p)) ps.
  Proof. intros HP.
    rewrite sat_cons, csat_mkclause. cbn [csat existsb]. rewrite exists_neg by assumption.
    assert (E : sat J (flat_map (fun p => mkclause [fst p; nk k] :: snd p) ps)
                = implb (tv J k) (forallb (fun p => tv J (fst p)) ps) && forallb (fun p => sat J (snd p)) ps).
    { unfold clause. induction ps as [|p r IH]; cbn [flat_map forallb app].
      - destruct (tv J k); reflexivity.
      - rewrite sat_cons, sat_app, IH, csat_mkclause. cbn [csat existsb]. unfold nk. rewrite tv_not.
        destruct (tv J k); destruct (tv J (fst p)); destruct (forallb (fun p => tv J (fst p)) r); destruct (sat J (snd p)); destruct (forallb (fun p => sat J (snd p)) r); reflexivity. }
    rewrite E.
    destruct (tv J k); destruct (forallb (fun p => tv J (fst p)) ps); destruct (forallb (fun p => sat J (snd p)) ps); reflexivity.
  Qed.

  Lemma sat_or_clauses J k (ps : list (term * list (list term))) :
    sat J (mkclause (nk k :: map fst ps)
           :: flat_map (fun p => mkclause [k; mk_not (fst p)] :: snd p) ps)
    = Bool.eqb (tv J k) (existsb (fun p => tv J (fst p)) ps) && forallb (fun p => sat J (snd p)) ps.
  Proof.
    rewrite sat_cons, csat_mkclause. cbn [csat existsb]. rewrite exists_fst. unfold nk. rewrite tv_not.
    assert (E : sat J (flat_map (fun p => mkclause [k; mk_not (fst p)] :: snd p) ps)
                = implb (existsb (fun p => tv J (fst p)) ps) (tv J k) && forallb (fun p => sat J (snd p)) ps).
    { unfold clause. induction ps as [|p r IH]; cbn [flat_map forallb existsb app].
      - reflexivity.
      - rewrite sat_cons, sat_app, IH, csat_mkclause. cbn [csat existsb]. rewrite mk_not_tv.
        destruct (tv J k); destruct (tv J (fst p)); destruct (existsb (fun p => tv J (fst p)) r); destruct (sat J (snd p)); destruct (forallb (fun p => sat J (snd p)) r); reflexivity. }
    rewrite E.
    destruct (tv J k); destruct (existsb (fun p => tv J (fst p)) ps); destruct (forallb (fun p => sat J (snd p)) ps); reflexivity.
  Qed.

  (* polarity versions *)
  Lemma sat_pol_and_pos J k (ps : list (term * list (list term))) :
    sat J (map (fun p => mkclause [fst p; nk k]) ps) = implb (tv J k) (forallb (fun p => tv J (fst p)) ps).
  Proof.
    induction ps as [|p r IH]; cbn [map forallb].
    - destruct (tv J k); reflexivity.
    - rewrite sat_cons, IH, csat_mkclause. cbn [csat existsb]. unfold nk. rewrite tv_not.
      destruct (tv J k); destruct (tv J (fst p)); destruct (forallb (fun p => tv J (fst p)) r); reflexivity.
  Qed.
  Lemma sat_pol_and_neg J k (ps : list (term * list (list term))) : Pi J ->
    sat J [mkclause (k :: map (fun p => neg_lit (fst p)) ps)] = implb (forallb (fun p => tv J (fst p)) ps) (tv J k).
  Proof. intros HP.
    cbn [sat forallb]. rewrite csat_mkclause. cbn [csat existsb]. rewrite exists_neg by assumption.
    destruct (tv J k); destruct (forallb (fun p => tv J (fst p)) ps); reflexivity.
  Qed.
  Lemma sat_pol_or_pos J k (ps : list (term * list (list term))) :
    sat J [mkclause (nk k :: map fst ps)] = implb (tv J k) (existsb (fun p => tv J (fst p)) ps).
  Proof.
    cbn [sat forallb]. rewrite csat_mkclause. cbn [csat existsb]. rewrite exists_fst. unfold nk. rewrite tv_not.
    destruct (tv J k); destruct (existsb (fun p => tv J (fst p)) ps); reflexivity.
  Qed.
  Lemma sat_pol_or_neg J k (ps : list (term * list (list term))) : Pi J ->
    sat J (map (fun p => mkclause [k; neg_lit (fst p)]) ps) = implb (existsb (fun p => tv J (fst p)) ps) (tv J k).
  Proof. intros HP.
    induction ps as [|p r IH]; cbn [map existsb].
    - reflexivity.
    - rewrite sat_cons, IH, csat_mkclause. cbn [csat existsb]. rewrite neg_lit_tv by assumption.
      destruct (tv J k); destruct (tv J (fst p)); destruct (existsb (fun p => tv J (fst p)) r); reflexivity.
  Qed.

  (* fixed-arity groups: normalise [sat] of a concrete clause list to a Boolean expression *)
  Ltac norm_sat :=
    repeat rewrite sat_app; cbn [sat forallb]; repeat rewrite csat_mkclause; cbn [csat existsb];
    unfold nk; repeat (rewrite ?neg_lit_tv, ?tv_not by assumption).

  Lemma sat_implies J k a b ca cb : Pi J ->
    sat J (ca ++ cb ++ [mkclause [neg_lit a; b; nk k]; mkclause [a; k]; mkclause [neg_lit b; k]])
    = sat J ca && sat J cb && Bool.eqb (tv J k) (implb (tv J a) (tv J b)).
  Proof. intros HP. norm_sat. fold (sat J ca) (sat J cb). destruct (sat J ca); destruct (sat J cb); destruct (tv J k); destruct (tv J a); destruct (tv J b); reflexivity. Qed.
  Lemma sat_iff J k a b ca cb : Pi J ->
    sat J (ca ++ cb ++ [mkclause [neg_lit a; neg_lit b; k]; mkclause [neg_lit a; b; nk k];
                        mkclause [a; neg_lit b; nk k]; mkclause [a; b; k]])
    = sat J ca && sat J cb && Bool.eqb (tv J k) (Bool.eqb (tv J a) (tv J b)).
  Proof. intros HP. norm_sat. fold (sat J ca) (sat J cb). destruct (sat J ca); destruct (sat J cb); destruct (tv J k); destruct (tv J a); destruct (tv J b); reflexivity. Qed.
  Lemma sat_ite J k i a b ci ca cb : Pi J ->
    sat J (ci ++ ca ++ cb ++ [mkclause [neg_lit i; neg_lit a; k]; mkclause [neg_lit i; a; nk k];
                              mkclause [i; neg_lit b; k]; mkclause [i; b; nk k]])
    = sat J ci && sat J ca && sat J cb && Bool.eqb (tv J k) (if tv J i then tv J a else tv J b).
  Proof. intros HP.
    norm_sat. fold (sat J ci) (sat J ca) (sat J cb).
    destruct (sat J ci); destruct (sat J ca); destruct (sat J cb); destruct (tv J k); destruct (tv J i); destruct (tv J a); destruct (tv J b); reflexivity.
  Qed.

  (* ---------------------------------------------------------------- the walk invariant *)
  Definition lit_closed (P : term -> Prop) : Prop := forall a, P a -> P (neg_lit a) /\ P (mk_not a).
  (* every literal produced satisfies any predicate that holds of the fresh-symbol literals, the
     Boolean constants and the atoms of the formula and is closed under the two negations *)
  Definition LitsOk (M : list (term * string)) (t key : term) (cl : list (list term)) : Prop :=
    forall P : term -> Prop, lit_closed P ->
      (forall n, In n (map snd M) -> P (TSym n TBool) /\ P (T ONot [TSym n TBool])) ->
      P TTrue -> P TFalse -> (forall a, In a (leaves t) -> P a) ->
      P key /\ Forall (Forall P) cl.
  Definition leaf_stable (I : interp) (M : list (term * string)) (t : term) : Prop :=
    forall a, In a (leaves t) -> tv (ext I M) a = tv I a.

  Definition Good (M : list (term * string)) (t : term) (r : res) : Prop :=
    match r with
    | PH => True
    | R key cl =>
        (forall I, Pi I -> NoDup (map snd M) -> leaf_stable I M t ->
                   sat (ext I M) cl = true /\ tv (ext I M) key = tv I t) /\
        (forall J, Pi J -> sat J cl = true -> tv J key = tv J t) /\
        (cl = [] \/ symlit (map snd M) key) /\
        LitsOk M t key cl
    end.

  Lemma leaf_stable_arg I M o args x : is_connective o = true -> In x args ->
    leaf_stable I M (T o args) -> leaf_stable I M x.
  Proof. intros Ho Hx H a Ha. apply H. eapply leaves_arg; eauto. Qed.

  Lemma unpack_Forall2 (G : term -> res -> Prop) args rs ps : unpack rs = Some ps -> Forall2 G args rs ->
    Forall2 (fun x p => G x (R (fst p) (snd p))) args ps.
  Proof.
    intros Hu H. revert ps Hu. induction H as [|x r args rs Hxr H IH]; intros ps Hu; cbn in Hu.
    - injection Hu as <-. constructor.
    - destruct r as [|k c]; [discriminate|]. destruct (unpack rs) as [l|]; [|discriminate].
      injection Hu as <-. constructor; auto.
  Qed.
  Lemma Forall2_In_r {A B} (Rel : A -> B -> Prop) l l' y : Forall2 Rel l l' -> In y l' -> exists x, In x l /\ Rel x y.
  Proof.
    induction 1 as [|a b l l' Hab H IH]; cbn; [intros []|].
    intros [<-|Hy]; [eauto|]. destruct (IH Hy) as (x & Hx & Hr). eauto.
  Qed.
  Lemma Forall2_In_l {A B} (Rel : A -> B -> Prop) l l' x : Forall2 Rel l l' -> In x l -> exists y, In y l' /\ Rel x y.
  Proof.
    induction 1 as [|a b l l' Hab H IH]; cbn; [intros []|].
    intros [<-|Hy]; [eauto|]. destruct (IH Hy) as (y & Hy' & Hr). eauto.
  Qed.

  (* children: keys have the children's values (completeness direction) *)
  Lemma children_C (E I : interp) args (ps : list (term * list (list term))) :
    Forall2 (fun x p => sat E (snd p) = true /\ tv E (fst p) = tv I x) args ps ->
    forallb (fun p => sat E (snd p)) ps = true /\
    forallb (fun p => tv E (fst p)) ps = forallb (tv I) args /\
    existsb (fun p => tv E (fst p)) ps = existsb (tv I) args.
  Proof.
    induction 1 as [|x p args ps [H1 H2] H IH]; cbn; auto.
    destruct IH as (A & B & C). now rewrite H1, H2, A, B, C.
  Qed.
  Lemma children_S (J : interp) args (ps : list (term * list (list term))) :
    Forall2 (fun x p => sat J (snd p) = true -> tv J (fst p) = tv J x) args ps ->
    forallb (fun p => sat J (snd p)) ps = true ->
    forallb (fun p => tv J (fst p)) ps = forallb (tv J) args /\
    existsb (fun p => tv J (fst p)) ps = existsb (tv J) args.
  Proof.
    induction 1 as [|x p args ps H1 H IH]; cbn; auto.
    intros Hs. apply andb_true_iff in Hs. destruct Hs as [Hp Hr].
    destruct (IH Hr) as (B & C). now rewrite (H1 Hp), B, C.
  Qed.

  Lemma Forall_mkclause (P : term -> Prop) l : Forall P l -> Forall P (mkclause l).
  Proof. rewrite !Forall_forall. intros H x Hx. apply H. now apply mkclause_In. Qed.

  Lemma In_names (M : list (term * string)) (t : term) n : In (t, n) M -> In n (map snd M).
  Proof. intros H. change n with (snd (t, n)). now apply in_map. Qed.

  (* facts about the children of an n-ary node that every case needs *)
  Lemma children_lits M o args (ps : list (term * list (list term))) (P : term -> Prop) :
    is_connective o = true ->
    Forall2 (fun x p => Good M x (R (fst p) (snd p))) args ps ->
    lit_closed P ->
    (forall n, In n (map snd M) -> P (TSym n TBool) /\ P (T ONot [TSym n TBool])) ->
    P TTrue -> P TFalse -> (forall a, In a (leaves (T o args)) -> P a) ->
    forall p, In p ps -> P (fst p) /\ Forall (Forall P) (snd p).
  Proof.
    intros Ho HF Hc Hs HT HFa Hl p Hp.
    destruct (Forall2_In_r _ _ _ _ HF Hp) as (x & Hx & (_ & _ & _ & HL)).
    apply HL; auto. intros a Ha. apply Hl. eapply leaves_arg; eauto.
  Qed.

  Lemma and_good M args (ps : list (term * list (list term))) n :
    In (T OAnd args, n) M ->
    Forall2 (fun x p => Good M x (R (fst p) (snd p))) args ps ->
    Good M (T OAnd args)
         (R (TSym n TBool) (mkclause (TSym n TBool :: map (fun p => neg_lit (fst p)) ps)
                            :: flat_map (fun p => mkclause [fst p; nk (TSym n TBool)] :: snd p) ps)).
  Proof.
    intros Hin HF. unfold Good. split; [|split; [|split]].
    - intros I HPI Hnd Hls. pose proof (Pi_ext I M HPI) as HPE. rewrite sat_and_clauses by assumption. rewrite (tv_ext_key I M _ n Hnd Hin), tv_and.
      assert (HC : Forall2 (fun x p => sat (ext I M) (snd p) = true /\ tv (ext I M) (fst p) = tv I x) args ps).
      { clear Hin. induction HF as [|x p args ps Hxp HF IH]; constructor.
        - destruct Hxp as (C & _). apply C; auto. eapply leaf_stable_arg; eauto; [reflexivity|now left].
        - apply IH. intros a Ha. apply Hls. cbn in *. apply in_or_app. now right. }
      destruct (children_C _ _ _ _ HC) as (A & B & _). rewrite A, B, eqb_reflx. auto.
    - intros J HPJ Hs. rewrite sat_and_clauses in Hs by assumption. apply andb_true_iff in Hs. destruct Hs as [He Hc].
      apply eqb_prop in He. rewrite He, tv_and.
      apply (children_S J args ps); auto.
      clear - HF HPJ. induction HF as [|x p args ps Hxp HF IH]; constructor; auto.
      destruct Hxp as (_ & S & _). exact (S J HPJ).
    - right. exists n. split; [eapply In_names; eauto | auto].
    - intros P Hc Hs HT HFa Hl. destruct (Hs n (In_names _ _ _ Hin)) as [Pk Pnk]. split; auto.
      pose proof (children_lits M OAnd args ps P eq_refl HF Hc Hs HT HFa Hl) as Hch.
      constructor.
      + apply Forall_mkclause. constructor; auto. apply Forall_forall. intros l Hl'.
        apply in_map_iff in Hl'. destruct Hl' as (p & <- & Hp). apply Hc, Hch, Hp.
      + apply Forall_forall. intros c Hcl. apply in_flat_map in Hcl. destruct Hcl as (p & Hp & [<-|Hcp]).
        * apply Forall_mkclause. repeat constructor; auto. apply Hch, Hp.
        * destruct (Hch p Hp) as [_ Hall]. rewrite Forall_forall in Hall. auto.
  Qed.

  Lemma or_good M args (ps : list (term * list (list term))) n :
    In (T OOr args, n) M ->
    Forall2 (fun x p => Good M x (R (fst p) (snd p))) args ps ->
    Good M (T OOr args)
         (R (TSym n TBool) (mkclause (nk (TSym n TBool) :: map fst ps)
                            :: flat_map (fun p => mkclause [TSym n TBool; mk_not (fst p)] :: snd p) ps)).
  Proof.
    intros Hin HF. unfold Good. split; [|split; [|split]].
    - intros I HPI Hnd Hls. pose proof (Pi_ext I M HPI) as HPE. rewrite sat_or_clauses by assumption. rewrite (tv_ext_key I M _ n Hnd Hin), tv_or.
      assert (HC : Forall2 (fun x p => sat (ext I M) (snd p) = true /\ tv (ext I M) (fst p) = tv I x) args ps).
      { clear Hin. induction HF as [|x p args ps Hxp HF IH]; constructor.
        - destruct Hxp as (C & _). apply C; auto. eapply leaf_stable_arg; eauto; [reflexivity|now left].
        - apply IH. intros a Ha. apply Hls. cbn in *. apply in_or_app. now right. }
      destruct (children_C _ _ _ _ HC) as (A & _ & B). rewrite A, B, eqb_reflx. auto.
    - intros J HPJ Hs. rewrite sat_or_clauses in Hs. apply andb_true_iff in Hs. destruct Hs as [He Hc].
      apply eqb_prop in He. rewrite He, tv_or.
      apply (children_S J args ps); auto.
      clear - HF HPJ. induction HF as [|x p args ps Hxp HF IH]; constructor; auto.
      destruct Hxp as (_ & S & _). exact (S J HPJ).
    - right. exists n. split; [eapply In_names; eauto | auto].
    - intros P Hc Hs HT HFa Hl. destruct (Hs n (In_names _ _ _ Hin)) as [Pk Pnk]. split; auto.
      pose proof (children_lits M OOr args ps P eq_refl HF Hc Hs HT HFa Hl) as Hch.
      constructor.
      + apply Forall_mkclause. constructor; auto. apply Forall_forall. intros l Hl'.
        apply in_map_iff in Hl'. destruct Hl' as (p & <- & Hp). apply Hch, Hp.
      + apply Forall_forall. intros c Hcl. apply in_flat_map in Hcl. destruct Hcl as (p & Hp & [<-|Hcp]).
        * apply Forall_mkclause. repeat constructor; auto. apply Hc, Hch, Hp.
        * destruct (Hch p Hp) as [_ Hall]. rewrite Forall_forall in Hall. auto.
  Qed.

  Lemma Forall_cl_app (P : term -> Prop) a b : Forall (Forall P) a -> Forall (Forall P) b -> Forall (Forall P) (a ++ b).
  Proof. intros. apply Forall_app. auto. Qed.

  Lemma not_good M x a c :
    Good M x (R a c) ->
    Good M (T ONot [x]) (if ctrue a then R TFalse [] else if cfalse a then R TTrue [] else R (neg_lit a) c).
  Proof.
    intros (C & S & K & L).
    assert (Hls : forall I, leaf_stable I M (T ONot [x]) -> leaf_stable I M x).
    { intros I H. exact (leaf_stable_arg I M ONot [x] x eq_refl (or_introl eq_refl) H). }
    assert (Hlv : forall a0, In a0 (leaves x) -> In a0 (leaves (T ONot [x]))).
    { intros a0 H. exact (leaves_arg ONot [x] x a0 eq_refl (or_introl eq_refl) H). }
    destruct (ctrue a) eqn:Et; [|destruct (cfalse a) eqn:Ef].
    - assert (c = []) as ->. { destruct K as [|K]; auto. apply symlit_not_const in K. destruct K. congruence. }
      split; [|split; [|split]].
      + intros I HPI Hnd Hl. pose proof (Pi_ext I M HPI) as HPE. split; auto. destruct (C I HPI Hnd (Hls I Hl)) as [_ Ha].
        rewrite tv_not, <- Ha, (ctrue_tv _ _ Et). reflexivity.
      + intros J HPJ _. rewrite tv_not, <- (S J HPJ eq_refl), (ctrue_tv _ _ Et). reflexivity.
      + now left.
      + intros P _ _ _ HF _. split; auto.
    - assert (c = []) as ->. { destruct K as [|K]; auto. apply symlit_not_const in K. destruct K. congruence. }
      split; [|split; [|split]].
      + intros I HPI Hnd Hl. pose proof (Pi_ext I M HPI) as HPE. split; auto. destruct (C I HPI Hnd (Hls I Hl)) as [_ Ha].
        rewrite tv_not, <- Ha, (cfalse_tv _ _ Ef). reflexivity.
      + intros J HPJ _. rewrite tv_not, <- (S J HPJ eq_refl), (cfalse_tv _ _ Ef). reflexivity.
      + now left.
      + intros P _ _ HT _ _. split; auto.
    - split; [|split; [|split]].
      + intros I HPI Hnd Hl. pose proof (Pi_ext I M HPI) as HPE. destruct (C I HPI Hnd (Hls I Hl)) as [Hc Ha]. split; auto.
        rewrite neg_lit_tv by assumption. now rewrite tv_not, Ha.
      + intros J HPJ Hs. rewrite neg_lit_tv by assumption. now rewrite tv_not, (S J HPJ Hs).
      + destruct K as [|K]; auto. right. now apply symlit_neg.
      + intros P Hc Hs HT HF Hl. destruct (L P Hc Hs HT HF (fun a0 H => Hl a0 (Hlv a0 H))) as [Pa Pc].
        split; auto. now apply Hc.
  Qed.

  Lemma pass_good M o x r : is_connective o = true -> (forall I, tv I (T o [x]) = tv I x) ->
    Good M x r -> Good M (T o [x]) r.
  Proof.
    intros Ho Htv H. destruct r as [|key cl]; auto. destruct H as (C & S & K & L).
    split; [|split; [|split]]; auto.
    - intros I HPI Hnd Hl. pose proof (Pi_ext I M HPI) as HPE. rewrite Htv. apply C; auto. eapply leaf_stable_arg; eauto. now left.
    - intros J HPJ Hs. rewrite Htv. auto.
    - intros P Hc Hs HT HF Hl. apply L; auto. intros a Ha. apply Hl. eapply leaves_arg; eauto. now left.
  Qed.

  Lemma leaf_good M o args : is_connective o = false -> Good M (T o args) (R (T o args) []).
  Proof.
    intros Ho. split; [|split; [|split]]; auto.
    - intros I _ _ Hl. split; auto. apply Hl. cbn. rewrite Ho. now left.
    - intros P _ _ _ _ Hl. split; auto. apply Hl. cbn. rewrite Ho. now left.
  Qed.

  Ltac child_stable Hl :=
    eapply leaf_stable_arg; [| |exact Hl]; [reflexivity | cbn; tauto].
  Ltac lits_tac :=
    repeat (apply Forall_cl_app; auto); repeat (constructor; auto); apply Forall_mkclause; repeat (constructor; auto).

  Lemma implies_good M x y a b ca cb n :
    In (T OImplies [x; y], n) M -> Good M x (R a ca) -> Good M y (R b cb) ->
    Good M (T OImplies [x; y])
         (R (TSym n TBool) (ca ++ cb ++ [mkclause [neg_lit a; b; nk (TSym n TBool)]; mkclause [a; TSym n TBool];
                                         mkclause [neg_lit b; TSym n TBool]])).
  Proof.
    intros Hin (Ca & Sa & _ & La) (Cb & Sb & _ & Lb). split; [|split; [|split]].
    - intros I HPI Hnd Hl. pose proof (Pi_ext I M HPI) as HPE. rewrite sat_implies by assumption. rewrite (tv_ext_key I M _ n Hnd Hin), tv_implies.
      destruct (Ca I HPI Hnd) as [-> ->]; [child_stable Hl|]. destruct (Cb I HPI Hnd) as [-> ->]; [child_stable Hl|].
      now rewrite eqb_reflx.
    - intros J HPJ Hs. rewrite sat_implies in Hs by assumption. apply andb_true_iff in Hs. destruct Hs as [Hs He].
      apply andb_true_iff in Hs. destruct Hs as [Ha Hb]. apply eqb_prop in He.
      now rewrite He, tv_implies, (Sa J HPJ Ha), (Sb J HPJ Hb).
    - right. exists n. split; [eapply In_names; eauto|auto].
    - intros P Hc Hs HT HF Hl. destruct (Hs n (In_names _ _ _ Hin)) as [Pk Pnk].
      destruct (La P Hc Hs HT HF) as [Pa Pca]; [intros a0 H0; apply Hl; eapply leaves_arg; eauto; cbn; tauto|].
      destruct (Lb P Hc Hs HT HF) as [Pb Pcb]; [intros a0 H0; apply Hl; eapply leaves_arg; eauto; cbn; tauto|].
      pose proof (Hc a Pa) as [Pna _]. pose proof (Hc b Pb) as [Pnb _].
      split; auto. lits_tac.
  Qed.

  Lemma iff_good M x y a b ca cb n :
    In (T OIff [x; y], n) M -> Good M x (R a ca) -> Good M y (R b cb) ->
    Good M (T OIff [x; y])
         (R (TSym n TBool) (ca ++ cb ++ [mkclause [neg_lit a; neg_lit b; TSym n TBool]; mkclause [neg_lit a; b; nk (TSym n TBool)];
                                         mkclause [a; neg_lit b; nk (TSym n TBool)]; mkclause [a; b; TSym n TBool]])).
  Proof.
    intros Hin (Ca & Sa & _ & La) (Cb & Sb & _ & Lb). split; [|split; [|split]].
    - intros I HPI Hnd Hl. pose proof (Pi_ext I M HPI) as HPE. rewrite sat_iff by assumption. rewrite (tv_ext_key I M _ n Hnd Hin), tv_iff.
      destruct (Ca I HPI Hnd) as [-> ->]; [child_stable Hl|]. destruct (Cb I HPI Hnd) as [-> ->]; [child_stable Hl|].
      now rewrite eqb_reflx.
    - intros J HPJ Hs. rewrite sat_iff in Hs by assumption. apply andb_true_iff in Hs. destruct Hs as [Hs He].
      apply andb_true_iff in Hs. destruct Hs as [Ha Hb]. apply eqb_prop in He.
      now rewrite He, tv_iff, (Sa J HPJ Ha), (Sb J HPJ Hb).
    - right. exists n. split; [eapply In_names; eauto|auto].
    - intros P Hc Hs HT HF Hl. destruct (Hs n (In_names _ _ _ Hin)) as [Pk Pnk].
      destruct (La P Hc Hs HT HF) as [Pa Pca]; [intros a0 H0; apply Hl; eapply leaves_arg; eauto; cbn; tauto|].
      destruct (Lb P Hc Hs HT HF) as [Pb Pcb]; [intros a0 H0; apply Hl; eapply leaves_arg; eauto; cbn; tauto|].
      pose proof (Hc a Pa) as [Pna _]. pose proof (Hc b Pb) as [Pnb _].
      split; auto. lits_tac.
  Qed.

  Lemma ite_good M x y z i a b ci ca cb n :
    In (T OIte [x; y; z], n) M -> Good M x (R i ci) -> Good M y (R a ca) -> Good M z (R b cb) ->
    Good M (T OIte [x; y; z])
         (R (TSym n TBool) (ci ++ ca ++ cb ++
                            [mkclause [neg_lit i; neg_lit a; TSym n TBool]; mkclause [neg_lit i; a; nk (TSym n TBool)];
                             mkclause [i; neg_lit b; TSym n TBool]; mkclause [i; b; nk (TSym n TBool)]])).
  Proof.
    intros Hin (Ci & Si & _ & Li) (Ca & Sa & _ & La) (Cb & Sb & _ & Lb). split; [|split; [|split]].
    - intros I HPI Hnd Hl. pose proof (Pi_ext I M HPI) as HPE. rewrite sat_ite by assumption. rewrite (tv_ext_key I M _ n Hnd Hin), tv_ite.
      destruct (Ci I HPI Hnd) as [-> ->]; [child_stable Hl|].
      destruct (Ca I HPI Hnd) as [-> ->]; [child_stable Hl|]. destruct (Cb I HPI Hnd) as [-> ->]; [child_stable Hl|].
      now rewrite eqb_reflx.
    - intros J HPJ Hs. rewrite sat_ite in Hs by assumption. apply andb_true_iff in Hs. destruct Hs as [Hs He].
      apply andb_true_iff in Hs. destruct Hs as [Hs Hb]. apply andb_true_iff in Hs. destruct Hs as [Hi Ha].
      apply eqb_prop in He. now rewrite He, tv_ite, (Si J HPJ Hi), (Sa J HPJ Ha), (Sb J HPJ Hb).
    - right. exists n. split; [eapply In_names; eauto|auto].
    - intros P Hc Hs HT HF Hl. destruct (Hs n (In_names _ _ _ Hin)) as [Pk Pnk].
      destruct (Li P Hc Hs HT HF) as [Pii Pci]; [intros a0 H0; apply Hl; eapply leaves_arg; eauto; cbn; tauto|].
      destruct (La P Hc Hs HT HF) as [Pa Pca]; [intros a0 H0; apply Hl; eapply leaves_arg; eauto; cbn; tauto|].
      destruct (Lb P Hc Hs HT HF) as [Pb Pcb]; [intros a0 H0; apply Hl; eapply leaves_arg; eauto; cbn; tauto|].
      pose proof (Hc i Pii) as [Pni _]. pose proof (Hc a Pa) as [Pna _]. pose proof (Hc b Pb) as [Pnb _].
      split; auto. lits_tac.
  Qed.

  (* ---------------------------------------------------------------- the walk *)
  Lemma key_var_in f st k st' M : key_var f st = (k, st') -> extends (intro st') M ->
    st_le st st' /\ exists n, k = TSym n TBool /\ In (f, n) M /\ assoc_term f M = Some n.
  Proof.
    intros H (D & ->). destruct (key_var_spec _ _ _ _ H) as (Hle & n & -> & Ha).
    split; auto. exists n. split; auto. split.
    - apply in_or_app. left. now apply assoc_term_In.
    - now apply assoc_term_app_l.
  Qed.

  Lemma walk_list_good (w : term -> cstate -> option (res * cstate))
        (G : list (term * string) -> term -> res -> Prop) l :
    Forall (fun x => forall st r st', w x st = Some (r, st') ->
                     st_le st st' /\ forall M, extends (intro st') M -> G M x r) l ->
    forall st rs st1, walk_list w l st = Some (rs, st1) ->
    st_le st st1 /\ forall M, extends (intro st1) M -> Forall2 (G M) l rs.
  Proof.
    induction 1 as [|x l Hx Hl IH]; intros st rs st1; cbn.
    - intros [= <- <-]. split; [apply st_le_refl|]. constructor.
    - destruct (walk_list w l st) as [[rs0 s0]|] eqn:E; [|discriminate].
      destruct (w x s0) as [[rx s2]|] eqn:Ex; [|discriminate]. intros [= <- <-].
      destruct (IH _ _ _ E) as [L1 F1]. destruct (Hx _ _ _ Ex) as [L2 F2].
      split; [eapply st_le_trans; eauto|]. intros M HM. constructor; auto.
      apply F1. eapply st_le_extends; eauto.
  Qed.

  Lemma cnf_node_good o args rs st r st' :
    cnf_node asimp (T o args) rs st = Some (r, st') ->
    st_le st st' /\ forall M, extends (intro st') M -> Forall2 (Good M) args rs -> Good M (T o args) r.
  Proof.
    assert (AND : forall ps, unpack rs = Some ps ->
              (let (k, st') := key_var (T OAnd args) st in
               Some (R k (mkclause (k :: map (fun p => neg_lit (fst p)) ps)
                          :: flat_map (fun p => mkclause [fst p; nk k] :: snd p) ps), st')) = Some (r, st') ->
              st_le st st' /\ forall M, extends (intro st') M -> Forall2 (Good M) args rs -> Good M (T OAnd args) r).
    { intros ps Hu. destruct (key_var (T OAnd args) st) as [k s1] eqn:K. intros [= <- <-].
      split; [apply (key_var_spec _ _ _ _ K)|]. intros M HM HF.
      destruct (key_var_in _ _ _ _ M K HM) as (_ & n & -> & Hin & _).
      apply and_good; auto. eapply unpack_Forall2; eauto. }
    assert (OR : forall ps, unpack rs = Some ps ->
              (let (k, st') := key_var (T OOr args) st in
               Some (R k (mkclause (nk k :: map fst ps)
                          :: flat_map (fun p => mkclause [k; mk_not (fst p)] :: snd p) ps), st')) = Some (r, st') ->
              st_le st st' /\ forall M, extends (intro st') M -> Forall2 (Good M) args rs -> Good M (T OOr args) r).
    { intros ps Hu. destruct (key_var (T OOr args) st) as [k s1] eqn:K. intros [= <- <-].
      split; [apply (key_var_spec _ _ _ _ K)|]. intros M HM HF.
      destruct (key_var_in _ _ _ _ M K HM) as (_ & n & -> & Hin & _).
      apply or_good; auto. eapply unpack_Forall2; eauto. }
    assert (LEAF : forall o', is_connective o' = false -> forall r0, (r0 = PH \/ r0 = R (T o' args) []) -> Good st.(intro) (T o' args) r0 -> True) by auto.
    clear LEAF.
    assert (LF : forall M o' (r0 : res), is_connective o' = false -> r0 = PH \/ r0 = R (T o' args) [] -> Good M (T o' args) r0).
    { intros M o' r0 Ho [-> | ->]; [exact Logic.I | now apply leaf_good]. }
    unfold cnf_node. destruct o.
    all: try discriminate.
    all: try (cbn [is_theory_relation]; unfold walk_theory_op, walk_function, bool_symbol, walk_constant;
              repeat match goal with
                     | |- context [match ?k with _ => _ end] => destruct k
                     end;
              try discriminate; intros [= <- <-]; (split; [apply st_le_refl|]); intros M _ _; (apply LF; [reflexivity | solve [auto]])).
    all: try (cbv [is_theory_relation]; unfold walk_theory_op; destruct (tc _) as [[]|]; try discriminate;
              intros [= <- <-]; (split; [apply st_le_refl|]); intros M _ _; (apply LF; [reflexivity | solve [auto]])).
    - (* and *)
      destruct rs as [|r0 [|r1 rs']].
      + destruct (unpack []) as [ps|] eqn:U; [|discriminate]. apply (AND ps eq_refl).
      + intros [= <- <-]. split; [apply st_le_refl|]. intros M _ HF.
        inversion HF as [|x ? args' ? Hx HF']; subst. inversion HF'; subst.
        apply pass_good; auto. intros I. rewrite tv_and. cbn. apply andb_true_r.
      + destruct (unpack (r0 :: r1 :: rs')) as [ps|] eqn:U; [|discriminate]. apply (AND ps eq_refl).
    - (* or *)
      destruct rs as [|r0 [|r1 rs']].
      + destruct (unpack []) as [ps|] eqn:U; [|discriminate]. apply (OR ps eq_refl).
      + intros [= <- <-]. split; [apply st_le_refl|]. intros M _ HF.
        inversion HF as [|x ? args' ? Hx HF']; subst. inversion HF'; subst.
        apply pass_good; auto. intros I. rewrite tv_or. cbn. apply orb_false_r.
      + destruct (unpack (r0 :: r1 :: rs')) as [ps|] eqn:U; [|discriminate]. apply (OR ps eq_refl).
    - (* not *)
      unfold walk_not. destruct rs as [|[|a c] [|r1 rs']]; try discriminate. cbn beta iota. intros [= <- <-].
      split; [apply st_le_refl|]. intros M _ HF.
      inversion HF as [|x ? args' ? Hx HF']; subst. inversion HF'; subst. now apply not_good.
    - (* implies *)
      destruct rs as [|[|a ca] [|[|b cb] [|r2 rs']]]; try discriminate.
      destruct (key_var (T OImplies args) st) as [k s1] eqn:K. intros [= <- <-].
      split; [apply (key_var_spec _ _ _ _ K)|]. intros M HM HF.
      destruct (key_var_in _ _ _ _ M K HM) as (_ & n & -> & Hin & _).
      inversion HF as [|x ? args' ? Hx HF']; subst. inversion HF' as [|y ? args'' ? Hy HF'']; subst. inversion HF''; subst.
      now apply implies_good.
    - (* iff *)
      destruct rs as [|[|a ca] [|[|b cb] [|r2 rs']]]; try discriminate.
      destruct (key_var (T OIff args) st) as [k s1] eqn:K. intros [= <- <-].
      split; [apply (key_var_spec _ _ _ _ K)|]. intros M HM HF.
      destruct (key_var_in _ _ _ _ M K HM) as (_ & n & -> & Hin & _).
      inversion HF as [|x ? args' ? Hx HF']; subst. inversion HF' as [|y ? args'' ? Hy HF'']; subst. inversion HF''; subst.
      now apply iff_good.
    - (* function *)
      unfold walk_function. destruct t; try discriminate. cbn beta iota. intros [= <- <-].
      split; [apply st_le_refl|]. intros M _ _. apply LF; auto. destruct (ty_eqb t TBool); auto.
    - (* ite *)
      destruct (existsb is_ph rs) eqn:Eph.
      + intros [= <- <-]. split; [apply st_le_refl|]. intros M _ _. exact Logic.I.
      + destruct rs as [|[|i ci] [|[|a ca] [|[|b cb] [|r3 rs']]]]; try discriminate.
        destruct (key_var (T OIte args) st) as [k s1] eqn:K. intros [= <- <-].
        split; [apply (key_var_spec _ _ _ _ K)|]. intros M HM HF.
        destruct (key_var_in _ _ _ _ M K HM) as (_ & n & -> & Hin & _).
        inversion HF as [|x ? args' ? Hx HF']; subst. inversion HF' as [|y ? args'' ? Hy HF'']; subst.
        inversion HF'' as [|z ? args''' ? Hz HF''']; subst. inversion HF'''; subst.
        now apply ite_good.
    - (* string operators and relations *)
      destruct k; cbv [is_theory_relation]; unfold walk_theory_op; try destruct (forallb is_ph rs);
        try (destruct (tc _) as [[]|]); try discriminate; intros [= <- <-]; (split; [apply st_le_refl|]);
        intros M _ _; (apply LF; [reflexivity | solve [auto]]).
  Qed.

  Lemma cnf_walk_unfold o args st :
    cnf_walk asimp (T o args) st =
    match walk_list (cnf_walk asimp) args st with
    | None => None
    | Some (rs, st1) => cnf_node asimp (T o args) rs st1
    end.
  Proof. reflexivity. Qed.

  Theorem cnf_walk_good : forall t st r st', cnf_walk asimp t st = Some (r, st') ->
    st_le st st' /\ forall M, extends (intro st') M -> Good M t r.
  Proof.
    induction t as [o args IH] using term_ind'. intros st r st' H. rewrite cnf_walk_unfold in H.
    destruct (walk_list (cnf_walk asimp) args st) as [[rs s1]|] eqn:E; [|discriminate].
    destruct (walk_list_good _ Good args IH _ _ _ E) as [L1 F1].
    destruct (cnf_node_good _ _ _ _ _ _ H) as [L2 F2].
    split; [eapply st_le_trans; eauto|]. intros M HM. apply F2; auto. apply F1. eapply st_le_extends; eauto.
  Qed.

  (* ---------------------------------------------------------------- top level: convert *)
  (* what the clean-up needs from a walk (both converters provide it) *)
  Definition TopGood (M : list (term * string)) (f key : term) (cl : list (list term)) : Prop :=
    (forall I, Pi I -> NoDup (map snd M) -> leaf_stable I M f -> sat (ext I M) cl = true /\ tv (ext I M) key = tv I f) /\
    (forall J, Pi J -> sat J cl = true -> tv J key = true -> tv J f = true) /\
    (cl = [] \/ symlit (map snd M) key) /\
    LitsOk M f key cl.
  Definition walk_ok (w : term -> cstate -> option (res * cstate)) (f : term) : Prop :=
    forall st key cl st', w f st = Some (R key cl, st') -> st_le st st' /\ TopGood (intro st') f key cl.

  Lemma cnf_walk_ok f : walk_ok (cnf_walk asimp) f.
  Proof.
    intros st key cl st' H. destruct (cnf_walk_good _ _ _ _ H) as [L G]. split; auto.
    destruct (G _ (extends_refl _)) as (C & S & K & Li). split; [|split; [|split]]; auto.
    intros J HPJ Hs Hk. now rewrite <- (S J HPJ Hs).
  Qed.

  (* I' agrees with I except on the symbols named in N *)
  Definition agrees_off (N : list string) (I I' : interp) : Prop :=
    ifun I' = ifun I /\ rdiv0 I' = rdiv0 I /\ idiv0 I' = idiv0 I /\
    forall n ty, ~ In n N -> isym I' n ty = isym I n ty.
  (* the manager knows every symbol of f, and the converter object is new *)
  Definition start_ok (f : term) (st : cstate) : Prop :=
    intro st = [] /\ forall n ty, In (n, ty) (fv f) -> In n (mnames (mgr st)).

  (* a converter object that has already converted other formulas (reuse): its table of
     introduced variables is well formed, the manager knows f's symbols, and f does not mention
     a variable introduced by an earlier conversion *)
  Definition reuse_ok (f : term) (st : cstate) : Prop :=
    st_wf st /\ (forall n ty, In (n, ty) (fv f) -> In n (mnames (mgr st))) /\
    (forall n, In n (map snd (intro st)) -> ~ In (n, TBool) (fv f)).
  Lemma start_reuse f st : start_ok f st -> reuse_ok f st.
  Proof.
    intros [Hi Hn]. split; [|split; auto].
    - split; rewrite Hi; cbn; [constructor | intros ? []].
    - rewrite Hi. intros n [].
  Qed.

  Lemma start_facts f st st' : reuse_ok f st -> st_le st st' ->
    NoDup (map snd (intro st')) /\
    (forall n, In n (map snd (intro st')) ->
               (In n (map snd (intro st)) \/ ~ In n (mnames (mgr st))) /\ ~ In (n, TBool) (fv f)).
  Proof.
    intros (Hwf & Hn & Hold) ((D & E & F) & _ & W). split.
    - apply W, Hwf.
    - intros n Hin. rewrite E, map_app in Hin. apply in_app_or in Hin. destruct Hin as [Hin|Hin].
      + split; auto.
      + apply in_map_iff in Hin. destruct Hin as ([g m] & <- & Hgm). cbn.
        pose proof (F g m Hgm) as Hf. split; auto. intros H. apply Hf. eapply Hn; eauto.
  Qed.

  Lemma ext_agrees I M : agrees_off (map snd M) I (ext I M).
  Proof.
    repeat split; auto. intros n ty Hn. cbn. destruct (ty_eqb ty TBool); auto.
    destruct (byname n M) as [g|] eqn:B; auto. exfalso. apply Hn. apply byname_In in B. eapply In_names; eauto.
  Qed.

  Lemma fresh_leaf_stable I (M : list (term * string)) f : (forall n, In n (map snd M) -> ~ In (n, TBool) (fv f)) -> leaf_stable I M f.
  Proof.
    intros Hf a Ha. unfold tv. f_equal. apply (same_off_eval (map snd M)); [apply ext_same_off|].
    intros n Hn Hin. apply (Hf n Hn). eapply leaves_fv; eauto.
  Qed.
  Lemma fresh_leaf_litok (M : list (term * string)) f : (forall n, In n (map snd M) -> ~ In (n, TBool) (fv f)) ->
    forall a, In a (leaves f) -> litok Pi (map snd M) a.
  Proof.
    intros Hf a Ha. right. intros J J' _ _ HJ. unfold tv. f_equal. apply (same_off_eval (map snd M)); auto.
    intros n Hn Hin. apply (Hf n Hn). eapply leaves_fv; eauto.
  Qed.

  Lemma csat_true_iff I c : csat I c = true <-> exists l, In l c /\ tv I l = true.
  Proof. apply existsb_exists. Qed.

  (* a clause that the clean-up empties is false wherever the top literal is true: this is why
     returning FALSE_CNF there keeps completeness *)
  Lemma emptied_clause_false E tl c : Pi E -> tv E tl = true ->
    clean_clause tl (neg_lit tl) c = Some [] -> csat E c = false.
  Proof.
    intros HP Ht Hcc. unfold clean_clause in Hcc.
    destruct (existsb (fun l => ctrue l || term_eqb l tl) c); [discriminate|]. injection Hcc as Ef.
    destruct (csat E c) eqn:Hcs; auto. exfalso.
    apply csat_true_iff in Hcs. destruct Hcs as (l & Hl & Hv).
    assert (Hin : In l (filter (fun l => negb (term_eqb l (neg_lit tl)) && negb (cfalse l)) c)).
    { apply filter_In. split; auto. apply andb_true_iff. split; apply negb_true_iff.
      - destruct (term_eqb l (neg_lit tl)) eqn:Eq; auto. apply term_eqb_eq in Eq. subst.
        rewrite neg_lit_tv in Hv by assumption. rewrite Ht in Hv. discriminate.
      - destruct (cfalse l) eqn:Eq; auto. rewrite (cfalse_tv _ _ Eq) in Hv. discriminate. }
    rewrite Ef in Hin. destruct Hin.
  Qed.

  Lemma cleanup_complete E tl cl : Pi E -> sat E cl = true -> tv E tl = true -> sat E (cleanup asimp tl cl) = true.
  Proof.
    intros HP Hs Ht. unfold cleanup. destruct cl as [|c0 cl0] eqn:Ecl.
    - cbn. now rewrite Ht.
    - rewrite <- Ecl in *. clear Ecl c0 cl0. destruct (existsb is_nil cl) eqn:En.
      + apply existsb_exists in En. destruct En as (c & Hc & Hn). destruct c; [|discriminate].
        pose proof (sat_In _ _ _ Hs Hc). discriminate.
      + cbn [orb]. destruct (has_emptied asimp tl cl) eqn:Eh.
        { exfalso. unfold has_emptied in Eh. apply existsb_exists in Eh. destruct Eh as (c & Hc & Hcc).
          destruct (clean_clause tl (neg_lit tl) c) as [[|x r]|] eqn:Ecc; try discriminate.
          pose proof (sat_In _ _ _ Hs Hc) as Hcs. rewrite (emptied_clause_false E tl c HP Ht Ecc) in Hcs. discriminate. }
        unfold sat. apply forallb_forall. intros c' Hc'. apply in_flat_map in Hc'. destruct Hc' as (c & Hc & Hin).
        unfold clean_clause in Hin. destruct (existsb (fun l => ctrue l || term_eqb l tl) c); [destruct Hin|].
        destruct (filter (fun l => negb (term_eqb l (neg_lit tl)) && negb (cfalse l)) c) as [|x r] eqn:Ef; [destruct Hin|].
        destruct Hin as [<-|[]]. rewrite <- Ef. apply csat_true_iff.
        pose proof (sat_In _ _ _ Hs Hc) as Hcs. apply csat_true_iff in Hcs. destruct Hcs as (l & Hl & Hv).
        exists l. split; auto. apply filter_In. split; auto. apply andb_true_iff. split; apply negb_true_iff.
        * destruct (term_eqb l (neg_lit tl)) eqn:Eq; auto. apply term_eqb_eq in Eq. subst.
          rewrite neg_lit_tv in Hv by assumption. rewrite Ht in Hv. discriminate.
        * destruct (cfalse l) eqn:Eq; auto. rewrite (cfalse_tv _ _ Eq) in Hv. discriminate.
  Qed.

  (* C11, completeness: every interpretation satisfying the input extends over the fresh symbols
     to one satisfying the output *)
  Theorem convert_complete w f st cl st' I : walk_ok w f -> reuse_ok f st ->
    convert_with asimp w f st = Some (cl, st') -> Pi I -> holds I f ->
    exists I', agrees_off (map snd (intro st')) I I' /\ sat I' cl = true /\
               (forall n, In n (map snd (intro st')) -> In n (map snd (intro st)) \/ ~ In n (mnames (mgr st))).
  Proof.
    intros Hw Hst Hc HPI Hf. unfold convert_with in Hc.
    destruct (w f st) as [[[|tl cl0] s1]|] eqn:E; try discriminate. injection Hc as <- <-.
    destruct (Hw _ _ _ _ E) as [Hle (C & _)]. destruct (start_facts _ _ _ Hst Hle) as [Hnd Hfr].
    exists (ext I (intro s1)). split; [apply ext_agrees|]. split; [|intros n Hn; apply Hfr; auto].
    destruct (C I HPI Hnd) as [Hs Hk]; [apply fresh_leaf_stable; intros n Hn; apply Hfr; auto|].
    apply cleanup_complete; auto. rewrite Hk. now apply holds_tv.
  Qed.

  Lemma tv_bind1_other J n b l m : m <> n -> (l = TSym m TBool \/ l = T ONot [TSym m TBool]) ->
    tv (bind1 J (n, TBool) (VBool b)) l = tv J l.
  Proof.
    intros Hm [-> | ->]; rewrite ?tv_not, !tv_sym; cbn;
      (destruct (String.eqb m n) eqn:E; [apply String.eqb_eq in E; contradiction | reflexivity]).
  Qed.
  Lemma bind1_same_off J n b N : In n N -> same_off N J (bind1 J (n, TBool) (VBool b)).
  Proof.
    intros Hn. repeat split; auto. intros m ty Hm. cbn.
    destruct (String.eqb m n) eqn:E1; auto. destruct (ty_eqb ty TBool) eqn:E2; auto.
    apply String.eqb_eq in E1. apply ty_eqb_eq in E2. subst. exfalso. apply Hm. auto.
  Qed.

  Lemma cleanup_sound N f tl cl J :
    (forall J', Pi J' -> sat J' cl = true -> tv J' tl = true -> tv J' f = true) -> Pi J ->
    (cl = [] \/ symlit N tl) -> Forall (Forall (litok Pi N)) cl ->
    (forall n, In n N -> ~ In (n, TBool) (fv f)) ->
    sat J (cleanup asimp tl cl) = true -> tv J f = true.
  Proof.
    intros S HPJ K L Hfr Hs. unfold cleanup in Hs.
    destruct cl as [|c0 cl0] eqn:Ecl.
    - cbn in Hs. rewrite orb_false_r, andb_true_r in Hs. apply S; auto.
    - rewrite <- Ecl in *. destruct K as [K|K]; [congruence|]. clear Ecl c0 cl0.
      destruct (existsb is_nil cl) eqn:En; [discriminate|]. cbn [orb] in Hs.
      destruct (has_emptied asimp tl cl) eqn:Hem; [discriminate|]. unfold has_emptied in Hem.
      destruct K as (n & Hn & Htl).
      set (b := match tl with T ONot _ => false | _ => true end).
      set (J' := bind1 J (n, TBool) (VBool b)).
      assert (HJ : same_off N J J') by (apply bind1_same_off; auto).
      assert (HPJ' : Pi J') by (apply Pi_bind; auto).
      assert (Ht : tv J' tl = true).
      { destruct Htl as [-> | ->]; subst b J'; rewrite ?tv_not, tv_sym; cbn; now rewrite String.eqb_refl. }
      assert (Hntl : neg_lit tl = TSym n TBool \/ neg_lit tl = T ONot [TSym n TBool]).
      { destruct Htl as [-> | ->]; [right|left]; reflexivity. }
      assert (Hne : neg_lit tl <> tl).
      { destruct Htl as [-> | ->]; discriminate. }
      assert (Hs' : sat J' cl = true).
      { unfold sat. apply forallb_forall. intros c Hc.
        destruct (clean_clause tl (neg_lit tl) c) as [[|x r]|] eqn:Ecc.
        - exfalso.
          assert (X : existsb (fun c => match clean_clause tl (neg_lit tl) c with Some [] => true | _ => false end) cl = true).
          { apply existsb_exists. exists c. split; auto. now rewrite Ecc. }
          congruence.
        - assert (Hin : In (x :: r) (flat_map (fun c => match clean_clause tl (neg_lit tl) c with
                                                        | Some (x :: r) => [x :: r] | _ => [] end) cl)).
          { apply in_flat_map. exists c. split; auto. rewrite Ecc. now left. }
          pose proof (sat_In _ _ _ Hs Hin) as Hcs. apply csat_true_iff in Hcs. destruct Hcs as (l & Hl & Hv).
          unfold clean_clause in Ecc.
          destruct (existsb (fun l => ctrue l || term_eqb l tl) c) eqn:Ex; [discriminate|].
          injection Ecc as Ecc. rewrite <- Ecc in Hl. apply filter_In in Hl. destruct Hl as [Hlc Hlf].
          apply andb_true_iff in Hlf. destruct Hlf as [Hl1 _]. apply negb_true_iff in Hl1.
          assert (Hl2 : term_eqb l tl = false).
          { destruct (term_eqb l tl) eqn:Eq; auto. exfalso.
            assert (X : existsb (fun l => ctrue l || term_eqb l tl) c = true).
            { apply existsb_exists. exists l. split; auto. rewrite Eq. apply orb_true_r. }
            congruence. }
          apply csat_true_iff. exists l. split; auto.
          rewrite Forall_forall in L. pose proof (L c Hc) as Lc. rewrite Forall_forall in Lc.
          destruct (Lc l Hlc) as [(m & Hm & Hlm)|Hst].
          + destruct (String.eqb m n) eqn:Emn.
            * apply String.eqb_eq in Emn. subst m. exfalso.
              assert (l = tl \/ l = neg_lit tl).
              { destruct Htl as [-> | ->]; destruct Hlm as [-> | ->]; auto. }
              destruct H as [-> | ->]; [rewrite term_eqb_refl in Hl2 | rewrite term_eqb_refl in Hl1]; discriminate.
            * subst J'. rewrite (tv_bind1_other J n b l m); auto. intros ->. rewrite String.eqb_refl in Emn. discriminate.
          + rewrite <- (Hst J J' HPJ HPJ' HJ). exact Hv.
        - unfold clean_clause in Ecc.
          destruct (existsb (fun l => ctrue l || term_eqb l tl) c) eqn:Ex; [|discriminate].
          apply existsb_exists in Ex. destruct Ex as (l & Hl & Hor). apply csat_true_iff. exists l. split; auto.
          apply orb_true_iff in Hor. destruct Hor as [H|H]; [now apply ctrue_tv|].
          apply term_eqb_eq in H. now subst. }
      pose proof (S J' HPJ' Hs' Ht) as Hf. unfold tv in *. rewrite (same_off_eval N J J' f HJ Hfr). exact Hf.
  Qed.

  Lemma top_lits_ok w f st key cl st' : walk_ok w f -> reuse_ok f st -> w f st = Some (R key cl, st') ->
    Forall (Forall (litok Pi (map snd (intro st')))) cl.
  Proof.
    intros Hw Hst E. destruct (Hw _ _ _ _ E) as [Hle (_ & _ & _ & Li)].
    destruct (start_facts _ _ _ Hst Hle) as [_ Hfr].
    apply (Li (litok Pi (map snd (intro st')))).
    - intros a Ha. now apply litok_neg.
    - intros n Hn. split; left; exists n; auto.
    - right. intros J J' _. reflexivity.
    - right. intros J J' _. reflexivity.
    - apply fresh_leaf_litok. intros n Hn. apply Hfr; auto.
  Qed.

  (* C11, soundness: every interpretation satisfying the output satisfies the input *)
  Theorem convert_sound w f st cl st' J : walk_ok w f -> reuse_ok f st ->
    convert_with asimp w f st = Some (cl, st') -> Pi J -> sat J cl = true -> holds J f.
  Proof.
    intros Hw Hst Hc HPJ Hs. unfold convert_with in Hc.
    destruct (w f st) as [[[|tl cl0] s1]|] eqn:E; try discriminate. injection Hc as <- <-.
    pose proof (top_lits_ok _ _ _ _ _ _ Hw Hst E) as L.
    destruct (Hw _ _ _ _ E) as [Hle (_ & S & K & _)]. destruct (start_facts _ _ _ Hst Hle) as [_ Hfr].
    apply holds_tv. apply (cleanup_sound (map snd (intro s1)) f tl cl0 J); auto.
    intros n Hn. apply Hfr; auto.
  Qed.

  (* ---------------------------------------------------------------- shape *)
  Definition shape_hyp : Prop := forall t, atomic t = true -> litc (asimp t) = true.

  Lemma litc_not_atomic a : litc a = true -> (exists y, a = T ONot [y] /\ atomic y = true) \/ (atomic a = true /\ litc a = atomic a).
  Proof.
    destruct a as [o args]. destruct o; cbn; auto.
    destruct args as [|y [|z r]]; cbn; auto. intros H. left. eauto.
  Qed.
  Lemma atomic_litc y : atomic y = true -> litc y = true.
  Proof. destruct y as [o args]. destruct o; cbn; auto. discriminate. Qed.
  Lemma litc_negate x : litc x = true -> litc (negate x) = true.
  Proof.
    intros H. destruct (litc_not_atomic _ H) as [(y & -> & Hy)|[Ha _]].
    - cbn. now apply atomic_litc.
    - destruct x as [o args]. destruct o; try exact Ha; try discriminate.
      destruct args; [reflexivity | exact Ha].
  Qed.
  Lemma litc_simplify_atomic y : shape_hyp -> atomic y = true -> litc (simplify y) = true.
  Proof.
    intros Hsh Hy. destruct y as [o args]. destruct o; try (apply Hsh; exact Hy); try discriminate.
    - reflexivity.
    - destruct args; [reflexivity | apply Hsh; exact Hy].
  Qed.
  Lemma litc_closed : shape_hyp -> lit_closed (fun l => litc l = true).
  Proof.
    intros Hsh a Ha. destruct (litc_not_atomic _ Ha) as [(y & -> & Hy)|[Hat Heq]].
    - split.
      + unfold Cnf.neg_lit. cbn [mk_not]. now apply litc_simplify_atomic.
      + cbn [mk_not]. now apply atomic_litc.
    - assert (Hm : mk_not a = T ONot [a]).
      { destruct a as [o args]. destruct o; try reflexivity. discriminate. }
      split.
      + unfold Cnf.neg_lit. rewrite Hm. cbn [Cnf.simplify]. apply litc_negate. now apply litc_simplify_atomic.
      + rewrite Hm. exact Hat.
  Qed.

  Lemma leaves_atomic : forall t a, In a (leaves t) -> atomic a = true.
  Proof.
    induction t as [o args IH] using term_ind'. intros a Ha. cbn in Ha.
    destruct (is_connective o) eqn:Ho.
    - apply in_flat_map in Ha. destruct Ha as (x & Hx & Hax). rewrite Forall_forall in IH. eauto.
    - destruct Ha as [<-|[]]. unfold atomic. cbn. now rewrite Ho.
  Qed.

  (* every literal of the result satisfies any predicate that holds of the fresh-symbol literals,
     TRUE, FALSE and the atoms of the input and is closed under the two negations *)
  Theorem convert_lits w f st cl st' (P : term -> Prop) : walk_ok w f -> lit_closed P ->
    (forall n, P (TSym n TBool) /\ P (T ONot [TSym n TBool])) -> P TTrue -> P TFalse ->
    (forall a, In a (leaves f) -> P a) ->
    convert_with asimp w f st = Some (cl, st') -> Forall (Forall P) cl.
  Proof.
    intros Hw Hcl Hsy HT HF Hlv Hc. unfold convert_with in Hc.
    destruct (w f st) as [[[|tl cl0] s1]|] eqn:E; try discriminate. injection Hc as <- <-.
    destruct (Hw _ _ _ _ E) as [_ (_ & _ & _ & Li)].
    destruct (Li P Hcl (fun n _ => Hsy n) HT HF Hlv) as [Htl Hcl0].
    unfold cleanup. destruct cl0 as [|c0 cl1] eqn:Ecl; [repeat constructor; auto|].
    rewrite <- Ecl in *. destruct (existsb is_nil cl0 || has_emptied asimp tl cl0); [repeat constructor|].
    apply Forall_forall. intros c' Hc'. apply in_flat_map in Hc'. destruct Hc' as (c & Hc & Hin).
    unfold clean_clause in Hin. destruct (existsb (fun l => ctrue l || term_eqb l tl) c); [destruct Hin|].
    destruct (filter (fun l => negb (term_eqb l (neg_lit tl)) && negb (cfalse l)) c) as [|x r] eqn:Ef; [destruct Hin|].
    destruct Hin as [<-|[]]. rewrite <- Ef. apply Forall_forall. intros l Hl. apply filter_In in Hl.
    destruct Hl as [Hl _]. rewrite Forall_forall in Hcl0. pose proof (Hcl0 c Hc) as Hcc.
    rewrite Forall_forall in Hcc. auto.
  Qed.

  (* C11, shape: the result is a set of clauses of literals *)
  Theorem convert_shape w f st cl st' : walk_ok w f -> shape_hyp ->
    convert_with asimp w f st = Some (cl, st') -> Forall (Forall (fun l => litc l = true)) cl.
  Proof.
    intros Hw Hsh Hc. unfold convert_with in Hc.
    destruct (w f st) as [[[|tl cl0] s1]|] eqn:E; try discriminate. injection Hc as <- <-.
    destruct (Hw _ _ _ _ E) as [_ (_ & _ & _ & Li)].
    assert (Hlits : litc tl = true /\ Forall (Forall (fun l => litc l = true)) cl0).
    { apply (Li (fun l => litc l = true) (litc_closed Hsh)).
      - intros n _. split; reflexivity.
      - reflexivity.
      - reflexivity.
      - intros a Ha. apply atomic_litc. eapply leaves_atomic; eauto. }
    destruct Hlits as [Htl Hcl].
    - unfold cleanup. destruct cl0 as [|c0 cl1] eqn:Ecl; [repeat constructor; auto|].
      rewrite <- Ecl in *. destruct (existsb is_nil cl0 || has_emptied asimp tl cl0); [repeat constructor|].
      apply Forall_forall. intros c' Hc'. apply in_flat_map in Hc'. destruct Hc' as (c & Hc & Hin).
      unfold clean_clause in Hin. destruct (existsb (fun l => ctrue l || term_eqb l tl) c); [destruct Hin|].
      destruct (filter (fun l => negb (term_eqb l (neg_lit tl)) && negb (cfalse l)) c) as [|x r] eqn:Ef; [destruct Hin|].
      destruct Hin as [<-|[]]. rewrite <- Ef. apply Forall_forall. intros l Hl. apply filter_In in Hl.
      destruct Hl as [Hl _]. rewrite Forall_forall in Hcl. pose proof (Hcl c Hc) as Hcc.
      rewrite Forall_forall in Hcc. auto.
  Qed.

  (* ---------------------------------------------------------------- convert_as_formula *)
  Lemma tv_mk_and J l : tv J (mk_and l) = forallb (tv J) l.
  Proof. destruct l as [|x [|y r]]; cbn [mk_and]; [reflexivity| cbn; now rewrite andb_true_r | apply tv_and]. Qed.
  Lemma tv_mk_or J l : tv J (mk_or l) = csat J l.
  Proof. destruct l as [|x [|y r]]; cbn [mk_or]; [reflexivity| cbn; now rewrite orb_false_r | apply tv_or]. Qed.

  Lemma clause_eqb_csat J a b : clause_eqb a b = true -> csat J a = csat J b.
  Proof.
    unfold clause_eqb, set_eqb. intros H. apply andb_true_iff in H. destruct H as [H1 H2].
    apply (subset_spec term_eqb term_eqb_eq) in H1. apply (subset_spec term_eqb term_eqb_eq) in H2.
    apply existsb_In_ext. intros x. split; auto.
  Qed.
  Lemma forallb_dedupe {A} (eqb : A -> A -> bool) (p : A -> bool) :
    (forall a b, eqb a b = true -> p a = p b) -> forall l, forallb p (dedupe eqb l) = forallb p l.
  Proof.
    intros Hc l. unfold dedupe, union.
    assert (G : forall acc, forallb p (fold_left (fun acc x => add eqb x acc) l acc) = forallb p acc && forallb p l).
    { induction l as [|x l IH]; intros acc; cbn [fold_left forallb]; [now rewrite andb_true_r|].
      rewrite IH. unfold add. destruct (mem eqb x acc) eqn:M.
      - unfold mem in M. apply existsb_exists in M. destruct M as (y & Hy & Exy).
        destruct (forallb p acc) eqn:F; [|reflexivity]. cbn.
        rewrite forallb_forall in F. now rewrite (Hc _ _ Exy), (F y Hy).
      - rewrite forallb_app. cbn. now rewrite andb_true_r, andb_assoc. }
    apply G.
  Qed.
  Theorem as_formula_holds J cl : holds J (as_formula cl) <-> sat J cl = true.
  Proof.
    rewrite holds_tv. unfold as_formula. rewrite tv_mk_and, forallb_map.
    assert (X : forall l : list (list term), forallb (fun x => tv J (mk_or x)) l = forallb (csat J) l).
    { induction l as [|x l IH]; cbn; [reflexivity|]. now rewrite tv_mk_or, IH. }
    rewrite X. unfold sat. now rewrite (forallb_dedupe clause_eqb (csat J) (clause_eqb_csat J)).
  Qed.

  (* ================================================================= PolarityCNFizer *)
  (* the key of a formula is determined by the final table of introduced variables, whatever
     the polarity (needed for Iff and Ite, which take the key from one walk and clauses from two) *)
  Fixpoint keyfun (M : list (term * string)) (t : term) : term :=
    match t with
    | T o args =>
        let kv := match assoc_term t M with Some n => TSym n TBool | None => t end in
        match o, args with
        | OAnd, [x] | OOr, [x] => keyfun M x
        | ONot, [a] => let a' := keyfun M a in
                       if ctrue a' then TFalse else if cfalse a' then TTrue else neg_lit a'
        | OAnd, _ | OOr, _ | OImplies, _ | OIff, _ | OIte, _ => kv
        | _, _ => t
        end
    end.

  Definition GoodP (M : list (term * string)) (pol : bool) (t : term) (r : res) : Prop :=
    match r with
    | PH => True
    | R key cl =>
        (forall I, Pi I -> NoDup (map snd M) -> leaf_stable I M t ->
                   sat (ext I M) cl = true /\ tv (ext I M) key = tv I t) /\
        (forall J, Pi J -> sat J cl = true ->
                   if pol then tv J key = true -> tv J t = true else tv J t = true -> tv J key = true) /\
        (cl = [] \/ symlit (map snd M) key) /\
        LitsOk M t key cl /\
        key = keyfun M t
    end.

  Lemma mono_pos (J : interp) args (ps : list (term * list (list term))) :
    Forall2 (fun x p => sat J (snd p) = true -> tv J (fst p) = true -> tv J x = true) args ps ->
    forallb (fun p => sat J (snd p)) ps = true ->
    (forallb (fun p => tv J (fst p)) ps = true -> forallb (tv J) args = true) /\
    (existsb (fun p => tv J (fst p)) ps = true -> existsb (tv J) args = true).
  Proof.
    induction 1 as [|x p args ps H1 H IH]; cbn; auto.
    intros Hs. apply andb_true_iff in Hs. destruct Hs as [Hp Hr]. destruct (IH Hr) as [A B]. split.
    - intros Hf. apply andb_true_iff in Hf. destruct Hf as [F1 F2]. now rewrite (H1 Hp F1), (A F2).
    - intros He. apply orb_true_iff in He. destruct He as [E1|E2].
      + now rewrite (H1 Hp E1).
      + rewrite (B E2). apply orb_true_r.
  Qed.
  Lemma mono_neg (J : interp) args (ps : list (term * list (list term))) :
    Forall2 (fun x p => sat J (snd p) = true -> tv J x = true -> tv J (fst p) = true) args ps ->
    forallb (fun p => sat J (snd p)) ps = true ->
    (forallb (tv J) args = true -> forallb (fun p => tv J (fst p)) ps = true) /\
    (existsb (tv J) args = true -> existsb (fun p => tv J (fst p)) ps = true).
  Proof.
    induction 1 as [|x p args ps H1 H IH]; cbn; auto.
    intros Hs. apply andb_true_iff in Hs. destruct Hs as [Hp Hr]. destruct (IH Hr) as [A B]. split.
    - intros Hf. apply andb_true_iff in Hf. destruct Hf as [F1 F2]. now rewrite (H1 Hp F1), (A F2).
    - intros He. apply orb_true_iff in He. destruct He as [E1|E2].
      + now rewrite (H1 Hp E1).
      + rewrite (B E2). apply orb_true_r.
  Qed.

  Lemma childrenP_C M pol o I args (ps : list (term * list (list term))) :
    is_connective o = true -> Pi I -> NoDup (map snd M) -> leaf_stable I M (T o args) ->
    Forall2 (fun x p => GoodP M pol x (R (fst p) (snd p))) args ps ->
    Forall2 (fun x p => sat (ext I M) (snd p) = true /\ tv (ext I M) (fst p) = tv I x) args ps.
  Proof.
    intros Ho HPI Hnd Hls HF.
    assert (G : forall x, In x args -> leaf_stable I M x) by (intros x Hx; eapply leaf_stable_arg; eauto).
    clear Hls. induction HF as [|x p args ps Hxp HF IH]; constructor.
    - destruct Hxp as (C & _). apply C; auto. apply G. now left.
    - apply IH. intros y Hy. apply G. now right.
  Qed.

  Lemma childrenP_lits M pol o args (ps : list (term * list (list term))) (P : term -> Prop) :
    is_connective o = true ->
    Forall2 (fun x p => GoodP M pol x (R (fst p) (snd p))) args ps ->
    lit_closed P ->
    (forall n, In n (map snd M) -> P (TSym n TBool) /\ P (T ONot [TSym n TBool])) ->
    P TTrue -> P TFalse -> (forall a, In a (leaves (T o args)) -> P a) ->
    forall p, In p ps -> P (fst p) /\ Forall (Forall P) (snd p).
  Proof.
    intros Ho HF Hc Hs HT HFa Hl p Hp.
    destruct (Forall2_In_r _ _ _ _ HF Hp) as (x & Hx & (_ & _ & _ & HL & _)).
    apply HL; auto. intros a Ha. apply Hl. eapply leaves_arg; eauto.
  Qed.

  Lemma Forall_flat_snd (P : term -> Prop) (ps : list (term * list (list term))) :
    (forall p, In p ps -> Forall (Forall P) (snd p)) -> Forall (Forall P) (flat_map snd ps).
  Proof.
    intros H. apply Forall_forall. intros c Hc. apply in_flat_map in Hc. destruct Hc as (p & Hp & Hcp).
    pose proof (H p Hp) as Hall. rewrite Forall_forall in Hall. auto.
  Qed.

  Lemma keyfun_nary M o args n : (o = OAnd \/ o = OOr) -> (forall x, args <> [x]) ->
    assoc_term (T o args) M = Some n -> keyfun M (T o args) = TSym n TBool.
  Proof.
    intros Ho Hne Ha. destruct args as [|x [|y r]].
    - destruct Ho as [-> | ->]; cbn [keyfun]; now rewrite Ha.
    - exfalso. now apply (Hne x).
    - destruct Ho as [-> | ->]; cbn [keyfun]; now rewrite Ha.
  Qed.

  Lemma pol_and_good M pol args (ps : list (term * list (list term))) n :
    In (T OAnd args, n) M -> assoc_term (T OAnd args) M = Some n -> (forall x, args <> [x]) ->
    Forall2 (fun x p => GoodP M pol x (R (fst p) (snd p))) args ps ->
    GoodP M pol (T OAnd args)
          (R (TSym n TBool) (flat_map snd ps ++
                             (if pol then map (fun p => mkclause [fst p; nk (TSym n TBool)]) ps
                              else [mkclause (TSym n TBool :: map (fun p => neg_lit (fst p)) ps)]))).
  Proof.
    intros Hin Has Hne HF. unfold GoodP. split; [|split; [|split; [|split]]].
    - intros I HPI Hnd Hls. pose proof (Pi_ext I M HPI) as HPE. rewrite sat_app, sat_flat_snd.
      destruct (children_C _ _ _ _ (childrenP_C M pol OAnd I args ps eq_refl HPI Hnd Hls HF)) as (A & B & _).
      rewrite A, (tv_ext_key I M _ n Hnd Hin), tv_and. split; auto. cbn [andb].
      destruct pol; [rewrite sat_pol_and_pos | rewrite sat_pol_and_neg by assumption];
        rewrite (tv_ext_key I M _ n Hnd Hin), tv_and, B; destruct (forallb (tv I) args); reflexivity.
    - intros J HPJ Hs. rewrite sat_app, sat_flat_snd in Hs. apply andb_true_iff in Hs. destruct Hs as [Hc Hk].
      rewrite tv_and. destruct pol.
      + rewrite sat_pol_and_pos in Hk. intros Ht. rewrite Ht in Hk. cbn in Hk.
        refine (proj1 (mono_pos J args ps _ Hc) Hk).
        clear - HF HPJ. induction HF as [|x p args ps Hxp HF IH]; constructor; auto.
        destruct Hxp as (_ & S & _). exact (S J HPJ).
      + rewrite sat_pol_and_neg in Hk by assumption. intros Ht.
        assert (X : forallb (fun p => tv J (fst p)) ps = true).
        { refine (proj1 (mono_neg J args ps _ Hc) Ht).
          clear - HF HPJ. induction HF as [|x p args ps Hxp HF IH]; constructor; auto.
          destruct Hxp as (_ & S & _). exact (S J HPJ). }
        rewrite X in Hk. exact Hk.
    - right. exists n. split; [eapply In_names; eauto | auto].
    - intros P Hc Hs HT HFa Hl. destruct (Hs n (In_names _ _ _ Hin)) as [Pk Pnk]. split; auto.
      pose proof (childrenP_lits M pol OAnd args ps P eq_refl HF Hc Hs HT HFa Hl) as Hch.
      apply Forall_cl_app; [apply Forall_flat_snd; intros p Hp; apply Hch, Hp|].
      destruct pol.
      + apply Forall_forall. intros c Hcl. apply in_map_iff in Hcl. destruct Hcl as (p & <- & Hp).
        apply Forall_mkclause. repeat constructor; auto. apply Hch, Hp.
      + repeat constructor. apply Forall_mkclause. constructor; auto. apply Forall_forall. intros l Hl'.
        apply in_map_iff in Hl'. destruct Hl' as (p & <- & Hp). apply Hc, Hch, Hp.
    - symmetry. apply keyfun_nary; auto.
  Qed.

  Lemma pol_or_good M pol args (ps : list (term * list (list term))) n :
    In (T OOr args, n) M -> assoc_term (T OOr args) M = Some n -> (forall x, args <> [x]) ->
    Forall2 (fun x p => GoodP M pol x (R (fst p) (snd p))) args ps ->
    GoodP M pol (T OOr args)
          (R (TSym n TBool) (flat_map snd ps ++
                             (if pol then [mkclause (nk (TSym n TBool) :: map fst ps)]
                              else map (fun p => mkclause [TSym n TBool; neg_lit (fst p)]) ps))).
  Proof.
    intros Hin Has Hne HF. unfold GoodP. split; [|split; [|split; [|split]]].
    - intros I HPI Hnd Hls. pose proof (Pi_ext I M HPI) as HPE. rewrite sat_app, sat_flat_snd.
      destruct (children_C _ _ _ _ (childrenP_C M pol OOr I args ps eq_refl HPI Hnd Hls HF)) as (A & _ & B).
      rewrite A, (tv_ext_key I M _ n Hnd Hin), tv_or. split; auto. cbn [andb].
      destruct pol; [rewrite sat_pol_or_pos | rewrite sat_pol_or_neg by assumption];
        rewrite (tv_ext_key I M _ n Hnd Hin), tv_or, B; destruct (existsb (tv I) args); reflexivity.
    - intros J HPJ Hs. rewrite sat_app, sat_flat_snd in Hs. apply andb_true_iff in Hs. destruct Hs as [Hc Hk].
      rewrite tv_or. destruct pol.
      + rewrite sat_pol_or_pos in Hk. intros Ht. rewrite Ht in Hk. cbn in Hk.
        refine (proj2 (mono_pos J args ps _ Hc) Hk).
        clear - HF HPJ. induction HF as [|x p args ps Hxp HF IH]; constructor; auto.
        destruct Hxp as (_ & S & _). exact (S J HPJ).
      + rewrite sat_pol_or_neg in Hk by assumption. intros Ht.
        assert (X : existsb (fun p => tv J (fst p)) ps = true).
        { refine (proj2 (mono_neg J args ps _ Hc) Ht).
          clear - HF HPJ. induction HF as [|x p args ps Hxp HF IH]; constructor; auto.
          destruct Hxp as (_ & S & _). exact (S J HPJ). }
        rewrite X in Hk. exact Hk.
    - right. exists n. split; [eapply In_names; eauto | auto].
    - intros P Hc Hs HT HFa Hl. destruct (Hs n (In_names _ _ _ Hin)) as [Pk Pnk]. split; auto.
      pose proof (childrenP_lits M pol OOr args ps P eq_refl HF Hc Hs HT HFa Hl) as Hch.
      apply Forall_cl_app; [apply Forall_flat_snd; intros p Hp; apply Hch, Hp|].
      destruct pol.
      + repeat constructor. apply Forall_mkclause. constructor; auto. apply Forall_forall. intros l Hl'.
        apply in_map_iff in Hl'. destruct Hl' as (p & <- & Hp). apply Hch, Hp.
      + apply Forall_forall. intros c Hcl. apply in_map_iff in Hcl. destruct Hcl as (p & <- & Hp).
        apply Forall_mkclause. repeat constructor; auto. apply Hc, Hch, Hp.
    - symmetry. apply keyfun_nary; auto.
  Qed.

  Lemma sat_pol_implies_pos J k a b ca cb : Pi J ->
    sat J (ca ++ cb ++ [mkclause [neg_lit a; b; nk k]]) = sat J ca && sat J cb && implb (tv J k) (implb (tv J a) (tv J b)).
  Proof. intros HP. norm_sat. fold (sat J ca) (sat J cb). destruct (sat J ca); destruct (sat J cb); destruct (tv J k); destruct (tv J a); destruct (tv J b); reflexivity. Qed.
  Lemma sat_pol_implies_neg J k a b ca cb : Pi J ->
    sat J (ca ++ cb ++ [mkclause [a; k]; mkclause [neg_lit b; k]]) = sat J ca && sat J cb && implb (implb (tv J a) (tv J b)) (tv J k).
  Proof. intros HP. norm_sat. fold (sat J ca) (sat J cb). destruct (sat J ca); destruct (sat J cb); destruct (tv J k); destruct (tv J a); destruct (tv J b); reflexivity. Qed.
  Lemma sat_iff4 J k a b c1 c2 c3 c4 : Pi J ->
    sat J (c1 ++ c2 ++ c3 ++ c4 ++ [mkclause [neg_lit a; neg_lit b; k]; mkclause [neg_lit a; b; nk k];
                                    mkclause [a; neg_lit b; nk k]; mkclause [a; b; k]])
    = sat J c1 && sat J c2 && sat J c3 && sat J c4 && Bool.eqb (tv J k) (Bool.eqb (tv J a) (tv J b)).
  Proof. intros HP.
    norm_sat. fold (sat J c1) (sat J c2) (sat J c3) (sat J c4).
    destruct (sat J c1); destruct (sat J c2); destruct (sat J c3); destruct (sat J c4); destruct (tv J k); destruct (tv J a); destruct (tv J b); reflexivity.
  Qed.
  Lemma sat_pol_ite_pos J k i a b c1 c2 c3 c4 : Pi J ->
    sat J (c1 ++ c2 ++ c3 ++ c4 ++ [mkclause [neg_lit i; a; nk k]; mkclause [i; b; nk k]])
    = sat J c1 && sat J c2 && sat J c3 && sat J c4 && implb (tv J k) (if tv J i then tv J a else tv J b).
  Proof. intros HP.
    norm_sat. fold (sat J c1) (sat J c2) (sat J c3) (sat J c4).
    destruct (sat J c1); destruct (sat J c2); destruct (sat J c3); destruct (sat J c4); destruct (tv J k); destruct (tv J i); destruct (tv J a); destruct (tv J b); reflexivity.
  Qed.
  Lemma sat_pol_ite_neg J k i a b c1 c2 c3 c4 : Pi J ->
    sat J (c1 ++ c2 ++ c3 ++ c4 ++ [mkclause [neg_lit i; neg_lit a; k]; mkclause [i; neg_lit b; k]])
    = sat J c1 && sat J c2 && sat J c3 && sat J c4 && implb (if tv J i then tv J a else tv J b) (tv J k).
  Proof. intros HP.
    norm_sat. fold (sat J c1) (sat J c2) (sat J c3) (sat J c4).
    destruct (sat J c1); destruct (sat J c2); destruct (sat J c3); destruct (sat J c4); destruct (tv J k); destruct (tv J i); destruct (tv J a); destruct (tv J b); reflexivity.
  Qed.

  Lemma pol_not_good M pol x a c :
    GoodP M (negb pol) x (R a c) ->
    GoodP M pol (T ONot [x]) (if ctrue a then R TFalse [] else if cfalse a then R TTrue [] else R (neg_lit a) c).
  Proof.
    intros (C & S & K & L & Kf).
    assert (Hls : forall I, leaf_stable I M (T ONot [x]) -> leaf_stable I M x).
    { intros I H. exact (leaf_stable_arg I M ONot [x] x eq_refl (or_introl eq_refl) H). }
    assert (Hlv : forall a0, In a0 (leaves x) -> In a0 (leaves (T ONot [x]))).
    { intros a0 H. exact (leaves_arg ONot [x] x a0 eq_refl (or_introl eq_refl) H). }
    assert (HK : keyfun M (T ONot [x]) = if ctrue a then TFalse else if cfalse a then TTrue else neg_lit a).
    { cbn [keyfun]. now rewrite <- Kf. }
    destruct (ctrue a) eqn:Et; [|destruct (cfalse a) eqn:Ef].
    - assert (c = []) as ->. { destruct K as [|K]; auto. apply symlit_not_const in K. destruct K. congruence. }
      split; [|split; [|split; [|split]]]; auto.
      + intros I HPI Hnd Hl. pose proof (Pi_ext I M HPI) as HPE. split; auto. destruct (C I HPI Hnd (Hls I Hl)) as [_ Ha].
        rewrite tv_not, <- Ha, (ctrue_tv _ _ Et). reflexivity.
      + intros J HPJ _. pose proof (S J HPJ eq_refl) as SJ. rewrite (ctrue_tv _ _ Et) in SJ. rewrite tv_not.
        destruct pol; cbn in SJ |- *; [discriminate|]. intros H. rewrite (SJ eq_refl) in H. discriminate.
      + intros P _ _ _ HF _. split; auto.
    - assert (c = []) as ->. { destruct K as [|K]; auto. apply symlit_not_const in K. destruct K. congruence. }
      split; [|split; [|split; [|split]]]; auto.
      + intros I HPI Hnd Hl. pose proof (Pi_ext I M HPI) as HPE. split; auto. destruct (C I HPI Hnd (Hls I Hl)) as [_ Ha].
        rewrite tv_not, <- Ha, (cfalse_tv _ _ Ef). reflexivity.
      + intros J HPJ _. pose proof (S J HPJ eq_refl) as SJ. rewrite (cfalse_tv _ _ Ef) in SJ. rewrite tv_not.
        destruct pol; cbn in SJ |- *; [|reflexivity]. intros _.
        destruct (tv J x); [specialize (SJ eq_refl); discriminate | reflexivity].
      + intros P _ _ HT _ _. split; auto.
    - split; [|split; [|split; [|split]]]; auto.
      + intros I HPI Hnd Hl. pose proof (Pi_ext I M HPI) as HPE. destruct (C I HPI Hnd (Hls I Hl)) as [Hc Ha]. split; auto.
        rewrite neg_lit_tv by assumption. now rewrite tv_not, Ha.
      + intros J HPJ Hs. pose proof (S J HPJ Hs) as SJ. rewrite neg_lit_tv by assumption. rewrite tv_not.
        destruct pol; cbn in SJ |- *; destruct (tv J a); destruct (tv J x); auto.
      + destruct K as [|K]; auto. right. now apply symlit_neg.
      + intros P Hc Hs HT HF Hl. destruct (L P Hc Hs HT HF (fun a0 H => Hl a0 (Hlv a0 H))) as [Pa Pc].
        split; auto. now apply Hc.
  Qed.

  Lemma pol_pass_good M pol o x r : (o = OAnd \/ o = OOr) -> (forall I, tv I (T o [x]) = tv I x) ->
    GoodP M pol x r -> GoodP M pol (T o [x]) r.
  Proof.
    intros Ho Htv H. destruct r as [|key cl]; auto. destruct H as (C & S & K & L & Kf).
    assert (Hc : is_connective o = true) by (destruct Ho as [-> | ->]; reflexivity).
    split; [|split; [|split; [|split]]]; auto.
    - intros I HPI Hnd Hl. pose proof (Pi_ext I M HPI) as HPE. rewrite Htv. apply C; auto. eapply leaf_stable_arg; eauto. now left.
    - intros J HPJ Hs. rewrite Htv. exact (S J HPJ Hs).
    - intros P Hcl Hs HT HF Hl. apply L; auto. intros a Ha. apply Hl. eapply leaves_arg; eauto. now left.
    - rewrite Kf. destruct Ho as [-> | ->]; reflexivity.
  Qed.

  Lemma pol_leaf_good M pol o args : is_connective o = false -> GoodP M pol (T o args) (R (T o args) []).
  Proof.
    intros Ho. split; [|split; [|split; [|split]]]; auto.
    - intros I _ _ Hl. split; auto. apply Hl. cbn. rewrite Ho. now left.
    - intros J HPJ _. destruct pol; auto.
    - intros P _ _ _ _ Hl. split; auto. apply Hl. cbn. rewrite Ho. now left.
    - destruct o; try discriminate; reflexivity.
  Qed.

  Lemma both_polarities M x a c1 c2 J :
    Pi J -> GoodP M true x (R a c1) -> GoodP M false x (R a c2) -> sat J c1 = true -> sat J c2 = true -> tv J a = tv J x.
  Proof.
    intros HPJ (_ & S1 & _) (_ & S2 & _) H1 H2. pose proof (S1 J HPJ H1) as A. pose proof (S2 J HPJ H2) as B. cbn in A, B.
    destruct (tv J a); destruct (tv J x); auto. symmetry. auto.
  Qed.
  Lemma GoodP_key M pol x a c : GoodP M pol x (R a c) -> a = keyfun M x.
  Proof. intros (_ & _ & _ & _ & Kf). exact Kf. Qed.

  Ltac leaves_sub Hl := intros a0 H0; apply Hl; eapply leaves_arg; eauto; cbn; tauto.

  Lemma pol_implies_good M pol x y a b ca cb n :
    In (T OImplies [x; y], n) M -> assoc_term (T OImplies [x; y]) M = Some n ->
    GoodP M (negb pol) x (R a ca) -> GoodP M pol y (R b cb) ->
    GoodP M pol (T OImplies [x; y])
          (R (TSym n TBool) (ca ++ cb ++ (if pol then [mkclause [neg_lit a; b; nk (TSym n TBool)]]
                                          else [mkclause [a; TSym n TBool]; mkclause [neg_lit b; TSym n TBool]]))).
  Proof.
    intros Hin Has (Ca & Sa & _ & La & _) (Cb & Sb & _ & Lb & _). split; [|split; [|split; [|split]]].
    - intros I HPI Hnd Hl. pose proof (Pi_ext I M HPI) as HPE.
      destruct (Ca I HPI Hnd) as [Hca Ha]; [child_stable Hl|]. destruct (Cb I HPI Hnd) as [Hcb Hb]; [child_stable Hl|].
      split; [|apply (tv_ext_key I M _ n Hnd Hin)].
      destruct pol; [rewrite sat_pol_implies_pos by assumption | rewrite sat_pol_implies_neg by assumption];
        rewrite Hca, Hcb, (tv_ext_key I M _ n Hnd Hin), tv_implies, Ha, Hb;
        destruct (tv I x); destruct (tv I y); reflexivity.
    - intros J HPJ Hs. rewrite tv_implies. destruct pol.
      + rewrite sat_pol_implies_pos in Hs by assumption. apply andb_true_iff in Hs. destruct Hs as [Hs He].
        apply andb_true_iff in Hs. destruct Hs as [Ha Hb].
        pose proof (Sa J HPJ Ha) as A. pose proof (Sb J HPJ Hb) as B. cbn in A, B. intros Hk. rewrite Hk in He.
        destruct (tv J x); destruct (tv J y); auto. rewrite (A eq_refl) in He. cbn in He. auto.
      + rewrite sat_pol_implies_neg in Hs by assumption. apply andb_true_iff in Hs. destruct Hs as [Hs He].
        apply andb_true_iff in Hs. destruct Hs as [Ha Hb].
        pose proof (Sa J HPJ Ha) as A. pose proof (Sb J HPJ Hb) as B. cbn in A, B. intros Ht.
        destruct (tv J (TSym n TBool)); auto.
        destruct (tv J a) eqn:Ea; [|discriminate]. rewrite (A eq_refl) in Ht. cbn in Ht.
        rewrite (B Ht) in He. discriminate.
    - right. exists n. split; [eapply In_names; eauto|auto].
    - intros P Hc Hs HT HF Hl. destruct (Hs n (In_names _ _ _ Hin)) as [Pk Pnk].
      destruct (La P Hc Hs HT HF) as [Pa Pca]; [leaves_sub Hl|].
      destruct (Lb P Hc Hs HT HF) as [Pb Pcb]; [leaves_sub Hl|].
      pose proof (Hc a Pa) as [Pna _]. pose proof (Hc b Pb) as [Pnb _].
      split; auto. destruct pol; lits_tac.
    - cbn [keyfun]. now rewrite Has.
  Qed.

  Lemma pol_iff_good M pol x y a b cap cbp can cbn n :
    In (T OIff [x; y], n) M -> assoc_term (T OIff [x; y]) M = Some n ->
    GoodP M pol x (R a cap) -> GoodP M pol y (R b cbp) ->
    GoodP M (negb pol) x (R a can) -> GoodP M (negb pol) y (R b cbn) ->
    GoodP M pol (T OIff [x; y])
          (R (TSym n TBool) (cap ++ can ++ cbp ++ cbn ++
                             [mkclause [neg_lit a; neg_lit b; TSym n TBool]; mkclause [neg_lit a; b; nk (TSym n TBool)];
                              mkclause [a; neg_lit b; nk (TSym n TBool)]; mkclause [a; b; TSym n TBool]])).
  Proof.
    intros Hin Has Gap Gbp Gan Gbn.
    pose proof Gap as (Cap & _ & _ & Lap & _). pose proof Gbp as (Cbp & _ & _ & Lbp & _).
    pose proof Gan as (Can & _ & _ & Lan & _). pose proof Gbn as (Cbn & _ & _ & Lbn & _).
    split; [|split; [|split; [|split]]].
    - intros I HPI Hnd Hl. pose proof (Pi_ext I M HPI) as HPE.
      destruct (Cap I HPI Hnd) as [H1 Ha]; [child_stable Hl|]. destruct (Cbp I HPI Hnd) as [H2 Hb]; [child_stable Hl|].
      destruct (Can I HPI Hnd) as [H3 _]; [child_stable Hl|]. destruct (Cbn I HPI Hnd) as [H4 _]; [child_stable Hl|].
      rewrite sat_iff4 by assumption. rewrite H1, H2, H3, H4, (tv_ext_key I M _ n Hnd Hin), tv_iff, Ha, Hb, eqb_reflx. auto.
    - intros J HPJ Hs. rewrite sat_iff4 in Hs by assumption.
      apply andb_true_iff in Hs. destruct Hs as [Hs He]. apply andb_true_iff in Hs. destruct Hs as [Hs H4].
      apply andb_true_iff in Hs. destruct Hs as [Hs H3]. apply andb_true_iff in Hs. destruct Hs as [H1 H2].
      apply eqb_prop in He. rewrite tv_iff.
      assert (Ea : tv J a = tv J x).
      { destruct pol; [apply (both_polarities M x a cap can J) | apply (both_polarities M x a can cap J)]; auto. }
      assert (Eb : tv J b = tv J y).
      { destruct pol; [apply (both_polarities M y b cbp cbn J) | apply (both_polarities M y b cbn cbp J)]; auto. }
      rewrite <- Ea, <- Eb, He. destruct pol; auto.
    - right. exists n. split; [eapply In_names; eauto|auto].
    - intros P Hc Hs HT HF Hl. destruct (Hs n (In_names _ _ _ Hin)) as [Pk Pnk].
      destruct (Lap P Hc Hs HT HF) as [Pa Pc1]; [leaves_sub Hl|].
      destruct (Lbp P Hc Hs HT HF) as [Pb Pc2]; [leaves_sub Hl|].
      destruct (Lan P Hc Hs HT HF) as [_ Pc3]; [leaves_sub Hl|].
      destruct (Lbn P Hc Hs HT HF) as [_ Pc4]; [leaves_sub Hl|].
      pose proof (Hc a Pa) as [Pna _]. pose proof (Hc b Pb) as [Pnb _].
      split; auto. lits_tac.
    - cbn [keyfun]. now rewrite Has.
  Qed.

  Lemma pol_ite_good M pol x y z i a b cip cin ct ce n :
    In (T OIte [x; y; z], n) M -> assoc_term (T OIte [x; y; z]) M = Some n ->
    GoodP M pol x (R i cip) -> GoodP M (negb pol) x (R i cin) -> GoodP M pol y (R a ct) -> GoodP M pol z (R b ce) ->
    GoodP M pol (T OIte [x; y; z])
          (R (TSym n TBool) (cip ++ cin ++ ct ++ ce ++
                             (if pol then [mkclause [neg_lit i; a; nk (TSym n TBool)]; mkclause [i; b; nk (TSym n TBool)]]
                              else [mkclause [neg_lit i; neg_lit a; TSym n TBool]; mkclause [i; neg_lit b; TSym n TBool]]))).
  Proof.
    intros Hin Has Gip Gin Ga Gb.
    pose proof Gip as (Cip & _ & _ & Lip & _). pose proof Gin as (Cin & _ & _ & Lin & _).
    pose proof Ga as (Ca & Sa & _ & La & _). pose proof Gb as (Cb & Sb & _ & Lb & _).
    split; [|split; [|split; [|split]]].
    - intros I HPI Hnd Hl. pose proof (Pi_ext I M HPI) as HPE.
      destruct (Cip I HPI Hnd) as [H1 Hi]; [child_stable Hl|]. destruct (Cin I HPI Hnd) as [H2 _]; [child_stable Hl|].
      destruct (Ca I HPI Hnd) as [H3 Ha]; [child_stable Hl|]. destruct (Cb I HPI Hnd) as [H4 Hb]; [child_stable Hl|].
      split; [|apply (tv_ext_key I M _ n Hnd Hin)].
      destruct pol; [rewrite sat_pol_ite_pos by assumption | rewrite sat_pol_ite_neg by assumption];
        rewrite H1, H2, H3, H4, (tv_ext_key I M _ n Hnd Hin), tv_ite, Hi, Ha, Hb;
        destruct (tv I x); destruct (tv I y); destruct (tv I z); reflexivity.
    - intros J HPJ Hs. rewrite tv_ite.
      assert (Ei : sat J cip = true -> sat J cin = true -> tv J i = tv J x).
      { intros A B. destruct pol; [apply (both_polarities M x i cip cin J) | apply (both_polarities M x i cin cip J)]; auto. }
      destruct pol.
      + rewrite sat_pol_ite_pos in Hs by assumption.
        apply andb_true_iff in Hs. destruct Hs as [Hs He]. apply andb_true_iff in Hs. destruct Hs as [Hs H4].
        apply andb_true_iff in Hs. destruct Hs as [Hs H3]. apply andb_true_iff in Hs. destruct Hs as [H1 H2].
        pose proof (Sa J HPJ H3) as A. pose proof (Sb J HPJ H4) as B. cbn in A, B. intros Hk. rewrite Hk, (Ei H1 H2) in He. cbn in He.
        destruct (tv J x); auto.
      + rewrite sat_pol_ite_neg in Hs by assumption.
        apply andb_true_iff in Hs. destruct Hs as [Hs He]. apply andb_true_iff in Hs. destruct Hs as [Hs H4].
        apply andb_true_iff in Hs. destruct Hs as [Hs H3]. apply andb_true_iff in Hs. destruct Hs as [H1 H2].
        pose proof (Sa J HPJ H3) as A. pose proof (Sb J HPJ H4) as B. cbn in A, B. intros Ht. rewrite (Ei H1 H2) in He.
        destruct (tv J x); [rewrite (A Ht) in He | rewrite (B Ht) in He]; exact He.
    - right. exists n. split; [eapply In_names; eauto|auto].
    - intros P Hc Hs HT HF Hl. destruct (Hs n (In_names _ _ _ Hin)) as [Pk Pnk].
      destruct (Lip P Hc Hs HT HF) as [Pii Pc1]; [leaves_sub Hl|].
      destruct (Lin P Hc Hs HT HF) as [_ Pc2]; [leaves_sub Hl|].
      destruct (La P Hc Hs HT HF) as [Pa Pc3]; [leaves_sub Hl|].
      destruct (Lb P Hc Hs HT HF) as [Pb Pc4]; [leaves_sub Hl|].
      pose proof (Hc i Pii) as [Pni _]. pose proof (Hc a Pa) as [Pna _]. pose proof (Hc b Pb) as [Pnb _].
      split; auto. destruct pol; lits_tac.
    - cbn [keyfun]. now rewrite Has.
  Qed.

  (* ---------------------------------------------------------------- the polarity walk *)
  Definition WG (t : term) : Prop := forall pol st r st', pol_walk asimp t pol st = Some (r, st') ->
    st_le st st' /\ forall M, extends (intro st') M -> GoodP M pol t r.

  Lemma key_var_inP f st k st' : key_var f st = (k, st') ->
    st_le st st' /\ forall M, extends (intro st') M -> exists n, k = TSym n TBool /\ In (f, n) M /\ assoc_term f M = Some n.
  Proof.
    intros H. split; [apply (key_var_spec _ _ _ _ H)|]. intros M HM.
    destruct (key_var_in _ _ _ _ M H HM) as (_ & n & A & B & C). eauto.
  Qed.

  Lemma pol_node_nary o args pol rs st r st' : (o = OAnd \/ o = OOr) ->
    pol_node asimp (T o args) pol rs st = Some (r, st') ->
    st_le st st' /\ forall M, extends (intro st') M -> Forall2 (GoodP M pol) args rs -> GoodP M pol (T o args) r.
  Proof.
    intros Ho H.
    assert (NE : (forall x, rs <> [x]) -> forall M, Forall2 (GoodP M pol) args rs -> forall x, args <> [x]).
    { intros Hrs M HF x ->. inversion HF as [|? y ? rs' _ HF']; subst. inversion HF'; subst. now apply (Hrs y). }
    destruct Ho as [-> | ->]; unfold pol_node in H.
    - destruct rs as [|r0 [|r1 rs']] eqn:Ers.
      + cbn [unpack] in H. destruct (key_var (T OAnd args) st) as [k s1] eqn:K. injection H as <- <-.
        destruct (key_var_inP _ _ _ _ K) as [Hle HM]. split; auto. intros M HMe HF.
        destruct (HM M HMe) as (n & -> & Hin & Has). inversion HF; subst.
        apply (pol_and_good M pol [] [] n); auto; try (intros x0 E0; discriminate E0); try constructor.
      + injection H as <- <-. split; [apply st_le_refl|]. intros M _ HF.
        inversion HF as [|x ? args' ? Hx HF']; subst. inversion HF'; subst.
        apply pol_pass_good; auto. intros I. rewrite tv_and. cbn. apply andb_true_r.
      + destruct (unpack (r0 :: r1 :: rs')) as [ps|] eqn:U; [|discriminate].
        destruct (key_var (T OAnd args) st) as [k s1] eqn:K. injection H as <- <-.
        destruct (key_var_inP _ _ _ _ K) as [Hle HM]. split; auto. intros M HMe HF.
        destruct (HM M HMe) as (n & -> & Hin & Has).
        apply pol_and_good; auto; [eapply NE; eauto; intros x0 E0; discriminate E0 | eapply unpack_Forall2; eauto].
    - destruct rs as [|r0 [|r1 rs']] eqn:Ers.
      + cbn [unpack] in H. destruct (key_var (T OOr args) st) as [k s1] eqn:K. injection H as <- <-.
        destruct (key_var_inP _ _ _ _ K) as [Hle HM]. split; auto. intros M HMe HF.
        destruct (HM M HMe) as (n & -> & Hin & Has). inversion HF; subst.
        apply (pol_or_good M pol [] [] n); auto; try (intros x0 E0; discriminate E0); try constructor.
      + injection H as <- <-. split; [apply st_le_refl|]. intros M _ HF.
        inversion HF as [|x ? args' ? Hx HF']; subst. inversion HF'; subst.
        apply pol_pass_good; auto. intros I. rewrite tv_or. cbn. apply orb_false_r.
      + destruct (unpack (r0 :: r1 :: rs')) as [ps|] eqn:U; [|discriminate].
        destruct (key_var (T OOr args) st) as [k s1] eqn:K. injection H as <- <-.
        destruct (key_var_inP _ _ _ _ K) as [Hle HM]. split; auto. intros M HMe HF.
        destruct (HM M HMe) as (n & -> & Hin & Has).
        apply pol_or_good; auto; [eapply NE; eauto; intros x0 E0; discriminate E0 | eapply unpack_Forall2; eauto].
  Qed.

  Lemma GoodP_ext_mono : True. Proof. exact Logic.I. Qed.

  Lemma pol_walk_leaf o args pol st r st' :
    is_connective o = false -> pol_node asimp (T o args) pol [] st = Some (r, st') ->
    st_le st st' /\ forall M, extends (intro st') M -> GoodP M pol (T o args) r.
  Proof.
    intros Ho H.
    assert (LF : forall M (r0 : res), r0 = PH \/ r0 = R (T o args) [] -> GoodP M pol (T o args) r0).
    { intros M r0 [-> | ->]; [exact Logic.I | now apply pol_leaf_good]. }
    unfold pol_node in H. destruct o; try discriminate.
    all: try (injection H as <- <-; (split; [apply st_le_refl|]); intros M _; apply LF;
              unfold bool_symbol, walk_constant; try destruct (ty_eqb _ _); solve [auto]).
    all: try (cbv [is_theory_relation is_str_operator] in H; try discriminate;
              injection H as <- <-; (split; [apply st_le_refl|]); intros M _; apply LF; solve [auto]).
    - unfold walk_function in H. destruct t; try discriminate. cbn beta iota in H. injection H as <- <-.
      split; [apply st_le_refl|]. intros M _. apply LF. destruct (ty_eqb t TBool); auto.
    - destruct k; cbv [is_theory_relation is_str_operator] in H; try discriminate;
        injection H as <- <-; (split; [apply st_le_refl|]); intros M _; apply LF; solve [auto].
  Qed.

  Theorem pol_walk_good : forall t, WG t.
  Proof.
    induction t as [o args IH] using term_ind'. intros pol st r st' H.
    destruct (is_connective o) eqn:Hco.
    - destruct o; try discriminate.
      + (* and *)
        change (match walk_list (fun x s => pol_walk asimp x pol s) args st with
                | Some (rs, s1) => pol_node asimp (T OAnd args) pol rs s1 | None => None end = Some (r, st')) in H.
        destruct (walk_list (fun x s => pol_walk asimp x pol s) args st) as [[rs s1]|] eqn:E; [|discriminate].
        assert (IH' : Forall (fun x => forall st r st', pol_walk asimp x pol st = Some (r, st') ->
                                       st_le st st' /\ forall M, extends (intro st') M -> GoodP M pol x r) args).
        { rewrite Forall_forall in IH |- *. intros x Hx s0 r0 s0'. apply (IH x Hx pol). }
        destruct (walk_list_good _ (fun M => GoodP M pol) args IH' _ _ _ E) as [L1 F1].
        destruct (pol_node_nary OAnd args pol rs s1 r st' (or_introl eq_refl) H) as [L2 F2].
        split; [eapply st_le_trans; eauto|]. intros M HM. apply F2; auto. apply F1. eapply st_le_extends; eauto.
      + (* or *)
        change (match walk_list (fun x s => pol_walk asimp x pol s) args st with
                | Some (rs, s1) => pol_node asimp (T OOr args) pol rs s1 | None => None end = Some (r, st')) in H.
        destruct (walk_list (fun x s => pol_walk asimp x pol s) args st) as [[rs s1]|] eqn:E; [|discriminate].
        assert (IH' : Forall (fun x => forall st r st', pol_walk asimp x pol st = Some (r, st') ->
                                       st_le st st' /\ forall M, extends (intro st') M -> GoodP M pol x r) args).
        { rewrite Forall_forall in IH |- *. intros x Hx s0 r0 s0'. apply (IH x Hx pol). }
        destruct (walk_list_good _ (fun M => GoodP M pol) args IH' _ _ _ E) as [L1 F1].
        destruct (pol_node_nary OOr args pol rs s1 r st' (or_intror eq_refl) H) as [L2 F2].
        split; [eapply st_le_trans; eauto|]. intros M HM. apply F2; auto. apply F1. eapply st_le_extends; eauto.
      + (* not *)
        destruct args as [|x [|y rest]]; try discriminate. inversion IH as [|? ? IHx _]; subst.
        change (match pol_walk asimp x (negb pol) st with
                | Some (ra, s1) => pol_node asimp (T ONot [x]) pol [ra] s1 | None => None end = Some (r, st')) in H.
        destruct (pol_walk asimp x (negb pol) st) as [[ra s1]|] eqn:E; [|discriminate].
        destruct (IHx _ _ _ _ E) as [L1 F1].
        unfold pol_node, walk_not in H. destruct ra as [|a c]; [discriminate|]. cbn beta iota in H. injection H as <- <-.
        split; auto. intros M HM. apply pol_not_good. now apply F1.
      + (* implies *)
        destruct args as [|x [|y [|z rest]]]; try discriminate.
        inversion IH as [|? ? IHx IH1]; subst. inversion IH1 as [|? ? IHy _]; subst.
        change (match pol_walk asimp y pol st with
                | Some (rb, s1) => match pol_walk asimp x (negb pol) s1 with
                                   | Some (ra, s2) => pol_node asimp (T OImplies [x; y]) pol [ra; rb] s2
                                   | None => None end
                | None => None end = Some (r, st')) in H.
        destruct (pol_walk asimp y pol st) as [[rb s1]|] eqn:E1; [|discriminate].
        destruct (pol_walk asimp x (negb pol) s1) as [[ra s2]|] eqn:E2; [|discriminate].
        destruct (IHy _ _ _ _ E1) as [L1 F1]. destruct (IHx _ _ _ _ E2) as [L2 F2].
        unfold pol_node in H. destruct ra as [|a ca]; [discriminate|]. destruct rb as [|b cb]; [discriminate|].
        destruct (key_var (T OImplies [x; y]) s2) as [k s3] eqn:K. injection H as <- <-.
        destruct (key_var_inP _ _ _ _ K) as [L3 HM3].
        split; [eapply st_le_trans; [eauto|eapply st_le_trans; eauto]|]. intros M HM.
        destruct (HM3 M HM) as (n & -> & Hin & Has).
        pose proof (st_le_extends _ _ _ L3 HM) as HM2. pose proof (st_le_extends _ _ _ L2 HM2) as HM1.
        apply pol_implies_good; auto.
      + (* iff *)
        destruct args as [|x [|y [|z rest]]]; try discriminate.
        inversion IH as [|? ? IHx IH1]; subst. inversion IH1 as [|? ? IHy _]; subst.
        change (match pol_walk asimp y (negb pol) st with
                | Some (rbn, s1) =>
                    match pol_walk asimp x (negb pol) s1 with
                    | Some (ran, s2) =>
                        match pol_walk asimp y pol s2 with
                        | Some (rbp, s3) =>
                            match pol_walk asimp x pol s3 with
                            | Some (rap, s4) => pol_node asimp (T OIff [x; y]) pol [rap; rbp; ran; rbn] s4
                            | None => None end
                        | None => None end
                    | None => None end
                | None => None end = Some (r, st')) in H.
        destruct (pol_walk asimp y (negb pol) st) as [[rbn s1]|] eqn:E1; [|discriminate].
        destruct (pol_walk asimp x (negb pol) s1) as [[ran s2]|] eqn:E2; [|discriminate].
        destruct (pol_walk asimp y pol s2) as [[rbp s3]|] eqn:E3; [|discriminate].
        destruct (pol_walk asimp x pol s3) as [[rap s4]|] eqn:E4; [|discriminate].
        destruct (IHy _ _ _ _ E1) as [L1 F1]. destruct (IHx _ _ _ _ E2) as [L2 F2].
        destruct (IHy _ _ _ _ E3) as [L3 F3]. destruct (IHx _ _ _ _ E4) as [L4 F4].
        unfold pol_node in H. destruct rap as [|a cap]; [discriminate|]. destruct rbp as [|b cbp]; [discriminate|].
        destruct ran as [|a' can]; [discriminate|]. destruct rbn as [|b' cbn]; [discriminate|].
        destruct (key_var (T OIff [x; y]) s4) as [k s5] eqn:K. injection H as <- <-.
        destruct (key_var_inP _ _ _ _ K) as [L5 HM5].
        split; [eapply st_le_trans; [eauto|eapply st_le_trans; [eauto|eapply st_le_trans; [eauto|eapply st_le_trans; eauto]]]|].
        intros M HM. destruct (HM5 M HM) as (n & -> & Hin & Has).
        pose proof (st_le_extends _ _ _ L5 HM) as HM4. pose proof (st_le_extends _ _ _ L4 HM4) as HM3.
        pose proof (st_le_extends _ _ _ L3 HM3) as HM2. pose proof (st_le_extends _ _ _ L2 HM2) as HM1.
        pose proof (F4 M HM4) as G4. pose proof (F3 M HM3) as G3. pose proof (F2 M HM2) as G2. pose proof (F1 M HM1) as G1.
        assert (a' = a) by (rewrite (GoodP_key _ _ _ _ _ G2), (GoodP_key _ _ _ _ _ G4); reflexivity).
        assert (b' = b) by (rewrite (GoodP_key _ _ _ _ _ G1), (GoodP_key _ _ _ _ _ G3); reflexivity).
        subst a' b'. apply pol_iff_good; auto.
      + (* ite *)
        destruct args as [|x [|y [|z [|u rest]]]]; try discriminate.
        inversion IH as [|? ? IHx IH1]; subst. inversion IH1 as [|? ? IHy IH2]; subst. inversion IH2 as [|? ? IHz _]; subst.
        change (match pol_walk asimp z pol st with
                | Some (re, s1) =>
                    match pol_walk asimp y pol s1 with
                    | Some (rt, s2) =>
                        match pol_walk asimp x (negb pol) s2 with
                        | Some (rin, s3) =>
                            match pol_walk asimp x pol s3 with
                            | Some (rip, s4) => pol_node asimp (T OIte [x; y; z]) pol [rip; rin; rt; re] s4
                            | None => None end
                        | None => None end
                    | None => None end
                | None => None end = Some (r, st')) in H.
        destruct (pol_walk asimp z pol st) as [[re s1]|] eqn:E1; [|discriminate].
        destruct (pol_walk asimp y pol s1) as [[rt s2]|] eqn:E2; [|discriminate].
        destruct (pol_walk asimp x (negb pol) s2) as [[rin s3]|] eqn:E3; [|discriminate].
        destruct (pol_walk asimp x pol s3) as [[rip s4]|] eqn:E4; [|discriminate].
        destruct (IHz _ _ _ _ E1) as [L1 F1]. destruct (IHy _ _ _ _ E2) as [L2 F2].
        destruct (IHx _ _ _ _ E3) as [L3 F3]. destruct (IHx _ _ _ _ E4) as [L4 F4].
        assert (L14 : st_le st s4).
        { eapply st_le_trans; [eauto|eapply st_le_trans; [eauto|eapply st_le_trans; eauto]]. }
        unfold pol_node in H. destruct (existsb is_ph [rip; rin; rt; re]) eqn:Eph.
        * injection H as <- <-. split; auto. intros M _. exact Logic.I.
        * destruct rip as [|i cip]; [discriminate|]. destruct rin as [|i' cin]; [discriminate|].
          destruct rt as [|a ct]; [discriminate|]. destruct re as [|b ce]; [discriminate|].
          destruct (key_var (T OIte [x; y; z]) s4) as [k s5] eqn:K. injection H as <- <-.
          destruct (key_var_inP _ _ _ _ K) as [L5 HM5].
          split; [eapply st_le_trans; eauto|].
          intros M HM. destruct (HM5 M HM) as (n & -> & Hin & Has).
          pose proof (st_le_extends _ _ _ L5 HM) as HM4. pose proof (st_le_extends _ _ _ L4 HM4) as HM3.
          pose proof (st_le_extends _ _ _ L3 HM3) as HM2. pose proof (st_le_extends _ _ _ L2 HM2) as HM1.
          pose proof (F4 M HM4) as G4. pose proof (F3 M HM3) as G3. pose proof (F2 M HM2) as G2. pose proof (F1 M HM1) as G1.
          assert (i' = i) by (rewrite (GoodP_key _ _ _ _ _ G3), (GoodP_key _ _ _ _ _ G4); reflexivity).
          subst i'. apply pol_ite_good; auto.
    - (* atoms *)
      assert (H' : pol_node asimp (T o args) pol [] st = Some (r, st')).
      { destruct o; try discriminate; exact H. }
      now apply pol_walk_leaf.
  Qed.

  Lemma pol_walk_ok f : walk_ok (fun f st => pol_walk asimp f true st) f.
  Proof.
    intros st key cl st' H. destruct (pol_walk_good f true _ _ _ H) as [L G]. split; auto.
    destruct (G _ (extends_refl _)) as (C & S & K & Li & _). split; [|split; [|split]]; auto.
  Qed.
End Proofs.

(* ================================================================= the C11 theorems (CNF part) *)
(* the simplifier on atoms preserves truth values under the interpretations in Pi *)
Definition simp_sound_on (Pi : interp -> Prop) (asimp : term -> term) : Prop :=
  forall I t, Pi I -> tv I (asimp t) = tv I t.
(* Pi is closed under giving Boolean values to Boolean symbols (how the proofs build interpretations) *)
Definition pi_closed (Pi : interp -> Prop) : Prop :=
  (forall I M, Pi I -> Pi (ext I M)) /\ (forall J n b, Pi J -> Pi (bind1 J (n, TBool) (VBool b))).
Definition simp_sound (asimp : term -> term) : Prop := forall I t, tv I (asimp t) = tv I t.
Definition clauses_of_literals (cl : list (list term)) : Prop := Forall (Forall (fun l => litc l = true)) cl.
(* the names of the symbols introduced by a conversion *)
Definition introduced (st' : cstate) : list string := map snd (intro st').

Section FinalRel.
  Variable asimp : term -> term.
  Variable Pi : interp -> Prop.
  Hypothesis Hs : simp_sound_on Pi asimp.
  Hypothesis Hc : pi_closed Pi.

  Theorem cnf_shape_rel f st cl st' : shape_hyp asimp ->
    cnf_convert asimp f st = Some (cl, st') -> clauses_of_literals cl.
  Proof. intros Hsh H. exact (convert_shape asimp Pi _ f st cl st' (cnf_walk_ok asimp Pi Hs (proj1 Hc) f) Hsh H). Qed.

  (* ---- reused converter objects: each call of a history ([reuse_ok]) ---- *)
  Theorem cnf_complete_reuse f st cl st' I : reuse_ok f st ->
    cnf_convert asimp f st = Some (cl, st') -> Pi I -> holds I f ->
    exists I', agrees_off (introduced st') I I' /\ sat I' cl = true /\ holds I' (as_formula cl) /\
               (forall n, In n (introduced st') -> In n (introduced st) \/ ~ In n (mnames (mgr st))).
  Proof.
    intros Hst H HP Hf.
    destruct (convert_complete asimp Pi Hs (proj1 Hc) _ f st cl st' I (cnf_walk_ok asimp Pi Hs (proj1 Hc) f) Hst H HP Hf) as (I' & A & B & C).
    exists I'. repeat split; auto; try apply A. now apply as_formula_holds.
  Qed.
  Theorem cnf_sound_reuse f st cl st' J : reuse_ok f st ->
    cnf_convert asimp f st = Some (cl, st') -> Pi J -> sat J cl = true -> holds J f.
  Proof.
    intros Hst H HP HJ.
    exact (convert_sound asimp Pi Hs (proj2 Hc) _ f st cl st' J (cnf_walk_ok asimp Pi Hs (proj1 Hc) f) Hst H HP HJ).
  Qed.
  Theorem pol_complete_reuse f st cl st' I : reuse_ok f st ->
    pol_convert asimp f st = Some (cl, st') -> Pi I -> holds I f ->
    exists I', agrees_off (introduced st') I I' /\ sat I' cl = true /\ holds I' (as_formula cl) /\
               (forall n, In n (introduced st') -> In n (introduced st) \/ ~ In n (mnames (mgr st))).
  Proof.
    intros Hst H HP Hf.
    destruct (convert_complete asimp Pi Hs (proj1 Hc) _ f st cl st' I (pol_walk_ok asimp Pi Hs (proj1 Hc) f) Hst H HP Hf) as (I' & A & B & C).
    exists I'. repeat split; auto; try apply A. now apply as_formula_holds.
  Qed.
  Theorem pol_sound_reuse f st cl st' J : reuse_ok f st ->
    pol_convert asimp f st = Some (cl, st') -> Pi J -> sat J cl = true -> holds J f.
  Proof.
    intros Hst H HP HJ.
    exact (convert_sound asimp Pi Hs (proj2 Hc) _ f st cl st' J (pol_walk_ok asimp Pi Hs (proj1 Hc) f) Hst H HP HJ).
  Qed.

  (* ---- a new converter object ([start_ok]) ---- *)
  Lemma fresh_only f st st' : start_ok f st ->
    (forall n, In n (introduced st') -> In n (introduced st) \/ ~ In n (mnames (mgr st))) ->
    forall n, In n (introduced st') -> ~ In n (mnames (mgr st)).
  Proof. intros [Hi _] H n Hn. destruct (H n Hn) as [Ho|]; auto. unfold introduced in Ho. rewrite Hi in Ho. destruct Ho. Qed.

  Theorem cnf_complete_rel f st cl st' I : start_ok f st ->
    cnf_convert asimp f st = Some (cl, st') -> Pi I -> holds I f ->
    exists I', agrees_off (introduced st') I I' /\ sat I' cl = true /\ holds I' (as_formula cl) /\
               (forall n, In n (introduced st') -> ~ In n (mnames (mgr st))).
  Proof.
    intros Hst H HP Hf. destruct (cnf_complete_reuse f st cl st' I (start_reuse _ _ Hst) H HP Hf) as (I' & A & B & C & D).
    exists I'. repeat split; auto; try apply A. exact (fresh_only f st st' Hst D).
  Qed.
  Theorem cnf_sound_rel f st cl st' J : start_ok f st ->
    cnf_convert asimp f st = Some (cl, st') -> Pi J -> sat J cl = true -> holds J f.
  Proof. intros Hst. apply cnf_sound_reuse. now apply start_reuse. Qed.
  Theorem pol_shape_rel f st cl st' : shape_hyp asimp ->
    pol_convert asimp f st = Some (cl, st') -> clauses_of_literals cl.
  Proof. intros Hsh H. exact (convert_shape asimp Pi _ f st cl st' (pol_walk_ok asimp Pi Hs (proj1 Hc) f) Hsh H). Qed.
  Theorem pol_complete_rel f st cl st' I : start_ok f st ->
    pol_convert asimp f st = Some (cl, st') -> Pi I -> holds I f ->
    exists I', agrees_off (introduced st') I I' /\ sat I' cl = true /\ holds I' (as_formula cl) /\
               (forall n, In n (introduced st') -> ~ In n (mnames (mgr st))).
  Proof.
    intros Hst H HP Hf. destruct (pol_complete_reuse f st cl st' I (start_reuse _ _ Hst) H HP Hf) as (I' & A & B & C & D).
    exists I'. repeat split; auto; try apply A. exact (fresh_only f st st' Hst D).
  Qed.
  Theorem pol_sound_rel f st cl st' J : start_ok f st ->
    pol_convert asimp f st = Some (cl, st') -> Pi J -> sat J cl = true -> holds J f.
  Proof. intros Hst. apply pol_sound_reuse. now apply start_reuse. Qed.

  (* ---- histories: every state reached by successful conversions on one object is well formed ---- *)
  Inductive cnf_hist : cstate -> Prop :=
  | ch_new guess names : cnf_hist (init_state guess names)
  | ch_cnf st f cl st' : cnf_hist st -> cnf_convert asimp f st = Some (cl, st') -> cnf_hist st'
  | ch_pol st f cl st' : cnf_hist st -> pol_convert asimp f st = Some (cl, st') -> cnf_hist st'
  | ch_mgr st m' : cnf_hist st -> incl (mnames (mgr st)) (mnames m') -> cnf_hist {| mgr := m'; intro := intro st |}.

  Lemma convert_with_le w f st cl st' : walk_ok asimp Pi w f -> convert_with asimp w f st = Some (cl, st') -> st_le st st'.
  Proof.
    intros Hw H. unfold convert_with in H. destruct (w f st) as [[[|tl cl0] s1]|] eqn:E; try discriminate.
    injection H as _ <-. exact (proj1 (Hw _ _ _ _ E)).
  Qed.
  Theorem cnf_hist_wf st : cnf_hist st -> st_wf st.
  Proof.
    induction 1 as [guess names | st f cl st' _ IH H | st f cl st' _ IH H | st m' _ IH Hm].
    - split; cbn; [constructor | intros ? []].
    - destruct (convert_with_le _ f st cl st' (cnf_walk_ok asimp Pi Hs (proj1 Hc) f) H) as (_ & _ & W). auto.
    - destruct (convert_with_le _ f st cl st' (pol_walk_ok asimp Pi Hs (proj1 Hc) f) H) as (_ & _ & W). auto.
    - destruct IH as [Hnd Hin]. split; cbn; auto. eapply incl_tran; eauto.
  Qed.
  (* the n-th call of any history: the start condition reduces to what the caller controls *)
  Theorem cnf_hist_reuse_ok st f : cnf_hist st ->
    (forall n ty, In (n, ty) (fv f) -> In n (mnames (mgr st))) ->
    (forall n, In n (introduced st) -> ~ In (n, TBool) (fv f)) -> reuse_ok f st.
  Proof. intros Hh Hn Ho. split; [now apply cnf_hist_wf | split; auto]. Qed.
End FinalRel.

(* ---- every interpretation: the simplifier as an unconditional hypothesis ---- *)
Definition all_interps (I : interp) : Prop := True.
Lemma all_closed : pi_closed all_interps.
Proof. split; intros; exact Logic.I. Qed.
Lemma simp_sound_all asimp : simp_sound asimp -> simp_sound_on all_interps asimp.
Proof. intros H I t _. apply H. Qed.

Section Final.
  Variable asimp : term -> term.
  Hypothesis Hs : simp_sound asimp.

  Theorem cnf_shape f st cl st' : shape_hyp asimp ->
    cnf_convert asimp f st = Some (cl, st') -> clauses_of_literals cl.
  Proof. exact (cnf_shape_rel asimp all_interps (simp_sound_all asimp Hs) all_closed f st cl st'). Qed.
  Theorem cnf_complete f st cl st' I : start_ok f st ->
    cnf_convert asimp f st = Some (cl, st') -> holds I f ->
    exists I', agrees_off (introduced st') I I' /\ sat I' cl = true /\ holds I' (as_formula cl) /\
               (forall n, In n (introduced st') -> ~ In n (mnames (mgr st))).
  Proof. intros Hst H. exact (cnf_complete_rel asimp all_interps (simp_sound_all asimp Hs) all_closed f st cl st' I Hst H Logic.I). Qed.
  Theorem cnf_sound f st cl st' J : start_ok f st ->
    cnf_convert asimp f st = Some (cl, st') -> sat J cl = true -> holds J f.
  Proof. intros Hst H. exact (cnf_sound_rel asimp all_interps (simp_sound_all asimp Hs) all_closed f st cl st' J Hst H Logic.I). Qed.
  Theorem pol_shape f st cl st' : shape_hyp asimp ->
    pol_convert asimp f st = Some (cl, st') -> clauses_of_literals cl.
  Proof. exact (pol_shape_rel asimp all_interps (simp_sound_all asimp Hs) all_closed f st cl st'). Qed.
  Theorem pol_complete f st cl st' I : start_ok f st ->
    pol_convert asimp f st = Some (cl, st') -> holds I f ->
    exists I', agrees_off (introduced st') I I' /\ sat I' cl = true /\ holds I' (as_formula cl) /\
               (forall n, In n (introduced st') -> ~ In n (mnames (mgr st))).
  Proof. intros Hst H. exact (pol_complete_rel asimp all_interps (simp_sound_all asimp Hs) all_closed f st cl st' I Hst H Logic.I). Qed.
  Theorem pol_sound f st cl st' J : start_ok f st ->
    pol_convert asimp f st = Some (cl, st') -> sat J cl = true -> holds J f.
  Proof. intros Hst H. exact (pol_sound_rel asimp all_interps (simp_sound_all asimp Hs) all_closed f st cl st' J Hst H Logic.I). Qed.
End Final.

(* ------------------------------------------------------------------ regression cases *)
(* the witnesses that refuted soundness before the repair of the clean-up (pysmt 7e10806) *)
Definition id_simp (t : term) : term := t.
Lemma id_simp_sound : simp_sound id_simp.
Proof. intros I t. reflexivity. Qed.
Lemma id_simp_shape : shape_hyp id_simp.
Proof. intros t Ht. now apply atomic_litc. Qed.

Definition sym_a := TSym "a" TBool.
Definition wit_f : term := T OAnd [sym_a; TFalse].          (* And(a, FALSE) *)
Definition wit_st : cstate := init_state 0 ["a"%string].
Definition all_true : interp :=
  {| isym := fun _ _ => VBool true; ifun := fun _ _ _ => VBool true; rdiv0 := fun x => x; idiv0 := fun x => x |}.

Lemma wit_start : start_ok wit_f wit_st.
Proof. split; [reflexivity|]. intros n ty H. cbn in H. destruct H as [[= <- _]|[]]. now left. Qed.

(* cnf(And(a, FALSE)), cnf(And(FALSE, FALSE)), cnf(Or(FALSE, FALSE)) are FALSE_CNF = {{}} (were {{a}}, {}, {}) *)
Example regression_emptied :
  (exists st', cnf_convert id_simp wit_f wit_st = Some ([[]], st')) /\
  (exists st', pol_convert id_simp wit_f wit_st = Some ([[]], st')) /\
  (exists st', cnf_convert id_simp (T OAnd [TFalse; TFalse]) (init_state 0 []) = Some ([[]], st')) /\
  (exists st', cnf_convert id_simp (T OOr [TFalse; TFalse]) (init_state 0 []) = Some ([[]], st')) /\
  as_formula [[]] = TFalse.
Proof. repeat split; try (eexists; vm_compute; reflexivity). Qed.

(* the hypotheses of the positive theorems are satisfiable by a non-trivial formula:
   (a & b) | !(c <-> ite(a, b, TRUE)),  manager knowing a, b, c and a user symbol FV0 *)
Definition ex_f : term :=
  T OOr [T OAnd [sym_a; TSym "b" TBool];
         T ONot [T OIff [TSym "c" TBool; T OIte [sym_a; TSym "b" TBool; TTrue]]]].
Definition ex_st : cstate := init_state 0 ["a"; "b"; "c"; "FV0"]%string.
Example ex_hypotheses :
  start_ok ex_f ex_st /\
  (exists cl st', cnf_convert id_simp ex_f ex_st = Some (cl, st') /\ List.length cl = 11 /\
                  introduced st' = ["FV1"; "FV2"; "FV3"; "FV4"]%string) /\
  (exists cl st', pol_convert id_simp ex_f ex_st = Some (cl, st') /\ List.length cl = 10) /\
  holds all_true ex_f.
Proof.
  split.
  { split; [reflexivity|]. intros n ty H. vm_compute in H.
    repeat (destruct H as [H|H]; [injection H as <- _; cbn; tauto|]). destruct H. }
  split; [eexists; eexists; vm_compute; repeat split; reflexivity|].
  split; [eexists; eexists; vm_compute; repeat split; reflexivity|].
  apply holds_tv. reflexivity.
Qed.

(* a two-call history on one CNFizer: the second formula shares (a & b) with the first and reuses
   its variable FV1; the hypotheses of the reuse theorems hold for the second call *)
Definition ex_g : term := T OImplies [T OAnd [sym_a; TSym "b" TBool]; TSym "c" TBool].
Example ex_history :
  exists cl1 st1 cl2 st2,
    cnf_convert id_simp ex_f ex_st = Some (cl1, st1) /\ cnf_convert id_simp ex_g st1 = Some (cl2, st2) /\
    cnf_hist id_simp st1 /\ reuse_ok ex_g st1 /\
    introduced st1 = ["FV1"; "FV2"; "FV3"; "FV4"]%string /\ introduced st2 = ["FV1"; "FV2"; "FV3"; "FV4"; "FV5"]%string.
Proof.
  destruct (cnf_convert id_simp ex_f ex_st) as [[cl1 st1]|] eqn:E1; [|vm_compute in E1; discriminate].
  destruct (cnf_convert id_simp ex_g st1) as [[cl2 st2]|] eqn:E2.
  2: { vm_compute in E1. injection E1 as <- <-. vm_compute in E2. discriminate. }
  exists cl1, st1, cl2, st2.
  assert (Hh : cnf_hist id_simp st1) by (eapply ch_cnf; [apply ch_new | exact E1]).
  split; [first [exact E1 | reflexivity]|]. split; [first [exact E2 | reflexivity]|]. split; [exact Hh|].
  assert (Est : introduced st1 = ["FV1"; "FV2"; "FV3"; "FV4"]%string /\ mnames (mgr st1) = ["a"; "b"; "c"; "FV0"; "FV1"; "FV2"; "FV3"; "FV4"]%string).
  { vm_compute in E1. injection E1 as <- <-. split; reflexivity. }
  destruct Est as [Ei En]. split; [|split; [exact Ei|]].
  - apply (cnf_hist_reuse_ok id_simp all_interps (simp_sound_all id_simp id_simp_sound) all_closed st1 ex_g Hh).
    + intros n ty H. rewrite En. vm_compute in H.
      repeat (destruct H as [H|H]; [injection H as <- _; cbn; tauto|]). destruct H.
    + intros n Hn. rewrite Ei in Hn. intros H. vm_compute in H.
      repeat (destruct H as [H|H]; [injection H as <-; cbn in Hn; repeat (destruct Hn as [Hn|Hn]; [discriminate Hn|]); destruct Hn|]).
      destruct H.
  - vm_compute in E1. injection E1 as <- <-. vm_compute in E2. injection E2 as <- <-. reflexivity.
Qed.
