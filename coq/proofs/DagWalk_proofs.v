(* Theorems about the memoised DAG walker model (core/DagWalk.v), for EVERY DAG
   (children smaller than parents) and EVERY callback f (which may fail at any node). *)
From Coq Require Import List Arith Bool Lia.
From PySMT.core Require Import DagWalk.
Import ListNotations.

Section Proofs.
  Variable A : Type.
  Variable children : nat -> list nat.
  Hypothesis children_lt : forall n c, In c (children n) -> c < n.
  Variable f : nat -> list A -> option A.

  Local Notation memo := (memo A).
  Local Notation st := (st A).
  Local Notation stack := (list (bool * nat)).
  Local Notation step := (step A children f).
  Local Notation steps := (steps A children f).
  Local Notation run := (run A children f).
  Local Notation iter_walk := (iter_walk A children f).
  Local Notation walk := (walk A children f).
  Local Notation F := (F A children f).
  Local Notation Fk := (Fk A children f).
  Local Notation reach := (reach children).
  Local Notation edges := (edges children).
  Local Notation edges_upto := (edges_upto children).
  Local Notation enough_fuel := (enough_fuel children).
  Local Notation inm := (inm A).
  Local Notation upd := (upd A).
  Local Notation mempty := (mempty A).
  Local Notation lookup_all := (lookup_all A).
  Local Notation push_with_children := (push_with_children A children).

  (* ---------------- the specification F ------------------------------------------------ *)
  Lemma mapM_ext_in {X Y} (g h : X -> option Y) l :
    (forall x, In x l -> g x = h x) -> mapM g l = mapM h l.
  Proof.
    induction l as [|x l IH]; intros H; cbn; [reflexivity|].
    rewrite (H x (or_introl eq_refl)), IH; [reflexivity|]. intros y Hy. apply H. now right.
  Qed.

  Lemma Fk_eq : forall n k1 k2, n < k1 -> n < k2 -> Fk k1 n = Fk k2 n.
  Proof.
    induction n as [n IH] using lt_wf_ind. intros [|k1] [|k2] H1 H2; try lia.
    cbn [DagWalk.Fk]. rewrite (mapM_ext_in (Fk k1) (Fk k2)); [reflexivity|].
    intros c Hc. pose proof (children_lt _ _ Hc). apply IH; lia.
  Qed.

  Lemma F_unfold n :
    F n = match mapM F (children n) with Some vs => f n vs | None => None end.
  Proof.
    unfold DagWalk.F at 1. cbn [DagWalk.Fk].
    rewrite (mapM_ext_in (Fk n) F); [reflexivity|].
    intros c Hc. unfold DagWalk.F. pose proof (children_lt _ _ Hc). apply Fk_eq; lia.
  Qed.

  Lemma mapM_none {X Y} (g : X -> option Y) l c : In c l -> g c = None -> mapM g l = None.
  Proof.
    induction l as [|x l IH]; intros Hin Hc; [destruct Hin|]. destruct Hin as [<-|Hin]; cbn.
    - rewrite Hc. reflexivity.
    - destruct (g x); [|reflexivity]. rewrite (IH Hin Hc). reflexivity.
  Qed.

  Lemma reach_le : forall n x, reach n x -> x <= n.
  Proof.
    intros n x H. induction H as [|n c x Hc _ IH]; [lia|]. pose proof (children_lt _ _ Hc). lia.
  Qed.

  Lemma reach_trans : forall a b c, reach a b -> reach b c -> reach a c.
  Proof.
    intros a b c H. induction H as [|n k x Hk _ IH]; intros Hbc; [assumption|].
    eapply reach_step; [exact Hk | auto].
  Qed.

  Lemma F_none_up : forall n x, reach n x -> F x = None -> F n = None.
  Proof.
    intros n x H. induction H as [|n c x Hc _ IH]; intros Hx; [assumption|].
    rewrite F_unfold. rewrite (mapM_none F (children n) c Hc (IH Hx)). reflexivity.
  Qed.

  (* ---------------- memo tables -------------------------------------------------------- *)
  Definition sub (m m' : memo) := forall n v, m n = Some v -> m' n = Some v.
  Lemma sub_refl m : sub m m. Proof. red; auto. Qed.
  Lemma sub_trans a b c : sub a b -> sub b c -> sub a c. Proof. unfold sub; auto. Qed.
  Lemma sub_inm m m' n : sub m m' -> inm m n = true -> inm m' n = true.
  Proof.
    unfold sub, DagWalk.inm. intros H. destruct (m n) eqn:E; [|discriminate].
    now rewrite (H _ _ E).
  Qed.
  Lemma sub_inm_false m m' n : sub m m' -> inm m' n = false -> inm m n = false.
  Proof.
    intros H Hf. destruct (inm m n) eqn:E; [|reflexivity].
    rewrite (sub_inm _ _ _ H E) in Hf. discriminate.
  Qed.
  Lemma inm_some m n : inm m n = true -> exists v, m n = Some v.
  Proof. unfold DagWalk.inm. destruct (m n) as [v|]; [eauto|discriminate]. Qed.
  Lemma some_inm m n v : m n = Some v -> inm m n = true.
  Proof. unfold DagWalk.inm. now intros ->. Qed.

  (* the invariant: every entry is the value of the pure fold at its key (walk_memo_inv),
     and the table is closed under children *)
  Definition Mok (m : memo) :=
    (forall n v, m n = Some v -> F n = Some v) /\
    (forall n c, inm m n = true -> In c (children n) -> inm m c = true).

  Lemma Mok_empty : Mok mempty.
  Proof. split; [intros n v; discriminate | intros n c; discriminate]. Qed.

  Lemma Mok_reach m n x : Mok m -> inm m n = true -> reach n x -> inm m x = true.
  Proof.
    intros [_ Hd] Hn H. induction H as [|n c x Hc _ IH]; [assumption|]. apply IH. eapply Hd; eauto.
  Qed.

  Lemma lookup_all_F m l :
    (forall c, In c l -> exists v, F c = Some v /\ m c = Some v) ->
    exists vs, lookup_all m l = Some vs /\ mapM F l = Some vs.
  Proof.
    induction l as [|c l IH]; intros H; cbn [DagWalk.lookup_all mapM].
    - exists []. auto.
    - destruct (H c (or_introl eq_refl)) as (v & Hv & Hm).
      destruct IH as (vs & H1 & H2); [intros c' Hc'; apply H; now right|].
      exists (v :: vs). rewrite Hm, H1, Hv, H2. auto.
  Qed.

  (* ---------------- running -------------------------------------------------------------- *)
  Lemma steps_cont a b s s1 : steps a s = Cont s1 -> steps (a + b) s = steps b s1.
  Proof.
    revert s. induction a as [|a IH]; intros s H; cbn in *.
    - now inversion H.
    - destruct (step s) as [s'|e s']; [auto|discriminate].
  Qed.
  Lemma steps_raise a b s e s1 : steps a s = Raise e s1 -> steps (a + b) s = Raise e s1.
  Proof.
    revert s. induction a as [|a IH]; intros s H; cbn in *.
    - discriminate.
    - destruct (step s) as [s'|e' s']; [auto|assumption].
  Qed.

  Lemma NoDup_app_intro {X} (a b : list X) :
    NoDup a -> NoDup b -> (forall x, In x a -> In x b -> False) -> NoDup (a ++ b).
  Proof.
    induction a as [|x a IH]; intros Ha Hb Hd; cbn; [assumption|].
    inversion Ha as [|? ? Hx Ha']; subst. constructor.
    - intros Hin. apply in_app_or in Hin. destruct Hin as [Hin|Hin]; [auto|].
      apply (Hd x); [now left|assumption].
    - apply IH; [assumption|assumption|]. intros y Hy. apply Hd. now right.
  Qed.

  Lemma edges_app a b : edges (a ++ b) = edges a + edges b.
  Proof.
    unfold DagWalk.edges. rewrite map_app, list_sum_app. reflexivity.
  Qed.

  (* What a run that started from  (False,·)-entries [roots] on top of [r]  looks like when the
     callback raises (walk_err).  [res] is what is left of the traversal on the stack. *)
  Definition failed_at (m : memo) (r : stack) (roots : list nat) (e : err) (s' : st)
             (res : stack) (x : nat) : Prop :=
    e = ECallback x /\ stk s' = res ++ r /\ Mok (mm s') /\ sub m (mm s') /\
    (exists c, In c roots /\ reach c x) /\ inm (mm s') x = false /\
    (forall c, In c (children x) -> inm (mm s') c = true) /\ F x = None /\
    (forall b y, In (b, y) res -> exists c, In c roots /\ reach c y).

  (* cost of a failing run: [exp] = the nodes that were expanded (not memoised when popped) *)
  Definition fail_cost (m : memo) (roots : list nat) (pp : nat) (s' : st) (exp : list nat) : Prop :=
    NoDup exp /\
    (forall y, In y exp -> (exists c, In c roots /\ reach c y) /\ inm m y = false) /\
    pops s' <= pp + 2 * (length roots + edges exp).

  (* ... and when it does not: [new] = the nodes on which the callback was invoked, in order *)
  Definition succeeded (m : memo) (r : stack) (roots : list nat) (cl pp : nat) (lg : list nat)
             (s' : st) (new : list nat) : Prop :=
    stk s' = r /\ Mok (mm s') /\ sub m (mm s') /\
    (forall c, In c roots -> exists v, F c = Some v /\ mm s' c = Some v) /\
    NoDup new /\
    (forall x, In x new -> (exists c, In c roots /\ reach c x) /\ inm m x = false) /\
    (forall x, inm (mm s') x = true <-> inm m x = true \/ In x new) /\
    calls s' = cl + length new /\ log s' = rev new ++ lg.

  Definition Pfalse (n : nat) := forall m r cl pp lg, Mok m ->
    exists k, match steps k (mkSt m ((false, n) :: r) cl pp lg) with
    | Cont s' => exists new, succeeded m r [n] cl pp lg s' new /\
                             pops s' <= pp + 2 * (1 + edges new)
    | Raise e s' => exists res x exp, failed_at m r [n] e s' res x /\
                             ((x = n /\ res = []) \/ (x <> n /\ In (true, n) res)) /\
                             fail_cost m [n] pp s' exp
    end.

  Lemma process_list : forall l bound, (forall c, c < bound -> Pfalse c) ->
    (forall c, In c l -> c < bound) ->
    forall m r cl pp lg, Mok m ->
    exists k, match steps k (mkSt m (map (fun c => (false, c)) l ++ r) cl pp lg) with
    | Cont s' => exists new, succeeded m r l cl pp lg s' new /\
                             pops s' <= pp + 2 * (length l + edges new)
    | Raise e s' => exists res x exp, failed_at m r l e s' res x /\ fail_cost m l pp s' exp
    end.
  Proof.
    induction l as [|c l IH]; intros bound Hb Hl m r cl pp lg Hm.
    - exists 0. cbn. exists []. split.
      + split; [reflexivity|]. split; [exact Hm|]. split; [apply sub_refl|].
        split; [intros c []|]. split; [constructor|]. split; [intros x []|].
        split; [intros x; cbn; tauto|]. cbn. split; [lia|reflexivity].
      + cbn. lia.
    - destruct (Hb c (Hl c (or_introl eq_refl)) m (map (fun c => (false, c)) l ++ r) cl pp lg Hm)
        as (k1 & H1).
      cbn [map app].
      destruct (steps k1 _) as [s1|e s1] eqn:E1.
      + destruct H1 as (new1 & (S1 & M1 & Sub1 & V1 & ND1 & R1 & D1 & C1 & L1) & P1).
        destruct (IH bound Hb (fun c' Hc' => Hl c' (or_intror Hc')) (mm s1) r (calls s1) (pops s1)
                     (log s1) M1) as (k2 & H2).
        assert (Hs1 : s1 = mkSt (mm s1) (map (fun c => (false, c)) l ++ r) (calls s1) (pops s1) (log s1)).
        { destruct s1; cbn in *; subst; reflexivity. }
        rewrite <- Hs1 in H2.
        exists (k1 + k2). rewrite (steps_cont _ _ _ _ E1).
        destruct (steps k2 s1) as [s2|e s2].
        * destruct H2 as (new2 & (S2 & M2 & Sub2 & V2 & ND2 & R2 & D2 & C2 & L2) & P2).
          exists (new1 ++ new2). split.
          { split; [exact S2|]. split; [exact M2|]. split; [eapply sub_trans; eauto|].
            split.
            { intros c' [<-|Hc'].
              - destruct (V1 c (or_introl eq_refl)) as (v & Hv & Hmv). exists v. split; [exact Hv|].
                apply Sub2. exact Hmv.
              - apply V2. exact Hc'. }
            split.
            { apply NoDup_app_intro; [exact ND1|exact ND2|].
              intros x Hx1 Hx2. destruct (R2 x Hx2) as (_ & Hf).
              assert (inm (mm s1) x = true) by (apply D1; now right). congruence. }
            split.
            { intros x Hx. apply in_app_or in Hx. destruct Hx as [Hx|Hx].
              - destruct (R1 x Hx) as ((c' & [<-|[]] & Hr) & Hf). split; [|exact Hf].
                exists c. split; [now left|exact Hr].
              - destruct (R2 x Hx) as ((c' & Hc' & Hr) & Hf). split.
                + exists c'. split; [now right|exact Hr].
                + eapply sub_inm_false; eauto. }
            split.
            { intros x. rewrite D2, D1, in_app_iff. tauto. }
            split; [rewrite C2, C1, app_length; lia|].
            rewrite L2, L1, rev_app_distr, app_assoc. reflexivity. }
          { rewrite edges_app. cbn [length]. lia. }
        * destruct H2 as (res & x & exp2 & (He & S2 & M2 & Sub2 & (c' & Hc' & Hr) & Hx & Hch & HF & Hres) & (NDe & Re & Pe)).
          exists res, x, (new1 ++ exp2). split; [|split; [|split]].
          2:{ apply NoDup_app_intro; [exact ND1|exact NDe|].
              intros y Hy1 Hy2. destruct (Re y Hy2) as (_ & Hf).
              assert (inm (mm s1) y = true) by (apply D1; now right). congruence. }
          2:{ intros y Hy. apply in_app_or in Hy. destruct Hy as [Hy|Hy].
              - destruct (R1 y Hy) as ((c'' & [<-|[]] & Hr'') & Hf). split; [|exact Hf].
                exists c. split; [now left|exact Hr''].
              - destruct (Re y Hy) as ((c'' & Hc'' & Hr'') & Hf). split.
                + exists c''. split; [now right|exact Hr''].
                + eapply sub_inm_false; eauto. }
          2:{ rewrite edges_app. cbn [length] in *. lia. }
          split; [exact He|]. split; [exact S2|]. split; [exact M2|].
          split; [eapply sub_trans; eauto|]. split; [exists c'; split; [now right|exact Hr]|].
          split; [exact Hx|]. split; [exact Hch|]. split; [exact HF|].
          intros b y Hy. destruct (Hres b y Hy) as (c'' & Hc'' & Hr''). exists c''. split; [now right|exact Hr''].
      + exists k1. rewrite E1.
        destruct H1 as (res & x & exp & (He & S1 & M1 & Sub1 & (c' & [<-|[]] & Hr) & Hx & Hch & HF & Hres) & _ & (NDe & Re & Pe)).
        exists (res ++ map (fun c => (false, c)) l), x, exp. split; [|split; [exact NDe|split]].
        2:{ intros y Hy. destruct (Re y Hy) as ((c'' & [<-|[]] & Hr'') & Hf). split; [|exact Hf].
            exists c. split; [now left|exact Hr'']. }
        2:{ cbn [length] in *. lia. }
        split; [exact He|]. split; [rewrite S1, app_assoc; reflexivity|]. split; [exact M1|].
        split; [exact Sub1|].
        split; [exists c; split; [now left|exact Hr]|]. split; [exact Hx|]. split; [exact Hch|].
        split; [exact HF|].
        intros b y Hy. apply in_app_or in Hy. destruct Hy as [Hy|Hy].
        * destruct (Hres b y Hy) as (c'' & [<-|[]] & Hr''). exists c. split; [now left|exact Hr''].
        * apply in_map_iff in Hy. destruct Hy as (c'' & [= <- <-] & Hc''). exists c''.
          split; [now right|constructor].
  Qed.
  Lemma filter_all_memo m l :
    (forall c, In c l -> inm m c = true) -> filter (fun c => negb (inm m c)) l = [].
  Proof.
    induction l as [|c l IH]; intros H; cbn; [reflexivity|].
    rewrite (H c (or_introl eq_refl)). cbn. apply IH. intros c' Hc'. apply H. now right.
  Qed.
  Lemma filter_length {X} (p : X -> bool) l : length (filter p l) <= length l.
  Proof. induction l as [|x l IH]; cbn; [lia|]. destruct (p x); cbn; lia. Qed.
  Lemma inm_upd m n v x : inm (upd m n v) x = Nat.eqb x n || inm m x.
  Proof. unfold DagWalk.inm, DagWalk.upd. destruct (Nat.eqb x n); reflexivity. Qed.

  Lemma step_false m n r cl pp lg :
    step (mkSt m ((false, n) :: r) cl pp lg)
    = Cont (mkSt m (push_with_children m n r) cl (S pp) lg).
  Proof. reflexivity. Qed.

  Lemma process_false : forall n, Pfalse n.
  Proof.
    induction n as [n IHn] using lt_wf_ind. intros m r cl pp lg Hm.
    destruct (inm m n) eqn:En.
    - (* a stale duplicate entry: two pops, no callback, no expansion *)
      assert (Hp : filter (fun c => negb (inm m c)) (children n) = []).
      { apply filter_all_memo. intros c Hc. destruct Hm as [_ Hd]. eapply Hd; eauto. }
      exists 2. cbn [DagWalk.steps]. rewrite step_false. unfold DagWalk.push_with_children.
      rewrite Hp. cbn [map rev app]. unfold DagWalk.step. cbn [stk mm calls pops log]. rewrite En.
      exists []. split.
      + split; [reflexivity|]. split; [exact Hm|]. split; [apply sub_refl|].
        split.
        { intros c [<-|[]]. destruct (inm_some _ _ En) as (v & Hv). exists v.
          split; [apply Hm; exact Hv|exact Hv]. }
        split; [constructor|]. split; [intros x []|].
        split; [intros x; cbn; tauto|]. cbn. split; [lia|reflexivity].
      + cbn. lia.
    - set (pend := filter (fun c => negb (inm m c)) (children n)).
      assert (Hpend : forall c, In c (rev pend) -> In c (children n) /\ inm m c = false).
      { intros c Hc. apply in_rev in Hc. apply filter_In in Hc. destruct Hc as [H1 H2].
        split; [exact H1|]. now apply negb_true_iff. }
      assert (Hpl : forall c, In c (rev pend) -> c < n).
      { intros c Hc. apply children_lt. apply Hpend. exact Hc. }
      destruct (process_list (rev pend) n IHn Hpl m ((true, n) :: r) cl (S pp) lg Hm) as (k & Hk).
      assert (Hstep1 : steps 1 (mkSt m ((false, n) :: r) cl pp lg)
                       = Cont (mkSt m (map (fun c => (false, c)) (rev pend) ++ (true, n) :: r) cl (S pp) lg)).
      { cbn [DagWalk.steps]. rewrite step_false. unfold DagWalk.push_with_children. fold pend.
        rewrite map_rev. reflexivity. }
      destruct (steps k _) as [s2|e s2] eqn:E2.
      + destruct Hk as (new1 & (S2 & M2 & Sub2 & V2 & ND2 & R2 & D2 & C2 & L2) & P2).
        assert (Hch : forall c, In c (children n) -> exists v, F c = Some v /\ mm s2 c = Some v).
        { intros c Hc. destruct (inm m c) eqn:Ec.
          - destruct (inm_some _ _ Ec) as (v & Hv). exists v.
            split; [apply Hm; exact Hv | apply Sub2; exact Hv].
          - apply V2. apply -> in_rev. apply filter_In. rewrite Ec. auto. }
        assert (Hnew1 : forall x, In x new1 -> reach n x /\ x < n).
        { intros x Hx. destruct (R2 x Hx) as ((c & Hc & Hr) & _).
          destruct (Hpend c Hc) as [Hcn _]. split; [eapply reach_step; eauto|].
          pose proof (reach_le _ _ Hr). pose proof (children_lt _ _ Hcn). lia. }
        assert (Hnn : inm (mm s2) n = false).
        { destruct (inm (mm s2) n) eqn:E; [|reflexivity]. apply D2 in E.
          destruct E as [E|E]; [congruence|]. destruct (Hnew1 n E). lia. }
        destruct (lookup_all_F (mm s2) (children n) Hch) as (vs & Hl & HM).
        assert (HFn : F n = f n vs) by (rewrite F_unfold, HM; reflexivity).
        assert (Hs2 : s2 = mkSt (mm s2) ((true, n) :: r) (calls s2) (pops s2) (log s2)).
        { destruct s2; cbn in *; subst; reflexivity. }
        assert (Hstep2 : step s2 = match f n vs with
            | Some v => Cont (mkSt (upd (mm s2) n v) r (S (calls s2)) (S (pops s2)) (n :: log s2))
            | None => Raise (ECallback n) (mkSt (mm s2) r (S (calls s2)) (S (pops s2)) (n :: log s2))
            end).
        { rewrite Hs2 at 1. unfold DagWalk.step. cbn [stk mm calls pops log]. rewrite Hnn, Hl.
          reflexivity. }
        assert (E12 : steps (1 + k) (mkSt m ((false, n) :: r) cl pp lg) = Cont s2).
        { rewrite (steps_cont _ _ _ _ Hstep1). exact E2. }
        exists (1 + k + 1). rewrite (steps_cont _ 1 _ _ E12). cbn [DagWalk.steps]. rewrite Hstep2.
        destruct (f n vs) as [a|] eqn:Ef.
        * exists (new1 ++ [n]). split.
          { split; [reflexivity|]. cbn [mm stk calls pops log]. split.
            { split.
              - intros k' v. unfold DagWalk.upd. destruct (Nat.eqb_spec k' n).
                + intros [= <-]. subst. rewrite HFn. reflexivity.
                + apply M2.
              - intros a0 c Ha0 Hc. rewrite inm_upd in *. apply orb_true_iff in Ha0.
                apply orb_true_iff. right. destruct Ha0 as [Ha0|Ha0].
                + apply Nat.eqb_eq in Ha0. subst. destruct (Hch c Hc) as (v & _ & Hv).
                  eapply some_inm; eauto.
                + destruct M2 as [_ Hd]. eapply Hd; eauto. }
            split.
            { intros k' v Hv. unfold DagWalk.upd. destruct (Nat.eqb_spec k' n).
              - subst. apply some_inm in Hv. congruence.
              - apply Sub2. exact Hv. }
            split.
            { intros c [<-|[]]. exists a. split; [rewrite HFn; reflexivity|].
              unfold DagWalk.upd. rewrite Nat.eqb_refl. reflexivity. }
            split.
            { apply NoDup_app_intro; [exact ND2|constructor; [intros []|constructor]|].
              intros x Hx [<-|[]]. destruct (Hnew1 n Hx). lia. }
            split.
            { intros x Hx. apply in_app_or in Hx. destruct Hx as [Hx|[<-|[]]].
              - split; [exists n; split; [now left|apply Hnew1; exact Hx]|apply R2; exact Hx].
              - split; [exists n; split; [now left|constructor]|exact En]. }
            split.
            { intros x. rewrite inm_upd, orb_true_iff, Nat.eqb_eq, D2, in_app_iff. cbn [In].
              split.
              - intros [->|[H|H]]; auto.
              - intros [H|[H|[<-|[]]]]; auto. }
            split; [rewrite app_length, C2; cbn; lia|].
            rewrite rev_app_distr, L2. reflexivity. }
          { cbn [pops]. rewrite edges_app. unfold DagWalk.edges at 2. cbn [map list_sum fold_right].
            rewrite rev_length in P2. pose proof (filter_length (fun c => negb (inm m c)) (children n)).
            fold pend in H. lia. }
        * exists [], n, (new1 ++ [n]). split; [|split; [left; split; reflexivity|split; [|split]]].
          2:{ apply NoDup_app_intro; [exact ND2|constructor; [intros []|constructor]|].
              intros x Hx [<-|[]]. destruct (Hnew1 n Hx). lia. }
          2:{ intros x Hx. apply in_app_or in Hx. destruct Hx as [Hx|[<-|[]]].
              - split; [exists n; split; [now left|apply Hnew1; exact Hx]|apply R2; exact Hx].
              - split; [exists n; split; [now left|constructor]|exact En]. }
          2:{ cbn [pops]. rewrite edges_app. unfold DagWalk.edges at 2. cbn [map list_sum fold_right].
              rewrite rev_length in P2. pose proof (filter_length (fun c => negb (inm m c)) (children n)).
              fold pend in H. cbn [length]. lia. }
          split; [reflexivity|]. cbn [mm stk]. split; [reflexivity|]. split; [exact M2|].
          split; [exact Sub2|]. split; [exists n; split; [now left|constructor]|].
          split; [exact Hnn|]. split.
          { intros c Hc. destruct (Hch c Hc) as (v & _ & Hv). eapply some_inm; eauto. }
          split; [rewrite HFn; reflexivity|]. intros b y [].
      + destruct Hk as (res & x & exp & (He & S2 & M2 & Sub2 & (c & Hc & Hr) & Hx & Hchx & HF & Hres) & (NDe & Re & Pe)).
        exists (1 + k). rewrite (steps_cont _ _ _ _ Hstep1), E2.
        destruct (Hpend c Hc) as [Hcn _].
        assert (Hexp : forall y, In y exp -> reach n y /\ y < n).
        { intros y Hy. destruct (Re y Hy) as ((c' & Hc' & Hr') & _).
          destruct (Hpend c' Hc') as [Hcn' _]. split; [eapply reach_step; eauto|].
          pose proof (reach_le _ _ Hr'). pose proof (children_lt _ _ Hcn'). lia. }
        exists (res ++ [(true, n)]), x, (exp ++ [n]). split; [|split; [|split; [|split]]].
        3:{ apply NoDup_app_intro; [exact NDe|constructor; [intros []|constructor]|].
            intros y Hy [<-|[]]. destruct (Hexp n Hy). lia. }
        3:{ intros y Hy. apply in_app_or in Hy. destruct Hy as [Hy|[<-|[]]].
            - split; [exists n; split; [now left|apply Hexp; exact Hy]|apply Re; exact Hy].
            - split; [exists n; split; [now left|constructor]|exact En]. }
        3:{ rewrite edges_app. unfold DagWalk.edges at 2. cbn [map list_sum fold_right].
            rewrite rev_length in Pe. pose proof (filter_length (fun c => negb (inm m c)) (children n)).
            fold pend in H. cbn [length]. lia. }
        * split; [exact He|]. split; [rewrite S2, <- app_assoc; reflexivity|]. split; [exact M2|].
          split; [exact Sub2|].
          split; [exists n; split; [now left|eapply reach_step; eauto]|].
          split; [exact Hx|]. split; [exact Hchx|]. split; [exact HF|].
          intros b y Hy. apply in_app_or in Hy. exists n. split; [now left|].
          destruct Hy as [Hy|[[= <- <-]|[]]]; [|constructor].
          destruct (Hres b y Hy) as (c' & Hc' & Hr'). destruct (Hpend c' Hc') as [Hcn' _].
          eapply reach_step; eauto.
        * right. split; [|apply in_or_app; right; now left].
          pose proof (reach_le _ _ Hr). pose proof (children_lt _ _ Hcn). lia.
  Qed.
  (* ---------------- from [steps] to [run]: fuel ------------------------------------------ *)
  Lemma step_empty s : stk s = [] -> step s = Cont s.
  Proof. unfold DagWalk.step. intros ->. reflexivity. Qed.

  Lemma step_pops s : stk s <> [] ->
    match step s with Cont s1 | Raise _ s1 => pops s1 = S (pops s) end.
  Proof.
    unfold DagWalk.step. destruct (stk s) as [|[[|] n] r]; [congruence| |]; intros _.
    - destruct (inm (mm s) n); [reflexivity|].
      destruct (lookup_all (mm s) (children n)) as [args|]; [|reflexivity].
      destruct (f n args); reflexivity.
    - reflexivity.
  Qed.

  Lemma step_pops_le s : match step s with Cont s1 | Raise _ s1 => pops s <= pops s1 end.
  Proof.
    destruct (stk s) as [|e r] eqn:E.
    - rewrite (step_empty _ E). lia.
    - assert (H : stk s <> []) by congruence. pose proof (step_pops _ H) as Hp.
      destruct (step s); lia.
  Qed.

  Lemma steps_pops_le k : forall s,
    match steps k s with Cont s1 | Raise _ s1 => pops s <= pops s1 end.
  Proof.
    induction k as [|k IH]; intros s; cbn; [lia|].
    pose proof (step_pops_le s) as H. destruct (step s) as [s1|e s1]; [|exact H].
    specialize (IH s1). destruct (steps k s1); lia.
  Qed.

  Lemma run_of_steps : forall k s s', steps k s = Cont s' -> stk s' = [] ->
    forall fuel, pops s' - pops s <= fuel -> run fuel s = Done s'.
  Proof.
    induction k as [|k IH]; intros s s' H He fuel Hf.
    - cbn in H. inversion H; subst. destruct fuel; cbn; rewrite He; reflexivity.
    - cbn in H. destruct (stk s) as [|e r] eqn:E.
      + rewrite (step_empty _ E) in H. apply (IH s s' H He fuel Hf).
      + assert (Hne : stk s <> []) by congruence. pose proof (step_pops _ Hne) as Hp.
        destruct (step s) as [s1|e1 s1] eqn:Es; [|discriminate].
        pose proof (steps_pops_le k s1) as Hle. rewrite H in Hle.
        destruct fuel as [|fuel]; [lia|]. cbn. rewrite E, Es. apply (IH s1 s' H He). lia.
  Qed.

  Lemma run_of_steps_raise : forall k s e s', steps k s = Raise e s' ->
    forall fuel, pops s' - pops s <= fuel -> run fuel s = Failed e s'.
  Proof.
    induction k as [|k IH]; intros s e s' H fuel Hf.
    - discriminate.
    - cbn in H. destruct (stk s) as [|e0 r] eqn:E.
      + rewrite (step_empty _ E) in H. apply (IH s e s' H fuel Hf).
      + assert (Hne : stk s <> []) by congruence. pose proof (step_pops _ Hne) as Hp.
        destruct (step s) as [s1|e1 s1] eqn:Es.
        * pose proof (steps_pops_le k s1) as Hle. rewrite H in Hle.
          destruct fuel as [|fuel]; [lia|]. cbn. rewrite E, Es. apply (IH s1 e s' H). lia.
        * inversion H; subst. destruct fuel as [|fuel]; [lia|]. cbn. rewrite E, Es. reflexivity.
  Qed.

  (* ---------------- edges of a duplicate-free node list are bounded ---------------------- *)
  Lemma list_sum_cons a l : list_sum (a :: l) = a + list_sum l.
  Proof. reflexivity. Qed.

  Lemma list_sum_incl (g : nat -> nat) : forall l l', NoDup l -> incl l l' ->
    list_sum (map g l) <= list_sum (map g l').
  Proof.
    induction l as [|x l IH]; intros l' Hnd Hi; [cbn; lia|].
    inversion Hnd as [|? ? Hx Hnd']; subst.
    destruct (in_split x l' (Hi x (or_introl eq_refl))) as (l1 & l2 & ->).
    assert (Hi' : incl l (l1 ++ l2)).
    { intros y Hy. assert (Hy' := Hi y (or_intror Hy)). apply in_app_or in Hy'.
      apply in_or_app. destruct Hy' as [Hy'|[<-|Hy']]; [now left|contradiction|now right]. }
    specialize (IH (l1 ++ l2) Hnd' Hi'). rewrite map_app, list_sum_app in IH.
    rewrite map_app, list_sum_app. cbn [map]. rewrite !list_sum_cons. lia.
  Qed.

  Lemma edges_upto_seq n : edges_upto n = edges (seq 0 (S n)).
  Proof.
    induction n as [|n IH].
    - cbn. lia.
    - cbn [DagWalk.edges_upto]. rewrite IH. rewrite (seq_S (S n)). rewrite edges_app.
      unfold DagWalk.edges at 3. cbn [map list_sum fold_right plus]. lia.
  Qed.

  Lemma edges_bound l n : NoDup l -> (forall x, In x l -> x <= n) -> edges l <= edges_upto n.
  Proof.
    intros Hnd Hle. rewrite edges_upto_seq. apply list_sum_incl; [exact Hnd|].
    intros x Hx. apply in_seq. specialize (Hle x Hx). lia.
  Qed.

  (* ---------------- the walker object between calls --------------------------------------- *)
  Definition clean (w : st) := stk w = [] /\ Mok (mm w).

  (* the keys on which a walk from [root] has to invoke the callback: the distinct nodes
     reachable from the root that are not memoised yet *)
  Definition fresh_nodes (m : memo) (root : nat) (new : list nat) :=
    NoDup new /\ forall x, In x new <-> reach root x /\ inm m x = false.

  Lemma clean_init : clean (init A).
  Proof. split; [reflexivity|apply Mok_empty]. Qed.

  Lemma start_state w root : stk w = [] ->
    with_stk A w ((false, root) :: stk w) = mkSt (mm w) [(false, root)] (calls w) (pops w) (log w).
  Proof. intros ->. reflexivity. Qed.

  Lemma fresh_bound m root new : fresh_nodes m root new -> edges new <= edges_upto root.
  Proof.
    intros [Hnd Hx]. apply edges_bound; [exact Hnd|]. intros x H. apply reach_le. apply Hx. exact H.
  Qed.

  Theorem iter_walk_ok : forall w root fuel v, clean w -> enough_fuel root <= fuel ->
    F root = Some v ->
    exists s new, iter_walk fuel w root = (s, Ok v) /\ clean s /\ sub (mm w) (mm s) /\
      mm s root = Some v /\ fresh_nodes (mm w) root new /\
      (forall x, inm (mm s) x = true <-> inm (mm w) x = true \/ In x new) /\
      calls s = calls w + length new /\ log s = rev new ++ log w /\
      pops s <= pops w + 2 * (1 + edges new).
  Proof.
    intros w root fuel v [Hst Hm] Hfuel HF.
    destruct (process_false root (mm w) [] (calls w) (pops w) (log w) Hm) as (k & Hk).
    unfold DagWalk.iter_walk. rewrite (start_state _ _ Hst).
    destruct (steps k _) as [s'|e s'] eqn:E.
    - destruct Hk as (new & (S2 & M2 & Sub2 & V2 & ND2 & R2 & D2 & C2 & L2) & P2).
      destruct (V2 root (or_introl eq_refl)) as (v' & Hv' & Hmv').
      assert (v' = v) by congruence. subst v'.
      assert (Hfresh : fresh_nodes (mm w) root new).
      { split; [exact ND2|]. intros x. split.
        - intros Hx. destruct (R2 x Hx) as ((c & [<-|[]] & Hr) & Hf). auto.
        - intros [Hr Hf]. assert (Hin : inm (mm s') x = true).
          { eapply Mok_reach; eauto. eapply some_inm; eauto. }
          apply D2 in Hin. destruct Hin as [Hin|Hin]; [congruence|exact Hin]. }
      assert (Hrun : run fuel (mkSt (mm w) [(false, root)] (calls w) (pops w) (log w)) = Done s').
      { apply (run_of_steps k); [exact E|exact S2|]. cbn [pops].
        pose proof (fresh_bound _ _ _ Hfresh). unfold DagWalk.enough_fuel in Hfuel. lia. }
      rewrite Hrun, Hmv'. exists s', new.
      split; [reflexivity|]. split; [split; assumption|]. split; [exact Sub2|]. split; [exact Hmv'|].
      split; [exact Hfresh|]. split; [exact D2|]. split; [exact C2|]. split; [exact L2|exact P2].
    - destruct Hk as (res & x & exp & (_ & _ & _ & _ & (c & [<-|[]] & Hr) & _ & _ & HFx & _) & _).
      rewrite (F_none_up _ _ Hr HFx) in HF. discriminate.
  Qed.

  (* What the loop `_process_stack` leaves when the callback raises at node x: the residue of
     the traversal (the expanded ancestors of x and their pending children) is still on the
     stack.  This is why iter_walk has to drop the stack before re-raising. *)
  Theorem process_stack_err : forall w root fuel, clean w -> enough_fuel root <= fuel ->
    F root = None ->
    exists s x, run fuel (with_stk A w ((false, root) :: stk w)) = Failed (ECallback x) s /\
      Mok (mm s) /\ sub (mm w) (mm s) /\
      reach root x /\ F x = None /\ inm (mm s) x = false /\
      (forall c, In c (children x) -> inm (mm s) c = true) /\
      (forall b y, In (b, y) (stk s) -> reach root y) /\
      ((x = root /\ stk s = []) \/ (x <> root /\ In (true, root) (stk s))).
  Proof.
    intros w root fuel [Hst Hm] Hfuel HF.
    destruct (process_false root (mm w) [] (calls w) (pops w) (log w) Hm) as (k & Hk).
    rewrite (start_state _ _ Hst).
    destruct (steps k _) as [s'|e s'] eqn:E.
    - destruct Hk as (new & (_ & _ & _ & V2 & _) & _).
      destruct (V2 root (or_introl eq_refl)) as (v' & Hv' & _). congruence.
    - destruct Hk as (res & x & exp & (He & S2 & M2 & Sub2 & (c & [<-|[]] & Hr) & Hx & Hch & HFx & Hres)
                      & Hshape & (NDe & Re & Pe)).
      assert (Hrun : run fuel (mkSt (mm w) [(false, root)] (calls w) (pops w) (log w)) = Failed e s').
      { apply (run_of_steps_raise k); [exact E|]. cbn [pops length] in *.
        assert (edges exp <= edges_upto root).
        { apply edges_bound; [exact NDe|]. intros y Hy. destruct (Re y Hy) as ((c & [<-|[]] & Hr') & _).
          apply reach_le. exact Hr'. }
        unfold DagWalk.enough_fuel in Hfuel. lia. }
      rewrite Hrun. subst e. exists s', x. rewrite app_nil_r in S2.
      split; [reflexivity|]. split; [exact M2|]. split; [exact Sub2|]. split; [exact Hr|].
      split; [exact HFx|]. split; [exact Hx|]. split; [exact Hch|]. split.
      + intros b y Hy. rewrite S2 in Hy. destruct (Hres b y Hy) as (c & [<-|[]] & Hr'). exact Hr'.
      + rewrite S2. exact Hshape.
  Qed.

  (* iter_walk when the callback raises at node x: the stack is empty again, the memo keeps
     what was computed before the failure (all of it correct) *)
  Theorem iter_walk_err : forall w root fuel, clean w -> enough_fuel root <= fuel ->
    F root = None ->
    exists s x, iter_walk fuel w root = (s, Err (ECallback x)) /\
      stk s = [] /\ Mok (mm s) /\ sub (mm w) (mm s) /\
      reach root x /\ F x = None /\ inm (mm s) x = false /\
      (forall c, In c (children x) -> inm (mm s) c = true).
  Proof.
    intros w root fuel Hc Hfuel HF.
    destruct (process_stack_err w root fuel Hc Hfuel HF) as (s & x & Hrun & M & Sub & Hr & HFx & Hx & Hch & _).
    unfold DagWalk.iter_walk. rewrite Hrun. exists (with_stk A s []), x. cbn [mm stk with_stk].
    split; [reflexivity|]. split; [reflexivity|]. split; [exact M|]. split; [exact Sub|].
    split; [exact Hr|]. split; [exact HFx|]. split; [exact Hx|exact Hch].
  Qed.

  Lemma fresh_nil m root : Mok m -> inm m root = true -> fresh_nodes m root [].
  Proof.
    intros Hm Hr. split; [constructor|]. intros x. split; [intros []|].
    intros [Hx Hf]. rewrite (Mok_reach _ _ _ Hm Hr Hx) in Hf. discriminate.
  Qed.

  (* walk_refines + walk_calls + walk_pops: a call on a clean walker whose fold succeeds *)
  Theorem walk_ok : forall early oneshot w root fuel v, clean w -> enough_fuel root <= fuel ->
    F root = Some v ->
    exists s new, walk early oneshot fuel w root = (s, Ok v) /\ clean s /\
      (mm s = mempty \/ sub (mm w) (mm s)) /\ (oneshot = false -> sub (mm w) (mm s) /\ mm s root = Some v) /\
      fresh_nodes (mm w) root new /\
      calls s = calls w + length new /\ log s = rev new ++ log w /\
      pops s <= pops w + 2 * (1 + edges new).
  Proof.
    intros early oneshot w root fuel v Hc Hfuel HF. unfold DagWalk.walk.
    destruct (if early then mm w root else None) as [v'|] eqn:Ee.
    - destruct early; [|discriminate]. destruct Hc as [Hst Hm].
      assert (v' = v) by (apply Hm in Ee; congruence). subst v'.
      exists w, []. split; [reflexivity|]. split; [split; assumption|].
      split; [right; apply sub_refl|]. split; [intros _; split; [apply sub_refl|exact Ee]|].
      split; [apply fresh_nil; [exact Hm|eapply some_inm; eauto]|]. cbn. split; [lia|].
      split; [reflexivity|lia].
    - destruct (iter_walk_ok w root fuel v Hc Hfuel HF)
        as (s & new & Hw & [Hst Hm] & Hsub & Hroot & Hfresh & _ & Hcalls & Hlog & Hpops).
      rewrite Hw. destruct oneshot.
      + exists (with_mm A s mempty), new. split; [reflexivity|]. cbn [mm stk calls pops log with_mm].
        split; [split; [exact Hst|apply Mok_empty]|]. split; [left; reflexivity|].
        split; [discriminate|]. auto.
      + exists s, new. split; [reflexivity|]. split; [split; assumption|]. split; [right; exact Hsub|].
        split; [intros _; split; [exact Hsub|exact Hroot]|]. auto.
  Qed.

  (* walk_err: the state left when the callback raises at node x.  The stack is empty; a
     persistent memo keeps the (correct) entries computed before the failure and nothing for
     x; a one-shot memo is empty.  In both cases the walker is clean again. *)
  Theorem walk_err : forall early oneshot w root fuel, clean w -> enough_fuel root <= fuel ->
    F root = None ->
    exists s x, walk early oneshot fuel w root = (s, Err (ECallback x)) /\
      clean s /\ reach root x /\ F x = None /\ inm (mm s) x = false /\
      (oneshot = false -> sub (mm w) (mm s) /\ forall c, In c (children x) -> inm (mm s) c = true) /\
      (oneshot = true -> mm s = mempty).
  Proof.
    intros early oneshot w root fuel Hc Hfuel HF. unfold DagWalk.walk.
    destruct (if early then mm w root else None) as [v'|] eqn:Ee.
    - destruct early; [|discriminate]. destruct Hc as [_ Hm]. apply Hm in Ee. congruence.
    - destruct (iter_walk_err w root fuel Hc Hfuel HF) as (s & x & Hw & Hst & M & Sub & Hr & HFx & Hx & Hch).
      rewrite Hw. destruct oneshot.
      + exists (with_mm A s mempty), x. split; [reflexivity|]. cbn [mm stk with_mm].
        split; [split; [exact Hst|apply Mok_empty]|]. split; [exact Hr|]. split; [exact HFx|].
        split; [reflexivity|]. split; [discriminate|reflexivity].
      + exists s, x. split; [reflexivity|]. split; [split; assumption|]. split; [exact Hr|].
        split; [exact HFx|]. split; [exact Hx|]. split; [intros _; split; assumption|discriminate].
  Qed.

  (* walk_refines: the answer is the naive recursive fold, whatever the memo contained *)
  Theorem walk_refines : forall early oneshot w root fuel s a, clean w ->
    enough_fuel root <= fuel -> walk early oneshot fuel w root = (s, a) ->
    match F root with
    | Some v => a = Ok v
    | None => exists x, a = Err (ECallback x) /\ reach root x /\ F x = None
    end.
  Proof.
    intros early oneshot w root fuel s a Hc Hfuel Hw. destruct (F root) as [v|] eqn:HF.
    - destruct (walk_ok early oneshot w root fuel v Hc Hfuel HF) as (s' & new & Hw' & _).
      congruence.
    - destruct (walk_err early oneshot w root fuel Hc Hfuel HF) as (s' & x & Hw' & _ & Hr & HFx & _).
      exists x. split; [congruence|auto].
  Qed.

  (* walk_memo_inv: every memo entry is the fold's value at its key, before and after any walk
     (successful or not); a persistent memo only grows; ANY walk (also a failing one) leaves a
     clean walker: empty stack, correct memo *)
  Theorem walk_memo_inv : forall early oneshot w root fuel s a, clean w ->
    enough_fuel root <= fuel -> walk early oneshot fuel w root = (s, a) ->
    clean s /\ (oneshot = false -> sub (mm w) (mm s)) /\ a <> NoFuel.
  Proof.
    intros early oneshot w root fuel s a Hc Hfuel Hw. destruct (F root) as [v|] eqn:HF.
    - destruct (walk_ok early oneshot w root fuel v Hc Hfuel HF)
        as (s' & new & Hw' & Hcl & _ & Hsub & _).
      rewrite Hw in Hw'. inversion Hw'; subst. split; [exact Hcl|]. split; [intros Ho; apply Hsub; exact Ho|].
      discriminate.
    - destruct (walk_err early oneshot w root fuel Hc Hfuel HF) as (s' & x & Hw' & Hcl & _ & _ & _ & Hp & _).
      rewrite Hw in Hw'. inversion Hw'; subst. split; [exact Hcl|]. split; [intros Ho; apply Hp; exact Ho|].
      discriminate.
  Qed.

  (* walk_calls: the callback is invoked exactly once per distinct reachable un-memoised key;
     in particular at most once per element of any duplicate-free enumeration of the DAG *)
  Theorem walk_calls : forall early oneshot w root fuel s v, clean w ->
    enough_fuel root <= fuel -> walk early oneshot fuel w root = (s, Ok v) ->
    exists new, fresh_nodes (mm w) root new /\ calls s = calls w + length new /\
                log s = rev new ++ log w.
  Proof.
    intros early oneshot w root fuel s v Hc Hfuel Hw.
    pose proof (walk_refines _ _ _ _ _ _ _ Hc Hfuel Hw) as Hr. destruct (F root) as [v'|] eqn:HF.
    - destruct (walk_ok early oneshot w root fuel v' Hc Hfuel HF)
        as (s' & new & Hw' & _ & _ & _ & Hfresh & Hcalls & Hlog & _).
      rewrite Hw in Hw'. inversion Hw'; subst. exists new. auto.
    - destruct Hr as (x & Hx & _). discriminate.
  Qed.

  Corollary walk_calls_le : forall early oneshot w root fuel s v univ, clean w ->
    enough_fuel root <= fuel -> walk early oneshot fuel w root = (s, Ok v) ->
    (forall x, reach root x -> In x univ) -> calls s <= calls w + length univ.
  Proof.
    intros early oneshot w root fuel s v univ Hc Hfuel Hw Hu.
    destruct (walk_calls _ _ _ _ _ _ _ Hc Hfuel Hw) as (new & [Hnd Hx] & Hcalls & _).
    assert (length new <= length univ).
    { apply NoDup_incl_length; [exact Hnd|]. intros x H. apply Hu. apply Hx. exact H. }
    lia.
  Qed.

  (* walk_pops: the number of loop iterations is at most 2 * (1 + edges leaving the nodes
     on which the callback was invoked) <= enough_fuel; with that fuel the loop never stops
     early (the answer is never NoFuel, see walk_memo_inv) *)
  Theorem walk_pops : forall early oneshot w root fuel s v, clean w ->
    enough_fuel root <= fuel -> walk early oneshot fuel w root = (s, Ok v) ->
    exists new, fresh_nodes (mm w) root new /\ pops s <= pops w + 2 * (1 + edges new) /\
                pops s <= pops w + enough_fuel root.
  Proof.
    intros early oneshot w root fuel s v Hc Hfuel Hw.
    pose proof (walk_refines _ _ _ _ _ _ _ Hc Hfuel Hw) as Hr. destruct (F root) as [v'|] eqn:HF.
    - destruct (walk_ok early oneshot w root fuel v' Hc Hfuel HF)
        as (s' & new & Hw' & _ & _ & _ & Hfresh & _ & _ & Hpops).
      rewrite Hw in Hw'. inversion Hw'; subst. exists new. split; [exact Hfresh|].
      split; [exact Hpops|]. pose proof (fresh_bound _ _ _ Hfresh). unfold DagWalk.enough_fuel. lia.
    - destruct Hr as (x & Hx & _). discriminate.
  Qed.
  (* cost of type checking at creation: when the children of the new node are memoised
     (they were checked when they were created) one callback and O(arity) iterations *)
  Lemma fresh_memoised_root m root new : Mok m -> inm m root = true -> fresh_nodes m root new -> new = [].
  Proof.
    intros Hm Hr [_ Hx]. destruct new as [|x new]; [reflexivity|]. exfalso.
    destruct (proj1 (Hx x) (or_introl eq_refl)) as [Hrx Hf].
    rewrite (Mok_reach _ _ _ Hm Hr Hrx) in Hf. discriminate.
  Qed.

  Lemma fresh_children_memoised m root new : Mok m ->
    (forall c, In c (children root) -> inm m c = true) ->
    fresh_nodes m root new -> new = [] \/ new = [root].
  Proof.
    intros Hm Hch [Hnd Hx].
    assert (Hall : forall x, In x new -> x = root).
    { intros x Hin. apply Hx in Hin. destruct Hin as [Hr Hf]. inversion Hr as [|? c ? Hc Hr']; subst.
      - reflexivity.
      - rewrite (Mok_reach _ _ _ Hm (Hch c Hc) Hr') in Hf. discriminate. }
    destruct new as [|a [|b r]]; [now left| |].
    - right. rewrite (Hall a (or_introl eq_refl)). reflexivity.
    - exfalso. inversion Hnd as [|? ? Hna _]; subst. apply Hna. left.
      rewrite (Hall a (or_introl eq_refl)), (Hall b (or_intror (or_introl eq_refl))). reflexivity.
  Qed.

  Theorem walk_children_memoised : forall early oneshot w root fuel s v, clean w ->
    enough_fuel root <= fuel -> (forall c, In c (children root) -> inm (mm w) c = true) ->
    walk early oneshot fuel w root = (s, Ok v) ->
    calls s <= calls w + 1 /\ pops s <= pops w + 2 * (1 + length (children root)).
  Proof.
    intros early oneshot w root fuel s v Hc Hfuel Hch Hw.
    destruct (walk_calls _ _ _ _ _ _ _ Hc Hfuel Hw) as (new & Hfresh & Hcalls & _).
    destruct (walk_pops _ _ _ _ _ _ _ Hc Hfuel Hw) as (new' & Hfresh' & Hpops & _).
    destruct Hc as [_ Hm].
    destruct (fresh_children_memoised _ _ _ Hm Hch Hfresh) as [->| ->];
      destruct (fresh_children_memoised _ _ _ Hm Hch Hfresh') as [->| ->];
      cbn in *; unfold DagWalk.edges in *; cbn in *; lia.
  Qed.
End Proofs.

(* ---------------- the hypotheses are satisfiable: a concrete non-trivial DAG ------------- *)

(* ---------------- the hypotheses are satisfiable: a concrete non-trivial DAG ------------- *)
Module DagWalkExample.
  (* 0,1 leaves; 2 = op(0,1); 3 = op(2,2,1); 4 = op(3,2)  -- tree size 12, DAG size 5 *)
  Definition ch (n : nat) : list nat :=
    match n with 2 => [0; 1] | 3 => [2; 2; 1] | 4 => [3; 2] | _ => [] end.
  Lemma ch_lt : forall n c, In c (ch n) -> c < n.
  Proof.
    intros n c. destruct n as [|[|[|[|[|n]]]]]; cbn; intros H;
      repeat (destruct H as [<-|H]; [lia|]); destruct H.
  Qed.
  (* tree size; the variant [g] raises at node 2 *)
  Definition sz (n : nat) (args : list nat) : option nat := Some (1 + list_sum args).
  Definition g (n : nat) (args : list nat) : option nat :=
    if Nat.eqb n 2 then None else sz n args.

  Example ex_ok : exists s, walk nat ch sz true false (enough_fuel ch 4) (init nat) 4 = (s, Ok 12)
      /\ calls s = 5 /\ pops s = 10 /\ rev (log s) = [1; 0; 2; 3; 4] /\ stk s = [].
  Proof. eexists. vm_compute. repeat split. Qed.
  Example ex_F : F nat ch sz 4 = Some 12.
  Proof. reflexivity. Qed.
  (* a second walk on the same object hits the memo: no further callback *)
  Example ex_again :
    let s := fst (walk nat ch sz true false 100 (init nat) 4) in
    calls (fst (walk nat ch sz true false 100 s 3)) = 5.
  Proof. reflexivity. Qed.
  (* a failing walk: the loop stops with a residue, walk drops it; the memo keeps the leaves *)
  Example ex_err_loop : exists s, run nat ch g (enough_fuel ch 4) (with_stk nat (init nat) [(false, 4)])
                                  = Failed (ECallback 2) s /\ stk s = [(false, 3); (true, 4)].
  Proof. eexists. vm_compute. repeat split. Qed.
  Example ex_err : exists s, walk nat ch g true false (enough_fuel ch 4) (init nat) 4
                             = (s, Err (ECallback 2))
      /\ stk s = [] /\ inm nat (mm s) 0 = true /\ inm nat (mm s) 2 = false.
  Proof. eexists. vm_compute. repeat split. Qed.
  Example ex_F_err : F nat ch g 4 = None.
  Proof. reflexivity. Qed.
End DagWalkExample.
