(* C11 with the simplifier hypothesis discharged by C01: the CNF theorems of Cnf_proofs.v with
   [asimp] instantiated by the simplifier model (models/Simplifier.v, any order oracle) on
   Bool-sorted terms of C01's fragment, and interpretations restricted to the well-sorted ones
   ([wfi], equivalent to Sem.wf_interp) - the hypotheses of C01's soundness theorem
   (proofs/SimplifierSem_proofs.v : simplify_sound_stages; no division-safety condition is
   needed because Sem.v reads x/0 through a fixed function).
   [frag_simplify ora t] IS [simplify_with ora t] whenever t is a well-typed Bool term of the
   fragment without Int/Real division ([nodiv]: C01's theorem asks [div_safe I t], which then
   holds under every interpretation); elsewhere it leaves t alone (C01 says nothing there).
   Not discharged: [shape_hyp] (that the simplifier maps an atom to a literal). *)
From Coq Require Import List ZArith Bool String.
From PySMT.core Require Import Syntax SyntaxLemmas Sem.
From PySMT.models Require Import TypeChecker Oracles Simplifier Cnf.
From PySMT.proofs Require Import Cnf_proofs SimplifierSemBase_proofs SimplifierSem_proofs.
Import ListNotations.
Open Scope bool_scope.

(* no Int/Real division anywhere: then no interpretation evaluates a division by zero *)
Fixpoint nodiv (t : term) : bool :=
  match t with
  | T ODiv _ => false
  | T _ args => forallb nodiv args
  end.
Lemma nodiv_args o args : nodiv (T o args) = true -> forallb nodiv args = true.
Proof. destruct o; cbn; auto; discriminate. Qed.
Lemma nodiv_safe : forall t, nodiv t = true -> forall I, div_safe I t.
Proof.
  induction t as [o args IH] using term_ind'. intros Hn I.
  pose proof (nodiv_args _ _ Hn) as Ha.
  assert (G : forall I, (fix all (l : list term) : Prop :=
                           match l with [] => True | x :: r => div_safe I x /\ all r end) args).
  { clear Hn. intros I0. induction args as [|x r IHr]; [exact Logic.I|].
    cbn in Ha. apply andb_true_iff in Ha. destruct Ha as [Hx Hr]. inversion IH as [|? ? H1 H2]; subst. split; [exact (H1 Hx I0) | exact (IHr H2 Hr)]. }
  destruct o; try exact (G I); try discriminate.
  - (* forall *) destruct args as [|b [|c r]]; try exact (G I). intros xs _. destruct (G (Sem.bind I vs xs)) as [H _]. exact H.
  - (* exists *) destruct args as [|b [|c r]]; try exact (G I). intros xs _. destruct (G (Sem.bind I vs xs)) as [H _]. exact H.
  - (* ite *) destruct args as [|c [|a [|b [|d r]]]]; try exact (G I).
    destruct (G I) as (Hc & Ha' & Hb & _). cbn. split; auto. destruct (vbool (eval I c)); auto.
Qed.

Definition frag_atom (t : term) : bool :=
  okt t && match tc t with Some TBool => true | _ => false end && nodiv t.
Definition frag_simplify (ora : oracle) (t : term) : term :=
  if frag_atom t then simplify_with ora t else t.

Lemma frag_simplify_is_simplify ora t : frag_atom t = true -> frag_simplify ora t = simplify_with ora t.
Proof. unfold frag_simplify. now intros ->. Qed.

Lemma frag_simplify_sound ora : simp_sound_on wfi (frag_simplify ora).
Proof.
  intros I t Hwf. unfold frag_simplify. destruct (frag_atom t) eqn:Ef; [|reflexivity].
  unfold frag_atom in Ef. apply andb_true_iff in Ef. destruct Ef as [Ef Hnd].
  apply andb_true_iff in Ef. destruct Ef as [Hok Ht].
  destruct (tc t) as [[]|] eqn:Etc; try discriminate.
  unfold simplify_with. destruct (simplify_opt ora t) as [r|] eqn:E; [|reflexivity].
  destruct (simplify_sound_stages ora t I TBool r Hok Etc Hwf E) as [_ H]. unfold tv.
  now rewrite (H (nodiv_safe t Hnd I)).
Qed.

Lemma wfi_closed : pi_closed wfi.
Proof.
  split.
  - intros I M [H1 H2]. split; cbn; auto. intros n t Ht.
    destruct (ty_eqb t TBool) eqn:E; auto. apply ty_eqb_eq in E. subst.
    destruct (byname n M); [exact Logic.I | auto].
  - intros J n b H. apply (wf_bind1' J (n, TBool) (VBool b) H). exact Logic.I.
Qed.

Section WithOracle.
  Variable ora : oracle.
  Let asimp := frag_simplify ora.

  Theorem cnf_complete_simplifier f st cl st' I : start_ok f st ->
    cnf_convert asimp f st = Some (cl, st') -> wfi I -> holds I f ->
    exists I', agrees_off (introduced st') I I' /\ sat I' cl = true /\ holds I' (as_formula cl) /\
               (forall n, In n (introduced st') -> ~ In n (mnames (mgr st))).
  Proof. exact (cnf_complete_rel asimp wfi (frag_simplify_sound ora) wfi_closed f st cl st' I). Qed.
  Theorem cnf_sound_simplifier f st cl st' J : start_ok f st ->
    cnf_convert asimp f st = Some (cl, st') -> wfi J -> sat J cl = true -> holds J f.
  Proof. exact (cnf_sound_rel asimp wfi (frag_simplify_sound ora) wfi_closed f st cl st' J). Qed.
  Theorem pol_complete_simplifier f st cl st' I : start_ok f st ->
    pol_convert asimp f st = Some (cl, st') -> wfi I -> holds I f ->
    exists I', agrees_off (introduced st') I I' /\ sat I' cl = true /\ holds I' (as_formula cl) /\
               (forall n, In n (introduced st') -> ~ In n (mnames (mgr st))).
  Proof. exact (pol_complete_rel asimp wfi (frag_simplify_sound ora) wfi_closed f st cl st' I). Qed.
  Theorem pol_sound_simplifier f st cl st' J : start_ok f st ->
    pol_convert asimp f st = Some (cl, st') -> wfi J -> sat J cl = true -> holds J f.
  Proof. exact (pol_sound_rel asimp wfi (frag_simplify_sound ora) wfi_closed f st cl st' J). Qed.
  (* the extension of a well-sorted interpretation is well-sorted (the witness gives Booleans) *)
End WithOracle.

(* non-vacuity: a formula with a theory atom that the simplifier rewrites (1 + 2 <= x becomes
   3 <= x in the clause built from the negated literal) *)
Definition sx := TSym "x" TInt.
Definition at1 : term := T OLe [T OPlus [TIntC 1; TIntC 2]; sx].
Definition exs_f : term := T OAnd [TSym "p" TBool; at1].
Definition exs_st : cstate := init_state 0 ["p"; "x"]%string.
Example exs_hypotheses :
  frag_atom at1 = true /\ frag_simplify no_oracle at1 = T OLe [TIntC 3; sx] /\ start_ok exs_f exs_st /\
  exists cl st', cnf_convert (frag_simplify no_oracle) exs_f exs_st = Some (cl, st') /\ List.length cl = 2.
Proof.
  split; [vm_compute; reflexivity|]. split; [vm_compute; reflexivity|]. split.
  - split; [reflexivity|]. intros n ty H. vm_compute in H.
    repeat (destruct H as [H|H]; [injection H as <- _; cbn; tauto|]). destruct H.
  - eexists. eexists. split; vm_compute; reflexivity.
Qed.
