(* C11 with the simplifier hypothesis discharged by C01: the CNF theorems of Cnf_proofs.v with
   [asimp] instantiated by the simplifier model (models/Simplifier.v, any order oracle) on
   Bool-sorted terms of C01's fragment, and interpretations restricted to the well-sorted ones
   ([wfi], equivalent to Sem.wf_interp) - the hypotheses of C01's soundness theorem
   (proofs/SimplifierSem_proofs.v : simplify_sound_stages; no division-safety condition is
   needed because Sem.v reads x/0 through a fixed function).
   [frag_simplify ora t] IS [simplify_with ora t] whenever t is a well-typed Bool term of the
   fragment without Int/Real division ([nodiv]: C01's theorem asks [div_safe I t], which then
   holds under every interpretation); elsewhere it leaves t alone (C01 says nothing there).
   [shape_hyp] is FALSE of the simplifier ([shape_hyp_refuted]: Select on a constant array value with
   Bool elements); the shape theorems are proved for inputs whose atoms are not such selects
   ([atoms_ok]), with no simplifier hypothesis. *)
From Coq Require Import List ZArith Bool String.
From PySMT.core Require Import Syntax SyntaxLemmas Sem.
From PySMT.models Require Import TypeChecker Oracles Simplifier Cnf.
From PySMT.proofs Require Import Cnf_proofs Simplifier_proofs SimplifierSemBase_proofs SimplifierSem_proofs.
Import ListNotations.
Open Scope bool_scope.

(* no Int/Real division anywhere: then no interpretation evaluates a division by zero *)
Fixpoint nodiv (t : term) : bool :=
  match t with
  | T ODiv _ => false
  | T _ args => forallb nodiv args
  end.
Lemma nodiv_args o args : nodiv (T o args) = true -> forallb nodiv args = true.
Proof. destruct o; cbn; auto; discriminate. Qed.
Lemma nodiv_safe : forall t, nodiv t = true -> forall I, div_safe I t.
Proof.
  induction t as [o args IH] using term_ind'. intros Hn I.
  pose proof (nodiv_args _ _ Hn) as Ha.
  assert (G : forall I, (fix all (l : list term) : Prop :=
                           match l with [] => True | x :: r => div_safe I x /\ all r end) args).
  { clear Hn. intros I0. induction args as [|x r IHr]; [exact Logic.I|].
    cbn in Ha. apply andb_true_iff in Ha. destruct Ha as [Hx Hr]. inversion IH as [|? ? H1 H2]; subst. split; [exact (H1 Hx I0) | exact (IHr H2 Hr)]. }
  destruct o; try exact (G I); try discriminate.
  - (* forall *) destruct args as [|b [|c r]]; try exact (G I). intros xs _. destruct (G (Sem.bind I vs xs)) as [H _]. exact H.
  - (* exists *) destruct args as [|b [|c r]]; try exact (G I). intros xs _. destruct (G (Sem.bind I vs xs)) as [H _]. exact H.
  - (* ite *) destruct args as [|c [|a [|b [|d r]]]]; try exact (G I).
    destruct (G I) as (Hc & Ha' & Hb & _). cbn. split; auto. destruct (vbool (eval I c)); auto.
Qed.

Definition frag_atom (t : term) : bool :=
  okt t && match tc t with Some TBool => true | _ => false end && nodiv t.
Definition frag_simplify (ora : oracle) (t : term) : term :=
  if frag_atom t then simplify_with ora t else t.

Lemma frag_simplify_is_simplify ora t : frag_atom t = true -> frag_simplify ora t = simplify_with ora t.
Proof. unfold frag_simplify. now intros ->. Qed.

Lemma frag_simplify_sound ora : simp_sound_on wfi (frag_simplify ora).
Proof.
  intros I t Hwf. unfold frag_simplify. destruct (frag_atom t) eqn:Ef; [|reflexivity].
  unfold frag_atom in Ef. apply andb_true_iff in Ef. destruct Ef as [Ef Hnd].
  apply andb_true_iff in Ef. destruct Ef as [Hok Ht].
  destruct (tc t) as [[]|] eqn:Etc; try discriminate.
  unfold simplify_with. destruct (simplify_opt ora t) as [r|] eqn:E; [|reflexivity].
  destruct (simplify_sound_stages ora t I TBool r Hok Etc Hwf E) as [_ H]. unfold tv.
  now rewrite (H (nodiv_safe t Hnd I)).
Qed.

Lemma wfi_closed : pi_closed wfi.
Proof.
  split.
  - intros I M [H1 H2]. split; cbn; auto. intros n t Ht.
    destruct (ty_eqb t TBool) eqn:E; auto. apply ty_eqb_eq in E. subst.
    destruct (byname n M); [exact Logic.I | auto].
  - intros J n b H. apply (wf_bind1' J (n, TBool) (VBool b) H). exact Logic.I.
Qed.

Section WithOracle.
  Variable ora : oracle.
  Let asimp := frag_simplify ora.

  Theorem cnf_complete_simplifier f st cl st' I : start_ok f st ->
    cnf_convert asimp f st = Some (cl, st') -> wfi I -> holds I f ->
    exists I', agrees_off (introduced st') I I' /\ sat I' cl = true /\ holds I' (as_formula cl) /\
               (forall n, In n (introduced st') -> ~ In n (mnames (mgr st))).
  Proof. exact (cnf_complete_rel asimp wfi (frag_simplify_sound ora) wfi_closed f st cl st' I). Qed.
  Theorem cnf_sound_simplifier f st cl st' J : start_ok f st ->
    cnf_convert asimp f st = Some (cl, st') -> wfi J -> sat J cl = true -> holds J f.
  Proof. exact (cnf_sound_rel asimp wfi (frag_simplify_sound ora) wfi_closed f st cl st' J). Qed.
  Theorem pol_complete_simplifier f st cl st' I : start_ok f st ->
    pol_convert asimp f st = Some (cl, st') -> wfi I -> holds I f ->
    exists I', agrees_off (introduced st') I I' /\ sat I' cl = true /\ holds I' (as_formula cl) /\
               (forall n, In n (introduced st') -> ~ In n (mnames (mgr st))).
  Proof. exact (pol_complete_rel asimp wfi (frag_simplify_sound ora) wfi_closed f st cl st' I). Qed.
  Theorem pol_sound_simplifier f st cl st' J : start_ok f st ->
    pol_convert asimp f st = Some (cl, st') -> wfi J -> sat J cl = true -> holds J f.
  Proof. exact (pol_sound_rel asimp wfi (frag_simplify_sound ora) wfi_closed f st cl st' J). Qed.
  (* the extension of a well-sorted interpretation is well-sorted (the witness gives Booleans) *)
End WithOracle.

(* ================================================================= shape, with no simplifier hypothesis *)
(* roots of atoms at which the simplifier keeps an atom an atom: symbols, constants, applications,
   arithmetic / bit-vector relations, equalities, string predicates.  NOT Select: on a constant
   array value with Bool elements the simplifier returns the stored element, which may be any
   Boolean formula ([shape_hyp_refuted], [cnf_shape_refuted]); not quantifiers (CNFizer raises). *)
Definition atom_root (o : op) : bool :=
  match o with
  | OSymbol _ _ | OFunction _ _ | OBoolC _ | OIntC _ | ORealC _ _ | OBVC _ _ | OStrC _
  | OLe | OLt | OEquals | OBVRel _ | OStr SContains | OStr SPrefixOf | OStr SSuffixOf => true
  | _ => false
  end.
Definition lit_ok (l : term) : bool :=
  match l with T ONot [a] => atom_root (top a) | _ => atom_root (top l) end.
Definition atoms_ok (f : term) : bool := forallb (fun a => atom_root (top a)) (leaves f).

Lemma atom_root_atomic o : atom_root o = true -> is_connective o = false.
Proof. destruct o; try discriminate; reflexivity. Qed.
Lemma lit_ok_litc l : lit_ok l = true -> litc l = true.
Proof.
  destruct l as [o args]. unfold lit_ok, litc, atomic.
  destruct o; try (intros H; rewrite (atom_root_atomic _ H); reflexivity); try discriminate.
  destruct args as [|a [|b r]]; try discriminate. intros H. now rewrite (atom_root_atomic _ H).
Qed.

Ltac crush_rule H :=
  repeat (match type of H with
          | context [match ?x with _ => _ end] => destruct x
          end; try discriminate H);
  try (injection H as <-; reflexivity).

Lemma rule_root ora o args r : atom_root o = true -> rule ora o args = Some r -> atom_root (top r) = true.
Proof.
  intros Ho H. destruct o; try discriminate Ho; cbn [rule] in H.
  - (* symbol *) injection H as <-. reflexivity.
  - (* function *) unfold Ctors.mk_function in H. crush_rule H.
  - injection H as <-. reflexivity.
  - injection H as <-. reflexivity.
  - injection H as <-. reflexivity.
  - injection H as <-. reflexivity.
  - (* le *) unfold bin, r_le, num_cmp in H. crush_rule H.
  - (* lt *) unfold bin, r_lt, num_cmp in H. crush_rule H.
  - (* equals *) unfold bin, r_equals in H. crush_rule H.
  - injection H as <-. reflexivity.
  - (* bv relations *) destruct k; unfold r_bv_ult, r_bv_ule, r_bv_scmp in H; crush_rule H.
  - (* string predicates *) destruct k; try discriminate Ho; unfold r_str in H; crush_rule H.
Qed.

Lemma frag_simplify_root ora y : atom_root (top y) = true -> atom_root (top (frag_simplify ora y)) = true.
Proof.
  intros Hy. unfold frag_simplify. destruct (frag_atom y); auto.
  unfold simplify_with. destruct (simplify_opt ora y) as [r|] eqn:E; auto.
  destruct y as [o args]. rewrite Simplifier_proofs.simplify_opt_unfold in E.
  destruct (map_opt (simplify_opt ora) args) as [args'|]; [|discriminate].
  unfold simp_rule in E. destruct (rule ora o args') as [r0|] eqn:Er; [|discriminate]. cbn in E.
  destruct (tc r0); [|discriminate]. injection E as <-. exact (rule_root ora o args' r0 Hy Er).
Qed.

Lemma lit_ok_not_atom a : lit_ok a = true ->
  (exists y, a = T ONot [y] /\ atom_root (top y) = true) \/ (atom_root (top a) = true /\ mk_not a = T ONot [a]).
Proof.
  destruct a as [o args]. destruct o; cbn; auto; try discriminate.
  destruct args as [|y [|z r]]; cbn; try discriminate. eauto.
Qed.
Lemma negate_ok x : atom_root (top x) = true -> lit_ok (negate x) = true.
Proof.
  destruct x as [o args]. destruct o; cbn; try discriminate; auto.
  destruct args; cbn; auto.
Qed.
Lemma simplify_atom_ok ora y : atom_root (top y) = true -> atom_root (top (Cnf.simplify (frag_simplify ora) y)) = true.
Proof.
  intros Hy. destruct y as [o args]. destruct o; try discriminate Hy; cbn [Cnf.simplify];
    try (apply frag_simplify_root; exact Hy); auto.
  destruct args; [reflexivity | apply frag_simplify_root; exact Hy].
Qed.

Lemma lit_ok_closed ora : lit_closed (frag_simplify ora) (fun l => lit_ok l = true).
Proof.
  intros a Ha. destruct (lit_ok_not_atom _ Ha) as [(y & -> & Hy)|[Hat Hm]].
  - split.
    + unfold Cnf.neg_lit. cbn [mk_not]. pose proof (simplify_atom_ok ora y Hy) as H.
      destruct (Cnf.simplify (frag_simplify ora) y) as [o args]. destruct o; try discriminate H; exact H.
    + cbn [mk_not]. destruct y as [o args]. destruct o; try discriminate Hy; exact Hy.
  - split.
    + unfold Cnf.neg_lit. rewrite Hm. cbn [Cnf.simplify]. apply negate_ok. now apply simplify_atom_ok.
    + rewrite Hm. exact Hat.
Qed.

Section Shape.
  Variable ora : oracle.
  Let asimp := frag_simplify ora.

  Lemma shape_from_lits w f st cl st' : walk_ok asimp wfi w f -> atoms_ok f = true ->
    convert_with asimp w f st = Some (cl, st') -> clauses_of_literals cl.
  Proof.
    intros Hw Ha Hc.
    assert (H : Forall (Forall (fun l => lit_ok l = true)) cl).
    { assert (Hlv : forall a, In a (leaves f) -> lit_ok a = true).
      { intros a Hin. unfold atoms_ok in Ha. rewrite forallb_forall in Ha. pose proof (Ha a Hin) as Hr.
        destruct a as [o args]. destruct o; try discriminate Hr; exact Hr. }
      exact (convert_lits asimp wfi w f st cl st' (fun l => lit_ok l = true) Hw (lit_ok_closed ora)
               (fun n => conj eq_refl eq_refl) eq_refl eq_refl Hlv Hc). }
    unfold clauses_of_literals. eapply Forall_impl; [|exact H]. intros c Hcl.
    eapply Forall_impl; [|exact Hcl]. intros l. apply lit_ok_litc.
  Qed.

  (* C11, shape for the simplifier model: when the atoms of f are symbols, constants, applications,
     relations, equalities or string predicates, the result is a set of clauses of literals *)
  Theorem cnf_shape_simplifier f st cl st' : atoms_ok f = true ->
    cnf_convert asimp f st = Some (cl, st') -> clauses_of_literals cl.
  Proof. apply shape_from_lits. exact (cnf_walk_ok asimp wfi (frag_simplify_sound ora) (proj1 wfi_closed) f). Qed.
  Theorem pol_shape_simplifier f st cl st' : atoms_ok f = true ->
    pol_convert asimp f st = Some (cl, st') -> clauses_of_literals cl.
  Proof. apply shape_from_lits. exact (pol_walk_ok asimp wfi (frag_simplify_sound ora) (proj1 wfi_closed) f). Qed.
End Shape.

(* the side condition cannot be dropped: an atom that selects from a constant array value with
   Bool elements is rewritten to the stored element, here a conjunction
   (pysmt: cnf_as_set(Or(p, Not(Select(Array(INT, FALSE, {1: a & b}), 1)))) = {{!(a & b), p}}) *)
Definition sa := TSym "a" TBool.
Definition sb := TSym "b" TBool.
Definition sel_atom : term := T OSelect [T (OArrayValue TInt) [TFalse; TIntC 1; T OAnd [sa; sb]]; TIntC 1].
Definition sel_f : term := T OOr [TSym "p" TBool; T ONot [sel_atom]].
Theorem shape_hyp_refuted : ~ shape_hyp (frag_simplify no_oracle).
Proof.
  intros H. specialize (H sel_atom eq_refl).
  assert (E : frag_simplify no_oracle sel_atom = T OAnd [sa; sb]) by (vm_compute; reflexivity).
  rewrite E in H. discriminate H.
Qed.
Theorem cnf_shape_refuted :
  exists f st cl st', start_ok f st /\ cnf_convert (frag_simplify no_oracle) f st = Some (cl, st') /\
                      ~ clauses_of_literals cl.
Proof.
  exists sel_f, (init_state 0 ["p"; "a"; "b"]%string), [[TSym "p" TBool; T ONot [T OAnd [sa; sb]]]]. eexists.
  split; [|split].
  - split; [reflexivity|]. intros n ty H. vm_compute in H.
    repeat (destruct H as [H|H]; [injection H as <- _; cbn; tauto|]). destruct H.
  - vm_compute. reflexivity.
  - intros H. inversion H as [|? ? Hc _]; subst. inversion Hc as [|? ? _ Hc']; subst.
    inversion Hc' as [|? ? Hl _]; subst. discriminate Hl.
Qed.

(* non-vacuity: a formula with a theory atom that the simplifier rewrites (1 + 2 <= x becomes
   3 <= x in the clause built from the negated literal) *)
Definition sx := TSym "x" TInt.
Definition at1 : term := T OLe [T OPlus [TIntC 1; TIntC 2]; sx].
Definition exs_f : term := T OAnd [TSym "p" TBool; at1].
Definition exs_st : cstate := init_state 0 ["p"; "x"]%string.
Example exs_hypotheses :
  frag_atom at1 = true /\ frag_simplify no_oracle at1 = T OLe [TIntC 3; sx] /\ start_ok exs_f exs_st /\
  exists cl st', cnf_convert (frag_simplify no_oracle) exs_f exs_st = Some (cl, st') /\ List.length cl = 2.
Proof.
  split; [vm_compute; reflexivity|]. split; [vm_compute; reflexivity|]. split.
  - split; [reflexivity|]. intros n ty H. vm_compute in H.
    repeat (destruct H as [H|H]; [injection H as <- _; cbn; tauto|]). destruct H.
  - eexists. eexists. split; vm_compute; reflexivity.
Qed.
