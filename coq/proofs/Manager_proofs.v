(* Theorems about core/Manager.v, for every history of requests. *)
From Coq Require Import List ZArith Bool String Lia Arith Sorted.
From PySMT.core Require Import Syntax SyntaxLemmas PyPrims Manager.
From PySMT.models Require Import TypeChecker.
Import ListNotations.
Open Scope bool_scope.
Open Scope nat_scope.

(* ------------------------------------------------------------------ small facts *)
Lemma nat_list_eqb_eq (l1 l2 : list nat) : list_eqb Nat.eqb l1 l2 = true <-> l1 = l2.
Proof. apply list_eqb_eq. apply Forall_forall. intros a _ b. apply Nat.eqb_eq. Qed.

Lemma content_eqb_eq (a b : content) : content_eqb a b = true <-> a = b.
Proof.
  destruct a as [o1 l1], b as [o2 l2]. unfold content_eqb. cbn [fst snd].
  rewrite andb_true_iff, op_eqb_eq, nat_list_eqb_eq. split.
  - intros [H1 H2]. now subst.
  - intros H. inversion H. auto.
Qed.

Lemma find_index_some c l k i :
  find_index c l k = Some i -> k <= i /\ nth_error l (i - k) = Some c.
Proof.
  revert k. induction l as [|x r IH]; intros k H; cbn in H; [discriminate|].
  destruct (content_eqb c x) eqn:E.
  - inversion H; subst. apply content_eqb_eq in E. subst. rewrite Nat.sub_diag. auto.
  - apply IH in H. destruct H as [H1 H2]. split; [lia|].
    replace (i - k) with (S (i - S k)) by lia. exact H2.
Qed.

Lemma find_index_none c l k : find_index c l k = None -> ~ In c l.
Proof.
  revert k. induction l as [|x r IH]; intros k H; cbn in H; [intros []|].
  destruct (content_eqb c x) eqn:E; [discriminate|].
  intros [Hx|Hr].
  - subst. assert (content_eqb c c = true) by now apply content_eqb_eq. congruence.
  - eapply IH; eauto.
Qed.

Lemma find_index_in c l k : In c l -> exists i, find_index c l k = Some i.
Proof.
  intros H. destruct (find_index c l k) eqn:E; eauto. apply find_index_none in E. contradiction.
Qed.

Lemma NoDup_snoc {A} (l : list A) c : NoDup l -> ~ In c l -> NoDup (l ++ [c]).
Proof.
  induction 1 as [|x r Hx Hr IH]; intros Hc; cbn.
  - repeat constructor. intros [].
  - constructor.
    + rewrite in_app_iff. intros [H|[H|[]]]; [contradiction|]. subst. apply Hc. now left.
    + apply IH. intros H. apply Hc. now right.
Qed.

(* ------------------------------------------------------------------ well-formed tables *)
Definition valid (tb : list content) (i : id) : Prop := 1 <= i <= List.length tb.
Definition wf_tb (tb : list content) : Prop :=
  forall k o args, nth_error tb k = Some (o, args) -> Forall (fun a => 1 <= a <= k) args.

Lemma valid_tb_iff tb i : valid_tb tb i = true <-> valid tb i.
Proof. unfold valid_tb, valid. rewrite andb_true_iff, !Nat.leb_le. tauto. Qed.

Lemma node_tb_valid tb i c : node_tb tb i = Some c -> valid tb i.
Proof.
  destruct i as [|k]; cbn; [discriminate|]. intros H.
  assert (k < List.length tb) by (apply nth_error_Some; congruence). unfold valid. lia.
Qed.
Lemma valid_node_tb tb i : valid tb i -> exists c, node_tb tb i = Some c.
Proof.
  intros [H1 H2]. destruct i as [|k]; [lia|]. cbn.
  destruct (nth_error tb k) eqn:E; eauto. apply nth_error_None in E. lia.
Qed.
Lemma node_tb_app tb l i : valid tb i -> node_tb (tb ++ l) i = node_tb tb i.
Proof. intros [H1 H2]. destruct i as [|k]; [lia|]. cbn. apply nth_error_app1. lia. Qed.
Lemma valid_app tb l i : valid tb i -> valid (tb ++ l) i.
Proof. unfold valid. rewrite app_length. lia. Qed.

Lemma wf_children tb i o args : wf_tb tb -> node_tb tb i = Some (o, args) -> Forall (fun a => 1 <= a < i) args.
Proof.
  intros W H. destruct i as [|k]; [discriminate|]. cbn in H. apply W in H.
  eapply Forall_impl; [|exact H]. cbn. intros a Ha. lia.
Qed.

Lemma wf_app tb c : wf_tb tb -> Forall (valid tb) (snd c) -> wf_tb (tb ++ [c]).
Proof.
  intros W V k o args H.
  destruct (Nat.lt_ge_cases k (List.length tb)) as [L|G].
  - rewrite nth_error_app1 in H by exact L. eauto.
  - rewrite nth_error_app2 in H by exact G.
    destruct (k - List.length tb) as [|m] eqn:E.
    + cbn in H. inversion H; subst. cbn in V. eapply Forall_impl; [|exact V].
      unfold valid. intros a Ha. lia.
    + cbn in H. destruct m; discriminate.
Qed.

(* ------------------------------------------------------------------ unfolding *)
Lemma unfold_fuel_enough tb : wf_tb tb ->
  forall f f' i, i <= f -> i <= f' -> unfold_fuel f tb i = unfold_fuel f' tb i.
Proof.
  intros W. induction f as [|f IH]; intros f' i H1 H2.
  - assert (i = 0) by lia. subst. destruct f'; reflexivity.
  - destruct f' as [|f'].
    + assert (i = 0) by lia. subst. reflexivity.
    + cbn. destruct (node_tb tb i) as [[o args]|] eqn:E; [|reflexivity].
      f_equal. apply map_ext_in. intros a Ha.
      pose proof (wf_children _ _ _ _ W E) as C. rewrite Forall_forall in C. specialize (C a Ha).
      apply IH; lia.
Qed.

Lemma unfold_eq tb i o args : wf_tb tb -> node_tb tb i = Some (o, args) ->
  unfold_tb tb i = T o (map (unfold_tb tb) args).
Proof.
  intros W E. unfold unfold_tb. destruct i as [|k]; [discriminate|].
  cbn [unfold_fuel]. rewrite E. f_equal. apply map_ext_in. intros a Ha.
  pose proof (wf_children _ _ _ _ W E) as C. rewrite Forall_forall in C. specialize (C a Ha).
  apply unfold_fuel_enough; auto; lia.
Qed.

Lemma unfold_fuel_app tb l : wf_tb tb ->
  forall f i, valid tb i -> unfold_fuel f (tb ++ l) i = unfold_fuel f tb i.
Proof.
  intros W. induction f as [|f IH]; intros i V; [reflexivity|].
  cbn. rewrite node_tb_app by exact V.
  destruct (node_tb tb i) as [[o args]|] eqn:E; [|reflexivity].
  f_equal. apply map_ext_in. intros a Ha.
  pose proof (wf_children _ _ _ _ W E) as C. rewrite Forall_forall in C. specialize (C a Ha).
  apply IH. destruct V. unfold valid. lia.
Qed.
Lemma unfold_app tb l i : wf_tb tb -> valid tb i -> unfold_tb (tb ++ l) i = unfold_tb tb i.
Proof. intros W V. apply unfold_fuel_app; auto. Qed.

(* one object per structure *)
Lemma unfold_inj tb : wf_tb tb -> NoDup tb ->
  forall i j, valid tb i -> valid tb j -> unfold_tb tb i = unfold_tb tb j -> i = j.
Proof.
  intros W N. induction i as [i IH] using lt_wf_ind. intros j Vi Vj H.
  destruct (valid_node_tb _ _ Vi) as [[o1 a1] E1]. destruct (valid_node_tb _ _ Vj) as [[o2 a2] E2].
  rewrite (unfold_eq _ _ _ _ W E1), (unfold_eq _ _ _ _ W E2) in H. inversion H as [[Ho Ha]]. subst o2.
  assert (a1 = a2) as ->.
  { pose proof (wf_children _ _ _ _ W E1) as C1. pose proof (wf_children _ _ _ _ W E2) as C2.
    clear E1 E2 H. revert a2 Ha C2. induction a1 as [|x r IHr]; intros [|y q] Ha C2; cbn in Ha; try discriminate; auto.
    inversion Ha as [[Hx Hr]]. inversion C1; subst. inversion C2; subst.
    f_equal.
    - apply IH; auto; unfold valid in *; lia.
    - apply IHr; auto. }
  destruct i as [|k]; [discriminate|]. destruct j as [|m]; [discriminate|]. cbn in E1, E2.
  f_equal. eapply NoDup_nth_error; eauto.
  - apply nth_error_Some. congruence.
  - congruence.
Qed.

(* ------------------------------------------------------------------ the invariant *)
Definition ext (s s' : state) : Prop := exists l, table s' = table s ++ l.
Lemma ext_refl s : ext s s. Proof. exists []. now rewrite app_nil_r. Qed.
Lemma ext_trans a b c : ext a b -> ext b c -> ext a c.
Proof. intros [l1 H1] [l2 H2]. exists (l1 ++ l2). rewrite H2, H1, app_assoc. reflexivity. Qed.

Record Inv (s : state) : Prop := {
  inv_next : next_id s = S (List.length (table s));
  inv_wf : wf_tb (table s);
  inv_nodup : NoDup (table s);
  inv_true : node s 1 = Some (OBoolC true, []);
  inv_false : node s 2 = Some (OBoolC false, []);
  inv_sym : forall n i, In (n, i) (symbols s) -> exists t, node s i = Some (OSymbol n t, []);
  inv_int : forall v i, In (v, i) (int_c s) -> exists z, v = PyInt z /\ node s i = Some (OIntC z, []);
  inv_real : forall v i, In (v, i) (real_c s) -> exists n d, real_val v = Ok (n, d) /\ node s i = Some (ORealC n d, []);
  inv_str : forall v i, In (v, i) (str_c s) -> exists z, v = PyStr z /\ node s i = Some (OStrC z, [])
}.

Lemma inv_init : Inv init.
Proof.
  constructor.
  - reflexivity.
  - intros k o args H. destruct k as [|[|m]]; cbn in H; inversion H; subst; auto. destruct m; discriminate.
  - cbn. repeat constructor; cbn; intuition discriminate.
  - reflexivity.
  - reflexivity.
  - intros ? ? [].
  - intros ? ? [].
  - intros ? ? [].
  - intros ? ? [].
Qed.

Lemma node_ext s s' i c : ext s s' -> node s i = Some c -> node s' i = Some c.
Proof.
  intros [l E] H. unfold node in *. rewrite E, node_tb_app; auto. eapply node_tb_valid; eauto.
Qed.

(* every action keeps the invariant, only appends to the table, and returns existing nodes *)
Definition pres {A} (m : M A) : Prop :=
  forall s s' r, Inv s -> m s = (s', r) -> Inv s' /\ ext s s'.
Definition presv (m : M id) : Prop :=
  forall s s' i, Inv s -> m s = (s', Ok i) -> valid (table s') i.

Lemma pres_ret {A} (a : A) : pres (ret a).
Proof. intros s s' r I H. inversion H; subst. split; auto using ext_refl. Qed.
Lemma pres_fail {A} e : pres (@fail A e).
Proof. intros s s' r I H. inversion H; subst. split; auto using ext_refl. Qed.
Lemma pres_bind {A B} (m : M A) (f : A -> M B) : pres m -> (forall a, pres (f a)) -> pres (bind m f).
Proof.
  intros Pm Pf s s' r I H. unfold bind in H. destruct (m s) as [s1 [a|e]] eqn:E.
  - destruct (Pm _ _ _ I E) as [I1 X1]. destruct (Pf a _ _ _ I1 H) as [I2 X2]. split; eauto using ext_trans.
  - inversion H; subst. eapply Pm; eauto.
Qed.

Lemma create_node_spec c s s' r : Inv s -> create_node c s = (s', r) ->
  Inv s' /\ ext s s' /\
  (forall i, r = Ok i -> node s' i = Some c) /\
  (forall i, node s i = Some c -> s' = s /\ r = tcheck (table s) i) /\
  (~ In c (table s) -> Forall (valid (table s)) (snd c) ->
     table s' = table s ++ [c] /\ r = tcheck (table s') (next_id s)).
Proof.
  intros I H. unfold create_node in H.
  destruct (forallb (valid_tb (table s)) (snd c)) eqn:V; cbn [negb] in H.
  2:{ inversion H; subst. split; [exact I|]. split; [apply ext_refl|]. split; [intros i Hi; discriminate|]. split.
      - intros i Hi. exfalso. destruct c as [o args]. destruct i as [|k]; [discriminate|]. cbn in Hi.
        assert (k < List.length (table s')) by (apply nth_error_Some; congruence).
        apply (inv_wf _ I) in Hi. cbn in V.
        assert (forallb (valid_tb (table s')) args = true); [|congruence].
        apply forallb_forall. intros a Ha. rewrite Forall_forall in Hi. specialize (Hi a Ha).
        apply valid_tb_iff. unfold valid. lia.
      - intros _ F. exfalso. assert (forallb (valid_tb (table s')) (snd c) = true); [|congruence].
        apply forallb_forall. intros a Ha. rewrite Forall_forall in F. apply valid_tb_iff; auto. }
  assert (Vc : Forall (valid (table s)) (snd c)).
  { apply Forall_forall. intros a Ha. apply valid_tb_iff. rewrite forallb_forall in V. auto. }
  destruct (find_index c (table s) 1) as [i|] eqn:F.
  - inversion H; subst. apply find_index_some in F. destruct F as [F1 F2].
    assert (Ni : node s' i = Some c).
    { unfold node. destruct i as [|k]; [lia|]. cbn. replace (S k - 1) with k in F2 by lia. exact F2. }
    split; [exact I|]. split; [apply ext_refl|]. split; [|split].
    + intros j Hj. unfold tcheck in Hj. destruct (tc (unfold_tb (table s') i)); inversion Hj; subst; auto.
    + intros j Hj. split; [reflexivity|]. f_equal. destruct i as [|k]; [lia|]. destruct j as [|m]; [discriminate|]. cbn in Ni, Hj.
      f_equal. eapply NoDup_nth_error; [apply (inv_nodup _ I)| |congruence]. apply nth_error_Some. congruence.
    + intros NI. exfalso. apply NI. destruct i as [|k]; [lia|]. cbn in Ni. eapply nth_error_In; eauto.
  - apply find_index_none in F. inversion H; subst. clear H.
    assert (X : ext s (set_table s (table s ++ [c]) (S (next_id s)))) by (exists [c]; reflexivity).
    assert (Nn : node (set_table s (table s ++ [c]) (S (next_id s))) (next_id s) = Some c).
    { unfold node. cbn [table set_table]. rewrite (inv_next _ I). cbn.
      rewrite nth_error_app2 by lia. now rewrite Nat.sub_diag. }
    split; [|split; [exact X|split; [|split]]].
    + constructor; cbn [table set_table symbols int_c real_c str_c next_id].
      * rewrite app_length, (inv_next _ I). cbn. lia.
      * apply wf_app; auto. apply (inv_wf _ I).
      * apply NoDup_snoc; [apply (inv_nodup _ I)|exact F].
      * eapply node_ext; eauto. apply (inv_true _ I).
      * eapply node_ext; eauto. apply (inv_false _ I).
      * intros n i Hi. destruct (inv_sym _ I _ _ Hi) as [t Ht]. exists t. eapply node_ext; eauto.
      * intros v i Hi. destruct (inv_int _ I _ _ Hi) as [z [? Hz]]. exists z. split; auto. eapply node_ext; eauto.
      * intros v i Hi. destruct (inv_real _ I _ _ Hi) as [n [d [? Hz]]]. exists n, d. split; auto. eapply node_ext; eauto.
      * intros v i Hi. destruct (inv_str _ I _ _ Hi) as [z [? Hz]]. exists z. split; auto. eapply node_ext; eauto.
    + intros i Hi. unfold tcheck in Hi.
      destruct (tc (unfold_tb (table s ++ [c]) (next_id s))); inversion Hi; subst. exact Nn.
    + intros i Hi. exfalso. apply F. unfold node in Hi. destruct i as [|k]; [discriminate|]. eapply nth_error_In; eauto.
    + intros _ _. split; reflexivity.
Qed.

Lemma create_node_pres c : pres (create_node c).
Proof. intros s s' r I H. destruct (create_node_spec _ _ _ _ I H) as (A & B & _). auto. Qed.

(* ------------------------------------------------------------------ caches and symbols *)
Lemma Inv_set_real_c s v i n d : Inv s -> real_val v = Ok (n, d) -> node s i = Some (ORealC n d, []) ->
  Inv (set_real_c s ((v, i) :: real_c s)).
Proof.
  intros I Hv Hn. destruct I. constructor; try assumption. cbn [real_c set_real_c]. intros v' i' [E|E]; [inversion E; subst; eauto|].
  match goal with H : forall _ _, In _ _ -> _ |- _ => solve [apply (H _ _ E)] end.
Qed.
Lemma Inv_set_int_c s z i : Inv s -> node s i = Some (OIntC z, []) -> Inv (set_int_c s ((PyInt z, i) :: int_c s)).
Proof.
  intros I Hn. destruct I. constructor; try assumption. cbn [int_c set_int_c]. intros v' i' [E|E]; [inversion E; subst; eauto|].
  match goal with H : forall _ _, In _ _ -> _ |- _ => solve [apply (H _ _ E)] end.
Qed.
Lemma Inv_set_str_c s z i : Inv s -> node s i = Some (OStrC z, []) -> Inv (set_str_c s ((PyStr z, i) :: str_c s)).
Proof.
  intros I Hn. destruct I. constructor; try assumption. cbn [str_c set_str_c]. intros v' i' [E|E]; [inversion E; subst; eauto|].
  match goal with H : forall _ _, In _ _ -> _ |- _ => solve [apply (H _ _ E)] end.
Qed.
Lemma Inv_set_symbols s n t i : Inv s -> node s i = Some (OSymbol n t, []) -> Inv (set_symbols s ((n, i) :: symbols s)).
Proof.
  intros I Hn. destruct I. constructor; try assumption. cbn [symbols set_symbols]. intros v' i' [E|E]; [inversion E; subst; eauto|].
  match goal with H : forall _ _, In _ _ -> _ |- _ => solve [apply (H _ _ E)] end.
Qed.
Lemma Inv_set_fresh s g : Inv s -> Inv (set_fresh s g).
Proof. intros I. destruct I. constructor; assumption. Qed.

Lemma real_pres v : pres (real v).
Proof.
  intros s s' r I H. unfold real in H.
  destruct (real_val v) as [[n d]|e] eqn:Hv; [|inversion H; subst; auto using ext_refl].
  destruct (cache_get v (real_c s)); [inversion H; subst; auto using ext_refl|].
  unfold bind in H. destruct (create_node (ORealC n d, []) s) as [s1 [i|e]] eqn:C;
    destruct (create_node_spec _ _ _ _ I C) as (I1 & X1 & N1 & _); inversion H; subst; [|auto].
  split; [|exact X1]. eapply Inv_set_real_c; eauto.
Qed.
Lemma int_pres v : pres (int v).
Proof.
  intros s s' r I H. unfold int in H.
  destruct v; try (inversion H; subst; auto using ext_refl; fail).
  destruct (cache_get (PyInt z) (int_c s)); [inversion H; subst; auto using ext_refl|].
  unfold bind in H. destruct (create_node (OIntC z, []) s) as [s1 [i|e]] eqn:C;
    destruct (create_node_spec _ _ _ _ I C) as (I1 & X1 & N1 & _); inversion H; subst; [|auto].
  split; [|exact X1]. eapply Inv_set_int_c; eauto.
Qed.
Lemma str_pres v : pres (str v).
Proof.
  intros s s' r I H. unfold str in H. destruct (cache_get v (str_c s)); [inversion H; subst; auto using ext_refl|].
  destruct v; try (inversion H; subst; auto using ext_refl; fail).
  unfold bind in H. destruct (create_node (OStrC s0, []) s) as [s1 [i|e]] eqn:C;
    destruct (create_node_spec _ _ _ _ I C) as (I1 & X1 & N1 & _); inversion H; subst; [|auto].
  split; [|exact X1]. eapply Inv_set_str_c; eauto.
Qed.
Lemma boolc_pres v : pres (boolc v).
Proof. destruct v; cbn; auto using pres_ret, pres_fail. Qed.

Lemma bv_pres v w : pres (bv v w).
Proof.
  assert (G : forall z w, pres (match w with
      | None => fail EVal
      | Some w => if (z <? 0)%Z then fail EVal
                  else if (if (w <? 0)%Z then (0 <? z)%Z else (Z.pow 2 w <=? z)%Z) then fail EVal
                  else create_node (OBVC z w, []) end)).
  { intros z [w'|]; [|apply pres_fail]. destruct (z <? 0)%Z; [apply pres_fail|].
    destruct (if (w' <? 0)%Z then (0 <? z)%Z else (2 ^ w' <=? z)%Z); [apply pres_fail|apply create_node_pres]. }
  unfold bv. destruct v as [z|h bits| |].
  - apply (G z w).
  - destruct (int_of_bits bits) as [z|]; [|apply pres_fail]. destruct w as [w|]; [|apply (G z (Some (zlen bits)))].
    destruct (w =? zlen bits)%Z; [apply (G z (Some (zlen bits)))|apply pres_fail].
  - apply pres_fail.
  - destruct w; apply pres_fail.
Qed.
Lemma sbv_pres v w : pres (sbv v w).
Proof.
  unfold sbv. destruct v; try apply bv_pres. destruct w as [w|]; [|apply pres_fail].
  destruct (w <=? 0)%Z; [apply pres_fail|].
  destruct ((z <? - 2 ^ (w - 1))%Z || (2 ^ (w - 1) - 1 <? z)%Z); [apply pres_fail|].
  destruct (0 <=? z)%Z; apply bv_pres.
Qed.

Lemma symbol_pres n t : pres (symbol n t).
Proof.
  intros s s' r I H. unfold symbol in H. destruct (sym_get n (symbols s)).
  - destruct (i_op (table s) i); try (inversion H; subst; auto using ext_refl; fail).
    destruct (ty_eqb t0 t); inversion H; subst; auto using ext_refl.
  - destruct (String.eqb n ""); [inversion H; subst; auto using ext_refl|].
    unfold bind in H. destruct (create_node (OSymbol n t, []) s) as [s1 [i|e]] eqn:C;
      destruct (create_node_spec _ _ _ _ I C) as (I1 & X1 & N1 & _); inversion H; subst; [|auto].
    split; [|exact X1]. eapply Inv_set_symbols; eauto.
Qed.
Lemma fresh_pres t tmpl : pres (new_fresh_symbol t tmpl).
Proof.
  intros s s' r I H. unfold new_fresh_symbol in H.
  destruct (match tmpl with Some ps => ps | None => ("FV"%string, ""%string) end) as [pre suf].
  apply symbol_pres in H; [|apply Inv_set_fresh; exact I]. destruct H as [I' [l X]]. split; auto. exists l. exact X.
Qed.

(* ------------------------------------------------------------------ plans *)
Section PlanInd.
  Context {N : Type} (P : plan N -> Prop).
  Hypothesis HRet : forall n, P (PRet n).
  Hypothesis HNode : forall o ps, Forall P ps -> P (PNode o ps).
  Hypothesis HReal : forall v, P (PReal v).
  Hypothesis HBV : forall z w, P (PBV z w).
  Hypothesis HErr : forall e, P (PErr e).
  Fixpoint plan_ind' (p : plan N) : P p :=
    match p with
    | PRet n => HRet n
    | PNode o ps => HNode o ps ((fix go (l : list (plan N)) : Forall P l :=
                                   match l with
                                   | [] => Forall_nil P
                                   | x :: r => Forall_cons x (plan_ind' x) (go r)
                                   end) ps)
    | PReal v => HReal v
    | PBV z w => HBV z w
    | PErr e => HErr e
    end.
End PlanInd.

Fixpoint exec_list (l : list (plan id)) : M (list id) :=
  match l with
  | [] => ret []
  | x :: r => bind (exec x) (fun i => bind (exec_list r) (fun js => ret (i :: js)))
  end.
Lemma exec_node o ps : exec (PNode o ps) = bind (exec_list ps) (fun js => create_node (o, js)).
Proof. reflexivity. Qed.

Lemma exec_pres p : pres (exec p).
Proof.
  induction p as [n|o ps IH|v|z w|e] using plan_ind'.
  - apply pres_ret.
  - rewrite exec_node. apply pres_bind; [|intros; apply create_node_pres].
    induction IH as [|x r Hx Hr IHr]; cbn [exec_list]; [apply pres_ret|].
    apply pres_bind; [exact Hx|]. intros i. apply pres_bind; [exact IHr|]. intros js. apply pres_ret.
  - apply real_pres.
  - apply bv_pres.
  - apply pres_fail.
Qed.
Lemma ctor_call_pres c args zs : pres (ctor_call c args zs).
Proof. intros s s' r I H. unfold ctor_call in H. eapply exec_pres; eauto. Qed.

Lemma array_pres addr it d pairs : pres (array addr it d pairs).
Proof.
  intros s s' r I H. unfold array in H.
  destruct (forallb (fun kv => i_const (table s) (fst kv)) (dict_of_pairs pairs)).
  - eapply create_node_pres; eauto.
  - inversion H; subst; auto using ext_refl.
Qed.

Lemma norm_symbol_pres n t : pres (norm_symbol n t).
Proof. unfold norm_symbol. destruct (tnorm t); [apply symbol_pres|apply pres_fail]. Qed.
Lemma norm_vars_pres vs : pres (norm_vars vs).
Proof.
  induction vs as [|[n t] r IH]; cbn [norm_vars]; [apply pres_ret|].
  apply pres_bind; [apply norm_symbol_pres|]. intros i. apply pres_bind; [exact IH|]. intros. apply pres_ret.
Qed.

Lemma take1_pres l k : (forall a, pres (k a)) -> pres (take1 l k).
Proof. intros H. destruct l; cbn; auto using pres_fail. Qed.
Lemma take2_pres l k : (forall a b, pres (k a b)) -> pres (take2 l k).
Proof. intros H. destruct l as [|a [|b r]]; cbn; auto using pres_fail. Qed.
Lemma take3_pres l k : (forall a b c, pres (k a b c)) -> pres (take3 l k).
Proof. intros H. destruct l as [|a [|b [|c r]]]; cbn; auto using pres_fail. Qed.

Lemma rebuild_pres addr o a : pres (rebuild addr o a).
Proof.
  destruct o; cbn [rebuild];
    try (apply take1_pres; intros);
    try (apply take2_pres; intros);
    try (apply take3_pres; intros);
    try apply ctor_call_pres; try apply norm_symbol_pres; try apply real_pres; try apply int_pres;
    try apply boolc_pres; try apply str_pres; try apply bv_pres.
  - apply pres_bind; [apply norm_vars_pres|intros; apply ctor_call_pres].
  - apply pres_bind; [apply norm_vars_pres|intros; apply ctor_call_pres].
  - apply pres_bind; [apply norm_symbol_pres|intros; apply ctor_call_pres].
  - destruct k; try (apply take1_pres; intros); try (apply take2_pres; intros); apply ctor_call_pres.
  - destruct k; try (apply take1_pres; intros); try (apply take2_pres; intros); try (apply take3_pres; intros); apply ctor_call_pres.
  - destruct (tnorm it); [|apply pres_fail]. destruct a; [apply pres_fail|apply array_pres].
Qed.

Definition norm_list (f : nat) (addr : id -> Z) (src : list content) : list id -> M (list id) :=
  fix go (l : list id) : M (list id) :=
    match l with
    | [] => ret []
    | x :: r => bind (go r) (fun rs => bind (norm_fuel f addr src x) (fun x' => ret (x' :: rs)))
    end.
Lemma norm_list_cons f addr src x r :
  norm_list f addr src (x :: r) =
  bind (norm_list f addr src r) (fun rs => bind (norm_fuel f addr src x) (fun x' => ret (x' :: rs))).
Proof. reflexivity. Qed.
Lemma norm_fuel_S f addr src i :
  norm_fuel (S f) addr src i =
  match node_tb src i with
  | None => fail EBadReq
  | Some (o, args) => bind (norm_list f addr src args) (fun args' => rebuild addr o args')
  end.
Proof. reflexivity. Qed.

Lemma norm_fuel_pres addr src : forall f i, pres (norm_fuel f addr src i).
Proof.
  induction f as [|f IH]; intros i; [apply pres_fail|].
  rewrite norm_fuel_S. destruct (node_tb src i) as [[o args]|]; [|apply pres_fail].
  apply pres_bind; [|intros; apply rebuild_pres].
  induction args as [|x r IHr]; [apply pres_ret|]. rewrite norm_list_cons.
  apply pres_bind; [exact IHr|]. intros rs. apply pres_bind; [apply IH|]. intros. apply pres_ret.
Qed.

Lemma step_pres addr srcs r : pres (fun s => step addr srcs s r).
Proof.
  intros s s' rp I H. unfold step in H.
  destruct (negb (forallb (valid_id s) (req_ids r))); [inversion H; subst; auto using ext_refl|].
  destruct r.
  - eapply ctor_call_pres; eauto.
  - eapply symbol_pres; eauto.
  - eapply fresh_pres; eauto.
  - eapply real_pres; eauto.
  - eapply int_pres; eauto.
  - eapply str_pres; eauto.
  - eapply boolc_pres; eauto.
  - eapply bv_pres; eauto.
  - eapply sbv_pres; eauto.
  - eapply array_pres; eauto.
  - destruct (nth_error srcs src); [|inversion H; subst; auto using ext_refl].
    destruct ((1 <=? i) && (i <=? List.length l)); [|inversion H; subst; auto using ext_refl].
    eapply norm_fuel_pres; eauto.
Qed.

(* ------------------------------------------------------------------ worlds *)
Definition WInv (w : world) : Prop := Forall Inv w.
Lemma winit_inv n : WInv (winit n).
Proof. unfold WInv, winit. apply Forall_forall. intros s H. apply repeat_spec in H. subst. apply inv_init. Qed.
Lemma set_nth_Forall {A} (P : A -> Prop) l k x : Forall P l -> P x -> Forall P (set_nth l k x).
Proof.
  intros H Hx. revert k. induction H as [|y r Hy Hr IH]; intros k; cbn; [constructor|].
  destruct k; constructor; auto.
Qed.
Lemma wstep_inv addr w er w' rp : WInv w -> wstep addr w er = (w', rp) -> WInv w'.
Proof.
  intros I H. destruct er as [e r]. unfold wstep in H.
  destruct (nth_error w e) as [s|] eqn:E; [|inversion H; subst; auto].
  destruct (step (addr e) (map table w) s r) as [s' rp'] eqn:S. inversion H; subst.
  apply set_nth_Forall; auto.
  eapply (step_pres (addr e) (map table w) r); eauto.
  unfold WInv in I. rewrite Forall_forall in I. apply I. eapply nth_error_In; eauto.
Qed.
Lemma wrun_inv addr l : forall w w' rps, WInv w -> wrun addr w l = (w', rps) -> WInv w'.
Proof.
  induction l as [|er rest IH]; intros w w' rps I H; cbn in H; [inversion H; subst; auto|].
  destruct (wstep addr w er) as [w1 rp] eqn:S. destruct (wrun addr w1 rest) as [w2 rps'] eqn:R.
  inversion H; subst. eapply IH; [|eauto]. eapply wstep_inv; eauto.
Qed.

(* every environment of every world reached by any history from fresh environments *)
Definition reachable (s : state) : Prop :=
  exists addr n l w rps, wrun addr (winit n) l = (w, rps) /\ In s w.
Lemma reachable_inv s : reachable s -> Inv s.
Proof.
  intros (addr & n & l & w & rps & H & Hin). pose proof (wrun_inv _ _ _ _ _ (winit_inv n) H) as I.
  unfold WInv in I. rewrite Forall_forall in I. auto.
Qed.

(* ------------------------------------------------------------------ hash-consing theorems *)
Theorem hc_no_dup s : reachable s ->
  NoDup (table s) /\ next_id s = S (List.length (table s)) /\
  (forall i, node s i <> None <-> 1 <= i <= List.length (table s)).
Proof.
  intros R. apply reachable_inv in R. split; [apply (inv_nodup _ R)|]. split; [apply (inv_next _ R)|].
  intros i. split.
  - intros H. destruct (node s i) eqn:E; [|congruence]. eapply node_tb_valid; eauto.
  - intros V. destruct (valid_node_tb _ _ V) as [c Hc]. unfold node. congruence.
Qed.

Theorem hc_same s i j : reachable s -> valid (table s) i -> valid (table s) j ->
  (unfold s i = unfold s j <-> i = j).
Proof.
  intros R Vi Vj. apply reachable_inv in R. split; [|intros ->; reflexivity].
  apply unfold_inj; auto; [apply (inv_wf _ R)|apply (inv_nodup _ R)].
Qed.

(* children first: the tree of a node is its operator applied to the trees of its children *)
Theorem unfold_node s i o args : reachable s -> node s i = Some (o, args) ->
  unfold s i = T o (map (unfold s) args).
Proof. intros R H. apply reachable_inv in R. apply unfold_eq; auto. apply (inv_wf _ R). Qed.

(* accessors: a node reads back exactly the content create_node was given, now and after any
   further requests *)
Theorem accessors_faithful s c s' i : reachable s -> create_node c s = (s', Ok i) ->
  node s' i = Some c /\ node_op s' i = Some (fst c) /\ node_args s' i = Some (snd c) /\
  forall addr srcs r s'' rp, step addr srcs s' r = (s'', rp) -> node s'' i = Some c.
Proof.
  intros R H. apply reachable_inv in R. destruct (create_node_spec _ _ _ _ R H) as (I1 & X1 & N1 & _).
  specialize (N1 i eq_refl). split; [exact N1|]. unfold node_op, node_args. rewrite N1. cbn. split; [reflexivity|]. split; [reflexivity|].
  intros addr srcs r s'' rp S. destruct (step_pres addr srcs r _ _ _ I1 S) as [_ X]. eapply node_ext; eauto.
Qed.

(* route independence at the table: a content that exists is returned, never duplicated; the
   state does not change *)
Theorem create_existing s c i : reachable s -> node s i = Some c ->
  create_node c s = (s, tcheck (table s) i).
Proof.
  intros R H. apply reachable_inv in R. destruct (create_node c s) as [s' r] eqn:C.
  destruct (create_node_spec _ _ _ _ R C) as (_ & _ & _ & E & _). destruct (E i H) as [-> ->]. reflexivity.
Qed.

(* ids keep their meaning: no later request changes the tree of an existing node *)
Theorem unfold_stable addr srcs s r s' rp i : reachable s -> step addr srcs s r = (s', rp) ->
  valid (table s) i -> unfold s' i = unfold s i /\ valid (table s') i.
Proof.
  intros R S V. apply reachable_inv in R. destruct (step_pres addr srcs r _ _ _ R S) as [_ [l E]].
  unfold unfold. rewrite E. split; [apply unfold_app; auto; apply (inv_wf _ R)|apply valid_app; exact V].
Qed.

(* ------------------------------------------------------------------ where the faithful model
   falsifies a clause of the property: witnesses (replayed on the implementation by harness/c04.py) *)
Definition addr_id (e : nat) (i : id) : Z := Z.of_nat i.

(* the copy of an array value may list the assignments in another order (Array sorts by id()) *)
Lemma normalize_copy_array_order_refuted :
  exists (h : list (nat * request)) (i j : id),
    let '(w, rps) := wrun addr_id (winit 2) h in
    last rps (Err EOth) = Ok j /\
    unfold (nth 1 w init) j <> unfold (nth 0 w init) i /\
    unfold (nth 0 w init) i = T (OArrayValue TInt) [TIntC 7; TIntC 1; TIntC 2; TIntC 2; TIntC 1] /\
    unfold (nth 1 w init) j = T (OArrayValue TInt) [TIntC 7; TIntC 2; TIntC 1; TIntC 1; TIntC 2].
Proof.
  exists [(0, RInt (PyInt 1)); (0, RInt (PyInt 2)); (0, RInt (PyInt 7)); (0, RArray TInt 5 [(3, 4); (4, 3)]);
          (1, RInt (PyInt 2)); (1, RInt (PyInt 1)); (1, RNormalize 0 6)], 6, 6.
  vm_compute. split; [reflexivity|]. split; [discriminate|]. split; reflexivity.
Qed.

(* ------------------------------------------------------------------ constant spellings *)
Lemma node_inj s i j c : Inv s -> node s i = Some c -> node s j = Some c -> i = j.
Proof.
  intros I Hi Hj. unfold node in *. destruct i as [|k]; [discriminate|]. destruct j as [|m]; [discriminate|]. cbn in *.
  f_equal. eapply NoDup_nth_error; [apply (inv_nodup _ I)| |congruence]. apply nth_error_Some. congruence.
Qed.

Lemma cache_get_in k l i : cache_get k l = Some i -> exists k', In (k', i) l /\ py_eqb k k' = true.
Proof.
  induction l as [|[k' i'] r IH]; cbn; [discriminate|]. destruct (py_eqb k k') eqn:E.
  - intros H. inversion H; subst. eauto.
  - intros H. destruct (IH H) as (k'' & Hin & He). eauto.
Qed.

Lemma tcheck_leaf tb i o : wf_tb tb -> node_tb tb i = Some (o, []) ->
  tcheck tb i = match tc_rule o [] with Some _ => Ok i | None => Err ETyp end.
Proof. intros W H. unfold tcheck. rewrite (unfold_eq _ _ _ _ W H). reflexivity. Qed.

(* creating a well-typed leaf always succeeds *)
Lemma create_leaf s o : Inv s -> tc_rule o [] <> None ->
  exists s' i, create_node (o, []) s = (s', Ok i) /\ Inv s' /\ ext s s' /\ node s' i = Some (o, []).
Proof.
  intros I T. destruct (create_node (o, []) s) as [s' r] eqn:C.
  destruct (create_node_spec _ _ _ _ I C) as (I' & X & N1 & E & F).
  destruct (find_index (o, []) (table s) 1) as [i|] eqn:Fi.
  - apply find_index_some in Fi. destruct Fi as [F1 F2].
    assert (Ni : node s i = Some (o, [])).
    { unfold node. destruct i as [|k]; [lia|]. cbn. replace (S k - 1) with k in F2 by lia. exact F2. }
    destruct (E i Ni) as [-> ->]. exists s, i. rewrite (tcheck_leaf _ _ _ (inv_wf _ I) Ni).
    destruct (tc_rule o []); [auto|congruence].
  - apply find_index_none in Fi. destruct (F Fi (Forall_nil _)) as [Ht ->].
    assert (Ni : node s' (next_id s) = Some (o, [])).
    { unfold node. rewrite Ht, (inv_next _ I). cbn. rewrite nth_error_app2 by lia. now rewrite Nat.sub_diag. }
    exists s', (next_id s). rewrite (tcheck_leaf _ _ _ (inv_wf _ I') Ni).
    destruct (tc_rule o []); [auto|congruence].
Qed.

Lemma unfold_leaf s i o : Inv s -> node s i = Some (o, []) -> unfold s i = T o [].
Proof. intros I H. unfold unfold. rewrite (unfold_eq _ _ _ _ (inv_wf _ I) H). reflexivity. Qed.

Lemma int_node s v s' i : Inv s -> int v s = (s', Ok i) ->
  Inv s' /\ ext s s' /\ exists z, v = PyInt z /\ node s' i = Some (OIntC z, []).
Proof.
  intros I H. destruct (int_pres v _ _ _ I H) as [I' X]. split; [exact I'|]. split; [exact X|].
  unfold int in H. destruct v; try discriminate. exists z. split; [reflexivity|].
  destruct (cache_get (PyInt z) (int_c s)) as [j|] eqn:C.
  - inversion H; subst. destruct (cache_get_in _ _ _ C) as (k' & Hin & He).
    destruct (inv_int _ I _ _ Hin) as (z' & -> & Hn). cbn in He. apply Z.eqb_eq in He.
    assert (z' = z) by lia. subst. exact Hn.
  - unfold bind in H. destruct (create_node (OIntC z, []) s) as [s1 [j|e]] eqn:Cn; [|discriminate].
    destruct (create_node_spec _ _ _ _ I Cn) as (_ & _ & N1 & _). inversion H; subst. apply (N1 i eq_refl).
Qed.

(* Int(z1) and Int(z2) are the same object exactly when z1 = z2, wherever in a history they occur *)
Theorem int_spelling s z1 z2 s1 s2 i1 i2 : reachable s ->
  int (PyInt z1) s = (s1, Ok i1) -> int (PyInt z2) s1 = (s2, Ok i2) -> (i1 = i2 <-> z1 = z2).
Proof.
  intros R H1 H2. apply reachable_inv in R.
  destruct (int_node _ _ _ _ R H1) as (I1 & X1 & z1' & E1 & N1).
  destruct (int_node _ _ _ _ I1 H2) as (I2 & X2 & z2' & E2 & N2).
  inversion E1; inversion E2; subst.
  pose proof (node_ext _ _ _ _ X2 N1) as N1'. split.
  - intros ->. rewrite N1' in N2. inversion N2. reflexivity.
  - intros ->. eapply node_inj; eauto.
Qed.

(* route independence of the Int spellings (after commit 7843d1b): whether Int(v) raises, and
   the tree of the node it returns, are functions of v alone - whatever the history *)
Definition int_spec (v : pyval) : res term :=
  match v with PyInt z => Ok (TIntC z) | _ => Err ETyp end.
Theorem int_route_indep s v : reachable s ->
  match int_spec v with
  | Ok t => exists s' i, int v s = (s', Ok i) /\ valid (table s') i /\ unfold s' i = t
  | Err e => int v s = (s, Err e)
  end.
Proof.
  intros R. apply reachable_inv in R. destruct v; cbn [int_spec]; try reflexivity.
  unfold int. destruct (cache_get (PyInt z) (int_c s)) as [j|] eqn:C.
  - destruct (cache_get_in _ _ _ C) as (k' & Hin & He).
    destruct (inv_int _ R _ _ Hin) as (z' & -> & Hn). cbn in He. apply Z.eqb_eq in He.
    assert (z' = z) by lia. subst. exists s, j. split; [reflexivity|]. split; [eapply node_tb_valid; eauto|].
    apply unfold_leaf; auto.
  - destruct (create_leaf s (OIntC z) R) as (s1 & i & Cn & I1 & X1 & N1); [cbn; discriminate|].
    unfold bind. rewrite Cn. eexists _, i. split; [reflexivity|]. cbn [table set_int_c].
    split; [eapply node_tb_valid; eauto|]. apply (unfold_leaf s1); auto.
Qed.

Lemma str_node s v s' i : Inv s -> str v s = (s', Ok i) ->
  Inv s' /\ ext s s' /\ exists z, py_eqb v (PyStr z) = true /\ node s' i = Some (OStrC z, []).
Proof.
  intros I H. destruct (str_pres v _ _ _ I H) as [I' X]. split; [exact I'|]. split; [exact X|].
  unfold str in H. destruct (cache_get v (str_c s)) as [j|] eqn:C.
  - inversion H; subst. destruct (cache_get_in _ _ _ C) as (k' & Hin & He).
    destruct (inv_str _ I _ _ Hin) as (z & -> & Hn). eauto.
  - destruct v; try discriminate. unfold bind in H.
    destruct (create_node (OStrC s0, []) s) as [s1 [j|e]] eqn:Cn; [|discriminate].
    destruct (create_node_spec _ _ _ _ I Cn) as (_ & _ & N1 & _). inversion H; subst.
    exists s0. split; [cbn; apply zs_eqb_eq; reflexivity|]. apply (N1 i eq_refl).
Qed.
Theorem string_spelling s z1 z2 s1 s2 i1 i2 : reachable s ->
  str (PyStr z1) s = (s1, Ok i1) -> str (PyStr z2) s1 = (s2, Ok i2) -> (i1 = i2 <-> z1 = z2).
Proof.
  intros R H1 H2. apply reachable_inv in R.
  destruct (str_node _ _ _ _ R H1) as (I1 & X1 & z1' & E1 & N1).
  destruct (str_node _ _ _ _ I1 H2) as (I2 & X2 & z2' & E2 & N2).
  cbn in E1, E2. apply zs_eqb_eq in E1, E2. subst.
  pose proof (node_ext _ _ _ _ X2 N1) as N1'. split.
  - intros ->. rewrite N1' in N2. inversion N2. reflexivity.
  - intros ->. eapply node_inj; eauto.
Qed.

(* Real: int / Fraction / float / pair spellings.  [real_val v = Ok q]: v is an accepted spelling
   and q the Fraction the constructor computes from it. *)
Definition qeq (a b : Z * Z) : Prop := (fst a * snd b = fst b * snd a)%Z.
Definition qnf (a : Z * Z) : Prop := Z.gcd (fst a) (snd a) = 1%Z /\ (0 < snd a)%Z.

Lemma qnf_unique a b : qnf a -> qnf b -> qeq a b -> a = b.
Proof.
  destruct a as [n d], b as [n' d']. unfold qnf, qeq. cbn [fst snd]. intros [G D] [G' D'] E.
  assert (Hd : (d | d')%Z).
  { apply Z.gauss with (m := n); [|rewrite Z.gcd_comm; exact G]. exists n'. lia. }
  assert (Hd' : (d' | d)%Z).
  { apply Z.gauss with (m := n'); [|rewrite Z.gcd_comm; exact G']. exists n. lia. }
  assert (d = d') by (apply Z.divide_antisym_nonneg; auto; lia). subst d'.
  f_equal. apply Z.mul_reg_r with (p := d); lia.
Qed.

Lemma fr_norm_qnf n d : d <> 0%Z -> qnf (fr_norm n d) /\ qeq (fr_norm n d) (n, d).
Proof.
  intros D. unfold fr_norm. destruct (d =? 0)%Z eqn:E; [apply Z.eqb_eq in E; contradiction|].
  set (g := Z.gcd n d). assert (G0 : (0 < g)%Z).
  { pose proof (Z.gcd_nonneg n d). assert (g <> 0%Z); [|lia]. unfold g. intros H0. apply Z.gcd_eq_0_r in H0. contradiction. }
  destruct (Z.gcd_divide_l n d) as [a Ha]. destruct (Z.gcd_divide_r n d) as [b Hb]. fold g in Ha, Hb.
  assert (Hn : (n / g = a)%Z) by (rewrite Ha at 1; apply Z.div_mul; lia).
  assert (Hd : (d / g = b)%Z) by (rewrite Hb at 1; apply Z.div_mul; lia).
  rewrite Hn, Hd.
  assert (Gab : Z.gcd a b = 1%Z).
  { assert (Z.gcd (a * g) (b * g) = g) by (rewrite <- Ha, <- Hb; reflexivity).
    rewrite Z.gcd_mul_mono_r_nonneg in H by lia. nia. }
  assert (b <> 0%Z) by (intros ->; lia).
  clearbody g.
  destruct (b <? 0)%Z eqn:Eb; [apply Z.ltb_lt in Eb|apply Z.ltb_ge in Eb]; unfold qnf, qeq; cbn [fst snd].
  - split; [split; [rewrite Z.gcd_opp_l, Z.gcd_opp_r; exact Gab|lia]|]. rewrite Ha, Hb. ring.
  - split; [split; [exact Gab|lia]|]. rewrite Ha, Hb. ring.
Qed.

Lemma frac_ok_qnf n d : frac_ok n d = true -> qnf (n, d).
Proof. unfold frac_ok, qnf. rewrite andb_true_iff, Z.eqb_eq, Z.ltb_lt. auto. Qed.

Lemma real_val_qnf v n d : real_val v = Ok (n, d) -> qnf (n, d).
Proof.
  destruct v; cbn; try discriminate.
  - intros H. inversion H; subst. unfold qnf. cbn. rewrite Z.gcd_1_r. lia.
  - destruct (frac_ok n0 d0) eqn:F; [|discriminate]. intros H. inversion H; subst. apply frac_ok_qnf; exact F.
  - destruct (frac_ok n0 d0) eqn:F; [|discriminate]. intros H. inversion H; subst. apply frac_ok_qnf; exact F.
  - destruct (d0 =? 0)%Z eqn:E; [discriminate|]. intros H. inversion H. apply fr_norm_qnf. apply Z.eqb_neq; exact E.
Qed.

(* equal cache keys denote the same rational *)
Lemma py_eqb_real_val v v' a b : py_eqb v v' = true -> real_val v = Ok a -> real_val v' = Ok b -> a = b.
Proof.
  intros E Ha Hb.
  assert (Qa : qnf a) by (destruct a as [n d]; apply (real_val_qnf v); assumption).
  assert (Qb : qnf b) by (destruct b as [n d]; apply (real_val_qnf v'); assumption).
  destruct v, v'; cbn in E, Ha, Hb; try discriminate;
    try (apply andb_true_iff in E; destruct E as [E1 E2]; apply Z.eqb_eq in E1, E2; subst; congruence);
    repeat match goal with
           | H : (if ?c then Ok _ else Err _) = Ok _ |- _ => destruct c; [|discriminate]
           end;
    apply qnf_unique; auto; inversion Ha; inversion Hb; subst; unfold qeq; cbn [fst snd] in *; apply Z.eqb_eq in E; lia.
Qed.

Lemma real_node s v s' i : Inv s -> real v s = (s', Ok i) ->
  Inv s' /\ ext s s' /\ exists n d, real_val v = Ok (n, d) /\ node s' i = Some (ORealC n d, []).
Proof.
  intros I H. destruct (real_pres v _ _ _ I H) as [I' X]. split; [exact I'|]. split; [exact X|].
  unfold real in H. destruct (real_val v) as [[n d]|e] eqn:Hv; [|discriminate]. exists n, d. split; [reflexivity|].
  destruct (cache_get v (real_c s)) as [j|] eqn:C.
  - inversion H; subst. destruct (cache_get_in _ _ _ C) as (k' & Hin & He).
    destruct (inv_real _ I _ _ Hin) as (n' & d' & Hv' & Hn).
    assert (Heq : (n, d) = (n', d')) by (apply (py_eqb_real_val v k'); auto). inversion Heq; subst. exact Hn.
  - unfold bind in H. destruct (create_node (ORealC n d, []) s) as [s1 [j|e]] eqn:Cn; [|discriminate].
    destruct (create_node_spec _ _ _ _ I Cn) as (_ & _ & N1 & _). inversion H; subst. apply (N1 i eq_refl).
Qed.

(* two spellings of a Real constant are the same object exactly when they denote the same rational *)
Theorem real_spelling s v1 v2 s1 s2 i1 i2 : reachable s ->
  real v1 s = (s1, Ok i1) -> real v2 s1 = (s2, Ok i2) -> (i1 = i2 <-> real_val v1 = real_val v2).
Proof.
  intros R H1 H2. apply reachable_inv in R.
  destruct (real_node _ _ _ _ R H1) as (I1 & X1 & n1 & d1 & E1 & N1).
  destruct (real_node _ _ _ _ I1 H2) as (I2 & X2 & n2 & d2 & E2 & N2).
  pose proof (node_ext _ _ _ _ X2 N1) as N1'. rewrite E1, E2. split.
  - intros ->. rewrite N1' in N2. inversion N2. reflexivity.
  - intros E. inversion E; subst. eapply node_inj; eauto.
Qed.
Example real_spelling_example :
  let s1 := fst (real (PyPair 2 4) init) in
  real (PyPair 2 4) init = (s1, Ok 3) /\ real (PyFloat 1 2) s1 = (fst (real (PyFloat 1 2) s1), Ok 3) /\
  snd (real (PyInt 1) s1) = Ok 4 /\ snd (real (PyBool true) s1) = Err ETyp.
Proof. vm_compute. repeat split. Qed.

(* route independence of the Real spellings (after commit 7843d1b) *)
Definition real_spec (v : pyval) : res term :=
  match real_val v with Ok (n, d) => Ok (TRealC n d) | Err e => Err e end.
Theorem real_route_indep s v : reachable s ->
  match real_spec v with
  | Ok t => exists s' i, real v s = (s', Ok i) /\ valid (table s') i /\ unfold s' i = t
  | Err e => real v s = (s, Err e)
  end.
Proof.
  intros R. apply reachable_inv in R. unfold real_spec, real.
  destruct (real_val v) as [[n d]|e] eqn:Hv; [|reflexivity].
  destruct (cache_get v (real_c s)) as [j|] eqn:C.
  - destruct (cache_get_in _ _ _ C) as (k' & Hin & He).
    destruct (inv_real _ R _ _ Hin) as (n' & d' & Hv' & Hn).
    assert (Heq : (n, d) = (n', d')) by (apply (py_eqb_real_val v k'); auto). inversion Heq; subst.
    exists s, j. split; [reflexivity|]. split; [eapply node_tb_valid; eauto|]. apply unfold_leaf; auto.
  - destruct (create_leaf s (ORealC n d) R) as (s1 & i & Cn & I1 & X1 & N1); [cbn; discriminate|].
    unfold bind. rewrite Cn. eexists _, i. split; [reflexivity|]. cbn [table set_real_c].
    split; [eapply node_tb_valid; eauto|]. apply (unfold_leaf s1); auto.
Qed.
(* the former witnesses: Int(1.0), Int(True), Real(True) now raise whatever is cached *)
Example spelling_route_examples :
  snd (step1 (addr_id 0) (run1 (addr_id 0) [RInt (PyInt 1)]) (RInt (PyFloat 1 1))) = Err ETyp /\
  snd (step1 (addr_id 0) (run1 (addr_id 0) []) (RInt (PyFloat 1 1))) = Err ETyp /\
  snd (step1 (addr_id 0) (run1 (addr_id 0) [RInt (PyInt 1)]) (RInt (PyBool true))) = Err ETyp /\
  snd (step1 (addr_id 0) (run1 (addr_id 0) [RReal (PyInt 1)]) (RReal (PyBool true))) = Err ETyp /\
  snd (step1 (addr_id 0) (run1 (addr_id 0) [RReal (PyInt 1)]) (RReal (PyFloat 1 1))) = Ok 3.
Proof. vm_compute. repeat split. Qed.

(* bit-vector constants: int and "#b..." / "..." spellings *)
Definition bv_den (v : bvspell) (w : option Z) : option (Z * Z) :=
  match v with
  | BvInt z => option_map (fun w => (z, w)) w
  | BvBits _ bits => option_map (fun z => (z, zlen bits)) (int_of_bits bits)
  | _ => None
  end.
Lemma bv_node s v w s' i : Inv s -> bv v w s = (s', Ok i) ->
  Inv s' /\ ext s s' /\ exists z w', bv_den v w = Some (z, w') /\ node s' i = Some (OBVC z w', []).
Proof.
  intros I H. destruct (bv_pres v w _ _ _ I H) as [I' X]. split; [exact I'|]. split; [exact X|].
  assert (G : forall z w0, (match w0 with
      | None => fail EVal
      | Some w => if (z <? 0)%Z then fail EVal
                  else if (if (w <? 0)%Z then (0 <? z)%Z else (Z.pow 2 w <=? z)%Z) then fail EVal
                  else create_node (OBVC z w, []) end) s = (s', Ok i) ->
      exists w', w0 = Some w' /\ node s' i = Some (OBVC z w', [])).
  { intros z [w'|] G; [|discriminate]. destruct (z <? 0)%Z; [discriminate|].
    destruct (if (w' <? 0)%Z then (0 <? z)%Z else (2 ^ w' <=? z)%Z); [discriminate|].
    destruct (create_node_spec _ _ _ _ I G) as (_ & _ & N1 & _). eauto. }
  unfold bv in H. destruct v as [z|h bits| |]; cbn [bv_den].
  - destruct (G z w H) as (w' & -> & N). exists z, w'. split; [reflexivity|exact N].
  - destruct (int_of_bits bits) as [z|]; [|discriminate]. cbn [option_map]. destruct w as [w|].
    + destruct (w =? zlen bits)%Z; [|discriminate]. destruct (G z (Some (zlen bits)) H) as (w' & Hw & N). inversion Hw; subst. exists z, (zlen bits). split; [reflexivity|exact N].
    + destruct (G z (Some (zlen bits)) H) as (w' & Hw & N). inversion Hw; subst. exists z, (zlen bits). split; [reflexivity|exact N].
  - discriminate.
  - destruct w; discriminate.
Qed.
Theorem bv_spelling s v1 w1 v2 w2 s1 s2 i1 i2 : reachable s ->
  bv v1 w1 s = (s1, Ok i1) -> bv v2 w2 s1 = (s2, Ok i2) -> (i1 = i2 <-> bv_den v1 w1 = bv_den v2 w2).
Proof.
  intros R H1 H2. apply reachable_inv in R.
  destruct (bv_node _ _ _ _ _ R H1) as (I1 & X1 & z1 & u1 & E1 & N1).
  destruct (bv_node _ _ _ _ _ I1 H2) as (I2 & X2 & z2 & u2 & E2 & N2).
  pose proof (node_ext _ _ _ _ X2 N1) as N1'. rewrite E1, E2. split.
  - intros ->. rewrite N1' in N2. inversion N2. reflexivity.
  - intros E. inversion E; subst. eapply node_inj; eauto.
Qed.

(* ------------------------------------------------------------------ Array: canonical order *)
Section ArrayCanon.
  Variable addr : id -> Z.
  Definition before (a b : id * id) : Prop := (addr (fst a) < addr (fst b))%Z.

  Lemma insert_by_in kv l x : In x (insert_by addr kv l) <-> x = kv \/ In x l.
  Proof.
    induction l as [|y r IH]; cbn; [intuition|].
    destruct (addr (fst kv) <=? addr (fst y))%Z; cbn; [intuition|]. rewrite IH. intuition.
  Qed.
  Lemma sort_by_in l x : In x (sort_by addr l) <-> In x l.
  Proof.
    unfold sort_by. induction l as [|y r IH]; cbn; [tauto|]. rewrite insert_by_in, IH. intuition.
  Qed.
  Lemma insert_by_sorted kv l : StronglySorted before l ->
    Forall (fun x => addr (fst x) <> addr (fst kv)) l -> StronglySorted before (insert_by addr kv l).
  Proof.
    induction 1 as [|y r Hr IH Hy]; intros D; cbn; [repeat constructor|].
    inversion D; subst. destruct (addr (fst kv) <=? addr (fst y))%Z eqn:E.
    - apply Z.leb_le in E. constructor; [constructor; auto|]. constructor; [unfold before; lia|].
      eapply Forall_impl; [|exact Hy]. unfold before. intros; lia.
    - apply Z.leb_gt in E. constructor; [apply IH; auto|].
      apply Forall_forall. intros x Hx. apply insert_by_in in Hx. destruct Hx as [->|Hx]; [unfold before; lia|].
      rewrite Forall_forall in Hy. auto.
  Qed.
  Lemma sort_by_sorted l : NoDup (map (fun kv => addr (fst kv)) l) -> StronglySorted before (sort_by addr l).
  Proof.
    unfold sort_by. induction l as [|y r IH]; cbn; intros N; [constructor|]. inversion N; subst.
    apply insert_by_sorted; [apply IH; auto|]. apply Forall_forall. intros x Hx.
    assert (Hx' : In x r) by (apply (proj1 (sort_by_in r x)); exact Hx).
    intros E. apply H1. rewrite <- E. apply (in_map (fun kv => addr (fst kv))). exact Hx'.
  Qed.
  Lemma filter_sorted (p : id * id -> bool) l : StronglySorted before l -> StronglySorted before (filter p l).
  Proof.
    induction 1 as [|y r Hr IH Hy]; cbn; [constructor|]. destruct (p y); [|exact IH].
    constructor; [exact IH|]. apply Forall_forall. intros x Hx. apply filter_In in Hx. rewrite Forall_forall in Hy. apply Hy, Hx.
  Qed.
  Lemma sorted_unique l1 : forall l2, StronglySorted before l1 -> StronglySorted before l2 ->
    (forall x, In x l1 <-> In x l2) -> l1 = l2.
  Proof.
    induction l1 as [|x r IH]; intros [|y q] S1 S2 E.
    - reflexivity.
    - exfalso. apply (proj2 (E y)). now left.
    - exfalso. apply (proj1 (E x)). now left.
    - inversion S1 as [|? ? S1r F1]; subst. inversion S2 as [|? ? S2r F2]; subst.
      rewrite Forall_forall in F1, F2.
      assert (x = y) as ->.
      { destruct (proj1 (E x) (or_introl eq_refl)) as [Hx|Hx]; [auto|].
        destruct (proj2 (E y) (or_introl eq_refl)) as [Hy|Hy]; [auto|].
        specialize (F1 _ Hy). specialize (F2 _ Hx). unfold before in *. lia. }
      f_equal. apply IH; auto. intros z. split; intros Hz.
      + destruct (proj1 (E z) (or_intror Hz)) as [->|H]; [|exact H]. specialize (F1 _ Hz). unfold before in F1. lia.
      + destruct (proj2 (E z) (or_intror Hz)) as [->|H]; [|exact H]. specialize (F2 _ Hz). unfold before in F2. lia.
  Qed.

  (* Array(idx, d, m): the children depend only on the map m minus its default-valued entries,
     not on the order in which m lists them (m1, m2: the items of two dicts; keys are distinct
     objects, i.e. have distinct addresses) *)
  Theorem array_canonical d (m1 m2 : list (id * id)) :
    NoDup (map (fun kv => addr (fst kv)) m1) -> NoDup (map (fun kv => addr (fst kv)) m2) ->
    (forall kv, (In kv m1 /\ snd kv <> d) <-> (In kv m2 /\ snd kv <> d)) ->
    d :: flatten_pairs (filter (fun kv => negb (Nat.eqb (snd kv) d)) (sort_by addr m1)) =
    d :: flatten_pairs (filter (fun kv => negb (Nat.eqb (snd kv) d)) (sort_by addr m2)).
  Proof.
    intros N1 N2 E. f_equal. f_equal. apply sorted_unique.
    - apply filter_sorted, sort_by_sorted, N1.
    - apply filter_sorted, sort_by_sorted, N2.
    - intros x. rewrite !filter_In, !sort_by_in, !negb_true_iff, !Nat.eqb_neq. apply E.
  Qed.
End ArrayCanon.

(* a dict given item by item: distinct keys are kept as they are *)
Lemma assoc_set_fresh k v l : ~ In k (map fst l) -> assoc_set k v l = l ++ [(k, v)].
Proof.
  induction l as [|[k' v'] r IH]; cbn; intros H; [reflexivity|].
  destruct (Nat.eqb k k') eqn:E; [apply Nat.eqb_eq in E; subst; exfalso; apply H; now left|].
  f_equal. apply IH. intros Hr. apply H. now right.
Qed.
Lemma dict_of_pairs_nodup l : NoDup (map fst l) -> dict_of_pairs l = l.
Proof.
  unfold dict_of_pairs. intros N.
  assert (G : forall acc, NoDup (map fst (acc ++ l)) -> fold_left (fun acc kv => assoc_set (fst kv) (snd kv) acc) l acc = acc ++ l).
  { clear N. induction l as [|[k v] r IH]; intros acc N; cbn; [now rewrite app_nil_r|].
    rewrite assoc_set_fresh.
    - rewrite IH; rewrite <- app_assoc; [reflexivity|exact N].
    - rewrite map_app in N. cbn in N. apply NoDup_remove_2 in N. intros H. apply N. apply in_or_app. now left. }
  apply (G []). exact N.
Qed.
Example array_canonical_example :
  array_args (addr_id 0) 5 [(3, 4); (4, 5); (6, 3)] = array_args (addr_id 0) 5 [(6, 3); (3, 4)] /\
  array_args (addr_id 0) 5 [(3, 4); (3, 6)] = [5; 3; 6].
Proof. split; reflexivity. Qed.

(* ------------------------------------------------------------------ cross-environment copy
   (FormulaContextualizer after commit 3ff3f2b) *)
Theorem tnorm_total t : tnorm t = Some t.
Proof. reflexivity. Qed.

Lemma exec_rets a s : exec_list (map PRet a) s = (s, Ok a).
Proof.
  induction a as [|x r IH]; [reflexivity|].
  change (exec_list (map PRet (x :: r)) s) with
    (bind (exec (PRet x)) (fun i => bind (exec_list (map PRet r)) (fun js => ret (i :: js))) s).
  unfold bind at 1. change (exec (PRet x) s) with (s, Ok x). cbn iota. unfold bind. rewrite IH. reflexivity.
Qed.
Lemma exec_node_rets o a s : exec (PNode o (map PRet a)) s = create_node (o, a) s.
Proof. rewrite exec_node. unfold bind. rewrite exec_rets. reflexivity. Qed.
Lemma ctor_call_node c a zs o a' s :
  i_plan (table s) c a zs = PNode o (map PRet a') -> ctor_call c a zs s = create_node (o, a') s.
Proof. intros E. unfold ctor_call. rewrite E. apply exec_node_rets. Qed.
Lemma ctor_call_ret c a zs x s : i_plan (table s) c a zs = PRet x -> ctor_call c a zs s = (s, Ok x).
Proof. intros E. unfold ctor_call. rewrite E. reflexivity. Qed.
Lemma ctor_call_err c a zs e s : i_plan (table s) c a zs = PErr e -> ctor_call c a zs s = (s, Err e).
Proof. intros E. unfold ctor_call. rewrite E. reflexivity. Qed.

Lemma create_node_ok_valid c s s' j : create_node c s = (s', Ok j) -> Forall (valid (table s)) (snd c).
Proof.
  unfold create_node. destruct (forallb (valid_tb (table s)) (snd c)) eqn:V; cbn [negb]; [|discriminate].
  intros _. apply Forall_forall. intros a Ha. apply valid_tb_iff. rewrite forallb_forall in V. auto.
Qed.

Lemma unfold_ext s s' i : Inv s -> ext s s' -> valid (table s) i -> unfold s' i = unfold s i.
Proof. intros I [l E] V. unfold unfold. rewrite E. apply unfold_app; auto. apply (inv_wf _ I). Qed.
Lemma valid_ext s s' i : ext s s' -> valid (table s) i -> valid (table s') i.
Proof. intros [l E] V. rewrite E. apply valid_app; auto. Qed.
Lemma map_unfold_ext s s' a : Inv s -> ext s s' -> Forall (valid (table s)) a ->
  map (unfold s') a = map (unfold s) a.
Proof.
  intros I X V. apply map_ext_in. intros x Hx. rewrite Forall_forall in V. apply unfold_ext; auto.
Qed.
Lemma Forall_valid_ext s s' a : ext s s' -> Forall (valid (table s)) a -> Forall (valid (table s')) a.
Proof. intros X V. eapply Forall_impl; [|exact V]. intros x. apply valid_ext; auto. Qed.

(* the node create_node returns stands for the operator applied to the trees of the children *)
Lemma finish_node o a ts s s' j : Inv s -> map (unfold s) a = ts -> create_node (o, a) s = (s', Ok j) ->
  Inv s' /\ ext s s' /\ valid (table s') j /\ unfold s' j = T o ts.
Proof.
  intros I Hm C. destruct (create_node_spec _ _ _ _ I C) as (I' & X & N1 & _).
  specialize (N1 j eq_refl). split; [exact I'|]. split; [exact X|]. split; [eapply node_tb_valid; eauto|].
  unfold unfold at 1. rewrite (unfold_eq _ _ _ _ (inv_wf _ I') N1). f_equal.
  rewrite <- Hm. apply (map_unfold_ext s s'); auto. apply (create_node_ok_valid _ _ _ _ C).
Qed.

Lemma sym_get_in n l i : sym_get n l = Some i -> In (n, i) l.
Proof.
  induction l as [|[n' i'] r IH]; cbn; [discriminate|]. destruct (String.eqb n n') eqn:E.
  - intros H. inversion H; subst. apply String.eqb_eq in E. subst. now left.
  - intros H. right. auto.
Qed.
Lemma symbol_node n t s s' i : Inv s -> symbol n t s = (s', Ok i) ->
  Inv s' /\ ext s s' /\ node s' i = Some (OSymbol n t, []).
Proof.
  intros I H. destruct (symbol_pres n t _ _ _ I H) as [I' X]. split; [exact I'|]. split; [exact X|].
  unfold symbol in H. destruct (sym_get n (symbols s)) as [i0|] eqn:G.
  - apply sym_get_in in G. destruct (inv_sym _ I _ _ G) as [t' Ht'].
    assert (O : i_op (table s) i0 = OSymbol n t') by (unfold i_op; fold (unfold s i0); rewrite (unfold_leaf _ _ _ I Ht'); reflexivity).
    rewrite O in H. destruct (ty_eqb t' t) eqn:E; inversion H; subst. apply ty_eqb_eq in E. subst. exact Ht'.
  - destruct (String.eqb n ""); [discriminate|]. unfold bind in H.
    destruct (create_node (OSymbol n t, []) s) as [s1 [j|e]] eqn:Cn; [|discriminate].
    destruct (create_node_spec _ _ _ _ I Cn) as (_ & _ & N1 & _). inversion H; subst. apply (N1 i eq_refl).
Qed.

Lemma norm_vars_spec vs : forall s s' qs, Inv s -> norm_vars vs s = (s', Ok qs) ->
  Inv s' /\ ext s s' /\ Forall2 (fun q v => node s' q = Some (OSymbol (fst v) (snd v), [])) qs vs.
Proof.
  induction vs as [|[n t] r IH]; intros s s' qs I H.
  - inversion H; subst. split; [auto|]. split; [apply ext_refl|constructor].
  - cbn [norm_vars] in H. unfold bind in H.
    destruct (norm_symbol n t s) as [s1 [i|e]] eqn:A; [|discriminate].
    destruct (norm_vars r s1) as [s2 [js|e]] eqn:B; [|discriminate]. inversion H; subst.
    destruct (symbol_node _ _ _ _ _ I A) as (I1 & X1 & N1).
    destruct (IH _ _ _ I1 B) as (I2 & X2 & F2).
    split; [exact I2|]. split; [eapply ext_trans; eauto|]. constructor; [|exact F2].
    cbn. eapply node_ext; eauto.
Qed.
Lemma sym_vars_nodes s qs vs : Inv s ->
  Forall2 (fun q v => node s q = Some (OSymbol (fst v) (snd v), [])) qs vs ->
  sym_vars (i_op (table s)) qs = Some vs.
Proof.
  intros I F. induction F as [|q [n t] qs' vs' Hq F IH]; [reflexivity|].
  cbn [sym_vars]. unfold i_op at 1. fold (unfold s q). rewrite (unfold_leaf _ _ _ I Hq). cbn [top fst snd].
  rewrite IH. reflexivity.
Qed.

(* ---- the formulas the public constructors build: every node is a fixed point of the
        normalisation its constructor performs (children given as trees) *)
Definition is_not_op (o : op) : bool := match o with ONot => true | _ => false end.
Definition is_intc_op (o : op) : bool := match o with OIntC _ => true | _ => false end.
Definition bvw_is (t : term) (w : Z) : bool :=
  match t_bvw t with Some w' => (w' =? w)%Z | None => false end.
Definition div_ok (t : term) : bool :=
  match top t with ORealC n _ => (n =? 0)%Z | OArrayValue _ => negb (t_const t) | _ => true end.
Definition nf_nodeb (o : op) (ts : list term) : bool :=
  match o with
  | OSymbol _ _ | OIntC _ | OBoolC _ | OStrC _ | OBVC _ _ => match ts with [] => true | _ => false end
  | ORealC n d => match ts with [] => frac_ok n d | _ => false end
  | OFunction _ _ => match ts with [] => false | _ => true end
  | OAnd | OOr | OPlus | OTimes => match ts with _ :: _ :: _ => true | _ => false end
  | ONot => match ts with [x] => negb (is_not_op (top x)) | _ => false end
  | OToReal => match ts with
               | [x] => match tc x with Some TInt => negb (is_intc_op (top x)) | _ => false end
               | _ => false
               end
  | OImplies | OIff | OEquals | OLe | OLt | OMinus | OSelect | OBVRel _ =>
      match ts with [_; _] => true | _ => false end
  | ODiv => match ts with [_; y] => div_ok y | _ => false end
  | OPow => match ts with [x; _] => negb (t_const x) | _ => false end
  | OIte | OStore => match ts with [_; _; _] => true | _ => false end
  | OForall vs | OExists vs => match ts, vs with [_], _ :: _ => true | _, _ => false end
  | OBV k w =>
      match k with
      | BNot | BNeg => match ts with [x] => bvw_is x w | _ => false end
      | BConcat => match ts with
                   | [x; y] => match t_bvw x, t_bvw y with Some a, Some b => (a + b =? w)%Z | _, _ => false end
                   | _ => false
                   end
      | BComp => match ts with [_; _] => (w =? 1)%Z | _ => false end
      | _ => match ts with [x; _] => bvw_is x w | _ => false end
      end
  | OBVExtract w s e => match ts with [_] => (w =? e - s + 1)%Z | _ => false end
  | OBVRol w _ | OBVRor w _ => match ts with [x] => bvw_is x w | _ => false end
  | OBVZext w k | OBVSext w k =>
      match ts with
      | [x] => match t_bvw x with Some a => (a + k =? w)%Z | None => false end
      | _ => false
      end
  | OBVToNat => match ts with [_] => true | _ => false end
  | OStr k =>
      match k with
      | SConcat => match ts with _ :: _ :: _ => true | _ => false end
      | SLength | SToInt | SFromInt => match ts with [_] => true | _ => false end
      | SContains | SPrefixOf | SSuffixOf | SCharAt => match ts with [_; _] => true | _ => false end
      | SIndexOf | SReplace | SSubstr => match ts with [_; _; _] => true | _ => false end
      end
  | OArrayValue _ => false            (* array values: see normalize_copy_array_order_refuted *)
  end.
Inductive copyable : term -> Prop :=
| copyable_node o args : nf_nodeb o args = true -> Forall copyable args -> copyable (T o args).

Lemma bvw_is_some t w : bvw_is t w = true -> t_bvw t = Some w.
Proof. unfold bvw_is. destruct (t_bvw t); [|discriminate]. intros H. apply Z.eqb_eq in H. now subst. Qed.

Definition copy_ok (s s' : state) (j : id) (t : term) : Prop :=
  Inv s' /\ ext s s' /\ valid (table s') j /\ unfold s' j = t.

Lemma leaf_ok s s' j o : Inv s' -> ext s s' -> node s' j = Some (o, []) -> copy_ok s s' j (T o []).
Proof.
  intros I X N. split; [exact I|]. split; [exact X|]. split; [eapply node_tb_valid; eauto|]. apply unfold_leaf; auto.
Qed.
Lemma finish_ok o a s s' j : Inv s -> create_node (o, a) s = (s', Ok j) -> copy_ok s s' j (T o (map (unfold s) a)).
Proof. intros I C. eapply finish_node; eauto. Qed.
Lemma finish_via o a s s1 s' j : Inv s -> Inv s1 -> ext s s1 -> Forall (valid (table s)) a ->
  create_node (o, a) s1 = (s', Ok j) -> copy_ok s s' j (T o (map (unfold s) a)).
Proof.
  intros I I1 X V C. destruct (finish_ok _ _ _ _ _ I1 C) as (I' & X' & Vj & U).
  split; [exact I'|]. split; [eapply ext_trans; eauto|]. split; [exact Vj|].
  rewrite U. f_equal. apply map_unfold_ext; auto.
Qed.

Ltac use_node o' a' tac :=
  match goal with
  | H : ctor_call ?c ?a ?zs ?s = _ |- _ =>
      rewrite (ctor_call_node c a zs o' a' s) in H; [apply finish_ok; assumption | tac]
  end.
Ltac use_err e tac :=
  match goal with
  | H : ctor_call ?c ?a ?zs ?s = _ |- _ =>
      rewrite (ctor_call_err c a zs e s) in H; [discriminate H | tac]
  end.
Ltac plain :=
  match goal with
  | H : ctor_call (CNode ?o) ?a [] ?s = _ |- _ => use_node o a ltac:(reflexivity)
  end.

(* one node: rebuilding it from copies of its children yields a copy of the node *)
Lemma rebuild_copy addr o a s s' j :
  Inv s -> Forall (valid (table s)) a -> nf_nodeb o (map (unfold s) a) = true ->
  rebuild addr o a s = (s', Ok j) -> copy_ok s s' j (T o (map (unfold s) a)).
Proof.
  intros I V N H. unfold unfold in N.
  destruct o; destruct a as [|c1 [|c2 [|c3 cr]]]; cbn [map nf_nodeb] in N; try discriminate N;
    try (destruct cr as [|c4 cr]; [|cbn [map] in N; discriminate N]);
    cbn [rebuild take1 take2 take3] in H; try plain.
  - (* OForall *)
    destruct vs as [|v0 vr]; [discriminate N|]. unfold bind in H.
    destruct (norm_vars (v0 :: vr) s) as [s1 [qs|e]] eqn:A; [|discriminate].
    destruct (norm_vars_spec _ _ _ _ I A) as (I1 & X1 & F).
    pose proof (sym_vars_nodes _ _ _ I1 F) as SV. inversion F as [|q v qr vr' Hq Fr]; subst.
    rewrite (ctor_call_node (CQuant true) (c1 :: q :: qr) [] (OForall (v0 :: vr)) [c1] s1) in H.
    + apply (finish_via _ [c1] s s1); auto.
    + unfold i_plan, ctor_plan. rewrite SV. reflexivity.
  - (* OExists *)
    destruct vs as [|v0 vr]; [discriminate N|]. unfold bind in H.
    destruct (norm_vars (v0 :: vr) s) as [s1 [qs|e]] eqn:A; [|discriminate].
    destruct (norm_vars_spec _ _ _ _ I A) as (I1 & X1 & F).
    pose proof (sym_vars_nodes _ _ _ I1 F) as SV. inversion F as [|q v qr vr' Hq Fr]; subst.
    rewrite (ctor_call_node (CQuant false) (c1 :: q :: qr) [] (OExists (v0 :: vr)) [c1] s1) in H.
    + apply (finish_via _ [c1] s s1); auto.
    + unfold i_plan, ctor_plan. rewrite SV. reflexivity.
  - (* OAnd, two children *) use_node OAnd [c1; c2] ltac:(reflexivity).
  - use_node OAnd (c1 :: c2 :: c3 :: cr) ltac:(reflexivity).
  - use_node OOr [c1; c2] ltac:(reflexivity).
  - use_node OOr (c1 :: c2 :: c3 :: cr) ltac:(reflexivity).
  - (* ONot *)
    use_node ONot [c1] ltac:(unfold i_plan, ctor_plan, i_op; destruct (top (unfold_tb (table s) c1)); try discriminate N; reflexivity).
  - (* OSymbol *)
    change (symbol n t s = (s', Ok j)) in H. destruct (symbol_node _ _ _ _ _ I H) as (I' & X & Nd). apply leaf_ok; auto.
  - (* OFunction, one parameter *)
    unfold bind in H. destruct (norm_symbol n t s) as [s1 [f|e]] eqn:A; [|discriminate].
    change (symbol n t s = (s1, Ok f)) in A. destruct (symbol_node _ _ _ _ _ I A) as (I1 & X1 & Nf).
    assert (O : i_op (table s1) f = OSymbol n t) by (unfold i_op; fold (unfold s1 f); rewrite (unfold_leaf _ _ _ I1 Nf); reflexivity).
    destruct t as [| | | | | |ps r|]; try (use_err EOth ltac:(unfold i_plan, ctor_plan; rewrite O; reflexivity)).
    destruct (Nat.eqb (List.length ps) (List.length [c1])) eqn:L.
    + rewrite (ctor_call_node CFunction [f; c1] [] (OFunction n (TFun ps r)) [c1] s1) in H.
      * apply (finish_via _ [c1] s s1); auto.
      * unfold i_plan, ctor_plan. rewrite O, L. reflexivity.
    + use_err EVal ltac:(unfold i_plan, ctor_plan; rewrite O, L; reflexivity).
  - (* OFunction, two parameters *)
    unfold bind in H. destruct (norm_symbol n t s) as [s1 [f|e]] eqn:A; [|discriminate].
    change (symbol n t s = (s1, Ok f)) in A. destruct (symbol_node _ _ _ _ _ I A) as (I1 & X1 & Nf).
    assert (O : i_op (table s1) f = OSymbol n t) by (unfold i_op; fold (unfold s1 f); rewrite (unfold_leaf _ _ _ I1 Nf); reflexivity).
    destruct t as [| | | | | |ps r|]; try (use_err EOth ltac:(unfold i_plan, ctor_plan; rewrite O; reflexivity)).
    destruct (Nat.eqb (List.length ps) (List.length [c1; c2])) eqn:L.
    + rewrite (ctor_call_node CFunction [f; c1; c2] [] (OFunction n (TFun ps r)) [c1; c2] s1) in H.
      * apply (finish_via _ [c1; c2] s s1); auto.
      * unfold i_plan, ctor_plan. rewrite O, L. reflexivity.
    + use_err EVal ltac:(unfold i_plan, ctor_plan; rewrite O, L; reflexivity).
  - (* OFunction, three or more parameters *)
    unfold bind in H. destruct (norm_symbol n t s) as [s1 [f|e]] eqn:A; [|discriminate].
    change (symbol n t s = (s1, Ok f)) in A. destruct (symbol_node _ _ _ _ _ I A) as (I1 & X1 & Nf).
    assert (O : i_op (table s1) f = OSymbol n t) by (unfold i_op; fold (unfold s1 f); rewrite (unfold_leaf _ _ _ I1 Nf); reflexivity).
    destruct t as [| | | | | |ps r|]; try (use_err EOth ltac:(unfold i_plan, ctor_plan; rewrite O; reflexivity)).
    destruct (Nat.eqb (List.length ps) (List.length (c1 :: c2 :: c3 :: cr))) eqn:L.
    + rewrite (ctor_call_node CFunction (f :: c1 :: c2 :: c3 :: cr) [] (OFunction n (TFun ps r)) (c1 :: c2 :: c3 :: cr) s1) in H.
      * apply (finish_via _ (c1 :: c2 :: c3 :: cr) s s1); auto.
      * unfold i_plan, ctor_plan. rewrite O, L. reflexivity.
    + use_err EVal ltac:(unfold i_plan, ctor_plan; rewrite O, L; reflexivity).
  - (* ORealC *)
    destruct (real_node _ _ _ _ I H) as (I' & X & n' & d' & Hv & Nd). cbn [real_val] in Hv. rewrite N in Hv.
    inversion Hv; subst. apply leaf_ok; auto.
  - (* OBoolC *)
    cbn in H. inversion H; subst. apply leaf_ok; auto using ext_refl.
    destruct b; [apply (inv_true _ I)|apply (inv_false _ I)].
  - (* OIntC *)
    destruct (int_node _ _ _ _ I H) as (I' & X & c3' & E & Nd). inversion E; subst. apply leaf_ok; auto.
  - (* OStrC *)
    destruct (str_node _ _ _ _ I H) as (I' & X & c3' & E & Nd). cbn in E. apply zs_eqb_eq in E. subst. apply leaf_ok; auto.
  - (* OPlus *) use_node OPlus [c1; c2] ltac:(reflexivity).
  - use_node OPlus (c1 :: c2 :: c3 :: cr) ltac:(reflexivity).
  - use_node OTimes [c1; c2] ltac:(reflexivity).
  - use_node OTimes (c1 :: c2 :: c3 :: cr) ltac:(reflexivity).
  - (* OToReal *)
    use_node OToReal [c1] ltac:(unfold i_plan, ctor_plan, i_ty, i_op;
      destruct (tc (unfold_tb (table s) c1)) as [[]|]; try discriminate N;
      destruct (top (unfold_tb (table s) c1)); try discriminate N; reflexivity).
  - (* OBVC *)
    destruct (bv_node _ _ _ _ _ I H) as (I' & X & c3' & w' & E & Nd). cbn in E. inversion E; subst. apply leaf_ok; auto.
  - (* OBV, no child *) destruct k; discriminate N.
  - (* OBV, one child *)
    destruct k; cbn [nf_nodeb] in N; try discriminate N; cbn [rebuild take1 take2] in H;
      try (apply bvw_is_some in N;
           match goal with
           | H : ctor_call ?c ?a [] s = _ |- _ =>
               use_node (OBV ltac:(match c with CBvUn ?k => exact k | CBvBin ?k => exact k | CBvNary ?k => exact k end) w) a
                 ltac:(unfold i_plan, ctor_plan, with_bw, i_bvw; rewrite N; reflexivity)
           end).
  - (* OBV, two children *)
    destruct k; cbn [nf_nodeb] in N; try discriminate N; cbn [rebuild take1 take2] in H;
      try (apply bvw_is_some in N;
           match goal with
           | H : ctor_call ?c ?a [] s = _ |- _ =>
               use_node (OBV ltac:(match c with CBvUn ?k => exact k | CBvBin ?k => exact k | CBvNary ?k => exact k end) w) a
                 ltac:(unfold i_plan, ctor_plan, with_bw, i_bvw; rewrite N; reflexivity)
           end).
    + (* BConcat *)
      destruct (t_bvw (unfold_tb (table s) c1)) as [wa|] eqn:Wa; [|discriminate N].
      destruct (t_bvw (unfold_tb (table s) c2)) as [wb|] eqn:Wb; [|discriminate N].
      apply Z.eqb_eq in N. subst w.
      use_node (OBV BConcat (wa + wb)%Z) [c1; c2] ltac:(unfold i_plan, ctor_plan, with_bw, i_bvw; rewrite Wa, Wb; reflexivity).
    + (* BComp *)
      apply Z.eqb_eq in N. subst w. use_node (OBV BComp 1%Z) [c1; c2] ltac:(reflexivity).
  - (* OBV, three or more children *) destruct k; discriminate N.
  - (* OBVExtract *)
    apply Z.eqb_eq in N. subst w.
    destruct (t_bvw (unfold_tb (table s) c1)) as [wx|] eqn:Wx.
    + destruct ((s0 <=? e)%Z && (0 <=? s0)%Z && (e - s0 + 1 <=? wx)%Z) eqn:C.
      * use_node (OBVExtract (e - s0 + 1)%Z s0 e) [c1] ltac:(unfold i_plan, ctor_plan, with_bw, i_bvw; rewrite Wx, C; reflexivity).
      * use_err EOth ltac:(unfold i_plan, ctor_plan, with_bw, i_bvw; rewrite Wx, C; reflexivity).
    + use_err EOth ltac:(unfold i_plan, ctor_plan, with_bw, i_bvw; rewrite Wx; reflexivity).
  - (* OBVRol *)
    apply bvw_is_some in N. use_node (OBVRol w k) [c1] ltac:(unfold i_plan, ctor_plan, with_bw, i_bvw; rewrite N; reflexivity).
  - apply bvw_is_some in N. use_node (OBVRor w k) [c1] ltac:(unfold i_plan, ctor_plan, with_bw, i_bvw; rewrite N; reflexivity).
  - (* OBVZext *)
    destruct (t_bvw (unfold_tb (table s) c1)) as [wx|] eqn:Wx; [|discriminate N]. apply Z.eqb_eq in N. subst w.
    use_node (OBVZext (wx + k)%Z k) [c1] ltac:(unfold i_plan, ctor_plan, with_bw, i_bvw; rewrite Wx; reflexivity).
  - destruct (t_bvw (unfold_tb (table s) c1)) as [wx|] eqn:Wx; [|discriminate N]. apply Z.eqb_eq in N. subst w.
    use_node (OBVSext (wx + k)%Z k) [c1] ltac:(unfold i_plan, ctor_plan, with_bw, i_bvw; rewrite Wx; reflexivity).
  - (* OStr, no child *) destruct k; discriminate N.
  - (* OStr, one child *) destruct k; try discriminate N; cbn [rebuild take1 take2 take3] in H; plain.
  - destruct k; try discriminate N; cbn [rebuild take1 take2 take3] in H; try plain.
    use_node (OStr SConcat) [c1; c2] ltac:(reflexivity).
  - destruct k; cbn [map] in N; try discriminate N;
      try (destruct cr as [|c4 cr]; [|cbn [map] in N; discriminate N]);
      cbn [rebuild take1 take2 take3] in H; try plain.
    use_node (OStr SConcat) (c1 :: c2 :: c3 :: cr) ltac:(reflexivity).
  - (* ODiv *)
    use_node ODiv [c1; c2] ltac:(unfold i_plan, ctor_plan, i_const, i_op; unfold div_ok in N;
      destruct (t_const (unfold_tb (table s) c2)); [|reflexivity];
      destruct (top (unfold_tb (table s) c2)); try reflexivity; try (rewrite N; reflexivity); discriminate N).
  - (* OPow *)
    apply negb_true_iff in N. destruct (t_const (unfold_tb (table s) c2)) eqn:Cy.
    + use_node OPow [c1; c2] ltac:(unfold i_plan, ctor_plan, i_const; rewrite Cy, N; reflexivity).
    + use_err EVal ltac:(unfold i_plan, ctor_plan, i_const; rewrite Cy; reflexivity).
Qed.

(* the DAG walk *)
Lemma norm_copy addr src : wf_tb src -> forall f i s s' j, Inv s ->
  norm_fuel f addr src i s = (s', Ok j) -> copyable (unfold_tb src i) -> copy_ok s s' j (unfold_tb src i).
Proof.
  intros W. induction f as [|f IH]; intros i s s' j I H C; [discriminate|].
  rewrite norm_fuel_S in H. destruct (node_tb src i) as [[o args]|] eqn:E; [|discriminate].
  rewrite (unfold_eq _ _ _ _ W E) in *. inversion C as [o' args' N Fc]; subst.
  unfold bind in H. destruct (norm_list f addr src args s) as [s1 [a'|e]] eqn:L; [|discriminate].
  assert (G : forall l s0 s1 a', Inv s0 -> Forall copyable (map (unfold_tb src) l) ->
             norm_list f addr src l s0 = (s1, Ok a') ->
             Inv s1 /\ ext s0 s1 /\ Forall (valid (table s1)) a' /\ map (unfold s1) a' = map (unfold_tb src) l).
  { clear - IH. induction l as [|x r IHr]; intros s0 s1 a' I0 Fc H.
    - inversion H; subst. split; [auto|]. split; [apply ext_refl|]. split; [constructor|reflexivity].
    - rewrite norm_list_cons in H. unfold bind in H.
      destruct (norm_list f addr src r s0) as [sr [rs|e]] eqn:Lr; [|discriminate].
      destruct (norm_fuel f addr src x sr) as [sx [x'|e]] eqn:Lx; [|discriminate]. inversion H; subst.
      cbn [map] in Fc. inversion Fc as [|? ? Cx Cr]; subst.
      destruct (IHr _ _ _ I0 Cr Lr) as (Ir & Xr & Vr & Mr).
      destruct (IH _ _ _ _ Ir Lx Cx) as (Ix & Xx & Vx & Ux).
      split; [exact Ix|]. split; [eapply ext_trans; eauto|]. split.
      + constructor; [exact Vx|]. eapply Forall_valid_ext; eauto.
      + cbn [map]. rewrite Ux. f_equal. rewrite <- Mr. apply map_unfold_ext; auto. }
  destruct (G _ _ _ _ I Fc L) as (I1 & X1 & V1 & M1).
  rewrite <- M1 in N. destruct (rebuild_copy _ _ _ _ _ _ I1 V1 N H) as (I' & X' & Vj & U).
  split; [exact I'|]. split; [eapply ext_trans; eauto|]. split; [exact Vj|]. rewrite U, M1. reflexivity.
Qed.

(* every id reachable from a valid id through children lists is in the table *)
Inductive reach (tb : list content) : id -> id -> Prop :=
| reach_refl i : reach tb i i
| reach_child i o args c k : node_tb tb i = Some (o, args) -> In c args -> reach tb c k -> reach tb i k.
Lemma reach_valid tb i k : wf_tb tb -> reach tb i k -> valid tb i -> valid tb k.
Proof.
  intros W R. induction R as [i|i o args c k E Hin R IH]; intros V; [exact V|].
  apply IH. pose proof (wf_children _ _ _ _ W E) as C. rewrite Forall_forall in C. specialize (C c Hin).
  destruct V. unfold valid. lia.
Qed.

(* re-creating a formula of environment s1 inside environment s2: when normalize returns, the
   node it returns stands for the same tree (sorts included: tnorm_total), it and every node
   under it belong to s2's table, nothing that existed in s2 changed.  [copyable]: array-value
   free, every node a fixed point of its constructor's normalisation. *)
Theorem normalize_copy addr s1 s2 i s2' j : reachable s1 -> reachable s2 ->
  normalize addr (table s1) i s2 = (s2', Ok j) -> copyable (unfold s1 i) ->
  unfold s2' j = unfold s1 i /\
  (forall k, reach (table s2') j k -> valid (table s2') k) /\
  (forall k, valid (table s2) k -> unfold s2' k = unfold s2 k) /\ Inv s2'.
Proof.
  intros R1 R2 H C. apply reachable_inv in R1. apply reachable_inv in R2.
  destruct (norm_copy addr (table s1) (inv_wf _ R1) _ _ _ _ _ R2 H C) as (I' & X & Vj & U).
  split; [exact U|]. split; [|split; [|exact I']].
  - intros k Rk. eapply reach_valid; eauto. apply (inv_wf _ I').
  - intros k Vk. apply unfold_ext; auto.
Qed.

(* normalize is total on symbols of ANY sort (nested parametric sorts included) unless the
   target environment already uses the name *)
Theorem normalize_symbol_total addr src s2 i n t : reachable s2 ->
  node_tb src i = Some (OSymbol n t, []) -> n <> ""%string -> sym_get n (symbols s2) = None ->
  exists s2' j, normalize addr src i s2 = (s2', Ok j) /\ unfold s2' j = TSym n t /\ valid (table s2') j.
Proof.
  intros R E Hn G. apply reachable_inv in R. unfold normalize.
  destruct i as [|k]; [discriminate|]. rewrite norm_fuel_S, E.
  change (norm_list k addr src [] ) with (@ret (list id) []). unfold bind, ret.
  change (rebuild addr (OSymbol n t) [] s2) with (symbol n t s2). unfold symbol. rewrite G.
  destruct (String.eqb n "") eqn:En; [apply String.eqb_eq in En; contradiction|].
  destruct (create_leaf s2 (OSymbol n t) R) as (s1 & j & Cn & I1 & X1 & N1); [cbn; discriminate|].
  unfold bind. rewrite Cn. eexists _, j. split; [reflexivity|]. cbn [table set_symbols].
  split; [apply (unfold_leaf s1); auto|eapply node_tb_valid; eauto].
Qed.

(* the former failing history: Symbol("x", P{Q{Int}}) is copied; a formula over it too *)
Example normalize_nested_example :
  let h := [(0, RSymbol "x" (TUser "P" [TUser "Q" [TInt]])); (0, RSymbol "y" (TUser "P" [TUser "Q" [TInt]]));
            (0, RCtor (CNode OEquals) [3; 4] []); (1, RNormalize 0 5)] in
  let '(w, rps) := wrun addr_id (winit 2) h in
  last rps (Err EOth) = Ok 5 /\ unfold (nth 1 w init) 5 = unfold (nth 0 w init) 5 /\
  copyable (unfold (nth 0 w init) 5).
Proof.
  vm_compute. split; [reflexivity|]. split; [reflexivity|].
  repeat (constructor; try reflexivity).
Qed.

(* executable form of [copyable] (used by the correspondence to check that the formulas the
   implementation's constructors build satisfy the hypothesis of normalize_copy) *)
Fixpoint copyableb (t : term) : bool :=
  match t with T o args => nf_nodeb o args && forallb copyableb args end.
Lemma copyableb_sound : forall t, copyableb t = true -> copyable t.
Proof.
  induction t as [o args IH] using term_ind'. cbn [copyableb]. rewrite andb_true_iff. intros [N F].
  constructor; [exact N|]. rewrite forallb_forall in F. rewrite Forall_forall in *. auto.
Qed.
Fixpoint array_free (t : term) : bool :=
  match t with
  | T o args => match o with OArrayValue _ => false | _ => true end && forallb array_free args
  end.
