(* C16 - SmtLibScript.get_last_formula / get_strict_formula (models/Script.v) against the
   SMT-LIB assertion stack (models/AssertStack.v), for every legal command list.
   Induction over the command list; no bound on its length. *)
From Coq Require Import List Arith Bool Lia.
From PySMT.models Require Import AssertStack StackPrims Script.
From PySMT.proofs Require Import StackPrims_proofs AssertStack_proofs.
Import ListNotations.

Section Proofs.
  Variables F W : Type.
  Notation item := (item F W).
  Notation level := (level F W).
  Notation astack := (astack F W).
  Notation cmd := (cmd F W).
  Notation st := (st F W).
  Notation cgoal := (cgoal F W).

  (* how a goal object is reported: the MaxSMTGoal object does not carry its id *)
  Definition erase (g : goal F W) : cgoal :=
    match g with GObj k f => RObj k f | GSoft _ l => RSoft l end.
  Definition cfill (l : list item) (x : slot F) : cgoal := erase (fill l x).

  Fixpoint soft_index (p : nat) (sl : list (slot F)) : list (nat * nat) :=
    match sl with
    | [] => []
    | SSoft i :: r => (i, p) :: soft_index (S p) r
    | SObj _ _ :: r => soft_index (S p) r
    end.
  Fixpoint abounds (e : list level) : list nat :=
    match e with [] => [] | l :: e' => abounds e' ++ [length (asserts (items (l, e')))] end.
  Fixpoint gbounds (e : list level) : list nat :=
    match e with [] => [] | l :: e' => gbounds e' ++ [length (slots (items (l, e')))] end.
  Fixpoint sbounds (i : nat) (e : list level) : list nat :=
    match e with
    | [] => []
    | l :: e' => match softs i (items (l, e')) with
                 | [] => []
                 | _ :: _ => sbounds i e' ++ [length (softs i (items (l, e')))]
                 end
    end.

  (* max_smt_goals_backtrack against the spec: an id has an entry only if it is live; the
     entry lists the number of its soft clauses at each level boundary since its goal was
     created; a live id without entry was created in the current level *)
  Definition MB (its : list item) (e : list level) (mb : list (nat * list nat)) : Prop :=
    forall k, match lookup k mb with
              | Some bl => softs k its <> [] /\ bl = sbounds k e
              | None => softs k its <> [] -> sbounds k e = []
              end.

  Definition Inv (s : astack) (c : st) : Prop :=
    stack c = asserts (items s) /\ backtrack c = abounds (snd s) /\
    goals c = map (cfill (items s)) (slots (items s)) /\ goals_bt c = gbounds (snd s) /\
    msg c = soft_index 0 (slots (items s)) /\ MB (items s) (snd s) (msgb c).

  (* ---- list facts ------------------------------------------------------------------- *)
  Lemma soft_index_app p (a b : list (slot F)) :
    soft_index p (a ++ b) = soft_index p a ++ soft_index (p + length a) b.
  Proof.
    revert p. induction a as [|x a IH]; intros p; cbn; [now rewrite Nat.add_0_r|].
    destruct x; cbn; rewrite IH; now replace (S p + length a) with (p + S (length a)) by lia.
  Qed.

  Lemma map_fst_soft_index p (sl : list (slot F)) : map fst (soft_index p sl) = ids sl.
  Proof. revert p. induction sl as [|x sl IH]; intros p; cbn; [reflexivity|]. destruct x; cbn; now rewrite IH. Qed.

  Lemma lookup_notin {V} k (m : list (nat * V)) : ~ In k (map fst m) -> lookup k m = None.
  Proof.
    induction m as [|[j v] m IH]; cbn; [reflexivity|]. intros H.
    destruct (Nat.eqb j k) eqn:E; [apply Nat.eqb_eq in E; tauto|]. apply IH. tauto.
  Qed.

  Lemma lookup_soft_index_none i p sl : ~ In i (ids sl) -> lookup i (soft_index p sl) = None.
  Proof. intros H. apply lookup_notin. now rewrite map_fst_soft_index. Qed.

  Lemma lookup_soft_index_some i sl : forall p, In i (ids sl) ->
    exists a b, sl = a ++ SSoft i :: b /\ ~ In i (ids a) /\
                lookup i (soft_index p sl) = Some (p + length a).
  Proof.
    induction sl as [|x sl IH]; intros p H; [destruct H|].
    destruct x as [k f|j].
    - cbn in H. destruct (IH (S p) H) as (a & b & E & N & L).
      exists (SObj k f :: a), b. subst sl. split; [reflexivity|]. split; [exact N|].
      cbn. rewrite L. f_equal. lia.
    - cbn [soft_index lookup].
      destruct (Nat.eqb j i) eqn:E.
      + apply Nat.eqb_eq in E. subst j. exists [], sl. split; [reflexivity|]. split; [intros []|].
        cbn. f_equal. lia.
      + apply Nat.eqb_neq in E. cbn in H. destruct H as [H|H]; [congruence|].
        destruct (IH (S p) H) as (a & b & E2 & N & L).
        exists (SSoft j :: a), b. subst sl. split; [reflexivity|]. split.
        * cbn. intros [H1|H1]; [congruence|tauto].
        * rewrite L. cbn. f_equal. lia.
  Qed.

  Lemma upd_nth_map {A B} (g : A -> B) (h : B -> B) (a : list A) x b :
    upd_nth (length a) h (map g a ++ x :: b) = map g a ++ h x :: b.
  Proof. rewrite <- (map_length g a). apply upd_nth_app. Qed.
  Lemma nth_map_exact {A B} (g : A -> B) (a : list A) x b d : nth (length a) (map g a ++ x :: b) d = x.
  Proof. rewrite <- (map_length g a). apply nth_app_exact. Qed.
  Lemma firstn_map_exact {A B} (g : A -> B) (a : list A) b : firstn (length a) (map g a ++ b) = map g a.
  Proof. rewrite <- (map_length g a). apply firstn_exact. Qed.

  Lemma cfill_ext (l1 l2 : list item) sl :
    (forall i, In i (ids sl) -> softs i l1 = softs i l2) -> map (cfill l1) sl = map (cfill l2) sl.
  Proof.
    induction sl as [|x sl IH]; intros H; cbn; [reflexivity|].
    rewrite IH by (intros i Hi; apply H; unfold ids; cbn; apply in_or_app; now right).
    f_equal. destruct x as [k f|j]; cbn; [reflexivity|].
    unfold cfill. cbn. f_equal. apply H. cbn. now left.
  Qed.

  Lemma softs_snoc i (l : list item) x :
    softs i (l ++ [x]) = softs i l ++
      match x with ISoft j f w => if Nat.eqb j i then [(f, w)] else [] | _ => [] end.
  Proof. rewrite softs_app. cbn. destruct x as [f|k f|j f w]; auto; try (destruct (Nat.eqb j i); auto). Qed.

  Lemma softs_nil_sbounds i (s : astack) : softs i (items s) = [] -> sbounds i (snd s) = [].
  Proof.
    destruct s as [cur e]. destruct e as [|l e]; cbn [snd sbounds]; [reflexivity|].
    rewrite items_cons, softs_app. intros H. apply app_eq_nil in H. destruct H as [H _]. now rewrite H.
  Qed.

  Lemma not_nil_app {A} (a b : list A) : a <> [] -> a ++ b <> [].
  Proof. destruct a; [congruence|discriminate]. Qed.

  Lemma MB_ext its its' e mb :
    (forall k, softs k its <> [] <-> softs k its' <> []) -> MB its e mb -> MB its' e mb.
  Proof.
    intros H M k. specialize (M k). destruct (lookup k mb).
    - destruct M as [M1 M2]. split; [now apply H|exact M2].
    - intros H1. apply M. now apply H.
  Qed.

  (* ---- steps that add an item to the current level ---------------------------------- *)
  Lemma inv_assert s c f : Inv s c ->
    Inv (s_add (IAssert f) s) (mkSt (stack c ++ [f]) (backtrack c) (goals c) (goals_bt c) (msg c) (msgb c)).
  Proof.
    intros (I1 & I2 & I3 & I4 & I5 & I6). unfold Inv. cbn [stack backtrack goals goals_bt msg msgb].
    rewrite items_add, asserts_app, slots_snoc. cbn [skstep asserts].
    assert (S : forall i, softs i (items s ++ [IAssert f]) = softs i (items s))
      by (intros i; rewrite softs_snoc; apply app_nil_r).
    split; [now rewrite I1|]. split; [exact I2|]. split.
    - rewrite I3. apply cfill_ext. intros i _. now rewrite S.
    - split; [exact I4|]. split; [exact I5|].
      eapply MB_ext; [|exact I6]. intros k. now rewrite S.
  Qed.

  Lemma inv_obj s c k f : Inv s c ->
    Inv (s_add (IObj k f) s) (mkSt (stack c) (backtrack c) (goals c ++ [RObj k f]) (goals_bt c) (msg c) (msgb c)).
  Proof.
    intros (I1 & I2 & I3 & I4 & I5 & I6). unfold Inv. cbn [stack backtrack goals goals_bt msg msgb].
    rewrite items_add, asserts_app, slots_snoc. cbn [skstep asserts].
    assert (S : forall i, softs i (items s ++ [IObj k f]) = softs i (items s))
      by (intros i; rewrite softs_snoc; apply app_nil_r).
    split; [now rewrite I1, app_nil_r|]. split; [exact I2|]. split.
    - rewrite I3, map_app. cbn. f_equal. apply cfill_ext. intros i _. now rewrite S.
    - split; [exact I4|]. split.
      + rewrite soft_index_app. cbn. now rewrite app_nil_r.
      + eapply MB_ext; [|exact I6]. intros j. now rewrite S.
  Qed.

  Lemma soft_step_new s c i f w : Inv s c -> ~ In i (ids (slots (items s))) ->
    step c (CAssertSoft i f w) =
      Ok (mkSt (stack c) (backtrack c) (goals c ++ [RSoft [(f, w)]]) (goals_bt c)
               (msg c ++ [(i, length (goals c))]) (msgb c)) /\
    Inv (s_add (ISoft i f w) s)
        (mkSt (stack c) (backtrack c) (goals c ++ [RSoft [(f, w)]]) (goals_bt c)
              (msg c ++ [(i, length (goals c))]) (msgb c)).
  Proof.
    intros (I1 & I2 & I3 & I4 & I5 & I6) N.
    assert (E0 : softs i (items s) = []).
    { destruct (softs i (items s)) eqn:E; [reflexivity|]. exfalso. apply N.
      apply in_ids_slots. rewrite E. discriminate. }
    split.
    - cbn [step]. rewrite I5, lookup_soft_index_none by exact N. reflexivity.
    - unfold Inv. cbn [stack backtrack goals goals_bt msg msgb].
      rewrite items_add, asserts_app, slots_snoc. cbn [skstep asserts].
      apply existsb_ids_false in N. rewrite N.
      apply existsb_ids_false in N.
      split; [now rewrite I1, app_nil_r|]. split; [exact I2|]. split.
      + rewrite I3, map_app. cbn [map]. f_equal.
        * apply cfill_ext. intros j Hj. rewrite softs_snoc.
          destruct (Nat.eqb i j) eqn:E; [apply Nat.eqb_eq in E; subst; tauto|now rewrite app_nil_r].
        * unfold cfill. cbn. rewrite softs_snoc, E0, Nat.eqb_refl. reflexivity.
      + split; [exact I4|]. split.
        * rewrite soft_index_app. cbn. rewrite I5, I3, map_length. reflexivity.
        * intros k. specialize (I6 k). rewrite softs_snoc.
          destruct (Nat.eqb i k) eqn:E.
          -- apply Nat.eqb_eq in E. subst k. destruct (lookup i (msgb c)).
             ++ destruct I6 as [I6 _]. congruence.
             ++ intros _. apply (softs_nil_sbounds i s). exact E0.
          -- rewrite app_nil_r. exact I6.
  Qed.

  Lemma soft_step_old s c i f w : Inv s c -> In i (ids (slots (items s))) ->
    exists c', step c (CAssertSoft i f w) = Ok c' /\ msgb c' = msgb c /\
               Inv (s_add (ISoft i f w) s) c'.
  Proof.
    intros (I1 & I2 & I3 & I4 & I5 & I6) H.
    assert (NE : softs i (items s) <> []) by now apply in_ids_slots.
    destruct (lookup_soft_index_some i _ 0 H) as (a & b & E & Na & L).
    assert (Nb : ~ In i (ids b)).
    { pose proof (nodup_ids_slots F W (items s)) as ND. rewrite E, ids_app in ND. cbn in ND.
      apply NoDup_remove_2 in ND. intros Hb. apply ND. apply in_or_app. now right. }
    cbn [step]. rewrite I5, L. cbn [Nat.add].
    assert (G : upd_nth (length a) (soft_add (f, w)) (goals c) =
                map (cfill (items s)) a ++ RSoft (softs i (items s) ++ [(f, w)]) :: map (cfill (items s)) b).
    { rewrite I3, E, map_app. cbn [map]. rewrite upd_nth_map. reflexivity. }
    rewrite G. rewrite nth_map_exact.
    cbn [soft_len]. rewrite app_length. cbn [length].
    destruct (Nat.eqb (length (softs i (items s)) + 1) 1) eqn:E1.
    { apply Nat.eqb_eq in E1. destruct (softs i (items s)); [congruence|cbn in E1; lia]. }
    eexists. split; [reflexivity|]. split; [reflexivity|].
    unfold Inv. cbn [stack backtrack goals goals_bt msg msgb].
    rewrite items_add, asserts_app, slots_snoc. cbn [skstep asserts].
    apply existsb_ids in H. rewrite H.
    split; [now rewrite I1, app_nil_r|]. split; [exact I2|]. split.
    - rewrite E, map_app. cbn [map]. f_equal; [|f_equal].
      + apply cfill_ext. intros j Hj. rewrite softs_snoc.
        destruct (Nat.eqb i j) eqn:E2; [apply Nat.eqb_eq in E2; subst; tauto|now rewrite app_nil_r].
      + unfold cfill. cbn. now rewrite softs_snoc, Nat.eqb_refl.
      + apply cfill_ext. intros j Hj. rewrite softs_snoc.
        destruct (Nat.eqb i j) eqn:E2; [apply Nat.eqb_eq in E2; subst; tauto|now rewrite app_nil_r].
    - split; [exact I4|]. split; [reflexivity|].
      eapply MB_ext; [|exact I6]. intros k. rewrite softs_snoc.
      destruct (Nat.eqb i k) eqn:E2.
      + apply Nat.eqb_eq in E2. subst k. split; [intros _; now apply not_nil_app|intros _; exact NE].
      + now rewrite app_nil_r.
  Qed.

  (* ---- push -------------------------------------------------------------------------- *)
  Lemma push_fold gs : forall m mb, NoDup (map fst m) -> forall k,
    lookup k (fold_left (push_entry gs) m mb) =
    match lookup k m with
    | Some q => Some (match lookup k mb with Some bl => bl | None => [] end ++ [soft_len (nth q gs (@RSoft F W []))])
    | None => lookup k mb
    end.
  Proof.
    induction m as [|[j q] m IH]; intros mb ND k; cbn [fold_left lookup]; [reflexivity|].
    cbn in ND. apply NoDup_cons_iff in ND. destruct ND as [Nj ND].
    rewrite IH by exact ND. unfold push_entry. cbn [fst snd].
    destruct (Nat.eqb j k) eqn:E.
    - apply Nat.eqb_eq in E. subst k. rewrite (lookup_notin j m Nj). apply lookup_dset_same.
    - apply Nat.eqb_neq in E. rewrite lookup_dset_other by congruence. reflexivity.
  Qed.

  Lemma inv_push1 s c : Inv s c -> Inv (s_push1 s) (push1 c).
  Proof.
    intros (I1 & I2 & I3 & I4 & I5 & I6).
    assert (K : forall k, lookup k (msgb (push1 c)) =
                 if existsb (is_ssoft k) (slots (items s))
                 then Some (sbounds k (snd s) ++ [length (softs k (items s))])
                 else lookup k (msgb c)).
    { intros k. cbn [push1 msgb]. rewrite push_fold by (rewrite I5, map_fst_soft_index; apply nodup_ids_slots).
      rewrite I5. destruct (existsb (is_ssoft k) (slots (items s))) eqn:E.
      - apply existsb_ids in E. destruct (lookup_soft_index_some k _ 0 E) as (a & b & E1 & _ & L).
        rewrite L. cbn [Nat.add]. f_equal. f_equal.
        + specialize (I6 k). destruct (lookup k (msgb c)); [now destruct I6|].
          symmetry. apply I6. now apply in_ids_slots.
        + rewrite I3, E1, map_app. cbn [map]. rewrite nth_map_exact. reflexivity.
      - apply existsb_ids_false in E. now rewrite lookup_soft_index_none. }
    unfold Inv. rewrite items_push1. destruct s as [cur e]. cbn [s_push1 fst snd push1 stack backtrack goals goals_bt msg].
    cbn [abounds gbounds]. split; [exact I1|]. split; [now rewrite I2, I1|]. split; [exact I3|].
    split; [now rewrite I4, I3, map_length|]. split; [exact I5|].
    intros k. rewrite K. cbn [snd]. destruct (existsb (is_ssoft k) (slots (items (cur, e)))) eqn:E.
    - apply existsb_ids, in_ids_slots in E. split; [exact E|]. cbn [sbounds].
      destruct (softs k (items (cur, e))); [congruence|reflexivity].
    - apply existsb_ids_false in E. rewrite in_ids_slots in E.
      specialize (I6 k). destruct (lookup k (msgb c)); [tauto|]. tauto.
  Qed.

  Lemma inv_push n : forall s c, Inv s c -> Inv (s_push n s) (iter n (push1) c).
  Proof.
    induction n as [|n IH]; intros s c I; cbn [s_push iter]; [exact I|].
    apply IH. now apply inv_push1.
  Qed.

  (* ---- pop --------------------------------------------------------------------------- *)
  Section Pop.
    Variables P Q : list item.
    Variable glen : nat.

    Lemma loop_keep (B : nat -> list nat) : forall sl pre mb rem,
      length pre + length sl <= glen -> NoDup (ids sl) ->
      (forall i, In i (ids sl) -> lookup i mb = Some (B i ++ [length (softs i P)])) ->
      exists mb',
        fold_left (pop_entry glen) (soft_index (length pre) sl)
                  (Ok (pre ++ map (cfill (P ++ Q)) sl, mb, rem))
        = Ok (pre ++ map (cfill P) sl, mb', rem) /\
        (forall i, In i (ids sl) -> lookup i mb' = Some (B i)) /\
        (forall i, ~ In i (ids sl) -> lookup i mb' = lookup i mb).
    Proof.
      induction sl as [|x sl IH]; intros pre mb rem Hl ND HB.
      - exists mb. cbn. split; [reflexivity|]. split; [intros i []|reflexivity].
      - destruct x as [k f|i].
        + cbn [soft_index map]. cbn in ND, HB, Hl.
          specialize (IH (pre ++ [RObj k f]) mb rem).
          rewrite app_length in IH. cbn [length] in IH. rewrite Nat.add_1_r in IH.
          rewrite <- !app_assoc in IH. cbn [app] in IH.
          destruct IH as (mb' & E & H1 & H2); [lia|exact ND|exact HB|].
          exists mb'. split; [exact E|]. split; [exact H1|exact H2].
        + cbn [soft_index map fold_left]. cbn in ND, Hl. apply NoDup_cons_iff in ND. destruct ND as [Ni ND].
          unfold pop_entry at 2. cbn [bind fst snd].
          assert (Lb : Nat.leb glen (length pre) = false) by (apply Nat.leb_gt; lia).
          rewrite Lb. rewrite (HB i) by (cbn; now left). rewrite pop_last_app.
          unfold cfill at 1. cbn [fill erase]. rewrite upd_nth_app. cbn [soft_trunc].
          rewrite softs_app, firstn_exact.
          specialize (IH (pre ++ [RSoft (softs i P)]) (dset i (B i) mb) rem).
          rewrite app_length in IH. cbn [length] in IH. rewrite Nat.add_1_r in IH.
          rewrite <- !app_assoc in IH. cbn [app] in IH.
          destruct IH as (mb' & E & H1 & H2); [lia|exact ND| |].
          { intros j Hj. rewrite lookup_dset_other by (intros ->; tauto). apply HB. cbn. now right. }
          exists mb'. split; [exact E|]. split.
          * intros j [Hj|Hj].
            -- subst j. rewrite H2 by exact Ni. apply lookup_dset_same.
            -- now apply H1.
          * intros j Hj. cbn in Hj. rewrite H2 by tauto. apply lookup_dset_other. intros ->. tauto.
    Qed.

    Lemma loop_drop : forall t p (gs : list cgoal) mb rem, glen <= p ->
      fold_left (pop_entry glen) (soft_index p t) (Ok (gs, mb, rem)) = Ok (gs, mb, rem ++ ids t).
    Proof.
      induction t as [|x t IH]; intros p gs mb rem H; cbn [soft_index fold_left].
      - cbn. now rewrite app_nil_r.
      - destruct x as [k f|i]; [apply IH; lia|].
        cbn [fold_left]. unfold pop_entry at 2. cbn [bind fst snd].
        assert (Lb : Nat.leb glen p = true) by (apply Nat.leb_le; lia). rewrite Lb.
        rewrite IH by lia. cbn. now rewrite <- app_assoc.
    Qed.
  End Pop.

  Fixpoint ddels {V} (ks : list nat) (m : list (nat * V)) : list (nat * V) :=
    match ks with [] => m | k :: r => ddels r (ddel k m) end.
  Lemma del_goal_step m mb k : del_goal (Ok (m, mb)) k = Ok (ddel k m, ddel k mb).
  Proof. reflexivity. Qed.

  Lemma del_fold_ok ks : forall m mb,
    fold_left del_goal ks (Ok (m, mb)) = Ok (@ddels nat ks m, ddels ks mb).
  Proof.
    induction ks as [|k ks IH]; intros m mb; cbn [fold_left ddels]; [reflexivity|].
    rewrite del_goal_step. apply IH.
  Qed.

  Lemma lookup_ddels_notin {V} ks : forall (m : list (nat * V)) j, ~ In j ks -> lookup j (ddels ks m) = lookup j m.
  Proof.
    induction ks as [|k ks IH]; intros m j H; cbn [ddels]; [reflexivity|].
    rewrite IH by (cbn in H; tauto). apply lookup_ddel_other. cbn in H. intros ->. tauto.
  Qed.

  Lemma lookup_ddel_none {V} k j (m : list (nat * V)) : lookup j m = None -> lookup j (ddel k m) = None.
  Proof.
    destruct (Nat.eq_dec j k) as [->|N]; [intros _; apply lookup_ddel_same|].
    now rewrite lookup_ddel_other.
  Qed.

  Lemma lookup_ddels_none {V} ks : forall (m : list (nat * V)) j, lookup j m = None -> lookup j (ddels ks m) = None.
  Proof.
    induction ks as [|k ks IH]; intros m j H; cbn [ddels]; [exact H|]. apply IH. now apply lookup_ddel_none.
  Qed.

  Lemma lookup_ddels_in {V} ks : forall (m : list (nat * V)) j, In j ks -> lookup j (ddels ks m) = None.
  Proof.
    induction ks as [|k ks IH]; intros m j H; [destruct H|]. cbn [ddels].
    destruct (Nat.eq_dec k j) as [->|N].
    - apply lookup_ddels_none. apply lookup_ddel_same.
    - apply IH. destruct H; [congruence|assumption].
  Qed.

  Lemma ddel_notin {V} k (m : list (nat * V)) : ~ In k (map fst m) -> ddel k m = m.
  Proof.
    induction m as [|[j v] m IH]; cbn; [reflexivity|]. intros H.
    destruct (Nat.eqb j k) eqn:E; [apply Nat.eqb_eq in E; tauto|]. cbn. f_equal. apply IH. tauto.
  Qed.

  Lemma ddels_notin {V} ks : forall (m : list (nat * V)), (forall k, In k ks -> ~ In k (map fst m)) -> ddels ks m = m.
  Proof.
    induction ks as [|k ks IH]; intros m H; cbn [ddels]; [reflexivity|].
    rewrite ddel_notin by (apply H; now left). apply IH. intros j Hj. apply H. now right.
  Qed.

  Lemma ddels_app {V} ks : forall (a b : list (nat * V)), ddels ks (a ++ b) = ddels ks a ++ ddels ks b.
  Proof.
    induction ks as [|k ks IH]; intros a b; cbn [ddels]; [reflexivity|].
    unfold ddel at 1. rewrite filter_app. apply IH.
  Qed.

  Lemma ddel_keys {V} k (m : list (nat * V)) j : In j (map fst (ddel k m)) -> In j (map fst m) /\ j <> k.
  Proof.
    induction m as [|[i v] m IH]; cbn; [tauto|].
    destruct (Nat.eqb i k) eqn:E; cbn.
    - intros H. apply IH in H. tauto.
    - apply Nat.eqb_neq in E. intros [H|H]; [subst; tauto|]. apply IH in H. tauto.
  Qed.

  Lemma ddels_all {V} ks : forall (m : list (nat * V)), (forall j, In j (map fst m) -> In j ks) -> ddels ks m = [].
  Proof.
    induction ks as [|k ks IH]; intros m H; cbn [ddels].
    - destruct m as [|[j v] m]; [reflexivity|]. exfalso. apply (H j). cbn. now left.
    - apply IH. intros j Hj. apply ddel_keys in Hj. destruct Hj as [Hj Nj].
      apply H in Hj. destruct Hj; [congruence|assumption].
  Qed.

  (* what one pop iteration computes, up to the deletion phase *)
  Lemma pop1_shape cur l e c : Inv (cur, l :: e) c ->
    exists mb' t,
      slots (items (l, e) ++ cur) = slots (items (l, e)) ++ t /\
      pop1 c =
        bind (fold_left del_goal (ids t) (Ok (msg c, mb')))
          (fun d => Ok (mkSt (asserts (items (l, e))) (abounds e)
                             (map (cfill (items (l, e))) (slots (items (l, e)))) (gbounds e)
                             (fst d) (snd d))) /\
      msg c = soft_index 0 (slots (items (l, e))) ++ soft_index (length (slots (items (l, e)))) t /\
      (forall i, In i (ids (slots (items (l, e)))) -> lookup i mb' = Some (sbounds i e)) /\
      (forall i, ~ In i (ids (slots (items (l, e)))) -> lookup i mb' = lookup i (msgb c)).
  Proof.
    intros (I1 & I2 & I3 & I4 & I5 & I6). cbn [snd] in *. rewrite items_cons in *.
    set (P := items (l, e)) in *.
    destruct (skfold_prefix F W cur (slots P)) as (t & Et). rewrite <- slots_app in Et.
    assert (ND : NoDup (ids (slots P) ++ ids t)).
    { rewrite <- ids_app, <- Et. apply nodup_ids_slots. }
    assert (M : msg c = soft_index 0 (slots P) ++ soft_index (length (slots P)) t).
    { rewrite I5, Et, soft_index_app. reflexivity. }
    assert (G0 : firstn (length (slots P)) (goals c) = map (cfill (P ++ cur)) (slots P)).
    { rewrite I3, Et, map_app. apply firstn_map_exact. }
    destruct (loop_keep P cur (length (slots P)) (fun i => sbounds i e) (slots P) [] (msgb c) [])
      as (mb' & EL & H1 & H2).
    { cbn. lia. }
    { now apply NoDup_app_l16 in ND. }
    { intros i Hi. apply in_ids_slots in Hi. specialize (I6 i). rewrite softs_app in I6.
      cbn [sbounds] in I6. fold P in I6.
      destruct (softs i P) eqn:ES; [congruence|].
      destruct (lookup i (msgb c)).
      - destruct I6 as [_ ->]. reflexivity.
      - exfalso. assert (X : sbounds i e ++ [length (p :: l0)] = []) by (apply I6; discriminate).
        destruct (sbounds i e); discriminate. }
    cbn [app length] in EL.
    exists mb', t. split; [exact Et|]. split; [|split; [exact M|split; [exact H1|exact H2]]].
    unfold pop1. cbn [abounds gbounds] in I2, I4. fold P in I2, I4.
    rewrite I2, I4, !pop_last_app. rewrite G0, map_length, M, fold_left_app, EL, loop_drop by lia.
    cbn [bind app]. rewrite I1, asserts_app, firstn_exact. rewrite <- M. reflexivity.
  Qed.

  Lemma pop1_result cur l e c mb' t m2 mb2 :
    Inv (cur, l :: e) c ->
    slots (items (l, e) ++ cur) = slots (items (l, e)) ++ t ->
    msg c = soft_index 0 (slots (items (l, e))) ++ soft_index (length (slots (items (l, e)))) t ->
    (forall i, In i (ids (slots (items (l, e)))) -> lookup i mb' = Some (sbounds i e)) ->
    (forall i, ~ In i (ids (slots (items (l, e)))) -> lookup i mb' = lookup i (msgb c)) ->
    m2 = ddels (ids t) (msg c) -> mb2 = ddels (ids t) mb' ->
    Inv (l, e) (mkSt (asserts (items (l, e))) (abounds e)
                     (map (cfill (items (l, e))) (slots (items (l, e)))) (gbounds e) m2 mb2).
  Proof.
    intros (I1 & I2 & I3 & I4 & I5 & I6) Et M H1 H2 -> ->. cbn [snd] in *.
    set (P := items (l, e)) in *.
    assert (ND : NoDup (ids (slots P) ++ ids t)).
    { rewrite <- ids_app, <- Et. unfold P. rewrite <- items_cons. apply nodup_ids_slots. }
    assert (DJ : forall k, In k (ids t) -> ~ In k (ids (slots P))).
    { intros k Hk Hp. exact (NoDup_app_disj16 _ _ k ND Hp Hk). }
    assert (LK : forall k, lookup k (ddels (ids t) mb') =
                           if existsb (is_ssoft k) (slots P) then Some (sbounds k e) else None).
    { intros k. destruct (existsb (is_ssoft k) (slots P)) eqn:E.
      - apply existsb_ids in E. rewrite lookup_ddels_notin by (intros Hk; now apply (DJ k)). now apply H1.
      - apply existsb_ids_false in E.
        destruct (in_dec Nat.eq_dec k (ids t)) as [Hk|Hk]; [now apply lookup_ddels_in|].
        rewrite lookup_ddels_notin by exact Hk. rewrite H2 by exact E.
        (* k has no slot at all: not live before the pop, so no entry *)
        specialize (I6 k). destruct (lookup k (msgb c)); [|reflexivity].
        destruct I6 as [I6 _]. exfalso. apply in_ids_slots in I6. rewrite items_cons in I6. fold P in I6.
        rewrite Et, ids_app in I6. apply in_app_or in I6. tauto. }
    unfold Inv. cbn [stack backtrack goals goals_bt msg msgb snd]. fold P.
    repeat (split; [reflexivity|]). split.
    - rewrite M, ddels_app. rewrite ddels_notin, ddels_all.
      + apply app_nil_r.
      + intros j. now rewrite map_fst_soft_index.
      + intros k Hk. rewrite map_fst_soft_index. now apply DJ.
    - intros k. rewrite LK. destruct (existsb (is_ssoft k) (slots P)) eqn:E.
      + apply existsb_ids, in_ids_slots in E. split; [exact E|reflexivity].
      + apply existsb_ids_false in E. rewrite in_ids_slots in E. tauto.
  Qed.

  Lemma pop1_total s s' c : Inv s c -> s_pop1 s = Some s' ->
    exists c', pop1 c = Ok c' /\ Inv s' c'.
  Proof.
    intros I E. destruct s as [cur e]. unfold s_pop1 in E. cbn [snd] in E.
    destruct e as [|l e]; [discriminate|]. injection E as <-.
    destruct (pop1_shape cur l e c I) as (mb' & t & Et & EP & M & H1 & H2).
    rewrite EP, del_fold_ok. cbn [bind fst snd]. eexists. split; [reflexivity|].
    eapply pop1_result; eauto.
  Qed.

  Lemma pop_total n : forall s s' c, Inv s c -> s_pop n s = Some s' ->
    exists c', iter_res n pop1 c = Ok c' /\ Inv s' c'.
  Proof.
    induction n as [|n IH]; intros s s' c I E; cbn in E.
    - injection E as <-. exists c. split; [reflexivity|assumption].
    - destruct (s_pop1 s) as [s1|] eqn:E1; [|discriminate].
      destruct (pop1_total s s1 c I E1) as (c1 & E2 & I1).
      destruct (IH s1 s' c1 I1 E) as (c' & E3 & I2).
      exists c'. cbn [iter_res]. rewrite E2. cbn [bind]. split; assumption.
  Qed.

  (* ---- the whole replay -------------------------------------------------------------- *)
  Lemma inv_init : Inv s_init (@st0 F W).
  Proof. unfold Inv. cbn. repeat (split; [reflexivity|]). intros k. cbn. tauto. Qed.

  (* every legal step succeeds and keeps the state tied to the spec *)
  Lemma step_total s c x s' : Inv s c -> s_step s x = Some s' ->
    exists c', step c x = Ok c' /\ Inv s' c'.
  Proof.
    intros I E. destruct x as [f|i f w|k f|n|n| | | ]; cbn [s_step] in E.
    - injection E as <-. eexists. split; [reflexivity|]. now apply inv_assert.
    - injection E as <-.
      destruct (in_dec Nat.eq_dec i (ids (slots (items s)))) as [Hi|Hi].
      + destruct (soft_step_old s c i f w I Hi) as (c1 & E1 & _ & I1). exists c1. split; assumption.
      + destruct (soft_step_new s c i f w I Hi) as (E1 & I1). eexists. split; [exact E1|exact I1].
    - injection E as <-. eexists. split; [reflexivity|]. now apply inv_obj.
    - injection E as <-. eexists. split; [reflexivity|]. now apply inv_push.
    - exact (pop_total n s s' c I E).
    - injection E as <-. eexists. split; [reflexivity|]. apply inv_init.
    - injection E as <-. exists c. split; [reflexivity|assumption].
    - injection E as <-. exists c. split; [reflexivity|assumption].
  Qed.

  Lemma run_total cs : forall s c s', Inv s c -> s_run s cs = Some s' ->
    exists c', run c cs = Ok c' /\ Inv s' c'.
  Proof.
    induction cs as [|x cs IH]; intros s c s' I E; cbn in E.
    - injection E as <-. exists c. split; [reflexivity|exact I].
    - destruct (s_step s x) as [s1|] eqn:E1; [|discriminate].
      destruct (step_total s c x s1 I E1) as (c1 & E3 & I1).
      destruct (IH s1 c1 s' I1 E) as (c' & E4 & I2).
      exists c'. split; [|exact I2]. cbn [run]. rewrite E3. exact E4.
  Qed.

  Lemma inv_report s c : Inv s c ->
    (stack c, goals c) = (live_assertions s, map erase (live_goals s)).
  Proof.
    intros (I1 & _ & I3 & _). unfold live_assertions, live_goals, goals_of.
    rewrite map_map. now rewrite I1, I3.
  Qed.

  (* MAIN (script): on every legal command list get_last_formula returns, and what it
     returns is exactly (live assertions, live goals). *)
  Theorem last_formula_live : forall cs s,
    s_run s_init cs = Some s ->
    get_last_formula cs = Ok (live_assertions s, map erase (live_goals s)).
  Proof.
    intros cs s E.
    destruct (run_total cs s_init st0 s inv_init E) as (c & ER & I).
    unfold get_last_formula. rewrite ER. cbn [bind]. f_equal. now apply inv_report.
  Qed.

  (* ---- get_strict_formula ------------------------------------------------------------ *)
  Lemma strict_aux cs : forall cur : level,
    existsb is_push_pop cs = false ->
    exists cur', s_run (cur, []) cs = Some (cur', []) /\
                 assert_args (asserts cur) cs = asserts cur'.
  Proof.
    induction cs as [|x cs IH]; intros cur H.
    - exists cur. split; reflexivity.
    - cbn [existsb] in H. apply orb_false_iff in H. destruct H as [H1 H2].
      destruct x as [f|i f w|k f|n|n| | | ]; try discriminate; cbn [s_run s_step assert_args].
      + destruct (IH (cur ++ [IAssert f]) H2) as (cur' & E & A). exists cur'. split; [exact E|].
        rewrite asserts_app in A. exact A.
      + destruct (IH (cur ++ [ISoft i f w]) H2) as (cur' & E & A). exists cur'. split; [exact E|].
        rewrite asserts_app in A. cbn in A. rewrite app_nil_r in A. exact A.
      + destruct (IH (cur ++ [IObj k f]) H2) as (cur' & E & A). exists cur'. split; [exact E|].
        rewrite asserts_app in A. cbn in A. rewrite app_nil_r in A. exact A.
      + apply (IH [] H2).
      + apply IH. exact H2.
      + apply IH. exact H2.
  Qed.

  (* whenever get_strict_formula returns, the script is legal and the answer is exactly
     the live assertions *)
  Theorem strict_formula_live : forall (cs : list cmd) l, get_strict_formula cs = Ok l ->
    exists s, s_run s_init cs = Some s /\ l = live_assertions s.
  Proof.
    intros cs l H. unfold get_strict_formula in H.
    destruct (existsb is_push_pop cs) eqn:E; [discriminate|].
    destruct (negb _); [discriminate|]. injection H as <-.
    destruct (strict_aux cs [] E) as (cur' & R & A). exists (cur', []). split; [exact R|].
    cbn in A. exact A.
  Qed.
End Proofs.

Arguments erase {F W}.

(* regression: the two scripts on which the code used to deviate (KeyError; assertions
   removed by reset-assertions still reported) *)
Example regression_soft_goal_popped :
  get_last_formula (F:=nat) (W:=nat) [CPush 1; CAssertSoft 1 0 1; CPop 1] = Ok ([], []).
Proof. reflexivity. Qed.
Example regression_strict_after_reset :
  get_strict_formula (F:=nat) (W:=nat) [CAssert 0; CReset; CAssert 1; CCheckSat] = Ok [1].
Proof. reflexivity. Qed.

(* the hypotheses of the theorems are satisfiable by non-trivial scripts *)
Definition example_script : list (cmd nat nat) :=
  [CAssert 0; CAssertSoft 1 0 1; CPush 2; CAssertSoft 1 1 2; CAssertSoft 2 1 1; CObj KMin 2; CPush 1;
   CAssert 1; CPop 2; CAssertSoft 1 1 1; CCheckSat; CPop 1; CObj KMax 3].
Example example_script_legal :
  s_run s_init example_script <> None /\
  get_last_formula example_script = Ok ([0], [RSoft [(0, 1)]; RObj KMax 3]).
Proof. split; vm_compute; [discriminate|reflexivity]. Qed.
Example example_strict :
  get_strict_formula (W:=nat) [CAssert 0; CAssertSoft 1 0 1; CCheckSat; CAssert 1] = Ok [0; 1].
Proof. reflexivity. Qed.
