(* Substitution lemma for the symbol->term MGSubstituter stand-in (models/C10Local.v : vsubst) on
   quantifier-free, constructor-normal terms, with Boolean-skeleton replacements:
       eval I (vsubst s t) = eval (ov I s) t
   and the preservation facts (quantifier-freeness, normality, Boolean skeleton). *)
From Coq Require Import List ZArith Bool String Reals.
From PySMT.core Require Import Syntax SyntaxLemmas Sem.
From PySMT.models Require Import Oracles C10Local.
From PySMT.proofs Require Import Sets_proofs Coincidence C10Local_proofs.
Import ListNotations.
Open Scope bool_scope.

(* interpretations that agree everywhere *)
Definition ext_eq (I I' : interp) : Prop :=
  rdiv0 I = rdiv0 I' /\ idiv0 I = idiv0 I' /\
  (forall n t, isym I n t = isym I' n t) /\ (forall n t, ifun I n t = ifun I' n t).

Lemma eval_ext I I' t : ext_eq I I' -> eval I t = eval I' t.
Proof.
  intros (A & B & C & D). apply coincidence_gen. repeat split; auto.
Qed.
Lemma ext_eq_sym I I' : ext_eq I I' -> ext_eq I' I.
Proof. intros (A & B & C & D). repeat split; auto. Qed.
Lemma wf_ext I I' : ext_eq I I' -> wf_interp I -> wf_interp I'.
Proof.
  intros (A & B & C & D) [H1 H2]. split.
  - intros n t. rewrite <- C. apply H1.
  - intros n ps r args. rewrite <- D. apply H2.
Qed.

(* the interpretation that reads the substituted symbols through the substitution *)
Definition ov (I : interp) (s : list (var * term)) : interp :=
  {| isym := fun n ty => match vlookup s (n, ty) with Some r => eval I r | None => isym I n ty end;
     ifun := ifun I; rdiv0 := rdiv0 I; idiv0 := idiv0 I |}.

Lemma op_sem_ov I s o vs : op_sem (ov I s) o vs = op_sem I o vs.
Proof. destruct o; reflexivity. Qed.

Definition is_quant_op (o : op) : bool := match o with OForall _ | OExists _ => true | _ => false end.
Definition is_sym_op (o : op) : bool := match o with OSymbol _ _ => true | _ => false end.

Lemma is_qf_args o args : is_quant_op o = false -> is_qf (T o args) = forallb is_qf args.
Proof. destruct o; cbn; auto; discriminate. Qed.
Lemma is_qf_quant o args : is_quant_op o = true -> is_qf (T o args) = false.
Proof. destruct o; cbn; auto; discriminate. Qed.

(* congruence of evaluation for every operator but symbols and quantifiers *)
Lemma eval_congr_ov I s o args args' :
  is_quant_op o = false -> is_sym_op o = false ->
  map (eval I) args' = map (eval (ov I s)) args -> eval I (T o args') = eval (ov I s) (T o args).
Proof.
  intros Hq Hs H. destruct o; try discriminate; cbn [eval]; rewrite H, ?op_sem_ov; reflexivity.
Qed.

Lemma rebuild_plain o l :
  match o with OAnd | OOr | ONot | OForall _ | OExists _ | OPlus | OTimes => False | _ => True end ->
  rebuild o l = T o l.
Proof. destruct o; intros H; try contradiction; reflexivity. Qed.

(* rebuilding a constructor-normal node from as many arguments: only Not can change *)
Lemma rebuild_same_len o args l :
  node_normal o args = true -> List.length l = List.length args -> o <> ONot -> is_quant_op o = false ->
  rebuild o l = T o l.
Proof.
  intros Hn Hl Ho Hq. destruct o; try reflexivity; try discriminate; try congruence.
  - destruct args as [|a [|b r]]; try discriminate. destruct l as [|x [|y l]]; try discriminate. reflexivity.
  - destruct args as [|a [|b r]]; try discriminate. destruct l as [|x [|y l]]; try discriminate. reflexivity.
  - destruct args as [|a [|b r]]; try discriminate; destruct l as [|x [|y l]]; try discriminate; reflexivity.
  - destruct args as [|a [|b r]]; try discriminate; destruct l as [|x [|y l]]; try discriminate; reflexivity.
Qed.

Definition top_not (t : term) : bool := match t with T ONot _ => true | _ => false end.

Lemma eval_mk_not_gen I u :
  (forall y, u = T ONot [y] -> is_vbool (eval I y)) -> eval I (mk_not u) = VBool (negb (tv I u)).
Proof.
  intros H. destruct u as [o args]. destruct o; try reflexivity.
  destruct args as [|y [|z r]]; try reflexivity.
  cbn [mk_not]. rewrite tv_not, negb_involutive. apply is_vbool_eq. apply H. reflexivity.
Qed.

Definition range_ok (P : term -> bool) (s : list (var * term)) : Prop :=
  forall v r, vlookup s v = Some r -> P r = true.

Lemma vsubst_nonsym s o args : is_sym_op o = false -> is_quant_op o = false ->
  vsubst s (T o args) = rebuild o (map (vsubst s) args).
Proof. destruct o; intros; try discriminate; reflexivity. Qed.

(* the result of substituting into a normal, non-symbol, non-Not node is not a Not node *)
Lemma vsubst_top_not s o args :
  node_normal o args = true -> is_sym_op o = false -> is_quant_op o = false -> o <> ONot ->
  top_not (vsubst s (T o args)) = false.
Proof.
  intros Hn Hs Hq Ho. rewrite vsubst_nonsym by auto.
  rewrite (rebuild_same_len o args) by (auto; apply map_length).
  destruct o; auto. congruence.
Qed.

Lemma node_normal_not args : node_normal ONot args = true -> exists a, args = [a] /\ top_not a = false.
Proof.
  destruct args as [|a [|b r]]; cbn; try discriminate.
  - intros H. exists a. split; auto. destruct a as [[] ?]; auto; discriminate.
  - destruct a as [[] ?]; discriminate.
Qed.

(* a replacement is harmless under a rebuilt Not: it is not itself a negation, or it is a Boolean skeleton *)
Definition nnb (r : term) : bool := negb (top_not r) || boolish r.

Theorem vsubst_eval_gen : forall t I s, wf_interp I -> range_ok nnb s ->
  is_qf t = true -> normal t = true -> eval I (vsubst s t) = eval (ov I s) t.
Proof.
  induction t as [o args IH] using term_ind'. intros I s HI Hr Hqf Hn.
  cbn [normal] in Hn. apply andb_true_iff in Hn. destruct Hn as [Hnn Hna].
  destruct (is_quant_op o) eqn:Hq; [rewrite is_qf_quant in Hqf by auto; discriminate|].
  rewrite is_qf_args in Hqf by auto.
  destruct (is_sym_op o) eqn:Hs.
  { destruct o; try discriminate. cbn [vsubst eval ov isym]. destruct (vlookup s (n, t)); reflexivity. }
  assert (Hmap : map (eval I) (map (vsubst s) args) = map (eval (ov I s)) args).
  { rewrite map_map. apply map_ext_Forall. rewrite Forall_forall in IH |- *.
    rewrite forallb_forall in Hqf, Hna. intros a Ha. apply IH; auto. }
  rewrite vsubst_nonsym by auto.
  destruct (op_eqb o ONot) eqn:Hnot.
  - apply op_eqb_eq in Hnot. subst o.
    destruct (node_normal_not _ Hnn) as (a & -> & Hta). cbn [map rebuild].
    rewrite eval_mk_not_gen.
    + cbn [map] in Hmap. injection Hmap as Hm. unfold tv. rewrite Hm. reflexivity.
    + intros y Hy.
      destruct a as [oa aa]. cbn [forallb] in Hna. rewrite andb_true_r in Hna.
      cbn [normal] in Hna. apply andb_true_iff in Hna. destruct Hna as [Hna1 _].
      destruct (is_sym_op oa) eqn:Hsa.
      * destruct oa; try discriminate. cbn [vsubst] in Hy.
        destruct (vlookup s (n, t)) as [r|] eqn:E; [|discriminate].
        apply Hr in E. subst r. cbn in E. now apply boolish_is_vbool.
      * exfalso. cbn [forallb] in Hqf. rewrite andb_true_r in Hqf.
        assert (Hqa : is_quant_op oa = false) by (destruct oa; auto; discriminate).
        assert (Hoa : oa <> ONot) by (intros ->; cbn in Hta; discriminate).
        pose proof (vsubst_top_not s oa aa Hna1 Hsa Hqa Hoa) as Ht. rewrite Hy in Ht. discriminate.
  - assert (Ho : o <> ONot) by (intros ->; cbn in Hnot; discriminate).
    rewrite (rebuild_same_len o args) by (auto; apply map_length).
    apply eval_congr_ov; auto.
Qed.

Theorem vsubst_eval : forall t I s, wf_interp I -> range_ok boolish s ->
  is_qf t = true -> normal t = true -> eval I (vsubst s t) = eval (ov I s) t.
Proof.
  intros t I s HI Hr. apply vsubst_eval_gen; auto. intros v r E. unfold nnb. rewrite (Hr v r E). apply orb_true_r.
Qed.

Corollary vsubst_tv t I s : wf_interp I -> range_ok boolish s -> is_qf t = true -> normal t = true ->
  tv I (vsubst s t) = tv (ov I s) t.
Proof. intros. unfold tv. now rewrite vsubst_eval. Qed.

(* ---------------------------------------------------------------- preservation *)
Lemma is_qf_mk_and l : forallb is_qf l = true -> is_qf (mk_and l) = true.
Proof. destruct l as [|x [|y r]]; cbn [mk_and]; auto. cbn. now rewrite andb_true_r. Qed.
Lemma is_qf_mk_or l : forallb is_qf l = true -> is_qf (mk_or l) = true.
Proof. destruct l as [|x [|y r]]; cbn [mk_or]; auto. cbn. now rewrite andb_true_r. Qed.
Lemma is_qf_mk_not u : is_qf u = true -> is_qf (mk_not u) = true.
Proof.
  destruct u as [o args]. destruct o; cbn [mk_not]; try (cbn; intros ->; reflexivity).
  destruct args as [|x [|y r]]; try (cbn; intros ->; reflexivity); try (cbn; auto; fail).
  cbn [mk_not]. intros H. change (forallb is_qf [x] = true) in H. cbn [forallb] in H. now rewrite andb_true_r in H.
Qed.
Lemma is_qf_rebuild o l : is_quant_op o = false -> forallb is_qf l = true -> is_qf (rebuild o l) = true.
Proof.
  intros Hq H. destruct o; try discriminate; try (cbn; exact H).
  - now apply is_qf_mk_and.
  - now apply is_qf_mk_or.
  - destruct l as [|x [|y r]]; cbn [rebuild]; try (cbn; exact H). apply is_qf_mk_not. cbn in H. now rewrite andb_true_r in H.
  - destruct l as [|x [|y r]]; cbn [rebuild mk_plus]; try (cbn; exact H). cbn in H. now rewrite andb_true_r in H.
  - destruct l as [|x [|y r]]; cbn [rebuild mk_times]; try (cbn; exact H). cbn in H. now rewrite andb_true_r in H.
Qed.

Lemma vsubst_qf : forall t s, range_ok is_qf s -> is_qf t = true -> is_qf (vsubst s t) = true.
Proof.
  induction t as [o args IH] using term_ind'. intros s Hr Hqf.
  destruct (is_quant_op o) eqn:Hq; [rewrite is_qf_quant in Hqf by auto; discriminate|].
  rewrite is_qf_args in Hqf by auto.
  destruct (is_sym_op o) eqn:Hs.
  { destruct o; try discriminate. cbn [vsubst]. destruct (vlookup s (n, t)) eqn:E; [eapply Hr; eauto | cbn; exact Hqf]. }
  rewrite vsubst_nonsym by auto. apply is_qf_rebuild; auto.
  rewrite forallb_map. rewrite forallb_forall in Hqf |- *. rewrite Forall_forall in IH. intros a Ha. apply IH; auto.
Qed.

Lemma normal_mk_and l : forallb normal l = true -> normal (mk_and l) = true.
Proof. destruct l as [|x [|y r]]; cbn [mk_and]; auto. cbn. now rewrite andb_true_r. Qed.
Lemma normal_mk_or l : forallb normal l = true -> normal (mk_or l) = true.
Proof. destruct l as [|x [|y r]]; cbn [mk_or]; auto. cbn. now rewrite andb_true_r. Qed.
Lemma normal_mk_not u : normal u = true -> normal (mk_not u) = true.
Proof.
  destruct u as [o args]. intros H.
  destruct (op_eqb o ONot) eqn:E.
  - apply op_eqb_eq in E. subst o. cbn [normal] in H. apply andb_true_iff in H. destruct H as [H1 H].
    destruct (node_normal_not _ H1) as (a & -> & _).
    cbn [mk_not]. cbn [forallb] in H. now rewrite andb_true_r in H.
  - assert (M : mk_not (T o args) = T ONot [T o args]) by (destruct o; try reflexivity; cbn in E; discriminate).
    rewrite M.
    assert (N : node_normal ONot [T o args] = true) by (destruct o; try reflexivity; cbn in E; discriminate).
    change (node_normal ONot [T o args] && (normal (T o args) && true) = true). rewrite N, H. reflexivity.
Qed.
Lemma normal_rebuild o args l :
  node_normal o args = true -> List.length l = List.length args -> is_quant_op o = false ->
  forallb normal l = true -> normal (rebuild o l) = true.
Proof.
  intros Hn Hl Hq H. destruct (op_eqb o ONot) eqn:Hnot.
  - apply op_eqb_eq in Hnot. subst o. destruct (node_normal_not _ Hn) as (a & -> & Hta).
    destruct l as [|x [|y l]]; try discriminate. cbn [rebuild]. apply normal_mk_not. cbn in H. now rewrite andb_true_r in H.
  - assert (Ho : o <> ONot) by (intros ->; cbn in Hnot; discriminate).
    rewrite (rebuild_same_len o args) by auto. cbn [normal]. rewrite H, andb_true_r.
    destruct o; try discriminate; try reflexivity; try congruence.
    + destruct args as [|a [|b r]]; try discriminate. destruct l as [|x [|y l]]; try discriminate. reflexivity.
    + destruct args as [|a [|b r]]; try discriminate. destruct l as [|x [|y l]]; try discriminate. reflexivity.
    + destruct args as [|a [|b r]]; try discriminate; destruct l as [|x [|y l]]; try discriminate; reflexivity.
    + destruct args as [|a [|b r]]; try discriminate; destruct l as [|x [|y l]]; try discriminate; reflexivity.
Qed.

Lemma vsubst_normal : forall t s, range_ok normal s -> is_qf t = true -> normal t = true -> normal (vsubst s t) = true.
Proof.
  induction t as [o args IH] using term_ind'. intros s Hr Hqf Hn.
  cbn [normal] in Hn. apply andb_true_iff in Hn. destruct Hn as [Hnn Hna].
  destruct (is_quant_op o) eqn:Hq; [rewrite is_qf_quant in Hqf by auto; discriminate|].
  rewrite is_qf_args in Hqf by auto.
  destruct (is_sym_op o) eqn:Hs.
  { destruct o; try discriminate. cbn [vsubst]. destruct (vlookup s (n, t)) eqn:E; [eapply Hr; eauto|].
    cbn [normal]. now rewrite Hnn, Hna. }
  rewrite vsubst_nonsym by auto. apply (normal_rebuild o args); auto; [apply map_length|].
  rewrite forallb_map. rewrite forallb_forall in Hqf, Hna |- *. rewrite Forall_forall in IH. intros a Ha. apply IH; auto.
Qed.

Lemma boolish_not_quant_args o args : boolish (T o args) = true -> is_quant_op o = false ->
  is_qf (T o args) = true -> True.
Proof. auto. Qed.

Lemma vsubst_boolish : forall t s, range_ok boolish s -> is_qf t = true -> boolish t = true -> boolish (vsubst s t) = true.
Proof.
  induction t as [o args IH] using term_ind'. intros s Hr Hqf Hb.
  destruct (is_quant_op o) eqn:Hq; [rewrite is_qf_quant in Hqf by auto; discriminate|].
  rewrite is_qf_args in Hqf by auto.
  assert (Hargs : forall a, In a args -> boolish a = true -> boolish (vsubst s a) = true).
  { rewrite Forall_forall in IH. rewrite forallb_forall in Hqf. intros a Ha Hba. apply IH; auto. }
  destruct o; try discriminate Hq;
    try solve [cbn in Hb |- *; exact Hb].
  - (* and *) cbn [vsubst rebuild]. apply boolish_mk_and. cbn in Hb. rewrite forallb_map.
    rewrite forallb_forall in Hb |- *. intros a Ha. apply Hargs; auto.
  - cbn [vsubst rebuild]. apply boolish_mk_or. cbn in Hb. rewrite forallb_map.
    rewrite forallb_forall in Hb |- *. intros a Ha. apply Hargs; auto.
  - destruct args as [|a [|b r]]; cbn in Hb; try discriminate. cbn [vsubst rebuild map].
    apply boolish_mk_not. apply Hargs; cbn; auto.
  - destruct args as [|a [|b [|c r]]]; cbn in Hb; try discriminate. apply andb_true_iff in Hb. destruct Hb as [Ha Hb].
    cbn [vsubst rebuild map boolish]. rewrite !Hargs; cbn; auto.
  - destruct args as [|a [|b [|c r]]]; cbn in Hb; try discriminate. apply andb_true_iff in Hb. destruct Hb as [Ha Hb].
    cbn [vsubst rebuild map boolish]. rewrite !Hargs; cbn; auto.
  - (* symbol *) cbn [vsubst]. destruct (vlookup s (n, t)) eqn:E; [eapply Hr; eauto | exact Hb].
  - (* bool constant *) cbn in Hb. destruct args; try discriminate. reflexivity.
  - cbn in Hb. discriminate.
  - cbn in Hb. discriminate.
  - (* ite *) destruct args as [|c [|a [|b [|d r]]]]; cbn in Hb; try discriminate.
    apply andb_true_iff in Hb. destruct Hb as [Hb Hb3]. apply andb_true_iff in Hb. destruct Hb as [Hb1 Hb2].
    cbn [vsubst rebuild map boolish]. rewrite !Hargs; cbn; auto.
Qed.

(* ---------------------------------------------------------------- "good" results *)
Definition good (t : term) : bool := boolish t && normal t && is_qf t.

Lemma good_split t : good t = true <-> boolish t = true /\ normal t = true /\ is_qf t = true.
Proof. unfold good. rewrite !andb_true_iff. tauto. Qed.

Lemma vsubst_good t s : range_ok good s -> good t = true -> good (vsubst s t) = true.
Proof.
  intros Hr H. apply good_split in H. destruct H as (Hb & Hn & Hq). apply good_split.
  assert (R : forall P, (forall u, good u = true -> P u = true) -> range_ok P s).
  { intros P HP v r E. apply HP. eapply Hr; eauto. }
  repeat split.
  - apply vsubst_boolish; auto. apply R. intros u Hu. now apply good_split in Hu.
  - apply vsubst_normal; auto. apply R. intros u Hu. now apply good_split in Hu.
  - apply vsubst_qf; auto. apply R. intros u Hu. now apply good_split in Hu.
Qed.

Lemma good_range_boolish s : range_ok good s -> range_ok boolish s.
Proof. intros H v r E. apply H in E. now apply good_split in E. Qed.

Lemma good_mk_and l : forallb good l = true -> good (mk_and l) = true.
Proof.
  intros H. rewrite forallb_forall in H. apply good_split. repeat split;
    [apply boolish_mk_and | apply normal_mk_and | apply is_qf_mk_and]; apply forallb_forall; intros x Hx;
      apply H in Hx; now apply good_split in Hx.
Qed.
Lemma good_mk_or l : forallb good l = true -> good (mk_or l) = true.
Proof.
  intros H. rewrite forallb_forall in H. apply good_split. repeat split;
    [apply boolish_mk_or | apply normal_mk_or | apply is_qf_mk_or]; apply forallb_forall; intros x Hx;
      apply H in Hx; now apply good_split in Hx.
Qed.
Lemma good_mk_not u : good u = true -> good (mk_not u) = true.
Proof.
  intros H. apply good_split in H. destruct H as (Hb & Hn & Hq). apply good_split. repeat split;
    [now apply boolish_mk_not | now apply normal_mk_not | now apply is_qf_mk_not].
Qed.
