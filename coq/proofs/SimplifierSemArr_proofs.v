(* C01, semantic clause, part 2 of 3: arrays.  Select / Store / ArrayValue and the array branches
   of Equals, against core/Sem.v (arr_assign, OSelect, OStore, OArrayValue).
   Array values of the fragment are in the canonical form of SimplifierSemBase_proofs.arr_node_ok:
   index sort not an array sort, indices constants of Bool / Int / Real / BV / String sort
   (Real constants in lowest terms, as everywhere in okt) strictly increasing in Ctors.const_key order, no assigned value
   syntactically equal to the default.  walk_equals on two constant array values is the
   extensional comparison const_eqb (const_eqb_sound; over Bool / BV by counting the keys of
   the sort: keys_covered / keys_not_covered). *)
From Coq Require Import List ZArith Bool String Reals Lia Lra Permutation.
From Coq Require Import ClassicalDescription FunctionalExtensionality.
From PySMT.core Require Import Syntax SyntaxLemmas PyPrims Types Sem.
From PySMT.models Require Import TypeChecker Oracles Ctors Simplifier.
From PySMT.proofs Require Import Sets_proofs TypeChecker_proofs Coincidence Simplifier_proofs.
From PySMT.proofs Require Import SimplifierSemBase_proofs.
Import ListNotations.
Open Scope bool_scope.

(* ================================================================== the order of index constants *)
Lemma lex_ltb_irrefl : forall a, lex_ltb a a = false.
Proof. induction a as [|x a IH]; cbn; auto. now rewrite Z.ltb_irrefl. Qed.
Lemma lex_ltb_trans : forall a b c, lex_ltb a b = true -> lex_ltb b c = true -> lex_ltb a c = true.
Proof.
  induction a as [|x a IH]; intros [|y b] [|z c]; cbn; try discriminate; auto.
  destruct (Z.ltb_spec x y), (Z.ltb_spec y x), (Z.ltb_spec y z), (Z.ltb_spec z y), (Z.ltb_spec x z), (Z.ltb_spec z x);
    try discriminate; try lia; auto. apply IH.
Qed.
Lemma lex_ltb_total : forall a b, lex_ltb a b = false -> lex_ltb b a = false -> a = b.
Proof.
  induction a as [|x a IH]; intros [|y b]; cbn; try discriminate; auto.
  destruct (Z.ltb_spec x y), (Z.ltb_spec y x); try discriminate; try lia. intros H1 H2. f_equal; [lia | auto].
Qed.
Lemma key_const_inv a : key_const a = true ->
  (exists b, a = TBoolC b) \/ (exists z, a = TIntC z) \/ (exists v w, a = TBVC v w) \/ (exists s, a = TStrC s) \/
  (exists n d, a = TRealC n d /\ (0 < d)%Z /\ Z.gcd n d = 1%Z).
Proof.
  destruct a as [o [|? ?]]; destruct o; cbn; try discriminate; intros H.
  - do 4 right. apply andb_true_iff in H. destruct H as [H1 H2]. apply Z.ltb_lt in H1. apply Z.eqb_eq in H2. do 2 eexists. split; [reflexivity | auto].
  - left; eexists; reflexivity.
  - right; left; eexists; reflexivity.
  - right; right; right; left; eexists; reflexivity.
  - right; right; left; do 2 eexists; reflexivity.
Qed.
Lemma term_eqb_refl t : term_eqb t t = true.
Proof. now apply term_eqb_eq. Qed.
Lemma const_key_inj a b : key_const a = true -> key_const b = true -> const_key a = const_key b -> a = b.
Proof.
  intros Ha Hb.
  destruct (key_const_inv a Ha) as [[x ->]|[[x ->]|[(x & w & ->)|[[x ->]|(x & w & -> & _)]]]];
    destruct (key_const_inv b Hb) as [[y ->]|[[y ->]|[(y & w' & ->)|[[y ->]|(y & w' & -> & _)]]]]; cbn; intros E; try discriminate E; inversion E; auto.
  destruct x, y; auto; discriminate.
Qed.
Lemma klt_irrefl a : klt a a = false.
Proof. apply lex_ltb_irrefl. Qed.
Lemma klt_trans a b c : klt a b = true -> klt b c = true -> klt a c = true.
Proof. apply lex_ltb_trans. Qed.
Lemma klt_total a b : key_const a = true -> key_const b = true -> a <> b -> klt a b = false -> klt b a = true.
Proof.
  intros Ha Hb Hne H. destruct (klt b a) eqn:E; auto. exfalso. apply Hne. apply const_key_inj; auto. now apply lex_ltb_total.
Qed.

(* ================================================================== sorted assignment lists *)
Notation keys l := (map (@fst term term) l).
Definition kconsts (l : list (term * term)) : Prop := Forall (fun kv => key_const (fst kv) = true) l.

Lemma keys_sorted_cons kv r : keys_sorted (kv :: r) = true <->
  (forall kv', In kv' r -> klt (fst kv) (fst kv') = true) /\ keys_sorted r = true.
Proof. cbn. rewrite andb_true_iff, forallb_forall. reflexivity. Qed.
Lemma keys_sorted_NoDup : forall l, keys_sorted l = true -> NoDup (keys l).
Proof.
  induction l as [|kv r IH]; intros H; cbn; constructor.
  - apply keys_sorted_cons in H. destruct H as [H _]. intros Hin. apply in_map_iff in Hin. destruct Hin as (kv' & E & Hin).
    specialize (H kv' Hin). rewrite E, klt_irrefl in H. discriminate.
  - apply IH. apply keys_sorted_cons in H. tauto.
Qed.
Lemma insert_perm kv : forall l, Permutation (insert_assign kv l) (kv :: l).
Proof.
  induction l as [|kv' r IH]; cbn; auto. destruct (lex_ltb _ _); auto.
  eapply perm_trans; [apply perm_skip; exact IH | apply perm_swap].
Qed.
Lemma sort_assign_perm : forall l, Permutation (sort_assign l) l.
Proof.
  induction l as [|kv r IH]; cbn; auto. eapply perm_trans; [apply insert_perm | now apply perm_skip].
Qed.
Lemma insert_sorted kv : forall l, key_const (fst kv) = true -> kconsts l -> ~ In (fst kv) (keys l) ->
  keys_sorted l = true -> keys_sorted (insert_assign kv l) = true.
Proof.
  induction l as [|kv' r IH]; intros Hk Hc Hnin Hs; [reflexivity|]. cbn [insert_assign].
  apply keys_sorted_cons in Hs. destruct Hs as [Hlt Hs]. inversion Hc as [|? ? Hk' Hc']; subst.
  fold (klt (fst kv) (fst kv')). destruct (klt (fst kv) (fst kv')) eqn:E.
  - apply keys_sorted_cons. split.
    + intros x [<-|Hx]; auto. eapply klt_trans; eauto.
    + apply keys_sorted_cons. auto.
  - apply keys_sorted_cons. split.
    + intros x Hx. apply (Permutation_in _ (insert_perm kv r)) in Hx. destruct Hx as [<-|Hx]; auto.
      apply klt_total; auto. intros Heq. apply Hnin. cbn. auto.
    + apply IH; auto. intros Hin. apply Hnin. cbn. auto.
Qed.
Lemma kconsts_perm l l' : Permutation l l' -> kconsts l -> kconsts l'.
Proof. intros P H. unfold kconsts in *. rewrite Forall_forall in *. intros x Hx. apply H. eapply Permutation_in; [apply Permutation_sym|]; eauto. Qed.
Lemma sort_assign_sorted : forall l, kconsts l -> NoDup (keys l) -> keys_sorted (sort_assign l) = true.
Proof.
  induction l as [|kv r IH]; intros Hc Hn; [reflexivity|]. cbn [sort_assign fold_right].
  inversion Hc; subst. inversion Hn; subst. apply insert_sorted; auto.
  - eapply kconsts_perm; [apply Permutation_sym, sort_assign_perm | auto].
  - intros Hin. apply H3. eapply Permutation_in; [|exact Hin]. apply Permutation_map. apply sort_assign_perm.
Qed.
(* two strictly sorted lists with the same elements are equal *)
Lemma sorted_unique : forall l l', keys_sorted l = true -> keys_sorted l' = true ->
  (forall p, In p l <-> In p l') -> l = l'.
Proof.
  induction l as [|a l IH]; intros [|b l'] Hs Hs' Hio; auto.
  - exfalso. apply (proj2 (Hio b)). cbn; auto.
  - exfalso. apply (proj1 (Hio a)). cbn; auto.
  - apply keys_sorted_cons in Hs, Hs'. destruct Hs as [Ha Hs]. destruct Hs' as [Hb Hs'].
    assert (E : a = b).
    { destruct (proj1 (Hio a) (or_introl eq_refl)) as [E|Hin]; auto.
      destruct (proj2 (Hio b) (or_introl eq_refl)) as [E|Hin']; auto.
      pose proof (klt_trans _ _ _ (Ha _ Hin') (Hb _ Hin)) as C. rewrite klt_irrefl in C. discriminate. }
    subst b. f_equal. apply IH; auto. intros p. split; intros Hp.
    + destruct (proj1 (Hio p) (or_intror Hp)) as [<-|]; auto. specialize (Ha _ Hp). rewrite klt_irrefl in Ha. discriminate.
    + destruct (proj2 (Hio p) (or_intror Hp)) as [<-|]; auto. specialize (Hb _ Hp). rewrite klt_irrefl in Hb. discriminate.
Qed.

(* ---- pairs_of / flatten_assign *)
Lemma pairs_flatten : forall l, pairs_of (flatten_assign l) = l.
Proof. induction l as [|[k v] r IH]; cbn; auto. now rewrite IH. Qed.
Lemma flatten_pairs : forall l, Nat.even (List.length l) = true -> flatten_assign (pairs_of l) = l.
Proof. induction l as [| x | x y r IH] using list_ind2; cbn; auto; try discriminate. intros H. now rewrite IH. Qed.
Lemma even_flatten : forall l, Nat.even (List.length (flatten_assign l)) = true.
Proof. induction l as [|[k v] r IH]; cbn; auto. Qed.
Lemma flatten_In l x : In x (flatten_assign l) -> exists kv, In kv l /\ (x = fst kv \/ x = snd kv).
Proof.
  induction l as [|[k v] r IH]; cbn; [contradiction|]. intros [<-|[<-|H]].
  - exists (k, v). cbn. auto.
  - exists (k, v). cbn. auto.
  - destruct (IH H) as (kv & Hin & Hx). exists kv. auto.
Qed.

(* ---- dict operations on lists with distinct keys *)
Lemma assoc_set_notin k v : forall l, ~ In k (keys l) -> assoc_set k v l = l ++ [(k, v)].
Proof.
  induction l as [|[k' v'] r IH]; cbn; auto. intros Hn.
  destruct (term_eqb k k') eqn:E. { apply term_eqb_sound in E. subst. exfalso. auto. }
  rewrite IH; auto.
Qed.
Lemma dict_acc : forall l acc, NoDup (keys (acc ++ l)) ->
  fold_left (fun acc kv => assoc_set (fst kv) (snd kv) acc) l acc = acc ++ l.
Proof.
  induction l as [|[k v] r IH]; intros acc Hn; cbn; [now rewrite app_nil_r|].
  rewrite assoc_set_notin.
  - rewrite IH; rewrite <- app_assoc; auto.
  - rewrite map_app in Hn. cbn in Hn. apply NoDup_remove_2 in Hn. intros Hin. apply Hn. apply in_or_app. auto.
Qed.
Lemma dict_of_pairs_id l : NoDup (keys l) -> dict_of_pairs l = l.
Proof. intros H. unfold dict_of_pairs. now rewrite dict_acc. Qed.
Lemma assoc_set_keys k v : forall l, NoDup (keys l) -> NoDup (keys (assoc_set k v l)) /\
  (forall x, In x (keys (assoc_set k v l)) <-> x = k \/ In x (keys l)).
Proof.
  induction l as [|[k' v'] r IH]; intros Hn; cbn.
  - split; [constructor; [intros [] | constructor] | intros x; split; intros [H|[]]; auto].
  - inversion Hn as [|? ? Hnin Hn']; subst. destruct (term_eqb k k') eqn:E.
    + apply term_eqb_sound in E. subst k'. cbn. split; [constructor; auto | intros x; split; [intros [H|H]; auto | intros [H|[H|H]]; auto]].
    + destruct (IH Hn') as [N Hx]. cbn. split.
      * constructor; auto. rewrite Hx. intros [->|H]; auto. rewrite term_eqb_refl in E. discriminate.
      * intros x. rewrite Hx. tauto.
Qed.
Lemma assoc_set_In k v : forall l p, In p (assoc_set k v l) -> p = (k, v) \/ In p l.
Proof.
  induction l as [|[k' v'] r IH]; cbn; intros p.
  - intros [<-|[]]; auto.
  - destruct (term_eqb k k'); cbn; intros [<-|H]; auto. destruct (IH _ H); auto.
Qed.
Lemma assoc_get_In k : forall l v, assoc_get k l = Some v -> In (k, v) l.
Proof.
  induction l as [|[k' v'] r IH]; cbn; intros v; [discriminate|].
  destruct (term_eqb k k') eqn:E; [apply term_eqb_sound in E; subst; intros [= ->]; auto | auto].
Qed.

(* ================================================================== values of array terms *)
Section ArrSem.
Variable I : interp.
Notation res_ok := (res_ok I).

Definition kv (t : term) : key := to_key (eval I t).
Definition alook (l : list (term * term)) (f : key -> value) : key -> value :=
  arr_assign f (map (eval I) (flatten_assign l)).
Lemma alook_cons k v r f x : alook ((k, v) :: r) f x = if key_eq_dec x (kv k) then eval I v else alook r f x.
Proof. reflexivity. Qed.
Lemma alook_nil f x : alook [] f x = f x.
Proof. reflexivity. Qed.
(* the default of an array value: on its index sort *)
Definition cdef (it : ty) (d : term) : key -> value := fun k => if key_sortb k it then eval I d else junk.
Lemma eval_array it d rest : Nat.even (List.length rest) = true ->
  eval I (T (OArrayValue it) (d :: rest)) = VArr (alook (pairs_of rest) (cdef it d)).
Proof. intros H. rewrite eval_plain by reflexivity. cbn [map op_sem]. unfold alook. now rewrite flatten_pairs. Qed.
Definition ksorted (it : ty) (l : list (term * term)) : Prop := Forall (fun p => key_sortb (kv (fst p)) it = true) l.

Lemma kv_inj a b : key_const a = true -> key_const b = true -> kv a = kv b -> a = b.
Proof.
  intros Ha Hb. unfold kv.
  destruct (key_const_inv a Ha) as [[x ->]|[[x ->]|[(x & w & ->)|[[x ->]|(x & w & -> & D1 & G1)]]]];
    destruct (key_const_inv b Hb) as [[y ->]|[[y ->]|[(y & w' & ->)|[[y ->]|(y & w' & -> & D2 & G2)]]]]; cbn; intros E; try discriminate E; inversion E; auto.
  apply (Q2R'_eq x w y w' D1 D2) in H0. destruct (lowest_terms_inj x w y w' D1 D2 G1 G2 H0) as [-> ->]. reflexivity.
Qed.
Lemma eval_kv_inj a b : key_const a = true -> key_const b = true -> eval I a = eval I b -> a = b.
Proof. intros Ha Hb E. apply kv_inj; auto. unfold kv. now rewrite E. Qed.

Lemma alook_notin f x : forall l, (forall p, In p l -> kv (fst p) <> x) -> alook l f x = f x.
Proof.
  induction l as [|[k v] r IH]; intros H; [reflexivity|]. rewrite alook_cons.
  destruct (key_eq_dec x (kv k)) as [->|]; [exfalso; apply (H (k, v)); cbn; auto|]. apply IH. intros p Hp. apply H. cbn; auto.
Qed.
Lemma alook_in f : forall l k v, kconsts l -> NoDup (keys l) -> In (k, v) l -> alook l f (kv k) = eval I v.
Proof.
  induction l as [|[k' v'] r IH]; intros k v Hc Hn Hin; [contradiction|]. rewrite alook_cons.
  inversion Hc as [|? ? Hk' Hc']; subst. inversion Hn as [|? ? Hnin Hn']; subst. destruct Hin as [[= -> ->]|Hin].
  - destruct (key_eq_dec (kv k) (kv k)); [reflexivity | contradiction].
  - destruct (key_eq_dec (kv k) (kv k')) as [E|]; [|apply IH; auto].
    exfalso. apply Hnin. unfold kconsts in Hc'. rewrite Forall_forall in Hc'. pose proof (Hc' _ Hin) as Hk.
    apply kv_inj in E; auto. subst k'. apply in_map_iff. exists (k, v). auto.
Qed.
Lemma alook_perm f : forall l l', Permutation l l' -> kconsts l -> NoDup (keys l) -> forall x, alook l f x = alook l' f x.
Proof.
  induction 1 as [| [k v] l l' P IH | [k1 v1] [k2 v2] l | l l' l'' P1 IH1 P2 IH2]; intros Hc Hn x; auto.
  - rewrite !alook_cons. inversion Hc; subst. inversion Hn; subst. now rewrite IH.
  - rewrite !alook_cons. destruct (key_eq_dec x (kv k1)) as [E1|]; destruct (key_eq_dec x (kv k2)) as [E2|]; auto.
    exfalso. rewrite E2 in E1. clear E2. pose proof (Forall_inv Hc) as H2. pose proof (Forall_inv (Forall_inv_tail Hc)) as H1. cbn in H1, H2.
    apply kv_inj in E1; auto. subst k2. inversion Hn as [|? ? Hnin _]. apply Hnin. cbn; auto.
  - rewrite IH1; auto. apply IH2.
    + eapply kconsts_perm; eauto.
    + eapply Permutation_NoDup; [|exact Hn]. now apply Permutation_map.
Qed.
Lemma alook_filter it d : forall l, kconsts l -> NoDup (keys l) -> ksorted it l -> forall x,
  alook (filter (fun p => negb (term_eqb (snd p) d)) l) (cdef it d) x = alook l (cdef it d) x.
Proof.
  induction l as [|[k v] r IH]; intros Hc Hn Hs x; [reflexivity|].
  inversion Hc as [|? ? Hk Hc']; subst. inversion Hn as [|? ? Hnin Hn']; subst. inversion Hs as [|? ? Hsk Hs']; subst. cbn [filter snd].
  destruct (term_eqb v d) eqn:E; cbn [negb]; rewrite !alook_cons.
  - apply term_eqb_sound in E. subst v. destruct (key_eq_dec x (kv k)) as [->|]; [|apply IH; auto].
    rewrite alook_notin.
    + unfold cdef. cbn in Hsk. now rewrite Hsk.
    + intros p Hp E. apply filter_In in Hp. destruct Hp as [Hp _]. apply Hnin.
      unfold kconsts in Hc'. rewrite Forall_forall in Hc'. apply kv_inj in E; auto. subst k. apply in_map_iff. exists p. auto.
  - now rewrite IH.
Qed.
Lemma alook_assoc_set f i v : key_const i = true -> forall l, kconsts l -> forall x,
  alook (assoc_set i v l) f x = if key_eq_dec x (kv i) then eval I v else alook l f x.
Proof.
  intros Hi. induction l as [|[k' v'] r IH]; intros Hc x; [reflexivity|]. inversion Hc as [|? ? Hk' Hc']; subst. cbn [assoc_set].
  destruct (term_eqb i k') eqn:E.
  - apply term_eqb_sound in E. subst k'. rewrite !alook_cons. destruct (key_eq_dec x (kv i)); auto.
  - rewrite !alook_cons, IH by auto. destruct (key_eq_dec x (kv k')) as [E1|]; auto. destruct (key_eq_dec x (kv i)) as [E2|]; auto.
    exfalso. rewrite E1 in E2. apply kv_inj in E2; auto. subst. rewrite term_eqb_refl in E. discriminate.
Qed.
Lemma alook_assoc_get f i : key_const i = true -> forall l, kconsts l ->
  alook l f (kv i) = match assoc_get i l with Some v => eval I v | None => f (kv i) end.
Proof.
  intros Hi. induction l as [|[k' v'] r IH]; intros Hc; [reflexivity|]. inversion Hc as [|? ? Hk' Hc']; subst.
  rewrite alook_cons. cbn [assoc_get]. destruct (term_eqb i k') eqn:E.
  - apply term_eqb_sound in E. subst. destruct (key_eq_dec (kv k') (kv k')); [reflexivity | contradiction].
  - destruct (key_eq_dec (kv i) (kv k')) as [E1|]; [|auto].
    exfalso. apply kv_inj in E1; auto. subst. rewrite term_eqb_refl in E. discriminate.
Qed.
End ArrSem.

(* ================================================================== typing of array values *)
Definition ptyped (it td : ty) (l : list (term * term)) : Prop :=
  Forall (fun p => tc (fst p) = Some it /\ tc (snd p) = Some td) l.
Definition pokt (l : list (term * term)) : Prop := Forall (fun p => okt (fst p) = true /\ okt (snd p) = true) l.

Lemma tcs_flatten it td : forall L, ptyped it td L ->
  exists tys, tcs (flatten_assign L) = Some tys /\ array_value_ok it td tys true = true.
Proof.
  induction L as [|[k v] r IH]; intros H; [exists []; auto|]. inversion H as [|? ? [Hk Hv] H']; subst. cbn in Hk, Hv.
  destruct (IH H') as (tys & Ht & Ha). exists (it :: td :: tys). cbn. rewrite Hk, Hv, Ht. split; auto.
  cbn. now rewrite !ty_eqb_refl, Ha.
Qed.
Lemma tc_array it d td L : tc d = Some td -> ptyped it td L ->
  tc (T (OArrayValue it) (d :: flatten_assign L)) = Some (TArr it td).
Proof.
  intros Hd H. destruct (tcs_flatten it td L H) as (tys & Ht & Ha). rewrite tc_tcs. cbn [tcs]. rewrite Hd, Ht. cbn. now rewrite Ha.
Qed.
Lemma tc_array_inv it d rest ty : tc (T (OArrayValue it) (d :: rest)) = Some ty ->
  exists td, tc d = Some td /\ ty = TArr it td /\ ptyped it td (pairs_of rest).
Proof.
  intros Htc. destruct (tc_inv _ _ _ Htc) as (tys & Ht & Hr). pose proof (tcs_Forall2 _ _ Ht) as F2.
  inversion F2 as [|? td ? trest Hd F2']; subst. cbn in Hr. destruct (array_value_ok it td trest true) eqn:E; [|discriminate].
  inversion Hr; subst. exists td. repeat split; auto. eapply array_value_ok_snd; eauto.
Qed.
Lemma pokt_pairs rest : Forall (fun a => okt a = true) rest -> pokt (pairs_of rest).
Proof.
  intros F. apply Forall_forall. intros p Hp. destruct (pairs_of_In _ _ Hp). rewrite Forall_forall in F. auto.
Qed.
Lemma kconsts_pairs rest : forallb (fun kv => key_const (fst kv)) (pairs_of rest) = true -> kconsts (pairs_of rest).
Proof. intros H. apply Forall_forall. now apply forallb_forall. Qed.
Lemma NoDup_keys_filter (P : term * term -> bool) : forall l, NoDup (keys l) -> NoDup (keys (filter P l)).
Proof.
  induction l as [|p r IH]; intros H; cbn; [constructor|]. inversion H as [|? ? Hn H']; subst.
  destruct (P p); cbn; auto. constructor; auto. intros Hin. apply Hn. apply in_map_iff in Hin. destruct Hin as (q & E & Hq).
  apply filter_In in Hq. apply in_map_iff. exists q. tauto.
Qed.
Definition basic_ty (t : ty) : bool := match t with TArr _ _ => false | _ => true end.
Lemma idx_ok_basic it : idx_ok it = true -> basic_ty it = true.
Proof. destruct it; auto. Qed.
Lemma const_key_const i t : okt i = true -> tc i = Some t -> is_constant i = true -> basic_ty t = true -> key_const i = true.
Proof.
  intros O Tc C B.
  destruct (const_cases i t O Tc C) as [(b & -> & E)|[(z & -> & E)|[(n & d & -> & E & D)|[(v & w & -> & E)|[(s0 & -> & E)|(? & ? & E & _)]]]]];
    subst t; try reflexivity; try discriminate B.
  destruct (realc_lowest n d O) as [D' G]. cbn. now rewrite (proj2 (Z.ltb_lt 0 d) D'), G.
Qed.

Section ArrRules.
Variable I : interp.
Hypothesis Hwf : wfi I.
Notation res_ok := (res_ok I).
Notation alook := (alook I).
Notation cdef := (cdef I).

(* the keys of well-sorted index terms are keys of the index sort *)
Lemma kv_sorted k it : okt k = true -> tc k = Some it -> key_sortb (kv I k) it = true.
Proof. intros O Tc. unfold kv. apply has_ty_key_sortb. now apply okt_sound. Qed.
Lemma ksorted_of it td L : pokt L -> ptyped it td L -> ksorted I it L.
Proof.
  intros Ho Hty. unfold pokt, ptyped in *. rewrite Forall_forall in Ho, Hty. apply Forall_forall. intros p Hp.
  destruct (Ho p Hp), (Hty p Hp). now apply kv_sorted.
Qed.

Lemma mk_array_sound it d td L r : idx_ok it = true -> elt_ok (Some td) = true -> okt d = true -> tc d = Some td ->
  kconsts L -> NoDup (keys L) -> pokt L -> ptyped it td L -> mk_array it d L = Some r ->
  okt r = true /\ tc r = Some (TArr it td) /\ eval I r = VArr (alook L (cdef it d)).
Proof.
  intros Hit Hel Od Td Hc Hn Ho Hty E. unfold mk_array in E. destruct (forallb _ L); [|discriminate]. inversion E; subst r. clear E.
  set (P := fun kv : term * term => negb (term_eqb (snd kv) d)).
  set (L' := sort_assign (filter P L)).
  assert (HP : Permutation L' (filter P L)) by apply sort_assign_perm.
  assert (Hin : forall p, In p L' -> In p L /\ P p = true).
  { intros p Hp. apply (Permutation_in _ HP) in Hp. now apply filter_In in Hp. }
  assert (Hcf : kconsts (filter P L)).
  { apply Forall_forall. intros p Hp. apply filter_In in Hp. unfold kconsts in Hc. rewrite Forall_forall in Hc. apply Hc. tauto. }
  assert (Hnf : NoDup (keys (filter P L))) by now apply NoDup_keys_filter.
  split; [|split].
  - apply okt_intro.
    + cbn [ok_node]. unfold arr_node_ok, arr_keys_ok. rewrite pairs_flatten, Hit, Td, Hel, even_flatten. cbn [andb].
      apply andb_true_iff. split; [apply andb_true_iff; split|].
      * apply forallb_forall. intros p Hp. destruct (Hin p Hp) as [Hp' _]. unfold kconsts in Hc. rewrite Forall_forall in Hc. auto.
      * now apply sort_assign_sorted.
      * apply forallb_forall. intros p Hp. now destruct (Hin p Hp).
    + constructor; auto. apply Forall_forall. intros x Hx. apply flatten_In in Hx. destruct Hx as (p & Hp & Hx).
      destruct (Hin p Hp) as [Hp' _]. unfold pokt in Ho. rewrite Forall_forall in Ho. destruct (Ho p Hp'). destruct Hx; subst; auto.
  - apply tc_array; auto. apply Forall_forall. intros p Hp. destruct (Hin p Hp) as [Hp' _]. unfold ptyped in Hty. rewrite Forall_forall in Hty. auto.
  - rewrite eval_array by apply even_flatten. rewrite pairs_flatten. f_equal. apply functional_extensionality. intros x.
    rewrite <- (alook_filter I it d L Hc Hn (ksorted_of it td L Ho Hty) x). symmetry. apply alook_perm; auto. now apply Permutation_sym.
Qed.

Lemma arr_keys_parts it d rest : arr_keys_ok it d rest = true ->
  idx_ok it = true /\ elt_ok (tc d) = true /\ Nat.even (List.length rest) = true /\
  kconsts (pairs_of rest) /\ keys_sorted (pairs_of rest) = true.
Proof.
  unfold arr_keys_ok. intros H. repeat (apply andb_true_iff in H; destruct H as [H ?]). repeat split; auto. now apply kconsts_pairs.
Qed.

Lemma r_array_value_sound it d rest ty r : arr_keys_ok it d rest = true -> Forall (fun a => okt a = true) (d :: rest) ->
  tc (T (OArrayValue it) (d :: rest)) = Some ty -> r_array_value it (d :: rest) = Some r ->
  res_ok r ty (eval I (T (OArrayValue it) (d :: rest))).
Proof.
  intros Hk Fa Htc E. destruct (arr_keys_parts _ _ _ Hk) as (Hit & Hel & Hev & Hc & Hs).
  destruct (tc_array_inv _ _ _ _ Htc) as (td & Td & -> & Hty). rewrite Td in Hel.
  pose proof (keys_sorted_NoDup _ Hs) as Hn. inversion Fa as [|? ? Od Fr]; subst.
  unfold r_array_value in E. rewrite dict_of_pairs_id in E by auto.
  destruct (mk_array_sound it d td _ r Hit Hel Od Td Hc Hn (pokt_pairs _ Fr) Hty E) as (O & Tc & Ev).
  split; [|split]; auto. rewrite Ev. now rewrite eval_array.
Qed.

(* an array value of the fragment, taken apart *)
Lemma arr_value_parts it d rest ty : okt (T (OArrayValue it) (d :: rest)) = true -> tc (T (OArrayValue it) (d :: rest)) = Some ty ->
  exists td, ty = TArr it td /\ tc d = Some td /\ okt d = true /\ idx_ok it = true /\ elt_ok (Some td) = true /\
    Nat.even (List.length rest) = true /\ kconsts (pairs_of rest) /\ keys_sorted (pairs_of rest) = true /\
    pokt (pairs_of rest) /\ ptyped it td (pairs_of rest) /\
    (forall p, In p (pairs_of rest) -> snd p <> d).
Proof.
  intros Hok Htc. pose proof (okt_node _ _ Hok) as Hn. pose proof (okt_args _ _ Hok) as Fa. cbn [ok_node] in Hn.
  unfold arr_node_ok in Hn. apply andb_true_iff in Hn. destruct Hn as [Hk Hv].
  destruct (arr_keys_parts _ _ _ Hk) as (Hit & Hel & Hev & Hc & Hs).
  destruct (tc_array_inv _ _ _ _ Htc) as (td & Td & -> & Hty). rewrite Td in Hel. inversion Fa as [|? ? Od Fr]; subst.
  exists td. repeat split; auto. { now apply pokt_pairs. }
  intros p Hp E. rewrite forallb_forall in Hv. specialize (Hv p Hp). rewrite E, term_eqb_refl in Hv. discriminate.
Qed.

Lemma okt_store a i v : okt a = true -> okt i = true -> okt v = true -> okt (T OStore [a; i; v]) = true.
Proof. intros. apply okt_intro; [reflexivity | repeat constructor; auto]. Qed.
Lemma okt_select a i : okt a = true -> okt i = true -> okt (T OSelect [a; i]) = true.
Proof. intros. apply okt_intro; [reflexivity | repeat constructor; auto]. Qed.

Lemma r_store_sound a i v ty r : okt a = true -> okt i = true -> okt v = true ->
  tc (T OStore [a; i; v]) = Some ty -> r_store a i v = Some r -> res_ok r ty (eval I (T OStore [a; i; v])).
Proof.
  intros Oa Oi Ov Htc E.
  assert (Hid : res_ok (mk_store a i v) ty (eval I (T OStore [a; i; v]))).
  { split; [|split]; auto. now apply okt_store. }
  destruct a as [o l]. destruct o; try (inversion E; subst; exact Hid).
  destruct l as [|d rest]; [inversion E; subst; exact Hid|]. cbn [r_store] in E.
  destruct (is_constant i) eqn:Ci; [|inversion E; subst; exact Hid]. clear Hid.
  destruct (tc_inv _ _ _ Htc) as (tys & Ht & Hr). pose proof (tcs_Forall2 _ _ Ht) as F2.
  inversion F2 as [|? ta ? ? Ha F2']; subst. inversion F2' as [|? ti ? ? Hi F2'']; subst.
  inversion F2'' as [|? tv ? ? Hv F3]; subst. inversion F3; subst.
  destruct (arr_value_parts _ _ _ _ Oa Ha) as (td & -> & Td & Od & Hit & Hel & Hev & Hc & Hs & Ho & Hty & _).
  cbn in Hr. destruct (ty_eqb it ti && ty_eqb td tv) eqn:Et; [|discriminate]. inversion Hr; subst ty.
  apply andb_true_iff in Et. destruct Et as [E1 E2]. apply ty_eqb_eq in E1, E2. subst ti tv.
  pose proof (keys_sorted_NoDup _ Hs) as Hn. rewrite dict_of_pairs_id in E by auto.
  pose proof (const_key_const i it Oi Hi Ci (idx_ok_basic _ Hit)) as Ki.
  destruct (assoc_set_keys i v _ Hn) as [Hn2 _].
  assert (Hc2 : kconsts (assoc_set i v (pairs_of rest))).
  { apply Forall_forall. intros p Hp. apply assoc_set_In in Hp. destruct Hp as [->|Hp]; auto. unfold kconsts in Hc. rewrite Forall_forall in Hc. auto. }
  assert (Ho2 : pokt (assoc_set i v (pairs_of rest))).
  { apply Forall_forall. intros p Hp. apply assoc_set_In in Hp. destruct Hp as [->|Hp]; auto. unfold pokt in Ho. rewrite Forall_forall in Ho. auto. }
  assert (Hty2 : ptyped it td (assoc_set i v (pairs_of rest))).
  { apply Forall_forall. intros p Hp. apply assoc_set_In in Hp. destruct Hp as [->|Hp]; auto. unfold ptyped in Hty. rewrite Forall_forall in Hty. auto. }
  destruct (mk_array_sound it d td _ r Hit Hel Od Td Hc2 Hn2 Ho2 Hty2 E) as (O & Tc & Ev).
  split; [|split]; auto. rewrite Ev. rewrite eval_plain by reflexivity. cbn [map op_sem]. rewrite eval_array by auto.
  f_equal. apply functional_extensionality. intros x. now rewrite alook_assoc_set.
Qed.

Lemma r_select_sound a i ty r : okt a = true -> okt i = true ->
  tc (T OSelect [a; i]) = Some ty -> r_select a i = Some r -> res_ok r ty (eval I (T OSelect [a; i])).
Proof.
  intros Oa Oi Htc E.
  assert (Hid : res_ok (mk_select a i) ty (eval I (T OSelect [a; i]))).
  { split; [|split]; auto. now apply okt_select. }
  unfold r_select in E. destruct (is_array_value a && is_constant i) eqn:C; [|inversion E; subst; exact Hid]. clear Hid.
  apply andb_true_iff in C. destruct C as [Ca Ci]. destruct a as [o l]. destruct o; try discriminate Ca. cbn [targs] in E.
  destruct l as [|d rest]; [discriminate|]. inversion E; subst r. clear E.
  destruct (tc_inv _ _ _ Htc) as (tys & Ht & Hr). pose proof (tcs_Forall2 _ _ Ht) as F2.
  inversion F2 as [|? ta ? ? Ha F2']; subst. inversion F2' as [|? ti ? ? Hi F2'']; subst. inversion F2''; subst.
  destruct (arr_value_parts _ _ _ _ Oa Ha) as (td & -> & Td & Od & Hit & Hel & Hev & Hc & Hs & Ho & Hty & _).
  cbn in Hr. destruct (ty_eqb it ti) eqn:Et; [|discriminate]. inversion Hr; subst ty. apply ty_eqb_eq in Et. subst ti.
  pose proof (const_key_const i it Oi Hi Ci (idx_ok_basic _ Hit)) as Ki.
  assert (Ev : eval I (T OSelect [T (OArrayValue it) (d :: rest); i]) =
               match assoc_get i (pairs_of rest) with Some v => eval I v | None => eval I d end).
  { rewrite eval_plain by reflexivity. cbn [map op_sem]. rewrite eval_array by auto. fold (kv I i). rewrite alook_assoc_get by auto.
    destruct (assoc_get i (pairs_of rest)); [reflexivity|]. unfold SimplifierSemArr_proofs.cdef. now rewrite (kv_sorted i it Oi Hi). }
  rewrite Ev. destruct (assoc_get i (pairs_of rest)) as [v|] eqn:G.
  - apply assoc_get_In in G. unfold pokt in Ho. unfold ptyped in Hty. rewrite Forall_forall in Ho, Hty.
    destruct (Ho _ G) as [_ Ov]. destruct (Hty _ G) as [_ Tv]. repeat split; auto.
  - repeat split; auto.
Qed.
End ArrRules.

(* ================================================================== equality of two constant arrays *)
Open Scope Z_scope.
(* an index OF THE SORT that no constant of a finite list denotes, for the infinite index sorts *)
Definition kmeas (t : term) : Z :=
  match top t with OIntC z => Z.abs z | ORealC n _ => Z.abs n | OStrC s => Z.of_nat (List.length s) | _ => 0 end.
Definition fresh_key (it : ty) (m : Z) : key :=
  match it with TInt => KInt m | TReal => KReal (IZR m) | TStr => KStr (repeat 0 (Z.to_nat m)) | TUser n _ => KU n 0 | _ => KNone end.
Definition infinite_idx (it : ty) : bool := match it with TInt | TReal | TStr | TUser _ _ => true | _ => false end.
Lemma kmeas_nonneg t : 0 <= kmeas t.
Proof. unfold kmeas. destruct (top t); lia. Qed.
Lemma fresh_sorted it m : infinite_idx it = true -> key_sortb (fresh_key it m) it = true.
Proof. destruct it; cbn; try discriminate; auto. intros _. apply String.eqb_refl. Qed.
Lemma fresh_ne I it k m : key_const k = true -> tc k = Some it -> infinite_idx it = true -> kmeas k < m ->
  kv I k <> fresh_key it m.
Proof.
  intros Hk Tk Hi Hm. destruct (key_const_inv k Hk) as [[x ->]|[[x ->]|[(x & w & ->)|[[x ->]|(x & w & -> & D & G)]]]]; cbn in Tk.
  - inversion Tk; subst. discriminate Hi.
  - inversion Tk; subst. unfold kv. cbn. cbn in Hm. intros [= E]. lia.
  - destruct it; try discriminate Hi; unfold kv; cbn; discriminate.
  - inversion Tk; subst. unfold kv. cbn. cbn in Hm. intros [= E]. apply (f_equal (@List.length Z)) in E.
    rewrite repeat_length in E. lia.
  - inversion Tk; subst. unfold kv. cbn. cbn in Hm. intros [= E].
    replace (IZR m) with (Q2R' m 1) in E by (unfold Q2R'; field). apply (Q2R'_eq x w m 1 D ltac:(lia)) in E. nia.
Qed.
Lemma fresh_exists I it : forall ks : list term, Forall (fun k => key_const k = true /\ tc k = Some it) ks ->
  infinite_idx it = true -> exists x, key_sortb x it = true /\ forall k, In k ks -> kv I k <> x.
Proof.
  intros ks F Hi. exists (fresh_key it (1 + fold_right (fun k s => kmeas k + s) 0 ks)). split; [now apply fresh_sorted|].
  intros k Hk. rewrite Forall_forall in F. destruct (F k Hk) as [Kc Tk]. apply fresh_ne; auto.
  clear F. induction ks as [|k' r IH]; [contradiction|]. cbn [fold_right].
  assert (0 <= fold_right (fun k s => kmeas k + s) 0 r) by (clear; induction r; cbn; [lia | pose proof (kmeas_nonneg a); lia]).
  pose proof (kmeas_nonneg k'). destruct Hk as [->|Hk]; [lia | specialize (IH Hk); lia].
Qed.

(* the finite index sorts: all their keys *)
Definition allkeys (it : ty) : list key :=
  match it with
  | TBool => [KBool false; KBool true]
  | TBV w => map (fun n => KBV w (Z.of_nat n)) (seq 0 (Z.to_nat (2 ^ w)))
  | _ => []
  end.
Definition finite_idx (it : ty) : bool := match it with TBool | TBV _ => true | _ => false end.
Lemma allkeys_spec it k : finite_idx it = true -> (key_sortb k it = true <-> In k (allkeys it)).
Proof.
  destruct it; try discriminate; intros _; cbn [allkeys].
  - destruct k; cbn; try (split; [discriminate | intros [H|[H|[]]]; discriminate H]).
    destruct b; cbn; tauto.
  - rewrite in_map_iff. destruct k; cbn; try (split; [discriminate | intros (m0 & H & _); discriminate H]).
    rewrite !andb_true_iff, Z.eqb_eq, Z.leb_le, Z.ltb_lt. split.
    + intros [[-> H0] H1]. exists (Z.to_nat v). split; [now rewrite Z2Nat.id|]. apply in_seq. lia.
    + intros (m0 & [= <- <-] & Hn). apply in_seq in Hn. lia.
Qed.
Lemma allkeys_NoDup it : NoDup (allkeys it).
Proof.
  destruct it; cbn; try constructor.
  - intros [H|[]]; discriminate H.
  - constructor; [intros [] | constructor].
  - apply FinFun.Injective_map_NoDup; [|apply seq_NoDup]. intros a b [= H]. lia.
Qed.
Lemma allkeys_length it n : finite_idx it = true -> idx_covered it (Z.of_nat n) = true <-> (List.length (allkeys it) <= n)%nat.
Proof.
  destruct it; try discriminate; intros _; cbn.
  - rewrite Z.leb_le. lia.
  - rewrite map_length, seq_length, Z.leb_le. pose proof (Z.pow_nonneg 2 w ltac:(lia)). lia.
Qed.
Lemma NoDup_map_on {A B} (f : A -> B) : forall l, NoDup l -> (forall a b, In a l -> In b l -> f a = f b -> a = b) -> NoDup (map f l).
Proof.
  induction l as [|x r IH]; intros Hn Hinj; cbn; constructor.
  - inversion Hn as [|? ? Hx _]; subst. intros Hin. apply in_map_iff in Hin. destruct Hin as (y & E & Hy).
    apply Hx. rewrite <- (Hinj y x); cbn; auto.
  - inversion Hn; subst. apply IH; auto. intros a b Ha Hb. apply Hinj; cbn; auto.
Qed.
(* counting: a duplicate-free list of keys of a finite sort either contains them all or misses one *)
Lemma keys_covered it (L : list key) : finite_idx it = true -> NoDup L -> (forall x, In x L -> key_sortb x it = true) ->
  idx_covered it (zlen L) = true -> forall x, key_sortb x it = true -> In x L.
Proof.
  intros Hf Hn Hs Hc x Hx. unfold zlen in Hc. apply (allkeys_length it _ Hf) in Hc.
  apply (NoDup_length_incl Hn Hc); [|now apply allkeys_spec]. intros y Hy. apply allkeys_spec; auto.
Qed.
Lemma keys_not_covered it (L : list key) : finite_idx it = true -> NoDup L -> (forall x, In x L -> key_sortb x it = true) ->
  idx_covered it (zlen L) = false -> exists x, key_sortb x it = true /\ ~ In x L.
Proof.
  intros Hf Hn Hs Hc. destruct (classic (exists x, key_sortb x it = true /\ ~ In x L)) as [|Hno]; auto. exfalso.
  assert (Hincl : incl (allkeys it) L).
  { intros x Hx. destruct (classic (In x L)); auto. exfalso. apply Hno. exists x. split; auto. now apply allkeys_spec. }
  pose proof (NoDup_incl_length (allkeys_NoDup it) Hincl) as Hl. apply (allkeys_length it _ Hf) in Hl. unfold zlen in Hc. congruence.
Qed.
Close Scope Z_scope.

Lemma is_constant_array it l : is_constant (T (OArrayValue it) l) = forallb is_constant l.
Proof. cbn [is_constant]. induction l as [|x r IH]; [reflexivity|]. cbn [forallb]. now rewrite <- IH. Qed.

Lemma idx_ok_cases it : idx_ok it = true -> infinite_idx it = true \/ finite_idx it = true.
Proof. destruct it; cbn; auto; discriminate. Qed.
Lemma infinite_not_covered it n : infinite_idx it = true -> idx_covered it n = false.
Proof. destruct it; cbn; auto; discriminate. Qed.
Lemma NoDup_app' {A} (a b : list A) : NoDup a -> NoDup b -> (forall x, In x a -> ~ In x b) -> NoDup (a ++ b).
Proof.
  induction a as [|x r IH]; intros Ha Hb Hd; cbn; auto. inversion Ha as [|? ? Hx Hr]; subst. constructor.
  - intros Hin. apply in_app_or in Hin. destruct Hin as [Hin|Hin]; [auto | apply (Hd x); cbn; auto].
  - apply IH; auto. intros y Hy. apply Hd. cbn; auto.
Qed.
Lemma union_keys_NoDup a b : NoDup a -> NoDup b -> NoDup (union_keys a b).
Proof.
  intros Ha Hb. unfold union_keys. apply NoDup_app'; auto; [now apply NoDup_filter|].
  intros x Hx Hin. apply filter_In in Hin. destruct Hin as [_ Hin]. apply negb_true_iff in Hin.
  assert (C : existsb (term_eqb x) a = true) by (apply existsb_exists; exists x; split; auto; apply term_eqb_refl). congruence.
Qed.
Lemma union_keys_In a b k : In k (union_keys a b) <-> In k a \/ In k b.
Proof.
  unfold union_keys. rewrite in_app_iff, filter_In. split.
  - intros [H|[H _]]; auto.
  - intros [H|H]; auto. destruct (existsb (term_eqb k) a) eqn:E.
    + left. apply existsb_exists in E. destruct E as (x & Hx & Ex). apply term_eqb_sound in Ex. now subst.
    + right. auto.
Qed.
Lemma combine_false rs : combine_results rs = Some false -> In (Some false) rs.
Proof.
  unfold combine_results. destruct (existsb _ rs) eqn:E.
  - intros _. apply existsb_exists in E. destruct E as ([[|]|] & Hx & Ex); try discriminate. exact Hx.
  - destruct (existsb (fun r => match r with None => true | _ => false end) rs); intros H; discriminate H.
Qed.
Lemma combine_true rs : combine_results rs = Some true -> forall x, In x rs -> x = Some true.
Proof.
  unfold combine_results. destruct (existsb (fun r => match r with Some false => true | _ => false end) rs) eqn:E1; [discriminate|].
  destruct (existsb (fun r => match r with None => true | _ => false end) rs) eqn:E2; [discriminate|]. intros _ x Hx.
  destruct x as [[|]|]; auto.
  - assert (C : existsb (fun r => match r with Some false => true | _ => false end) rs = true) by (apply existsb_exists; eauto). congruence.
  - assert (C : existsb (fun r => match r with None => true | _ => false end) rs = true) by (apply existsb_exists; eauto). congruence.
Qed.

Section ArrEq.
Variable I : interp.
Hypothesis Hwf : wfi I.
Notation res_ok := (res_ok I).
Notation alook := (alook I).
Notation kv := (kv I).

(* constants that are not array values: compared by value *)
Lemma scalar_eqb_sound a b t : okt a = true -> okt b = true -> tc a = Some t -> tc b = Some t ->
  is_constant a = true -> is_constant b = true -> is_array_value a = false -> is_array_value b = false ->
  exists x y, constant_value a = Some x /\ constant_value b = Some y /\ (pyval_eqb x y = true <-> eval I a = eval I b).
Proof.
  intros Oa Ob Ta Tb Ca Cb Aa Ab.
  destruct (const_cases a t Oa Ta Ca) as [(x & -> & ->)|[(x & -> & ->)|[(n1 & d1 & -> & -> & D1)|[(v1 & w1 & -> & ->)|[(s1 & -> & ->)|(? & ? & _ & Ea)]]]]];
    [| | | | |congruence];
    destruct (const_cases b _ Ob Tb Cb) as [(y & -> & Ey)|[(y & -> & Ey)|[(n2 & d2 & -> & Ey & D2)|[(v2 & w2 & -> & Ey)|[(s2 & -> & Ey)|(? & ? & Ey & _)]]]]];
    try discriminate Ey; do 2 eexists; (split; [reflexivity|]); (split; [reflexivity|]); cbn; unfold fr_eqb; cbn [fst snd].
  - rewrite Z.eqb_eq. destruct x, y; split; intros H; try reflexivity; try discriminate H; lia.
  - rewrite Z.eqb_eq. split; [intros H; f_equal; lia | intros [= H]; lia].
  - rewrite Z.eqb_eq, <- (Q2R'_eq n1 d1 n2 d2 D1 D2). split; [intros ->; reflexivity | intros [= H]; exact H].
  - inversion Ey; subst. rewrite Z.eqb_eq. split; [intros H; f_equal; lia | intros [= H]; lia].
  - split; [intros H; f_equal; now apply zs_eqb_eq | intros [= H]; now apply zs_eqb_eq].
Qed.

(* an array value of the fragment that is a constant: its parts *)
Lemma const_array_parts l it e : okt l = true -> tc l = Some (TArr it e) -> is_constant l = true ->
  exists d rest, l = T (OArrayValue it) (d :: rest) /\ tc d = Some e /\ okt d = true /\ is_constant d = true /\
    idx_ok it = true /\ Nat.even (List.length rest) = true /\ kconsts (pairs_of rest) /\ NoDup (keys (pairs_of rest)) /\
    ptyped it e (pairs_of rest) /\ pokt (pairs_of rest) /\
    (forall k, okt (arr_get k (pairs_of rest) d) = true /\ tc (arr_get k (pairs_of rest) d) = Some e /\
               is_constant (arr_get k (pairs_of rest) d) = true).
Proof.
  intros O Tc C.
  destruct (const_cases l _ O Tc C) as [(x & -> & E)|[(x & -> & E)|[(n1 & d1 & -> & E & D1)|[(v1 & w1 & -> & E)|[(s1 & -> & E)|(? & ? & _ & Al)]]]]];
    try discriminate E.
  destruct l as [o ll]. destruct o; try discriminate Al. destruct ll as [|d rest]; [apply okt_node in O; discriminate O|].
  destruct (arr_value_parts _ _ _ _ O Tc) as (td & Ety & Td & Od & Hit & Hel & Hev & Hc & Hs & Ho & Hty & _).
  inversion Ety; subst. rewrite is_constant_array in C. cbn [forallb] in C. apply andb_true_iff in C. destruct C as [Cd Cr].
  exists d, rest. repeat split; auto. { now apply keys_sorted_NoDup. }
  all: try exact Ho.
  all: unfold arr_get; destruct (assoc_get k (pairs_of rest)) as [v|] eqn:G; auto; apply assoc_get_In in G;
    unfold pokt, ptyped in *; rewrite Forall_forall in Ho, Hty; destruct (Ho _ G) as [_ Ov]; destruct (Hty _ G) as [_ Tv]; auto.
  rewrite forallb_forall in Cr. apply Cr. now destruct (pairs_of_In _ _ G).
Qed.

Lemma const_eqb_sound : forall fuel l r t b, okt l = true -> okt r = true -> tc l = Some t -> tc r = Some t ->
  is_constant l = true -> is_constant r = true -> const_eqb fuel l r = Some b -> (b = true <-> eval I l = eval I r).
Proof.
  induction fuel as [|f IH]; intros l r t b Ol Or Tl Tr Cl Cr E; [discriminate E|]. cbn [const_eqb] in E.
  destruct (term_eqb l r) eqn:Eq. { apply term_eqb_sound in Eq. subst. inversion E. tauto. }
  rewrite Cl, Cr in E. cbn [negb orb] in E.
  destruct (is_array_value l) eqn:Al.
  - (* array values *)
    destruct l as [ol ll]. destruct ol; try discriminate Al.
    destruct (tc_inv _ _ _ Tl) as (tys & _ & Hr). cbn in Hr. destruct tys as [|td trest]; [discriminate|].
    destruct (array_value_ok it td trest true); [|discriminate]. inversion Hr; subst t. clear Hr.
    destruct (const_array_parts _ it td Ol Tl Cl) as (dl & rl & El & Tdl & Odl & Cdl & Hit & Hevl & Hcl & Hnl & Htyl & Hol & Gl).
    inversion El; subst ll. clear El.
    destruct (const_array_parts _ it td Or Tr Cr) as (dr & rr & -> & Tdr & Odr & Cdr & _ & Hevr & Hcr & Hnr & Htyr & Hor & Gr).
    cbn zeta in E. set (pl := pairs_of rl) in *. set (pr := pairs_of rr) in *.
    set (ks := union_keys (keys pl) (keys pr)) in *.
    rewrite !eval_array by auto. fold pl pr.
    assert (Hk : forall k, In k ks -> key_const k = true /\ tc k = Some it /\ okt k = true).
    { intros k Hk. apply union_keys_In in Hk. unfold kconsts, ptyped, pokt in *. rewrite Forall_forall in Hcl, Hcr, Htyl, Htyr, Hol, Hor.
      destruct Hk as [Hk|Hk]; apply in_map_iff in Hk; destruct Hk as (p & <- & Hp).
      - destruct (Htyl _ Hp), (Hol _ Hp). split; [now apply Hcl | auto].
      - destruct (Htyr _ Hp), (Hor _ Hp). split; [now apply Hcr | auto]. }
    assert (Hks : forall k, In k ks -> key_sortb (kv k) it = true).
    { intros k Hin. destruct (Hk k Hin) as (_ & Tk & Ok). unfold SimplifierSemArr_proofs.kv. apply has_ty_key_sortb. now apply okt_sound. }
    assert (Hget : forall k, In k ks ->
               alook pl (cdef I it dl) (kv k) = eval I (arr_get k pl dl) /\ alook pr (cdef I it dr) (kv k) = eval I (arr_get k pr dr)).
    { intros k Hin. destruct (Hk k Hin) as [Kc _]. unfold arr_get. rewrite !(alook_assoc_get I _ k Kc) by auto.
      unfold cdef. rewrite (Hks k Hin). split; [destruct (assoc_get k pl) | destruct (assoc_get k pr)]; reflexivity. }
    assert (Hout : forall x, (forall k, In k ks -> kv k <> x) ->
               alook pl (cdef I it dl) x = cdef I it dl x /\ alook pr (cdef I it dr) x = cdef I it dr x).
    { intros x Hx. split; apply alook_notin; intros p Hp; apply Hx; apply union_keys_In; [left | right]; now apply in_map. }
    assert (HnL : NoDup (map kv ks)).
    { apply NoDup_map_on; [now apply union_keys_NoDup|]. intros a0 b0 Ha0 Hb0 Eab. destruct (Hk a0 Ha0) as [Ka _]. destruct (Hk b0 Hb0) as [Kb _].
      now apply (kv_inj I). }
    assert (HsL : forall x, In x (map kv ks) -> key_sortb x it = true).
    { intros x Hx. apply in_map_iff in Hx. destruct Hx as (k & <- & Hin). now apply Hks. }
    assert (Hzl : zlen ks = zlen (map kv ks)) by (unfold zlen; now rewrite map_length).
    destruct (combine_results _) as [[|]|] eqn:Ec; [| |discriminate E].
    + (* every assigned index agrees *)
      pose proof (combine_true _ Ec) as Hall.
      assert (Hkeys : forall k, In k ks -> eval I (arr_get k pl dl) = eval I (arr_get k pr dr)).
      { intros k Hin. assert (Ek : const_eqb f (arr_get k pl dl) (arr_get k pr dr) = Some true) by (apply Hall; apply in_map_iff; eauto).
        destruct (Gl k) as (A1 & A2 & A3). destruct (Gr k) as (B1 & B2 & B3).
        apply (IH _ _ td true A1 B1 A2 B2 A3 B3 Ek). reflexivity. }
      assert (Hsame : (forall x, key_sortb x it = true -> (forall k, In k ks -> kv k <> x) -> eval I dl = eval I dr) ->
                      alook pl (cdef I it dl) = alook pr (cdef I it dr)).
      { intros Hdef. apply functional_extensionality. intros x.
        destruct (classic (exists k, In k ks /\ kv k = x)) as [(k & Hin & <-)|Hno].
        - destruct (Hget k Hin) as [-> ->]. now apply Hkeys.
        - assert (Hx : forall k, In k ks -> kv k <> x) by (intros k Hin Ex; apply Hno; eauto).
          destruct (Hout x Hx) as [-> ->]. unfold cdef. destruct (key_sortb x it) eqn:Sx; [|reflexivity]. now apply (Hdef x). }
      destruct (idx_covered it (zlen ks)) eqn:Cov.
      * (* the assigned indices cover the finite index sort: the defaults are not seen *)
        inversion E; subst b. split; [intros _|reflexivity]. f_equal. apply Hsame. intros x Sx Hx. exfalso.
        assert (Hf : finite_idx it = true) by (destruct it; try discriminate Cov; reflexivity).
        rewrite Hzl in Cov. pose proof (keys_covered it _ Hf HnL HsL Cov x Sx) as Hin.
        apply in_map_iff in Hin. destruct Hin as (k & Ek & Hin). exact (Hx k Hin Ek).
      * (* some index of the sort is left to both defaults: they decide *)
        pose proof (IH dl dr td b Odl Odr Tdl Tdr Cdl Cdr E) as Hd.
        assert (Hfree : exists x, key_sortb x it = true /\ forall k, In k ks -> kv k <> x).
        { destruct (idx_ok_cases it Hit) as [Hinf|Hfin].
          - apply (fresh_exists I it ks); auto. apply Forall_forall. intros k Hin. destruct (Hk k Hin) as (A & B & _). auto.
          - rewrite Hzl in Cov. destruct (keys_not_covered it _ Hfin HnL HsL Cov) as (x & Sx & Hx). exists x. split; auto.
            intros k Hin Ek. apply Hx. apply in_map_iff. eauto. }
        split.
        -- intros Hb. f_equal. apply Hsame. intros x _ _. now apply Hd.
        -- intros [= Hf]. apply Hd. destruct Hfree as (x & Sx & Hx).
           destruct (Hout x Hx) as [E1 E2]. rewrite Hf, E2 in E1. unfold cdef in E1. now rewrite Sx in E1.
    + (* some assigned index disagrees *)
      inversion E; subst b. apply combine_false in Ec. apply in_map_iff in Ec. destruct Ec as (k & Ek & Hin).
      destruct (Gl k) as (A1 & A2 & A3). destruct (Gr k) as (B1 & B2 & B3).
      pose proof (IH _ _ td false A1 B1 A2 B2 A3 B3 Ek) as Hne.
      split; [discriminate|]. intros [= Hf]. exfalso. destruct (Hget k Hin) as [E1 E2].
      assert (C : false = true) by (apply Hne; rewrite <- E1, <- E2; now rewrite Hf). discriminate C.
  - (* other constants *)
    assert (Ar : is_array_value r = false).
    { destruct (is_array_value r) eqn:Ar; auto. exfalso. destruct r as [o rr]. destruct o; try discriminate Ar.
      destruct (tc_inv _ _ _ Tr) as (tys & _ & Hr). cbn in Hr. destruct tys as [|td trest]; [discriminate|].
      destruct (array_value_ok it td trest true); [|discriminate]. inversion Hr; subst t.
      destruct (const_cases l _ Ol Tl Cl) as [(x & -> & E')|[(x & -> & E')|[(n1 & d1 & -> & E' & D1)|[(v1 & w1 & -> & E')|[(s1 & -> & E')|(? & ? & _ & Al')]]]]];
        try discriminate E'. congruence. }
    destruct (scalar_eqb_sound l r t Ol Or Tl Tr Cl Cr Al Ar) as (x & y & Ex & Ey & Hxy).
    destruct l as [ol ll], r as [or' lr].
    destruct ol; cbn in Cl, Al; try discriminate Cl; try discriminate Al;
      destruct or'; cbn in Cr, Ar; try discriminate Cr; try discriminate Ar;
      cbn in E, Ex, Ey; injection Ex as <-; injection Ey as <-; injection E as <-; exact Hxy.
Qed.

Lemma r_equals_arr_sound a b ty r : okt a = true -> okt b = true -> tc (T OEquals [a; b]) = Some ty ->
  is_array_value a || is_array_value b = true ->
  r_equals a b = Some r -> res_ok r ty (eval I (T OEquals [a; b])).
Proof.
  intros Oa Ob Htc Harr E.
  destruct (tc_inv _ _ _ Htc) as (tys & Ht & Hr). pose proof (equals_out _ _ Hr). subst ty.
  pose proof (tcs_Forall2 _ _ Ht) as F2.
  inversion F2 as [|? ta ? ? Ha F2']; subst. inversion F2' as [|? tb ? ? Hb F2'']; subst. inversion F2''; subst.
  destruct (equals_same _ _ _ Hr) as [<- Hnb].
  assert (Hid : res_ok (mk_equals a b) TBool (eval I (T OEquals [a; b]))).
  { split; [|split]; auto. apply okt_intro; [reflexivity | repeat constructor; auto]. }
  unfold r_equals in E.
  assert (C1 : is_constant a && is_constant b && negb (is_array_value a) && negb (is_array_value b) = false).
  { destruct (is_array_value a), (is_array_value b); try discriminate Harr; cbn; now rewrite ?andb_false_r. }
  rewrite C1 in E. clear C1.
  destruct (term_eqb a b) eqn:Eq.
  { apply term_eqb_sound in Eq. subst b. inversion E; subst r. repeat split. rewrite eval_plain by reflexivity. cbn. now rewrite veqb_refl. }
  destruct (is_constant a && is_constant b) eqn:C; [|inversion E; subst; exact Hid].
  apply andb_true_iff in C. destruct C as [Ca Cb].
  destruct (const_eqb (S (tsize a)) a b) as [x|] eqn:Ec; inversion E; subst r.
  pose proof (const_eqb_sound _ a b ta x Oa Ob Ha Hb Ca Cb Ec) as Hx.
  repeat split. rewrite eval_plain by reflexivity. cbn [map op_sem]. unfold mk_bool. cbn. f_equal. symmetry. now apply veqb_dec.
Qed.
End ArrEq.
