(* C01 / C02: on closed, quantifier-free, UF-free terms of the fragment in which no division by
   a zero-valued divisor occurs, the simplifier model returns a CONSTANT (and, by
   SimplifierSem_proofs, the constant that denotes the value of the term). *)
From Coq Require Import List ZArith Bool String Reals Lia Lra.
From PySMT.core Require Import Syntax SyntaxLemmas PyPrims Types Sem.
From PySMT.models Require Import TypeChecker Oracles Ctors Simplifier.
From PySMT.proofs Require Import Sets_proofs TypeChecker_proofs Simplifier_proofs SimplifierSem_proofs.
Import ListNotations.
Open Scope bool_scope.

(* operators of the fragment that fold: everything of stages 1-2 except symbols, function
   applications and quantifiers *)
Definition cop (o : op) : bool :=
  match o with
  | OAnd | OOr | ONot | OImplies | OIff | OIte | OEquals
  | OPlus | OTimes | OMinus | OLe | OLt | OToReal | ODiv | OPow
  | OBoolC _ | OIntC _ | ORealC _ _ | OBVC _ _ | OStrC _ => true
  | _ => false
  end.
Fixpoint cops (t : term) : bool :=
  match t with T o args => cop o && (fix all (l : list term) : bool := match l with [] => true | x :: r => cops x && all r end) args end.
Definition cfrag (t : term) : bool := okt t && cops t.
Lemma cops_unfold o args : cops (T o args) = cop o && forallb cops args.
Proof. reflexivity. Qed.

(* no division whose divisor evaluates to zero, anywhere in the term (also in branches not taken) *)
Fixpoint nodiv0 (I : interp) (t : term) {struct t} : Prop :=
  match t with
  | T o args =>
      match o, args with ODiv, [a; b] => ~ is_zero_val (eval I b) | _, _ => True end /\
      (fix all (l : list term) : Prop := match l with [] => True | x :: r => nodiv0 I x /\ all r end) args
  end.
Lemma nodiv0_args I o args : nodiv0 I (T o args) -> Forall (nodiv0 I) args.
Proof. intros [_ H]. induction args as [|x r IH]; constructor; destruct H; auto. Qed.
Lemma nodiv0_div_safe I : forall t, cops t = true -> nodiv0 I t -> div_safe I t.
Proof.
  induction t as [o args IH] using term_ind'. intros Hc Hn.
  rewrite cops_unfold in Hc. apply andb_true_iff in Hc. destruct Hc as [Ho Hc].
  pose proof (nodiv0_args _ _ _ Hn) as Fn. rewrite forallb_forall in Hc.
  assert (Fd : Forall (div_safe I) args).
  { rewrite Forall_forall in *. intros a Ha. apply IH; auto. }
  assert (Hall : (fix all (l : list term) : Prop := match l with [] => True | x :: r => div_safe I x /\ all r end) args).
  { clear - Fd. induction Fd; cbn; auto. }
  destruct o; try discriminate Ho; cbn [div_safe]; try exact Hall.
  - (* ite *) destruct args as [|c [|a [|b [|? ?]]]]; try exact Hall.
    inversion Fd as [|? ? Dc Fd']; subst. inversion Fd' as [|? ? Da Fd'']; subst. inversion Fd'' as [|? ? Db ?]; subst.
    split; auto. destruct (vbool (eval I c)); auto.
  - (* div *) destruct args as [|a [|b [|? ?]]]; try exact Hall.
    inversion Fd as [|? ? Da Fd']; subst. inversion Fd' as [|? ? Db ?]; subst. destruct Hn as [Hz _]. auto.
Qed.

(* constants *)
Definition kconst (c : term) : Prop :=
  exists o, c = T o [] /\ match o with OBoolC _ | OIntC _ | ORealC _ _ | OBVC _ _ | OStrC _ => True | _ => False end.
Lemma kconst_is_const c : kconst c -> is_const c = true.
Proof. intros (o & -> & Ho). destruct o; try contradiction; reflexivity. Qed.
Lemma kconst_is_constant c : kconst c -> is_constant c = true.
Proof. intros (o & -> & Ho). destruct o; try contradiction; reflexivity. Qed.
Lemma is_constant_kconst c t : okt c = true -> tc c = Some t -> is_constant c = true -> kconst c.
Proof.
  intros O Tc C.
  destruct (const_cases c t O Tc C) as [(b & -> & _)|[(z & -> & _)|[(n & d & -> & _)|[(v & w & -> & _)|(s & -> & _)]]]];
    eexists; split; try reflexivity; exact Logic.I.
Qed.

(* ------------------------------------------------------------------ Boolean connectives *)
Definition bconst (c : term) : Prop := exists b, c = TBoolC b.
Lemma bconst_kconst c : bconst c -> kconst c.
Proof. intros [b ->]. exists (OBoolC b). split; [reflexivity | exact Logic.I]. Qed.
Lemma bterm_kconst_bconst c : bterm c -> kconst c -> bconst c.
Proof.
  intros Hb (o & -> & Ho). destruct o; try contradiction; destruct Hb as [_ Tc]; cbn in Tc; try discriminate.
  exists b. reflexivity.
Qed.
Lemma loop_bconst skip absorb flat cs :
  (forall b, skip (TBoolC b) = negb (absorb (TBoolC b))) ->
  Forall bconst cs -> forall acc,
  nary_loop skip absorb flat cs acc = None \/ nary_loop skip absorb flat cs acc = Some acc.
Proof.
  intros Hsa. induction 1 as [|c r [b ->] Hr IH]; intros acc; cbn [nary_loop]; auto.
  rewrite Hsa. destruct (absorb (TBoolC b)); cbn [negb]; auto.
Qed.
Lemma reorder_const ora o args c : kconst c -> reorder ora o args c = c.
Proof.
  intros (oc & -> & Ho). unfold reorder. destruct (ora o args) as [r'|]; auto.
  destruct r' as [o' l']. destruct oc; try contradiction; reflexivity.
Qed.
Lemma same_pair_In args a : same_pair args = Some a -> In a args.
Proof.
  unfold same_pair. destruct args as [|x [|y [|? ?]]]; try discriminate. destruct (term_eqb x y); [|discriminate].
  intros [= ->]. cbn; auto.
Qed.
Lemma r_and_const ora cs : Forall bconst cs -> kconst (r_and ora cs).
Proof.
  intros H. unfold r_and. destruct (same_pair cs) as [a|] eqn:E.
  - apply same_pair_In in E. rewrite Forall_forall in H. apply bconst_kconst. auto.
  - destruct (loop_bconst is_true is_false is_and cs (fun b => match b with true => eq_refl | false => eq_refl end) H []) as [-> | ->].
    + apply bconst_kconst. exists false. reflexivity.
    + cbn [mk_and]. rewrite reorder_const; apply bconst_kconst; exists true; reflexivity.
Qed.
Lemma r_or_const ora cs : Forall bconst cs -> kconst (r_or ora cs).
Proof.
  intros H. unfold r_or. destruct (same_pair cs) as [a|] eqn:E.
  - apply same_pair_In in E. rewrite Forall_forall in H. apply bconst_kconst. auto.
  - destruct (loop_bconst is_false is_true is_or cs (fun b => match b with true => eq_refl | false => eq_refl end) H []) as [-> | ->].
    + apply bconst_kconst. exists true. reflexivity.
    + cbn [mk_or]. rewrite reorder_const; apply bconst_kconst; exists false; reflexivity.
Qed.

(* ------------------------------------------------------------------ arithmetic on constants *)
Definition nconst (t : ty) (c : term) : Prop :=
  (t = TInt /\ exists z, c = TIntC z) \/ (t = TReal /\ exists n d, c = TRealC n d /\ (0 < d)%Z).
Lemma nterm_kconst_nconst t c : arith t -> nterm t c -> kconst c -> nconst t c.
Proof. intros Ht N K. apply nterm_const_shape; auto. now apply kconst_is_constant. Qed.
Lemma nconst_kconst t c : nconst t c -> kconst c.
Proof.
  intros [[_ (z & ->)]|[_ (n & d & -> & _)]]; eexists; split; try reflexivity; exact Logic.I.
Qed.
Lemma mk_real_kconst f : kconst (mk_real f).
Proof. unfold mk_real. destruct (fr_norm (fst f) (snd f)). eexists; split; [reflexivity | exact Logic.I]. Qed.
Lemma mk_int_kconst z : kconst (mk_int z).
Proof. eexists; split; [reflexivity | exact Logic.I]. Qed.
Lemma mk_bool_kconst b : kconst (mk_bool b).
Proof. eexists; split; [reflexivity | exact Logic.I]. Qed.

(* accumulated constants of Int terms keep denominator 1 *)
Lemma fr_norm_int x : fr_norm x 1 = (x, 1%Z).
Proof. unfold fr_norm. cbn. rewrite Z.gcd_1_r. rewrite !Z.div_1_r. reflexivity. Qed.
Lemma fr_add_int a b : fr_add (a, 1%Z) (b, 1%Z) = ((a + b)%Z, 1%Z).
Proof. unfold fr_add. cbn [fst snd]. rewrite !Z.mul_1_r. apply fr_norm_int. Qed.
Lemma fr_mul_int a b : fr_mul (a, 1%Z) (b, 1%Z) = ((a * b)%Z, 1%Z).
Proof. unfold fr_mul. cbn [fst snd]. apply fr_norm_int. Qed.
Definition acc_ok (t : ty) (f : frac) : Prop := t = TInt -> snd f = 1%Z.
Lemma const_of_type_total t f : arith t -> acc_ok t f -> exists c, const_of_type (Some t) f = Some c /\ kconst c.
Proof.
  intros [-> | ->] H; cbn.
  - unfold fr_is_int. rewrite (H eq_refl). cbn. eexists; split; [reflexivity | apply mk_int_kconst].
  - eexists; split; [reflexivity | apply mk_real_kconst].
Qed.
Lemma nconst_num_value t c : nconst t c -> is_constant c = true /\ exists v, num_value c = Some v /\ acc_ok t v.
Proof.
  intros [[-> (z & ->)]|[-> (n & d & -> & _)]]; split; try reflexivity; eexists; split; try reflexivity.
  - intros _. reflexivity.
  - intros H. discriminate.
Qed.
Lemma acc_ok_add t a b : acc_ok t a -> acc_ok t b -> acc_ok t (fr_add a b).
Proof. intros Ha Hb E. destruct a as [a1 a2], b as [b1 b2]. pose proof (Ha E) as H1. pose proof (Hb E) as H2. cbn in H1, H2. subst a2 b2. now rewrite fr_add_int. Qed.
Lemma acc_ok_mul t a b : acc_ok t a -> acc_ok t b -> acc_ok t (fr_mul a b).
Proof. intros Ha Hb E. destruct a as [a1 a2], b as [b1 b2]. pose proof (Ha E) as H1. pose proof (Hb E) as H2. cbn in H1, H2. subst a2 b2. now rewrite fr_mul_int. Qed.

Lemma plus_walk_consts t tt cs : Forall (nconst t) cs -> forall st, acc_ok t (cadd st) ->
  exists f, fold_right (plus_walk tt) st cs =
            {| to_sum := to_sum st; to_sub := to_sub st; cadd := f; perr := perr st |} /\ acc_ok t f.
Proof.
  induction 1 as [|c r Hc Hr IH]; intros st Hst; cbn [fold_right].
  - exists (cadd st). split; auto. destruct st; reflexivity.
  - destruct (IH st Hst) as (f & -> & Hf).
    destruct (nconst_num_value t c Hc) as [Cc (v & Hv & Av)].
    destruct c as [o l]. cbn [plus_walk]. rewrite Cc, Hv. cbn [to_sum to_sub cadd perr].
    eexists. split; [reflexivity|]. now apply acc_ok_add.
Qed.
Lemma r_plus_const t cs : arith t -> cs <> [] -> Forall (nterm t) cs -> Forall (nconst t) cs ->
  exists c, r_plus cs = Some c /\ kconst c.
Proof.
  intros Ht Hne Fn Fc. unfold r_plus. destruct cs as [|a0 rest]; [congruence|].
  assert (Hty : tc a0 = Some t) by (inversion Fn as [|? ? [_ H] _]; exact H). rewrite Hty.
  destruct (plus_walk_consts t (Some t) (a0 :: rest) Fc {| to_sum := []; to_sub := []; cadd := (0%Z, 1%Z); perr := false |}) as (f & -> & Hf).
  { intros _. reflexivity. }
  cbn [perr to_sum to_sub cadd]. unfold Simplifier.bind.
  destruct (const_of_type_total t f Ht Hf) as (c & -> & Kc). eauto.
Qed.

Lemma times_walk_consts t cs : Forall (nconst t) cs -> forall st, acc_ok t (cmul st) ->
  exists f z, fold_right times_walk st cs =
              {| t_args := t_args st; cmul := f; tzero := z; terr := terr st |} /\ acc_ok t f.
Proof.
  induction 1 as [|c r Hc Hr IH]; intros st Hst; cbn [fold_right].
  - exists (cmul st), (tzero st). split; auto. destruct st; reflexivity.
  - destruct (IH st Hst) as (f & z & -> & Hf).
    destruct (nconst_num_value t c Hc) as [Cc (v & Hv & Av)].
    destruct c as [o l]. cbn [times_walk]. rewrite Cc, Hv. cbn [t_args cmul tzero terr].
    destruct (is_zero (T o l)); do 2 eexists; (split; [reflexivity|]); auto. now apply acc_ok_mul.
Qed.
Lemma r_times_const ora t cs : arith t -> cs <> [] -> Forall (nterm t) cs -> Forall (nconst t) cs ->
  exists c, r_times ora cs = Some c /\ kconst c.
Proof.
  intros Ht Hne Fn Fc. unfold r_times. destruct cs as [|a0 rest]; [congruence|].
  assert (Hty : tc a0 = Some t) by (inversion Fn as [|? ? [_ H] _]; exact H). rewrite Hty.
  destruct (times_walk_consts t (a0 :: rest) Fc {| t_args := []; cmul := (1%Z, 1%Z); tzero := false; terr := false |}) as (f & z & -> & Hf).
  { intros _. reflexivity. }
  cbn [t_args cmul tzero terr]. destruct z.
  - apply const_of_type_total; auto. intros _. reflexivity.
  - unfold Simplifier.bind. destruct (const_of_type_total t f Ht Hf) as (c & -> & Kc).
    destruct (is_zero c); eauto.
Qed.

(* ------------------------------------------------------------------ one node on constant arguments *)
Lemma Forall_bconst l : Forall bterm l -> Forall kconst l -> Forall bconst l.
Proof. intros H K. induction H; inversion K; subst; constructor; auto. now apply bterm_kconst_bconst. Qed.
Lemma Forall_nconst t l : arith t -> Forall (nterm t) l -> Forall kconst l -> Forall (nconst t) l.
Proof. intros Ht H K. induction H; inversion K; subst; constructor; auto. now apply nterm_kconst_nconst. Qed.

Lemma bool_op_ty o cs ty : (o = OAnd \/ o = OOr \/ o = ONot \/ o = OImplies \/ o = OIff) ->
  tc (T o cs) = Some ty -> ty = TBool.
Proof.
  intros Ho H. destruct (tc_inv _ _ _ H) as (tys & _ & Hr).
  destruct Ho as [-> | [-> | [-> | [-> | ->]]]]; cbn in Hr; apply all_bool_inv in Hr; tauto.
Qed.

Lemma rule_const ora o cs ty : okt (T o cs) = true -> tc (T o cs) = Some ty -> cop o = true ->
  Forall kconst cs ->
  (match o, cs with ODiv, [_; b] => is_zero b = false | _, _ => True end) ->
  exists c, rule ora o cs = Some c /\ kconst c.
Proof.
  intros Hok Htc Hc K Hdiv.
  pose proof (okt_node _ _ Hok) as Hn. pose proof (okt_args _ _ Hok) as Fa.
  destruct o; try discriminate Hc; cbn [ok_node] in Hn; cbn [rule]; unfold un, bin, tern.
  - (* and *) pose proof (bool_op_ty OAnd cs ty (or_introl eq_refl) Htc) as ->. pose proof (bterm_args OAnd cs (or_introl eq_refl) (conj Hok Htc)) as F.
    eexists; split; [reflexivity|]. apply r_and_const. now apply Forall_bconst.
  - (* or *) pose proof (bool_op_ty OOr cs ty (or_intror (or_introl eq_refl)) Htc) as ->. pose proof (bterm_args OOr cs (or_intror (or_introl eq_refl)) (conj Hok Htc)) as F.
    eexists; split; [reflexivity|]. apply r_or_const. now apply Forall_bconst.
  - (* not *) pose proof (bool_op_ty ONot cs ty (or_intror (or_intror (or_introl eq_refl))) Htc) as ->. pose proof (bterm_args ONot cs (or_intror (or_intror (or_introl eq_refl))) (conj Hok Htc)) as F.
    destruct cs as [|a [|? ?]]; try discriminate. pose proof (Forall_bconst _ F K) as B. inversion B as [|? ? [b ->] _]; subst.
    eexists; split; [reflexivity|]. apply mk_bool_kconst.
  - (* implies *) pose proof (bool_op_ty OImplies cs ty (or_intror (or_intror (or_intror (or_introl eq_refl)))) Htc) as ->. pose proof (bterm_args OImplies cs (or_intror (or_intror (or_intror (or_introl eq_refl)))) (conj Hok Htc)) as F.
    destruct cs as [|a [|b [|? ?]]]; try discriminate. pose proof (Forall_bconst _ F K) as B.
    inversion B as [|? ? [x ->] B']; subst. inversion B' as [|? ? [y ->] _]; subst.
    eexists; split; [reflexivity|]. cbn. destruct x; [apply bconst_kconst; exists y; reflexivity | apply mk_bool_kconst].
  - (* iff *) pose proof (bool_op_ty OIff cs ty (or_intror (or_intror (or_intror (or_intror eq_refl)))) Htc) as ->. pose proof (bterm_args OIff cs (or_intror (or_intror (or_intror (or_intror eq_refl)))) (conj Hok Htc)) as F.
    destruct cs as [|a [|b [|? ?]]]; try discriminate. pose proof (Forall_bconst _ F K) as B.
    inversion B as [|? ? [x ->] B']; subst. inversion B' as [|? ? [y ->] _]; subst.
    eexists; split; [reflexivity|]. apply mk_bool_kconst.
  - (* real *) pose proof (const_no_args _ _ _ Htc Logic.I) as ->. eexists; split; [reflexivity|]. eexists; split; [reflexivity | exact Logic.I].
  - pose proof (const_no_args _ _ _ Htc Logic.I) as ->. eexists; split; [reflexivity|]. eexists; split; [reflexivity | exact Logic.I].
  - pose proof (const_no_args _ _ _ Htc Logic.I) as ->. eexists; split; [reflexivity|]. eexists; split; [reflexivity | exact Logic.I].
  - pose proof (const_no_args _ _ _ Htc Logic.I) as ->. eexists; split; [reflexivity|]. eexists; split; [reflexivity | exact Logic.I].
  - (* plus *)
    destruct (nterm_args OPlus ty cs (or_introl eq_refl) (conj Hok Htc)) as [Har F].
    apply (r_plus_const ty); auto; [destruct cs; [discriminate | congruence] | now apply Forall_nconst].
  - (* minus *)
    destruct (nterm_args OMinus ty cs (or_intror (or_intror (or_introl eq_refl))) (conj Hok Htc)) as [Har F].
    destruct cs as [|a [|b [|? ?]]]; try discriminate. pose proof (Forall_nconst ty _ Har F K) as B.
    inversion B as [|? ? Ba B']; subst. inversion B' as [|? ? Bb _]; subst.
    destruct Ba as [[-> (z1 & ->)]|[-> (n1 & d1 & -> & _)]]; destruct Bb as [[E (z2 & ->)]|[E (n2 & d2 & -> & _)]]; try discriminate E;
      eexists; (split; [reflexivity|]); [apply mk_int_kconst | apply mk_real_kconst].
  - (* times *)
    destruct (nterm_args OTimes ty cs (or_intror (or_introl eq_refl)) (conj Hok Htc)) as [Har F].
    apply (r_times_const ora ty); auto; [destruct cs; [discriminate | congruence] | now apply Forall_nconst].
  - (* le *)
    destruct cs as [|a [|b [|? ?]]]; try discriminate.
    destruct (rel_args OLe a b ty (or_introl eq_refl) Hok Htc) as [-> (u & Hu & Na & Nb)].
    inversion K as [|? ? Ka K']; subst. inversion K' as [|? ? Kb _]; subst.
    destruct (nterm_kconst_nconst u a Hu Na Ka) as [[-> (z1 & ->)]|[-> (n1 & d1 & -> & _)]];
      destruct (nterm_kconst_nconst _ b Hu Nb Kb) as [[E (z2 & ->)]|[E (n2 & d2 & -> & _)]]; try discriminate E;
      eexists; (split; [reflexivity|]); apply mk_bool_kconst.
  - (* lt *)
    destruct cs as [|a [|b [|? ?]]]; try discriminate.
    destruct (rel_args OLt a b ty (or_intror eq_refl) Hok Htc) as [-> (u & Hu & Na & Nb)].
    inversion K as [|? ? Ka K']; subst. inversion K' as [|? ? Kb _]; subst.
    destruct (nterm_kconst_nconst u a Hu Na Ka) as [[-> (z1 & ->)]|[-> (n1 & d1 & -> & _)]];
      destruct (nterm_kconst_nconst _ b Hu Nb Kb) as [[E (z2 & ->)]|[E (n2 & d2 & -> & _)]]; try discriminate E;
      eexists; (split; [reflexivity|]); apply mk_bool_kconst.
  - (* equals *)
    destruct cs as [|a [|b [|? ?]]]; try discriminate.
    inversion K as [|? ? (oa & -> & Ha) K']; subst. inversion K' as [|? ? (ob & -> & Hb) _]; subst.
    destruct oa; try contradiction; destruct ob; try contradiction; eexists; (split; [reflexivity|]); apply mk_bool_kconst.
  - (* ite *)
    destruct cs as [|c [|a [|b [|? ?]]]]; try discriminate.
    inversion K as [|? ? Kc K']; subst. inversion K' as [|? ? Ka K'']; subst. inversion K'' as [|? ? Kb _]; subst.
    assert (Bc : bconst c).
    { apply bterm_kconst_bconst; auto. inversion Fa as [|? ? Oc _]; subst. split; auto.
      destruct (tc_inv _ _ _ Htc) as (tys & Ht & Hr). pose proof (tcs_Forall2 _ _ Ht) as F2.
      inversion F2 as [|? tc0 ? ? Hc0 F2']; subst. inversion F2' as [|? ta ? ? _ F2'']; subst. inversion F2'' as [|? tb ? ? _ F3]; subst. inversion F3; subst.
      cbn in Hr. destruct (ty_eqb tc0 TBool) eqn:E; [|discriminate]. apply ty_eqb_eq in E. now subst. }
    destruct Bc as [bb ->]. eexists; split; [reflexivity|]. unfold r_ite.
    destruct (term_eqb a b); auto. cbn. destruct bb; auto.
  - (* toreal *)
    destruct cs as [|a [|? ?]]; try discriminate.
    destruct (tc_inv _ _ _ Htc) as (tys & Ht & Hr). pose proof (tcs_Forall2 _ _ Ht) as F2.
    cbn in Hr. apply type_to_type_inv in Hr. destruct Hr as [Hall _].
    inversion F2 as [|? ta ? ? Ha F2']; subst. inversion F2'; subst. inversion Hall; subst.
    inversion Fa as [|? ? Oa _]; subst. inversion K as [|? ? Ka _]; subst.
    destruct (nterm_kconst_nconst TInt a (or_introl eq_refl) (conj Oa Ha) Ka) as [[_ (z & ->)]|[E _]]; [|discriminate E].
    eexists; split; [reflexivity|]. apply mk_real_kconst.
  - (* bvc *) pose proof (const_no_args _ _ _ Htc Logic.I) as ->. eexists; split; [reflexivity|]. eexists; split; [reflexivity | exact Logic.I].
  - (* div *)
    destruct (nterm_args ODiv ty cs (or_intror (or_intror (or_intror eq_refl))) (conj Hok Htc)) as [Har F].
    destruct cs as [|a [|b [|? ?]]]; try discriminate. pose proof (Forall_nconst ty _ Har F K) as B.
    inversion B as [|? ? Ba B']; subst. inversion B' as [|? ? Bb _]; subst.
    destruct Ba as [[-> (z1 & ->)]|[-> (n1 & d1 & -> & _)]]; destruct Bb as [[E (z2 & ->)]|[E (n2 & d2 & -> & _)]]; try discriminate E;
      unfold r_div; rewrite Hdiv; cbn [is_constant TIntC TRealC andb negb top num_value]; unfold Simplifier.bind.
    + unfold is_zero in Hdiv. cbn in Hdiv. unfold py_floordiv. rewrite Hdiv.
      assert (Hm : (- z2 =? 0)%Z = false) by (apply Z.eqb_neq; apply Z.eqb_neq in Hdiv; lia). rewrite Hm.
      destruct (0 <? z2)%Z; eexists; (split; [reflexivity|]); apply mk_int_kconst.
    + unfold is_zero in Hdiv. cbn in Hdiv. unfold fr_div. cbn [fst snd]. rewrite Hdiv.
      eexists; split; [reflexivity|]. apply mk_real_kconst.
  - (* pow *)
    destruct cs as [|a [|e rest]]; try discriminate.
    destruct rest; [|destruct e as [[] [|]]; discriminate Hn].
    destruct (pow_shape a e ty Hok Htc) as [-> Hsh]. inversion K as [|? ? Ka _]; subst.
    destruct Hsh as [[Na (y & -> & Hy)]|[Na (m & -> & Hm)]].
    + destruct (nterm_kconst_nconst TInt a (or_introl eq_refl) Na Ka) as [[_ (z & ->)]|[E _]]; [|discriminate E].
      unfold r_pow. cbn [num_value top TIntC constant_value].
      assert (Hc2 : negb (fst (z, 1%Z) =? 0)%Z || fr_leb (0%Z, 1%Z) (y, 1%Z) = true).
      { apply orb_true_iff. right. unfold fr_leb. cbn. apply Z.leb_le. lia. }
      rewrite Hc2. cbn [fr_is_int snd fst Z.eqb]. unfold Simplifier.bind, fr_pow_int. rewrite (proj2 (Z.leb_le 0 y) Hy).
      eexists; split; [reflexivity|]. apply mk_real_kconst.
    + destruct (nterm_kconst_nconst TReal a (or_intror eq_refl) Na Ka) as [[E _]|[_ (n & d & -> & _)]]; [discriminate E|].
      unfold r_pow. cbn [num_value top TRealC constant_value].
      assert (Hc2 : negb (fst (n, d) =? 0)%Z || fr_leb (0%Z, 1%Z) (m, 1%Z) = true).
      { apply orb_true_iff. right. unfold fr_leb. cbn. apply Z.leb_le. lia. }
      rewrite Hc2. cbn [fr_is_int snd fst Z.eqb]. unfold Simplifier.bind, fr_pow_int. rewrite (proj2 (Z.leb_le 0 m) Hm).
      eexists; split; [reflexivity|]. apply mk_real_kconst.
Qed.

(* ------------------------------------------------------------------ the simplifier *)
Lemma kconst_tc c : kconst c -> exists t, tc c = Some t.
Proof. intros (o & -> & Ho). destruct o; try contradiction; cbn; eauto. Qed.
Lemma children_ok ora I : wfi I -> forall args cs tys,
  Forall2 (fun a c => simplify_opt ora a = Some c) args cs ->
  Forall (fun a => okt a = true) args -> tcs args = Some tys ->
  Forall (fun c => okt c = true) cs /\ tcs cs = Some tys.
Proof.
  intros Hwf args cs tys F2. revert tys. induction F2 as [|a c l l' Ha Hl IH]; intros tys Fa Ht.
  - split; [constructor | exact Ht].
  - inversion Fa; subst. cbn in Ht. destruct (tc a) as [ta|] eqn:Ta; [|discriminate].
    destruct (tcs l) as [tr|] eqn:Tr; [|discriminate]. inversion Ht; subst.
    destruct (simplify_sound_stages ora a I ta c H1 Ta Hwf Ha) as [[O Tc] _].
    destruct (IH tr H2 eq_refl) as [F Tcs]. split; [constructor; auto|]. cbn. now rewrite Tc, Tcs.
Qed.
Lemma is_zero_kconst_val I c : kconst c -> is_zero c = true -> is_zero_val (eval I c).
Proof.
  intros (o & -> & Ho). unfold is_zero. cbn [top]. destruct o; try discriminate; intros E; apply Z.eqb_eq in E; subst; cbn.
  - unfold Q2R'. lra.
  - reflexivity.
Qed.

Theorem fold_constant : forall ora I t ty, cfrag t = true -> tc t = Some ty -> wfi I -> nodiv0 I t ->
  exists c, simplify_opt ora t = Some c /\ kconst c.
Proof.
  intros ora I. induction t as [o args IH] using term_ind'. intros ty Hf Htc Hwf Hnd.
  unfold cfrag in Hf. apply andb_true_iff in Hf. destruct Hf as [Hok Hcs].
  rewrite cops_unfold in Hcs. apply andb_true_iff in Hcs. destruct Hcs as [Ho Hcs]. rewrite forallb_forall in Hcs.
  pose proof (okt_args _ _ Hok) as Fa. pose proof (okt_node _ _ Hok) as Hn.
  destruct (tc_inv _ _ _ Htc) as (tys & Ht & Hr).
  pose proof (nodiv0_args _ _ _ Hnd) as Fn.
  (* the arguments fold to constants *)
  assert (Hargs : exists cs, map_opt (simplify_opt ora) args = Some cs /\ Forall kconst cs /\
                             Forall2 (fun a c => simplify_opt ora a = Some c) args cs).
  { clear Hr Hn Htc Hok Hnd. revert tys Ht. induction args as [|a r IHr]; intros tys Ht.
    - exists []. repeat split; constructor.
    - cbn in Ht. destruct (tc a) as [ta|] eqn:Ta; [|discriminate]. destruct (tcs r) as [tr|] eqn:Tr; [|discriminate].
      inversion Fa; subst. inversion Fn; subst.
      destruct (Forall_inv IH ta) as (c & Ec & Kc); auto.
      { unfold cfrag. rewrite H1. apply Hcs. cbn; auto. }
      destruct (IHr (Forall_inv_tail IH)) with (tys := tr) as (cs & Em & Kcs & F2); auto.
      { intros x Hx. apply Hcs. cbn; auto. }
      exists (c :: cs). cbn. rewrite Ec, Em. repeat split; constructor; auto. }
  destruct Hargs as (cs & Em & Kcs & F2).
  rewrite simplify_opt_unfold, Em.
  destruct (children_ok ora I Hwf args cs tys F2 Fa Ht) as [Fc Tcs].
  assert (Hok' : okt (T o cs) = true).
  { apply okt_intro; auto. destruct (op_eqb o OPow) eqn:Eo.
    - apply op_eqb_eq in Eo. subst o. eapply ok_node_pow; eauto.
    - rewrite <- (ok_node_length o args cs); auto; [|eapply Forall2_length_eq; eauto].
      destruct o; try exact Logic.I. discriminate Eo. }
  assert (Htc' : tc (T o cs) = Some ty) by (rewrite tc_tcs, Tcs; exact Hr).
  assert (Hdiv : match o, cs with ODiv, [_; b] => is_zero b = false | _, _ => True end).
  { destruct o; try exact Logic.I. destruct cs as [|a' [|b' [|? ?]]]; try exact Logic.I.
    inversion F2 as [|a ? ? ? Ea F2']; subst. inversion F2' as [|b ? ? ? Eb F2'']; subst. inversion F2''; subst.
    destruct Hnd as [Hz _]. inversion Kcs as [|? ? _ K']; subst. inversion K' as [|? ? Kb _]; subst.
    destruct (is_zero b') eqn:Z; auto. exfalso. apply Hz.
    inversion Fa as [|? ? _ Fa']; subst. inversion Fa' as [|? ? Ob _]; subst.
    cbn in Ht. destruct (tc a); [|discriminate]. destruct (tc b) as [tb|] eqn:Tb; [|discriminate].
    destruct (simplify_sound_stages ora b I tb b' Ob Tb Hwf Eb) as [_ Ev].
    rewrite <- Ev; [now apply is_zero_kconst_val|].
    apply nodiv0_div_safe; [apply Hcs; cbn; auto|]. inversion Fn as [|? ? _ Fn']; subst. now inversion Fn'. }
  destruct (rule_const ora o cs ty Hok' Htc' Ho Kcs Hdiv) as (c & Ec & Kc).
  exists c. split; auto. unfold simp_rule, Simplifier.bind. rewrite Ec.
  destruct (rule_sound1 I ora o cs ty c Hwf Hok' Htc' Ec) as (_ & Tc & _). now rewrite Tc.
Qed.

(* For closed, quantifier-free, UF-free terms of the fragment (cfrag: no symbol, function
   application or quantifier occurs) in which no divisor evaluates to 0: simplification returns a
   constant, of the sort of the term, that denotes the value of the term. *)
Theorem fold_complete_partial : forall ora I t ty, cfrag t = true -> tc t = Some ty -> wfi I -> nodiv0 I t ->
  exists c, simplify_opt ora t = Some c /\ is_const c = true /\ tc c = Some ty /\ eval I c = eval I t.
Proof.
  intros ora I t ty Hf Htc Hwf Hnd.
  destruct (fold_constant ora I t ty Hf Htc Hwf Hnd) as (c & Ec & Kc).
  exists c. split; auto. split; [now apply kconst_is_const|].
  unfold cfrag in Hf. apply andb_true_iff in Hf. destruct Hf as [Hok Hcs].
  destruct (simplify_sound_stages ora t I ty c Hok Htc Hwf Ec) as [[_ Tc] Ev]. split; auto.
  apply Ev. now apply nodiv0_div_safe.
Qed.

Example fold_example_arith :
  let t := T OLe [T OPlus [T OTimes [TIntC 3; TIntC (-2)]; T ODiv [TIntC 7; TIntC (-2)]]; T OIte [T ONot [TFalse]; TIntC (-9); TIntC 5]] in
  cfrag t = true /\ tc t = Some TBool /\ nodiv0 I0 t /\ simplify_opt no_oracle t = Some TTrue.
Proof. cbn. repeat split; auto; intros H; discriminate H. Qed.
