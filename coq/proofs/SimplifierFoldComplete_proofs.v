(* C01 / C02: on closed, quantifier-free, UF-free terms of the fragment in which no division by
   a zero-valued divisor occurs, the simplifier model returns a CONSTANT (and, by
   SimplifierSem_proofs, the constant that denotes the value of the term). *)
From Coq Require Import List ZArith Bool String Reals Lia Lra.
From PySMT.core Require Import Syntax SyntaxLemmas PyPrims PyPrimsLemmas Types Sem.
From PySMT.models Require Import TypeChecker Oracles Ctors Simplifier.
From PySMT.proofs Require Import Sets_proofs TypeChecker_proofs Simplifier_proofs SimplifierSem_proofs.
Import ListNotations.
Open Scope bool_scope.

(* operators of the fragment that fold: everything of stages 1-3 except symbols, function
   applications and quantifiers *)
Definition cop (o : op) : bool :=
  match o with
  | OAnd | OOr | ONot | OImplies | OIff | OIte | OEquals
  | OPlus | OTimes | OMinus | OLe | OLt | OToReal | ODiv | OPow
  | OBV _ _ | OBVRel _ | OBVToNat | OBVExtract _ _ _ | OBVRol _ _ | OBVRor _ _ | OBVZext _ _ | OBVSext _ _
  | OBoolC _ | OIntC _ | ORealC _ _ | OBVC _ _ | OStrC _ => true
  | _ => false
  end.
Fixpoint cops (t : term) : bool :=
  match t with T o args => cop o && (fix all (l : list term) : bool := match l with [] => true | x :: r => cops x && all r end) args end.
(* the exponents for which Pow folds whatever the base: the non-negative ones (0 ^ negative raises:
   open finding) *)
Definition exp_nn (e : term) : bool :=
  match e with T (OIntC y) [] => (0 <=? y)%Z | T (ORealC n _) [] => (0 <=? n)%Z | _ => true end.
Definition pow_node_nn (o : op) (args : list term) : bool :=
  match o, args with OPow, [_; e] => exp_nn e | _, _ => true end.
Fixpoint pownn (t : term) : bool :=
  match t with
  | T o args => pow_node_nn o args && (fix all (l : list term) : bool := match l with [] => true | x :: r => pownn x && all r end) args
  end.
Definition cfrag (t : term) : bool := okt t && cops t && pownn t.
Lemma cops_unfold o args : cops (T o args) = cop o && forallb cops args.
Proof. reflexivity. Qed.
Lemma pownn_unfold o args : pownn (T o args) = pow_node_nn o args && forallb pownn args.
Proof. reflexivity. Qed.
Lemma cfrag_parts t : cfrag t = true -> okt t = true /\ cops t = true /\ pownn t = true.
Proof. unfold cfrag. intros H. apply andb_true_iff in H. destruct H as [H H3]. apply andb_true_iff in H. tauto. Qed.
Lemma cfrag_intro t : okt t = true -> cops t = true -> pownn t = true -> cfrag t = true.
Proof. unfold cfrag. now intros -> -> ->. Qed.

(* no division whose divisor evaluates to zero, anywhere in the term (also in branches not taken) *)
Fixpoint nodiv0 (I : interp) (t : term) {struct t} : Prop :=
  match t with
  | T o args =>
      match o, args with ODiv, [a; b] => ~ is_zero_val (eval I b) | _, _ => True end /\
      (fix all (l : list term) : Prop := match l with [] => True | x :: r => nodiv0 I x /\ all r end) args
  end.
Lemma nodiv0_args I o args : nodiv0 I (T o args) -> Forall (nodiv0 I) args.
Proof. intros [_ H]. induction args as [|x r IH]; constructor; destruct H; auto. Qed.
Lemma nodiv0_div_safe I : forall t, cops t = true -> nodiv0 I t -> div_safe I t.
Proof.
  induction t as [o args IH] using term_ind'. intros Hc Hn.
  rewrite cops_unfold in Hc. apply andb_true_iff in Hc. destruct Hc as [Ho Hc].
  pose proof (nodiv0_args _ _ _ Hn) as Fn. rewrite forallb_forall in Hc.
  assert (Fd : Forall (div_safe I) args).
  { rewrite Forall_forall in *. intros a Ha. apply IH; auto. }
  assert (Hall : (fix all (l : list term) : Prop := match l with [] => True | x :: r => div_safe I x /\ all r end) args).
  { clear - Fd. induction Fd; cbn; auto. }
  destruct o; try discriminate Ho; cbn [div_safe]; try exact Hall.
  - (* ite *) destruct args as [|c [|a [|b [|? ?]]]]; try exact Hall.
    inversion Fd as [|? ? Dc Fd']; subst. inversion Fd' as [|? ? Da Fd'']; subst. inversion Fd'' as [|? ? Db ?]; subst.
    split; auto. destruct (vbool (eval I c)); auto.
  - (* div *) destruct args as [|a [|b [|? ?]]]; try exact Hall.
    inversion Fd as [|? ? Da Fd']; subst. inversion Fd' as [|? ? Db ?]; subst. destruct Hn as [Hz _]. auto.
Qed.

(* constants *)
Definition kconst (c : term) : Prop :=
  exists o, c = T o [] /\ match o with OBoolC _ | OIntC _ | ORealC _ _ | OBVC _ _ | OStrC _ => True | _ => False end.
Lemma kconst_is_const c : kconst c -> is_const c = true.
Proof. intros (o & -> & Ho). destruct o; try contradiction; reflexivity. Qed.
Lemma kconst_is_constant c : kconst c -> is_constant c = true.
Proof. intros (o & -> & Ho). destruct o; try contradiction; reflexivity. Qed.
(* (array values are constants too since stage 4: hence the extra hypothesis) *)
Lemma is_constant_kconst c t : okt c = true -> tc c = Some t -> is_constant c = true -> is_array_value c = false -> kconst c.
Proof.
  intros O Tc C A.
  destruct (const_cases c t O Tc C) as [(b & -> & _)|[(z & -> & _)|[(n & d & -> & _)|[(v & w & -> & _)|[(s & -> & _)|(? & ? & _ & A')]]]]];
    [| | | | |congruence]; eexists; split; try reflexivity; exact Logic.I.
Qed.
Lemma is_const_kconst c t : okt c = true -> tc c = Some t -> is_const c = true -> kconst c.
Proof.
  intros O Tc C. apply (is_constant_kconst c t); auto; destruct c as [o l]; destruct o; try discriminate C; reflexivity.
Qed.

(* ------------------------------------------------------------------ Boolean connectives *)
Definition bconst (c : term) : Prop := exists b, c = TBoolC b.
Lemma bconst_kconst c : bconst c -> kconst c.
Proof. intros [b ->]. exists (OBoolC b). split; [reflexivity | exact Logic.I]. Qed.
Lemma bterm_kconst_bconst c : bterm c -> kconst c -> bconst c.
Proof.
  intros Hb (o & -> & Ho). destruct o; try contradiction; destruct Hb as [_ Tc]; cbn in Tc; try discriminate.
  exists b. reflexivity.
Qed.
Lemma loop_bconst skip absorb flat cs :
  (forall b, skip (TBoolC b) = negb (absorb (TBoolC b))) ->
  Forall bconst cs -> forall acc,
  nary_loop skip absorb flat cs acc = None \/ nary_loop skip absorb flat cs acc = Some acc.
Proof.
  intros Hsa. induction 1 as [|c r [b ->] Hr IH]; intros acc; cbn [nary_loop]; auto.
  rewrite Hsa. destruct (absorb (TBoolC b)); cbn [negb]; auto.
Qed.
Lemma reorder_const ora o args c : kconst c -> reorder ora o args c = c.
Proof.
  intros (oc & -> & Ho). unfold reorder. destruct (ora o args) as [r'|]; auto.
  destruct r' as [o' l']. destruct oc; try contradiction; reflexivity.
Qed.
Lemma same_pair_In args a : same_pair args = Some a -> In a args.
Proof.
  unfold same_pair. destruct args as [|x [|y [|? ?]]]; try discriminate. destruct (term_eqb x y); [|discriminate].
  intros [= ->]. cbn; auto.
Qed.
Lemma r_and_const ora cs : Forall bconst cs -> kconst (r_and ora cs).
Proof.
  intros H. unfold r_and. destruct (same_pair cs) as [a|] eqn:E.
  - apply same_pair_In in E. rewrite Forall_forall in H. apply bconst_kconst. auto.
  - destruct (loop_bconst is_true is_false is_and cs (fun b => match b with true => eq_refl | false => eq_refl end) H []) as [-> | ->].
    + apply bconst_kconst. exists false. reflexivity.
    + cbn [mk_and]. rewrite reorder_const; apply bconst_kconst; exists true; reflexivity.
Qed.
Lemma r_or_const ora cs : Forall bconst cs -> kconst (r_or ora cs).
Proof.
  intros H. unfold r_or. destruct (same_pair cs) as [a|] eqn:E.
  - apply same_pair_In in E. rewrite Forall_forall in H. apply bconst_kconst. auto.
  - destruct (loop_bconst is_false is_true is_or cs (fun b => match b with true => eq_refl | false => eq_refl end) H []) as [-> | ->].
    + apply bconst_kconst. exists true. reflexivity.
    + cbn [mk_or]. rewrite reorder_const; apply bconst_kconst; exists false; reflexivity.
Qed.

(* ------------------------------------------------------------------ arithmetic on constants *)
Definition nconst (t : ty) (c : term) : Prop :=
  (t = TInt /\ exists z, c = TIntC z) \/ (t = TReal /\ exists n d, c = TRealC n d /\ (0 < d)%Z).
Lemma nterm_kconst_nconst t c : arith t -> nterm t c -> kconst c -> nconst t c.
Proof. intros Ht N K. apply nterm_const_shape; auto. now apply kconst_is_constant. Qed.
Lemma nconst_kconst t c : nconst t c -> kconst c.
Proof.
  intros [[_ (z & ->)]|[_ (n & d & -> & _)]]; eexists; split; try reflexivity; exact Logic.I.
Qed.
Lemma mk_real_kconst f : kconst (mk_real f).
Proof. unfold mk_real. destruct (fr_norm (fst f) (snd f)). eexists; split; [reflexivity | exact Logic.I]. Qed.
Lemma mk_int_kconst z : kconst (mk_int z).
Proof. eexists; split; [reflexivity | exact Logic.I]. Qed.
Lemma mk_bool_kconst b : kconst (mk_bool b).
Proof. eexists; split; [reflexivity | exact Logic.I]. Qed.

(* accumulated constants of Int terms keep denominator 1 *)
Lemma fr_norm_int x : fr_norm x 1 = (x, 1%Z).
Proof. unfold fr_norm. cbn. rewrite Z.gcd_1_r. rewrite !Z.div_1_r. reflexivity. Qed.
Lemma fr_add_int a b : fr_add (a, 1%Z) (b, 1%Z) = ((a + b)%Z, 1%Z).
Proof. unfold fr_add. cbn [fst snd]. rewrite !Z.mul_1_r. apply fr_norm_int. Qed.
Lemma fr_mul_int a b : fr_mul (a, 1%Z) (b, 1%Z) = ((a * b)%Z, 1%Z).
Proof. unfold fr_mul. cbn [fst snd]. apply fr_norm_int. Qed.
Definition acc_ok (t : ty) (f : frac) : Prop := t = TInt -> snd f = 1%Z.
Lemma const_of_type_total t f : arith t -> acc_ok t f -> exists c, const_of_type (Some t) f = Some c /\ kconst c.
Proof.
  intros [-> | ->] H; cbn.
  - unfold fr_is_int. rewrite (H eq_refl). cbn. eexists; split; [reflexivity | apply mk_int_kconst].
  - eexists; split; [reflexivity | apply mk_real_kconst].
Qed.
Lemma nconst_num_value t c : nconst t c -> is_constant c = true /\ exists v, num_value c = Some v /\ acc_ok t v.
Proof.
  intros [[-> (z & ->)]|[-> (n & d & -> & _)]]; split; try reflexivity; eexists; split; try reflexivity.
  - intros _. reflexivity.
  - intros H. discriminate.
Qed.
Lemma acc_ok_add t a b : acc_ok t a -> acc_ok t b -> acc_ok t (fr_add a b).
Proof. intros Ha Hb E. destruct a as [a1 a2], b as [b1 b2]. pose proof (Ha E) as H1. pose proof (Hb E) as H2. cbn in H1, H2. subst a2 b2. now rewrite fr_add_int. Qed.
Lemma acc_ok_mul t a b : acc_ok t a -> acc_ok t b -> acc_ok t (fr_mul a b).
Proof. intros Ha Hb E. destruct a as [a1 a2], b as [b1 b2]. pose proof (Ha E) as H1. pose proof (Hb E) as H2. cbn in H1, H2. subst a2 b2. now rewrite fr_mul_int. Qed.

Lemma plus_walk_consts t tt cs : Forall (nconst t) cs -> forall st, acc_ok t (cadd st) ->
  exists f, fold_right (plus_walk tt) st cs =
            {| to_sum := to_sum st; to_sub := to_sub st; cadd := f; perr := perr st |} /\ acc_ok t f.
Proof.
  induction 1 as [|c r Hc Hr IH]; intros st Hst; cbn [fold_right].
  - exists (cadd st). split; auto. destruct st; reflexivity.
  - destruct (IH st Hst) as (f & -> & Hf).
    destruct (nconst_num_value t c Hc) as [Cc (v & Hv & Av)].
    destruct c as [o l]. cbn [plus_walk]. rewrite Cc, Hv. cbn [to_sum to_sub cadd perr].
    eexists. split; [reflexivity|]. now apply acc_ok_add.
Qed.
Lemma r_plus_const t cs : arith t -> cs <> [] -> Forall (nterm t) cs -> Forall (nconst t) cs ->
  exists c, r_plus cs = Some c /\ kconst c.
Proof.
  intros Ht Hne Fn Fc. unfold r_plus. destruct cs as [|a0 rest]; [congruence|].
  assert (Hty : tc a0 = Some t) by (inversion Fn as [|? ? [_ H] _]; exact H). rewrite Hty.
  destruct (plus_walk_consts t (Some t) (a0 :: rest) Fc {| to_sum := []; to_sub := []; cadd := (0%Z, 1%Z); perr := false |}) as (f & -> & Hf).
  { intros _. reflexivity. }
  cbn [perr to_sum to_sub cadd]. unfold Simplifier.bind.
  destruct (const_of_type_total t f Ht Hf) as (c & -> & Kc). eauto.
Qed.

Lemma times_walk_consts t cs : Forall (nconst t) cs -> forall st, acc_ok t (cmul st) ->
  exists f z, fold_right times_walk st cs =
              {| t_args := t_args st; cmul := f; tzero := z; terr := terr st |} /\ acc_ok t f.
Proof.
  induction 1 as [|c r Hc Hr IH]; intros st Hst; cbn [fold_right].
  - exists (cmul st), (tzero st). split; auto. destruct st; reflexivity.
  - destruct (IH st Hst) as (f & z & -> & Hf).
    destruct (nconst_num_value t c Hc) as [Cc (v & Hv & Av)].
    destruct c as [o l]. cbn [times_walk]. rewrite Cc, Hv. cbn [t_args cmul tzero terr].
    destruct (is_zero (T o l)); do 2 eexists; (split; [reflexivity|]); auto. now apply acc_ok_mul.
Qed.
Lemma r_times_const ora t cs : arith t -> cs <> [] -> Forall (nterm t) cs -> Forall (nconst t) cs ->
  exists c, r_times ora cs = Some c /\ kconst c.
Proof.
  intros Ht Hne Fn Fc. unfold r_times. destruct cs as [|a0 rest]; [congruence|].
  assert (Hty : tc a0 = Some t) by (inversion Fn as [|? ? [_ H] _]; exact H). rewrite Hty.
  destruct (times_walk_consts t (a0 :: rest) Fc {| t_args := []; cmul := (1%Z, 1%Z); tzero := false; terr := false |}) as (f & z & -> & Hf).
  { intros _. reflexivity. }
  cbn [t_args cmul tzero terr]. destruct z.
  - apply const_of_type_total; auto. intros _. reflexivity.
  - unfold Simplifier.bind. destruct (const_of_type_total t f Ht Hf) as (c & -> & Kc).
    destruct (is_zero c); eauto.
Qed.

(* ------------------------------------------------------------------ bit-vector rules on constants *)
Open Scope Z_scope.
Definition bvconst (w : Z) (c : term) : Prop := exists z, c = TBVC z w /\ in_range w z.
Lemma mk_bv_total w v : in_range w v -> mk_bv v w = Some (TBVC v w).
Proof. intros [V0 V1]. unfold mk_bv. rewrite (proj2 (Z.ltb_ge v 0)) by lia. rewrite (proj2 (Z.leb_gt (2 ^ w) v)) by lia. reflexivity. Qed.
Lemma bvconst_mk w v : in_range w v -> exists c, mk_bv v w = Some c /\ bvconst w c.
Proof. intros R. exists (TBVC v w). split; [now apply mk_bv_total | exists v; auto]. Qed.
Lemma bvconst_kconst w c : bvconst w c -> kconst c.
Proof. intros (z & -> & _). eexists; split; [reflexivity | exact Logic.I]. Qed.
Lemma bvconst_self w c : bvconst w c -> exists c', Some c = Some c' /\ bvconst w c'.
Proof. eauto. Qed.
Lemma zero_range w : 0 < w -> in_range w 0.
Proof. intros. split; [lia | apply pow2_pos; lia]. Qed.
Lemma mask_range w : 0 < w -> in_range w (2 ^ w - 1).
Proof. intros. pose proof (pow2_pos w ltac:(lia)). split; lia. Qed.

Ltac bvc_args := repeat match goal with H : bvconst _ _ |- _ => let z := fresh "z" in let R := fresh "R" in destruct H as (z & -> & R) end.
Ltac bvc_done := first [ apply bvconst_mk | eapply bvconst_self; eexists; split; [reflexivity | assumption] ].

Lemma c_bv_not w a : 0 < w -> bvconst w a -> exists c, r_bv_not w a = Some c /\ bvconst w c.
Proof.
  intros Hw (z & -> & Rz). unfold r_bv_not. cbn [bv_value top TBVC]. unfold py_and, py_invert, mask.
  rewrite (not_fold w z ltac:(lia) Rz). apply bvconst_mk. destruct Rz. pose proof (pow2_pos w ltac:(lia)). split; lia.
Qed.
Lemma c_bv_neg w a : 0 < w -> bvconst w a -> exists c, r_bv_neg w a = Some c /\ bvconst w c.
Proof. intros Hw (z & -> & Rz). unfold r_bv_neg. cbn [bv_value top TBVC]. apply bvconst_mk. apply mod_range. lia. Qed.
Lemma c_bv_and w a b : 0 < w -> bvconst w a -> bvconst w b -> exists c, r_bv_and w a b = Some c /\ bvconst w c.
Proof.
  intros Hw (z & -> & Rz) (z0 & -> & Rz0). unfold r_bv_and, mk_bvzero. cbn [bv_value top TBVC].
  destruct (z =? 0); [apply bvconst_mk; now apply zero_range|].
  destruct (z =? mask w); [eexists; split; [reflexivity | exists z0; auto]|].
  apply bvconst_mk. now apply land_range.
Qed.
Lemma c_bv_or w a b : 0 < w -> bvconst w a -> bvconst w b -> exists c, r_bv_or w a b = Some c /\ bvconst w c.
Proof.
  intros Hw (z & -> & Rz) (z0 & -> & Rz0). unfold r_bv_or. cbn [bv_value top TBVC is_constant].
  destruct (z =? 0); [eexists; split; [reflexivity | exists z0; auto]|].
  destruct (z =? mask w); [apply bvconst_mk; now apply mask_range|].
  apply bvconst_mk. now apply lor_range.
Qed.
Lemma c_bv_xor w a b : 0 < w -> bvconst w a -> bvconst w b -> exists c, r_bv_xor w a b = Some c /\ bvconst w c.
Proof. intros Hw (z & -> & Rz) (z0 & -> & Rz0). unfold r_bv_xor. cbn [bv_value top TBVC]. apply bvconst_mk. now apply lxor_range. Qed.
Lemma c_bv_add w a b : 0 < w -> bvconst w a -> bvconst w b -> exists c, r_bv_add w a b = Some c /\ bvconst w c.
Proof.
  intros Hw (z & -> & Rz) (z0 & -> & Rz0). unfold r_bv_add. cbn [bv_value top TBVC].
  destruct (z =? 0); [eexists; split; [reflexivity | exists z0; auto]|]. apply bvconst_mk. apply mod_range. lia.
Qed.
Lemma c_bv_mul w a b : 0 < w -> bvconst w a -> bvconst w b -> exists c, r_bv_mul w a b = Some c /\ bvconst w c.
Proof.
  intros Hw (z & -> & Rz) (z0 & -> & Rz0). unfold r_bv_mul, mk_bvzero. cbn [bv_value top TBVC].
  destruct (z =? 0); [apply bvconst_mk; now apply zero_range|].
  destruct (z =? 1); [eexists; split; [reflexivity | exists z0; auto]|]. apply bvconst_mk. apply mod_range. lia.
Qed.
Lemma c_bv_udiv w a b : 0 < w -> bvconst w a -> bvconst w b -> exists c, r_bv_udiv w a b = Some c /\ bvconst w c.
Proof.
  intros Hw (z & -> & Rz) (z0 & -> & Rz0). unfold r_bv_udiv. cbn [bv_value top TBVC].
  destruct (z0 =? 0); [apply bvconst_mk; now apply mask_range|].
  destruct (z0 =? 1); [eexists; split; [reflexivity | exists z; auto]|]. apply bvconst_mk. apply mod_range. lia.
Qed.
Lemma c_bv_urem w a b : 0 < w -> bvconst w a -> bvconst w b -> exists c, r_bv_urem w a b = Some c /\ bvconst w c.
Proof.
  intros Hw (z & -> & Rz) (z0 & -> & Rz0). unfold r_bv_urem, mk_bvzero. cbn [bv_value top TBVC].
  destruct (Z.eqb_spec z0 0); [eexists; split; [reflexivity | exists z; auto]|].
  destruct (z0 =? 1); [apply bvconst_mk; now apply zero_range|].
  apply bvconst_mk. destruct Rz as [A0 A1], Rz0 as [B0 B1]. pose proof (Z.mod_pos_bound z z0 ltac:(lia)). split; lia.
Qed.
Lemma c_bv_sub w a b : 0 < w -> bvconst w a -> bvconst w b -> exists c, r_bv_sub w a b = Some c /\ bvconst w c.
Proof.
  intros Hw (z & -> & Rz) (z0 & -> & Rz0). unfold r_bv_sub. cbn [bv_value top TBVC].
  destruct (z0 =? 0); [eexists; split; [reflexivity | exists z; auto]|]. apply bvconst_mk. apply mod_range. lia.
Qed.
Lemma c_bv_shift k sh w a b : 0 < w -> bvconst w a -> bvconst w b -> exists c, r_bv_shift k sh a b = Some c /\ bvconst w c.
Proof.
  intros Hw (z & -> & Rz) (z0 & -> & Rz0). unfold r_bv_shift, mk_bvzero. cbn [bv_value top TBVC bv_width].
  destruct (z0 =? 0); [eexists; split; [reflexivity | exists z; auto]|].
  destruct (w <=? z0); [apply bvconst_mk; now apply zero_range|]. apply bvconst_mk. apply mod_range. lia.
Qed.
Lemma c_bv_concat wa wb a b : 0 < wa -> 0 < wb -> bvconst wa a -> bvconst wb b ->
  exists c, r_bv_concat a b = Some c /\ bvconst (wa + wb) c.
Proof.
  intros Hwa Hwb (z & -> & Rz) (z0 & -> & Rz0). unfold r_bv_concat. cbn [top TBVC]. rewrite (Z.add_comm wb wa).
  apply bvconst_mk. destruct Rz as [A0 A1], Rz0 as [B0 B1]. unfold in_range. rewrite Z.pow_add_r by lia. split; nia.
Qed.
Lemma c_bv_comp wa a b : bvconst wa a -> bvconst wa b -> exists c, r_bv_comp a b = Some c /\ bvconst 1 c.
Proof.
  intros (z & -> & Rz) (z0 & -> & Rz0). unfold r_bv_comp. cbn [is_bv_constant top TBVC andb].
  destruct (term_eqb (TBVC z wa) (TBVC z0 wa)); apply bvconst_mk; unfold in_range; change (2 ^ 1) with 2; lia.
Qed.
Lemma c_neg_c w a : 0 < w -> bvconst w a -> exists c, neg_c a = Some c /\ bvconst w c.
Proof. intros Hw Ha. unfold neg_c. destruct Ha as (z & -> & R). cbn [bv_width TBVC]. apply c_bv_neg; auto. exists z; auto. Qed.
Lemma bvconst_width w c : bvconst w c -> bv_width c = w.
Proof. intros (z & -> & _). reflexivity. Qed.
Lemma bvconst_signed w c : bvconst w c -> exists s, bv_signed_value c = Some s.
Proof. intros (z & -> & _). cbn. eauto. Qed.
Lemma c_bv_sdiv w a b : 0 < w -> bvconst w a -> bvconst w b -> exists c, r_bv_sdiv a b = Some c /\ bvconst w c.
Proof.
  intros Hw Ha Hb. unfold r_bv_sdiv, Simplifier.bind.
  destruct (bvconst_signed w a Ha) as [sa ->]. destruct (bvconst_signed w b Hb) as [sb ->].
  destruct (c_neg_c w a Hw Ha) as (na & Ena & Hna). destruct (c_neg_c w b Hw Hb) as (nb & Enb & Hnb).
  rewrite (bvconst_width w a Ha). rewrite Ena, Enb. rewrite (bvconst_width w na Hna).
  destruct (negb (sa <? 0) && negb (sb <? 0)); [now apply c_bv_udiv|].
  destruct ((sa <? 0) && negb (sb <? 0)).
  { destruct (c_bv_udiv w na b Hw Hna Hb) as (d & -> & Hd). now apply c_neg_c. }
  destruct (negb (sa <? 0) && (sb <? 0)).
  { destruct (c_bv_udiv w a nb Hw Ha Hnb) as (d & -> & Hd). now apply c_neg_c. }
  now apply c_bv_udiv.
Qed.
Lemma c_bv_srem w a b : 0 < w -> bvconst w a -> bvconst w b -> exists c, r_bv_srem a b = Some c /\ bvconst w c.
Proof.
  intros Hw Ha Hb. unfold r_bv_srem, Simplifier.bind.
  destruct (bvconst_signed w a Ha) as [sa ->]. destruct (bvconst_signed w b Hb) as [sb ->].
  destruct (c_neg_c w a Hw Ha) as (na & Ena & Hna). destruct (c_neg_c w b Hw Hb) as (nb & Enb & Hnb).
  assert (Hl : exists l, (if sa <? 0 then neg_c a else Some a) = Some l /\ bvconst w l) by (destruct (sa <? 0); eauto).
  assert (Hr : exists r, (if sb <? 0 then neg_c b else Some b) = Some r /\ bvconst w r) by (destruct (sb <? 0); eauto).
  destruct Hl as (l & -> & Hl). destruct Hr as (r & -> & Hr). rewrite (bvconst_width w l Hl).
  destruct (c_bv_urem w l r Hw Hl Hr) as (m & -> & Hm). destruct (sa <? 0); [now apply c_neg_c | eauto].
Qed.
Lemma c_bv_ashr w a b : 0 < w -> bvconst w a -> bvconst w b -> exists c, r_bv_ashr w a b = Some c /\ bvconst w c.
Proof.
  intros Hw Ha Hb. unfold r_bv_ashr, Simplifier.bind.
  destruct (bvconst_signed w a Ha) as [sa ->].
  destruct (c_bv_shift BLshr py_shr w a b Hw Ha Hb) as (ret & Eret & Hret). unfold r_bv_lshr. rewrite Eret.
  destruct Hb as (rv & -> & [R0 R1]). cbn [bv_value top TBVC].
  destruct (sa <? 0); [|eauto]. destruct Hret as (n & -> & [N0 N1]). cbn [bv_value top TBVC].
  set (k := if rv <? w then rv else w). assert (Hk : 0 <= k <= w) by (unfold k; destruct (Z.ltb_spec rv w); lia).
  (* what lshr returned is below 2^(w-k) *)
  assert (Hn : n < 2 ^ (w - k)).
  { destruct Ha as (x & -> & [X0 X1]). unfold r_bv_shift, mk_bvzero in Eret. cbn [bv_value top TBVC bv_width] in Eret.
    assert (Hpw : 0 < 2 ^ w) by (apply pow2_pos; lia).
    destruct (Z.eqb_spec rv 0) as [->|Hr0].
    - inversion Eret; subst. unfold k. rewrite (proj2 (Z.ltb_lt 0 w) Hw). now rewrite Z.sub_0_r.
    - destruct (Z.leb_spec w rv) as [Hge|Hlt].
      + rewrite mk_bv_total in Eret by (now apply zero_range). inversion Eret; subst. apply pow2_pos. lia.
      + unfold k. rewrite (proj2 (Z.ltb_lt rv w) Hlt).
        unfold py_shr in Eret. rewrite Z.shiftr_div_pow2 in Eret by lia.
        assert (Hq : 0 <= x / 2 ^ rv < 2 ^ (w - rv)).
        { assert (0 < 2 ^ rv) by (apply pow2_pos; lia). split; [apply Z.div_pos; lia|]. apply Z.div_lt_upper_bound; [lia|].
          rewrite <- Z.pow_add_r by lia. replace (rv + (w - rv)) with w by lia. lia. }
        assert (Hle : 2 ^ (w - rv) <= 2 ^ w) by (apply Z.pow_le_mono_r; lia).
        rewrite Z.mod_small in Eret by lia. rewrite mk_bv_total in Eret by (split; lia). inversion Eret; subst. lia. }
  apply bvconst_mk. unfold zrange. replace (w - (w - k)) with k by lia.
  rewrite (set_bits_range (w - k) n ltac:(lia) (conj N0 Hn) (Z.to_nat k)). rewrite Z2Nat.id by lia. replace (w - k + k) with w by lia.
  assert (0 < 2 ^ (w - k)) by (apply pow2_pos; lia). assert (2 ^ (w - k) <= 2 ^ w) by (apply Z.pow_le_mono_r; lia). split; lia.
Qed.
(* bit-string operators *)
Lemma mk_bv_bits_rev_total X w : X <> [] -> (w = None \/ w = Some (zlen X)) ->
  exists c, mk_bv_bits (rev X) w = Some c /\ bvconst (zlen X) c.
Proof.
  intros HX Hw. unfold mk_bv_bits. rewrite (int_of_bits_rev X HX).
  assert (Hl : zlen (rev X) = zlen X) by (unfold zlen; now rewrite rev_length). rewrite Hl.
  assert (R : in_range (zlen X) (lsb_val X)) by (unfold in_range, zlen; apply lsb_val_range).
  destruct Hw as [-> | ->]; [|rewrite Z.eqb_refl]; now apply bvconst_mk.
Qed.
Lemma bvconst_bits wa a : 0 < wa -> bvconst wa a -> exists v, a = TBVC v wa /\ in_range wa v /\
  is_bv_constant a = true /\ bv_bin_str a = Some (bits_msb (Z.to_nat wa) v).
Proof.
  intros Hw (v & -> & R). exists v. repeat split; try apply R. cbn. f_equal. apply bin_str_fits; auto.
Qed.
Lemma c_bv_extract wa s e a : 0 < wa -> 0 <= s -> s <= e -> e < wa -> bvconst wa a ->
  exists c, r_bv_extract s e a = Some c /\ bvconst (e - s + 1) c.
Proof.
  intros Hw Hs Hse He Ha. destruct (bvconst_bits wa a Hw Ha) as (v & -> & [V0 V1] & C & Hb).
  unfold r_bv_extract. rewrite C, Hb. unfold Simplifier.bind, py_reverse. rewrite rev_bits_msb.
  assert (HL : zlen (lsb_bits (Z.to_nat wa) v) = wa) by (unfold zlen; rewrite lsb_bits_length; apply Z2Nat.id; lia).
  rewrite py_slice_in by (rewrite ?HL; lia).
  assert (Hm1 : (Z.to_nat s <= Z.to_nat wa)%nat) by (apply Z2Nat.inj_le; lia).
  assert (Hm2 : (Z.to_nat (e + 1 - s) <= Z.to_nat wa - Z.to_nat s)%nat) by (rewrite <- Z2Nat.inj_sub by lia; apply Z2Nat.inj_le; lia).
  assert (Hm3 : (0 < Z.to_nat (e + 1 - s))%nat) by (apply (Z2Nat.inj_lt 0); lia).
  rewrite lsb_bits_skip by (auto; lia). rewrite lsb_bits_first by exact Hm2.
  set (X := lsb_bits (Z.to_nat (e + 1 - s)) (v / 2 ^ Z.of_nat (Z.to_nat s))).
  assert (HX : X <> []). { intros H. apply (f_equal (@List.length bool)) in H. unfold X in H. rewrite lsb_bits_length in H. cbn in H. lia. }
  assert (HzX : zlen X = e - s + 1) by (unfold zlen, X; rewrite lsb_bits_length, Z2Nat.id; lia).
  destruct (mk_bv_bits_rev_total X (Some (e + 1 - s)) HX) as (c & Ec & Bc); [right; f_equal; lia|].
  exists c. split; auto. now rewrite <- HzX.
Qed.
Lemma c_bv_ror w k a : 0 < w -> 0 <= k <= w -> bvconst w a -> exists c, r_bv_ror k a = Some c /\ bvconst w c.
Proof.
  intros Hw Hk Ha. destruct (bvconst_bits w a Hw Ha) as (v & -> & [V0 V1] & C & Hb).
  unfold r_bv_ror. rewrite C, Hb. unfold Simplifier.bind, py_reverse. rewrite rev_bits_msb.
  set (L := lsb_bits (Z.to_nat w) v).
  assert (HL : zlen L = w) by (unfold zlen, L; rewrite lsb_bits_length; apply Z2Nat.id; lia).
  set (X := py_slice L (Some k) None ++ py_slice L (Some 0) (Some k)).
  assert (Hlen : zlen X = w).
  { unfold X. rewrite py_slice_in, py_slice_from by (rewrite ?HL; lia). unfold zlen. rewrite app_length, skipn_length, firstn_length.
    cbn [skipn Z.to_nat]. rewrite Z.sub_0_r. unfold zlen in HL. rewrite Nat.min_l by (apply Nat2Z.inj_le; rewrite Z2Nat.id; lia).
    rewrite Nat2Z.inj_add, Nat2Z.inj_sub, Z2Nat.id by (try lia; apply Nat2Z.inj_le; rewrite Z2Nat.id; lia). lia. }
  assert (HX : X <> []) by (intros H; rewrite H in Hlen; cbn in Hlen; lia).
  destruct (mk_bv_bits_rev_total X None HX (or_introl eq_refl)) as (c & Ec & Bc). exists c. split; auto. now rewrite <- Hlen.
Qed.
Lemma c_bv_rol w k a : 0 < w -> 0 <= k <= w -> bvconst w a -> exists c, r_bv_rol k a = Some c /\ bvconst w c.
Proof.
  intros Hw Hk Ha. destruct (bvconst_bits w a Hw Ha) as (v & -> & [V0 V1] & C & Hb).
  unfold r_bv_rol. rewrite C, Hb. unfold Simplifier.bind, py_reverse. rewrite rev_bits_msb.
  set (L := lsb_bits (Z.to_nat w) v).
  assert (HL : zlen L = w) by (unfold zlen, L; rewrite lsb_bits_length; apply Z2Nat.id; lia).
  set (X := py_slice L (Some (- k)) None ++ py_slice L (Some 0) (Some (- k))).
  assert (Hlen : zlen X = w).
  { unfold X. destruct (Z.eq_dec k 0) as [->|Hk0].
    - cbn [Z.opp]. rewrite py_slice_in, py_slice_from by (rewrite ?HL; lia). cbn [Z.to_nat Z.sub firstn skipn]. now rewrite app_nil_r.
    - rewrite py_slice_neg_to, py_slice_neg_from by (rewrite HL; lia). rewrite HL. unfold zlen. rewrite app_length, skipn_length, firstn_length.
      unfold zlen in HL. rewrite Nat.min_l by (apply Nat2Z.inj_le; rewrite Z2Nat.id; lia).
      rewrite Nat2Z.inj_add, Nat2Z.inj_sub, Z2Nat.id by (try lia; apply Nat2Z.inj_le; rewrite Z2Nat.id; lia). lia. }
  assert (HX : X <> []) by (intros H; rewrite H in Hlen; cbn in Hlen; lia).
  destruct (mk_bv_bits_rev_total X None HX (or_introl eq_refl)) as (c & Ec & Bc). exists c. split; auto. now rewrite <- Hlen.
Qed.
Lemma c_bv_ext wa w k a : 0 < wa -> 0 <= k -> w = wa + k -> bvconst wa a ->
  exists v, a = TBVC v wa /\ forall fl, exists c, mk_bv_bits (py_repeat [fl] k ++ bits_msb (Z.to_nat wa) v) (Some w) = Some c /\ bvconst w c.
Proof.
  intros Hw Hk Ew (v & -> & R). exists v. split; auto. intros fl.
  set (L := py_repeat [fl] k ++ bits_msb (Z.to_nat wa) v).
  assert (HzL : zlen L = w).
  { unfold zlen, L. rewrite py_repeat_single, app_length, repeat_length, bits_msb_length. rewrite Nat2Z.inj_add, !Z2Nat.id by lia. lia. }
  assert (HX : rev L <> []) by (intros H; apply (f_equal (@List.length bool)) in H; rewrite rev_length in H; unfold zlen in HzL; cbn in H; lia).
  assert (Hzr : zlen (rev L) = w) by (unfold zlen in *; now rewrite rev_length).
  destruct (mk_bv_bits_rev_total (rev L) (Some w) HX) as (c & Ec & Bc); [right; now rewrite Hzr|].
  rewrite rev_involutive in Ec. exists c. split; auto. now rewrite <- Hzr.
Qed.
Close Scope Z_scope.

(* ------------------------------------------------------------------ one node on constant arguments *)
Lemma Forall_bconst l : Forall bterm l -> Forall kconst l -> Forall bconst l.
Proof. intros H K. induction H; inversion K; subst; constructor; auto. now apply bterm_kconst_bconst. Qed.
Lemma Forall_nconst t l : arith t -> Forall (nterm t) l -> Forall kconst l -> Forall (nconst t) l.
Proof. intros Ht H K. induction H; inversion K; subst; constructor; auto. now apply nterm_kconst_nconst. Qed.

Lemma bvterm_kconst_bvconst w c : bvterm w c -> kconst c -> bvconst w c.
Proof.
  intros [O Tc] (o & -> & Ho). destruct o; try contradiction; cbn in Tc; try discriminate. inversion Tc; subst.
  apply okt_node in O. cbn in O. apply andb_true_iff in O. destruct O as [O H3]. apply andb_true_iff in O. destruct O as [H1 H2].
  exists v. split; auto. split; [now apply Z.leb_le | now apply Z.ltb_lt].
Qed.
Lemma Forall_bvconst w l : Forall (bvterm w) l -> Forall kconst l -> Forall (bvconst w) l.
Proof. intros H K. induction H; inversion K; subst; constructor; auto. now apply bvterm_kconst_bvconst. Qed.
Lemma ex_kconst w (e : option term) : (exists c, e = Some c /\ bvconst w c) -> exists c, e = Some c /\ kconst c.
Proof. intros (c & E & B). exists c. split; auto. eapply bvconst_kconst; eauto. Qed.

Lemma bool_op_ty o cs ty : (o = OAnd \/ o = OOr \/ o = ONot \/ o = OImplies \/ o = OIff) ->
  tc (T o cs) = Some ty -> ty = TBool.
Proof.
  intros Ho H. destruct (tc_inv _ _ _ H) as (tys & _ & Hr).
  destruct Ho as [-> | [-> | [-> | [-> | ->]]]]; cbn in Hr; apply all_bool_inv in Hr; tauto.
Qed.

Lemma rule_const ora o cs ty : okt (T o cs) = true -> tc (T o cs) = Some ty -> cop o = true ->
  Forall kconst cs ->
  (match o, cs with ODiv, [_; b] => is_zero b = false | OPow, [_; e] => exp_nn e = true | _, _ => True end) ->
  exists c, rule ora o cs = Some c /\ kconst c.
Proof.
  intros Hok Htc Hc K Hdiv.
  pose proof (okt_node _ _ Hok) as Hn. pose proof (okt_args _ _ Hok) as Fa.
  destruct o; try discriminate Hc; cbn [ok_node] in Hn; cbn [rule]; unfold un, bin, tern.
  - (* and *) pose proof (bool_op_ty OAnd cs ty (or_introl eq_refl) Htc) as ->. pose proof (bterm_args OAnd cs (or_introl eq_refl) (conj Hok Htc)) as F.
    eexists; split; [reflexivity|]. apply r_and_const. now apply Forall_bconst.
  - (* or *) pose proof (bool_op_ty OOr cs ty (or_intror (or_introl eq_refl)) Htc) as ->. pose proof (bterm_args OOr cs (or_intror (or_introl eq_refl)) (conj Hok Htc)) as F.
    eexists; split; [reflexivity|]. apply r_or_const. now apply Forall_bconst.
  - (* not *) pose proof (bool_op_ty ONot cs ty (or_intror (or_intror (or_introl eq_refl))) Htc) as ->. pose proof (bterm_args ONot cs (or_intror (or_intror (or_introl eq_refl))) (conj Hok Htc)) as F.
    destruct cs as [|a [|? ?]]; try discriminate. pose proof (Forall_bconst _ F K) as B. inversion B as [|? ? [b ->] _]; subst.
    eexists; split; [reflexivity|]. apply mk_bool_kconst.
  - (* implies *) pose proof (bool_op_ty OImplies cs ty (or_intror (or_intror (or_intror (or_introl eq_refl)))) Htc) as ->. pose proof (bterm_args OImplies cs (or_intror (or_intror (or_intror (or_introl eq_refl)))) (conj Hok Htc)) as F.
    destruct cs as [|a [|b [|? ?]]]; try discriminate. pose proof (Forall_bconst _ F K) as B.
    inversion B as [|? ? [x ->] B']; subst. inversion B' as [|? ? [y ->] _]; subst.
    eexists; split; [reflexivity|]. cbn. destruct x; [apply bconst_kconst; exists y; reflexivity | apply mk_bool_kconst].
  - (* iff *) pose proof (bool_op_ty OIff cs ty (or_intror (or_intror (or_intror (or_intror eq_refl)))) Htc) as ->. pose proof (bterm_args OIff cs (or_intror (or_intror (or_intror (or_intror eq_refl)))) (conj Hok Htc)) as F.
    destruct cs as [|a [|b [|? ?]]]; try discriminate. pose proof (Forall_bconst _ F K) as B.
    inversion B as [|? ? [x ->] B']; subst. inversion B' as [|? ? [y ->] _]; subst.
    eexists; split; [reflexivity|]. apply mk_bool_kconst.
  - (* real *) pose proof (const_no_args _ _ _ Htc Logic.I) as ->. eexists; split; [reflexivity|]. eexists; split; [reflexivity | exact Logic.I].
  - pose proof (const_no_args _ _ _ Htc Logic.I) as ->. eexists; split; [reflexivity|]. eexists; split; [reflexivity | exact Logic.I].
  - pose proof (const_no_args _ _ _ Htc Logic.I) as ->. eexists; split; [reflexivity|]. eexists; split; [reflexivity | exact Logic.I].
  - pose proof (const_no_args _ _ _ Htc Logic.I) as ->. eexists; split; [reflexivity|]. eexists; split; [reflexivity | exact Logic.I].
  - (* plus *)
    destruct (nterm_args OPlus ty cs (or_introl eq_refl) (conj Hok Htc)) as [Har F].
    apply (r_plus_const ty); auto; [destruct cs; [discriminate | congruence] | now apply Forall_nconst].
  - (* minus *)
    destruct (nterm_args OMinus ty cs (or_intror (or_intror (or_introl eq_refl))) (conj Hok Htc)) as [Har F].
    destruct cs as [|a [|b [|? ?]]]; try discriminate. pose proof (Forall_nconst ty _ Har F K) as B.
    inversion B as [|? ? Ba B']; subst. inversion B' as [|? ? Bb _]; subst.
    destruct Ba as [[-> (z1 & ->)]|[-> (n1 & d1 & -> & _)]]; destruct Bb as [[E (z2 & ->)]|[E (n2 & d2 & -> & _)]]; try discriminate E;
      eexists; (split; [reflexivity|]); [apply mk_int_kconst | apply mk_real_kconst].
  - (* times *)
    destruct (nterm_args OTimes ty cs (or_intror (or_introl eq_refl)) (conj Hok Htc)) as [Har F].
    apply (r_times_const ora ty); auto; [destruct cs; [discriminate | congruence] | now apply Forall_nconst].
  - (* le *)
    destruct cs as [|a [|b [|? ?]]]; try discriminate.
    destruct (rel_args OLe a b ty (or_introl eq_refl) Hok Htc) as [-> (u & Hu & Na & Nb)].
    inversion K as [|? ? Ka K']; subst. inversion K' as [|? ? Kb _]; subst.
    destruct (nterm_kconst_nconst u a Hu Na Ka) as [[-> (z1 & ->)]|[-> (n1 & d1 & -> & _)]];
      destruct (nterm_kconst_nconst _ b Hu Nb Kb) as [[E (z2 & ->)]|[E (n2 & d2 & -> & _)]]; try discriminate E;
      eexists; (split; [reflexivity|]); apply mk_bool_kconst.
  - (* lt *)
    destruct cs as [|a [|b [|? ?]]]; try discriminate.
    destruct (rel_args OLt a b ty (or_intror eq_refl) Hok Htc) as [-> (u & Hu & Na & Nb)].
    inversion K as [|? ? Ka K']; subst. inversion K' as [|? ? Kb _]; subst.
    destruct (nterm_kconst_nconst u a Hu Na Ka) as [[-> (z1 & ->)]|[-> (n1 & d1 & -> & _)]];
      destruct (nterm_kconst_nconst _ b Hu Nb Kb) as [[E (z2 & ->)]|[E (n2 & d2 & -> & _)]]; try discriminate E;
      eexists; (split; [reflexivity|]); apply mk_bool_kconst.
  - (* equals *)
    destruct cs as [|a [|b [|? ?]]]; try discriminate.
    inversion K as [|? ? (oa & -> & Ha) K']; subst. inversion K' as [|? ? (ob & -> & Hb) _]; subst.
    destruct oa; try contradiction; destruct ob; try contradiction; eexists; (split; [reflexivity|]); apply mk_bool_kconst.
  - (* ite *)
    destruct cs as [|c [|a [|b [|? ?]]]]; try discriminate.
    inversion K as [|? ? Kc K']; subst. inversion K' as [|? ? Ka K'']; subst. inversion K'' as [|? ? Kb _]; subst.
    assert (Bc : bconst c).
    { apply bterm_kconst_bconst; auto. inversion Fa as [|? ? Oc _]; subst. split; auto.
      destruct (tc_inv _ _ _ Htc) as (tys & Ht & Hr). pose proof (tcs_Forall2 _ _ Ht) as F2.
      inversion F2 as [|? tc0 ? ? Hc0 F2']; subst. inversion F2' as [|? ta ? ? _ F2'']; subst. inversion F2'' as [|? tb ? ? _ F3]; subst. inversion F3; subst.
      cbn in Hr. destruct (ty_eqb tc0 TBool) eqn:E; [|discriminate]. apply ty_eqb_eq in E. now subst. }
    destruct Bc as [bb ->]. eexists; split; [reflexivity|]. unfold r_ite.
    destruct (term_eqb a b); auto. cbn. destruct bb; auto.
  - (* toreal *)
    destruct cs as [|a [|? ?]]; try discriminate.
    destruct (tc_inv _ _ _ Htc) as (tys & Ht & Hr). pose proof (tcs_Forall2 _ _ Ht) as F2.
    cbn in Hr. apply type_to_type_inv in Hr. destruct Hr as [Hall _].
    inversion F2 as [|? ta ? ? Ha F2']; subst. inversion F2'; subst. inversion Hall; subst.
    inversion Fa as [|? ? Oa _]; subst. inversion K as [|? ? Ka _]; subst.
    destruct (nterm_kconst_nconst TInt a (or_introl eq_refl) (conj Oa Ha) Ka) as [[_ (z & ->)]|[E _]]; [|discriminate E].
    eexists; split; [reflexivity|]. apply mk_real_kconst.
  - (* bvc *) pose proof (const_no_args _ _ _ Htc Logic.I) as ->. eexists; split; [reflexivity|]. eexists; split; [reflexivity | exact Logic.I].
  - (* bv operators *)
    apply andb_true_iff in Hn. destruct Hn as [Hw Hk]. apply Z.ltb_lt in Hw.
    destruct k; try discriminate Hk.
    + destruct (bv_args_generic BNot w cs ty Logic.I Hok Htc) as [_ F]. destruct cs as [|a [|? ?]]; try discriminate.
      pose proof (Forall_bvconst w _ F K) as B. inversion B as [|? ? Ba _]; subst. apply (ex_kconst w). now apply c_bv_not.
    + destruct (bv_args_generic BAnd w cs ty Logic.I Hok Htc) as [_ F]. destruct cs as [|a [|b [|? ?]]]; try discriminate.
      pose proof (Forall_bvconst w _ F K) as B. inversion B as [|? ? Ba B']; subst. inversion B' as [|? ? Bb _]; subst.
      unfold bin. apply (ex_kconst w). now apply c_bv_and.
    + destruct (bv_args_generic BOr w cs ty Logic.I Hok Htc) as [_ F]. destruct cs as [|a [|b [|? ?]]]; try discriminate.
      pose proof (Forall_bvconst w _ F K) as B. inversion B as [|? ? Ba B']; subst. inversion B' as [|? ? Bb _]; subst.
      unfold bin. apply (ex_kconst w). now apply c_bv_or.
    + destruct (bv_args_generic BXor w cs ty Logic.I Hok Htc) as [_ F]. destruct cs as [|a [|b [|? ?]]]; try discriminate.
      pose proof (Forall_bvconst w _ F K) as B. inversion B as [|? ? Ba B']; subst. inversion B' as [|? ? Bb _]; subst.
      unfold bin. apply (ex_kconst w). now apply c_bv_xor.
    + (* concat *)
      destruct cs as [|a [|b [|? ?]]]; try discriminate.
      destruct (bv_args_pair _ a b ty Hok Htc) as (ta & tb & Oa & Ob & Ta & Tb & Hr2).
      cbn in Hr2. destruct ta as [| | | |wa| | |]; try discriminate. destruct tb as [| | | |wb| | |]; try discriminate.
      inversion K as [|? ? Ka K']; subst. inversion K' as [|? ? Kb _]; subst.
      pose proof (bvterm_kconst_bvconst wa a (conj Oa Ta) Ka) as Ba. pose proof (bvterm_kconst_bvconst wb b (conj Ob Tb) Kb) as Bb.
      assert (Hwa : (0 < wa)%Z) by (destruct Ba as (z & -> & _); now apply (bvc_pos z)).
      assert (Hwb : (0 < wb)%Z) by (destruct Bb as (z & -> & _); now apply (bvc_pos z)).
      apply (ex_kconst (wa + wb)). now apply c_bv_concat.
    + destruct (bv_args_generic BNeg w cs ty Logic.I Hok Htc) as [_ F]. destruct cs as [|a [|? ?]]; try discriminate.
      pose proof (Forall_bvconst w _ F K) as B. inversion B as [|? ? Ba _]; subst. apply (ex_kconst w). now apply c_bv_neg.
    + destruct (bv_args_generic BAdd w cs ty Logic.I Hok Htc) as [_ F]. destruct cs as [|a [|b [|? ?]]]; try discriminate.
      pose proof (Forall_bvconst w _ F K) as B. inversion B as [|? ? Ba B']; subst. inversion B' as [|? ? Bb _]; subst.
      unfold bin. apply (ex_kconst w). now apply c_bv_add.
    + destruct (bv_args_generic BSub w cs ty Logic.I Hok Htc) as [_ F]. destruct cs as [|a [|b [|? ?]]]; try discriminate.
      pose proof (Forall_bvconst w _ F K) as B. inversion B as [|? ? Ba B']; subst. inversion B' as [|? ? Bb _]; subst.
      unfold bin. apply (ex_kconst w). now apply c_bv_sub.
    + destruct (bv_args_generic BMul w cs ty Logic.I Hok Htc) as [_ F]. destruct cs as [|a [|b [|? ?]]]; try discriminate.
      pose proof (Forall_bvconst w _ F K) as B. inversion B as [|? ? Ba B']; subst. inversion B' as [|? ? Bb _]; subst.
      unfold bin. apply (ex_kconst w). now apply c_bv_mul.
    + destruct (bv_args_generic BUdiv w cs ty Logic.I Hok Htc) as [_ F]. destruct cs as [|a [|b [|? ?]]]; try discriminate.
      pose proof (Forall_bvconst w _ F K) as B. inversion B as [|? ? Ba B']; subst. inversion B' as [|? ? Bb _]; subst.
      unfold bin. apply (ex_kconst w). now apply c_bv_udiv.
    + destruct (bv_args_generic BUrem w cs ty Logic.I Hok Htc) as [_ F]. destruct cs as [|a [|b [|? ?]]]; try discriminate.
      pose proof (Forall_bvconst w _ F K) as B. inversion B as [|? ? Ba B']; subst. inversion B' as [|? ? Bb _]; subst.
      unfold bin. apply (ex_kconst w). now apply c_bv_urem.
    + destruct (bv_args_generic BLshl w cs ty Logic.I Hok Htc) as [_ F]. destruct cs as [|a [|b [|? ?]]]; try discriminate.
      pose proof (Forall_bvconst w _ F K) as B. inversion B as [|? ? Ba B']; subst. inversion B' as [|? ? Bb _]; subst.
      unfold bin. apply (ex_kconst w). now apply (c_bv_shift BLshl py_shl).
    + destruct (bv_args_generic BLshr w cs ty Logic.I Hok Htc) as [_ F]. destruct cs as [|a [|b [|? ?]]]; try discriminate.
      pose proof (Forall_bvconst w _ F K) as B. inversion B as [|? ? Ba B']; subst. inversion B' as [|? ? Bb _]; subst.
      unfold bin. apply (ex_kconst w). now apply (c_bv_shift BLshr py_shr).
    + (* comp *)
      destruct cs as [|a [|b [|? ?]]]; try discriminate. unfold bin.
      destruct (bv_args_pair _ a b ty Hok Htc) as (ta & tb & Oa & Ob & Ta & Tb & Hr2).
      cbn in Hr2. destruct (ty_eqb ta tb && is_bv ta) eqn:Et; [|discriminate].
      apply andb_true_iff in Et. destruct Et as [E1 E2]. apply ty_eqb_eq in E1. subst tb. destruct ta as [| | | |wa| | |]; try discriminate.
      inversion K as [|? ? Ka K']; subst. inversion K' as [|? ? Kb _]; subst.
      apply (ex_kconst 1). apply (c_bv_comp wa); now apply bvterm_kconst_bvconst.
    + destruct (bv_args_generic BSdiv w cs ty Logic.I Hok Htc) as [_ F]. destruct cs as [|a [|b [|? ?]]]; try discriminate.
      pose proof (Forall_bvconst w _ F K) as B. inversion B as [|? ? Ba B']; subst. inversion B' as [|? ? Bb _]; subst.
      unfold bin. apply (ex_kconst w). now apply c_bv_sdiv.
    + destruct (bv_args_generic BSrem w cs ty Logic.I Hok Htc) as [_ F]. destruct cs as [|a [|b [|? ?]]]; try discriminate.
      pose proof (Forall_bvconst w _ F K) as B. inversion B as [|? ? Ba B']; subst. inversion B' as [|? ? Bb _]; subst.
      unfold bin. apply (ex_kconst w). now apply c_bv_srem.
    + destruct (bv_args_generic BAshr w cs ty Logic.I Hok Htc) as [_ F]. destruct cs as [|a [|b [|? ?]]]; try discriminate.
      pose proof (Forall_bvconst w _ F K) as B. inversion B as [|? ? Ba B']; subst. inversion B' as [|? ? Bb _]; subst.
      unfold bin. apply (ex_kconst w). now apply c_bv_ashr.
  - (* bv relations *)
    destruct cs as [|a [|b [|? ?]]]; try discriminate.
    destruct (bv_args_pair _ a b ty Hok Htc) as (ta & tb & Oa & Ob & Ta & Tb & Hr2).
    cbn in Hr2. destruct ta as [| | | |wa| | |]; try discriminate. destruct tb as [| | | |wb| | |]; try discriminate.
    cbn in Hr2. destruct (Z.eqb_spec wa wb) as [<-|]; [|discriminate].
    inversion K as [|? ? Ka K']; subst. inversion K' as [|? ? Kb _]; subst.
    destruct (bvterm_kconst_bvconst wa a (conj Oa Ta) Ka) as (x & -> & _). destruct (bvterm_kconst_bvconst wa b (conj Ob Tb) Kb) as (y & -> & _).
    destruct k; cbn.
    + unfold r_bv_ult. cbn [bv_value top TBVC]. destruct (term_eqb (TBVC x wa) (TBVC y wa)); [eexists; split; [reflexivity | apply mk_bool_kconst]|].
      destruct (y =? 0)%Z; eexists; (split; [reflexivity|]); apply mk_bool_kconst.
    + unfold r_bv_ule. cbn [bv_value top TBVC]. destruct (term_eqb (TBVC x wa) (TBVC y wa)); [eexists; split; [reflexivity | apply mk_bool_kconst]|].
      destruct (x =? 0)%Z; eexists; (split; [reflexivity|]); apply mk_bool_kconst.
    + unfold r_bv_scmp. cbn [bv_signed_value top TBVC]. eexists; split; [reflexivity | apply mk_bool_kconst].
    + unfold r_bv_scmp. cbn [bv_signed_value top TBVC]. eexists; split; [reflexivity | apply mk_bool_kconst].
  - (* extract *)
    destruct cs as [|a [|? ?]]; try discriminate.
    destruct (tc_inv _ _ _ Htc) as (tys & Ht & Hr). pose proof (tcs_Forall2 _ _ Ht) as F2.
    inversion F2 as [|? ta ? ? Ha F2']; subst. inversion F2'; subst. inversion Fa as [|? ? Oa _]; subst. inversion K as [|? ? Ka _]; subst.
    apply andb_true_iff in Hn. destruct Hn as [Hn Hse]. apply andb_true_iff in Hn. destruct Hn as [_ Hs0]. apply Z.leb_le in Hse, Hs0.
    cbn in Hr. destruct ta as [| | | |wa| | |]; try discriminate.
    destruct (Z.geb_spec s wa); [discriminate|]. destruct (Z.geb_spec e wa); [discriminate|].
    pose proof (bvterm_kconst_bvconst wa a (conj Oa Ha) Ka) as Ba.
    apply (ex_kconst (e - s + 1)). apply (c_bv_extract wa); auto; lia.
  - (* rol *)
    destruct cs as [|a [|? ?]]; try discriminate.
    destruct (tc_inv _ _ _ Htc) as (tys & Ht & Hr). pose proof (tcs_Forall2 _ _ Ht) as F2.
    inversion F2 as [|? ta ? ? Ha F2']; subst. inversion F2'; subst. inversion Fa as [|? ? Oa _]; subst. inversion K as [|? ? Ka _]; subst.
    apply andb_true_iff in Hn. destruct Hn as [_ Hw]. apply Z.ltb_lt in Hw.
    cbn in Hr. destruct (Z.ltb_spec w k); [discriminate|]. destruct (w <? 0)%Z; [discriminate|]. destruct (Z.ltb_spec k 0); [discriminate|]. cbn [orb] in Hr.
    destruct ta as [| | | |wa| | |]; try discriminate. destruct (Z.eqb_spec w wa) as [<-|]; [|discriminate].
    pose proof (bvterm_kconst_bvconst w a (conj Oa Ha) Ka) as Ba.
    apply (ex_kconst w). apply c_bv_rol; auto; lia.
  - (* ror *)
    destruct cs as [|a [|? ?]]; try discriminate.
    destruct (tc_inv _ _ _ Htc) as (tys & Ht & Hr). pose proof (tcs_Forall2 _ _ Ht) as F2.
    inversion F2 as [|? ta ? ? Ha F2']; subst. inversion F2'; subst. inversion Fa as [|? ? Oa _]; subst. inversion K as [|? ? Ka _]; subst.
    apply andb_true_iff in Hn. destruct Hn as [_ Hw]. apply Z.ltb_lt in Hw.
    cbn in Hr. destruct (Z.ltb_spec w k); [discriminate|]. destruct (w <? 0)%Z; [discriminate|]. destruct (Z.ltb_spec k 0); [discriminate|]. cbn [orb] in Hr.
    destruct ta as [| | | |wa| | |]; try discriminate. destruct (Z.eqb_spec w wa) as [<-|]; [|discriminate].
    pose proof (bvterm_kconst_bvconst w a (conj Oa Ha) Ka) as Ba.
    apply (ex_kconst w). apply c_bv_ror; auto; lia.
  - (* zext *)
    destruct cs as [|a [|? ?]]; try discriminate.
    destruct (tc_inv _ _ _ Htc) as (tys & Ht & Hr). pose proof (tcs_Forall2 _ _ Ht) as F2.
    inversion F2 as [|? ta ? ? Ha F2']; subst. inversion F2'; subst. inversion Fa as [|? ? Oa _]; subst. inversion K as [|? ? Ka _]; subst.
    cbn in Hr. destruct ta as [| | | |wa| | |]; try discriminate.
    destruct (Z.ltb_spec w wa); [discriminate|]. destruct (Z.ltb_spec w 0); [discriminate|].
    apply Z.eqb_eq in Hn. rewrite (bv_width_ok a wa Oa Ha) in Hn. pose proof (bvterm_pos a wa Oa Ha) as Hwa.
    pose proof (bvterm_kconst_bvconst wa a (conj Oa Ha) Ka) as Ba.
    destruct (c_bv_ext wa w k a Hwa ltac:(lia) Hn Ba) as (v & -> & Hall). destruct (Hall false) as (c & Ec & Bc).
    apply (ex_kconst w). exists c. split; auto. unfold r_bv_zext. cbn [is_bv_constant top TBVC bv_bin_str Simplifier.bind].
    destruct Ba as (v' & Ev & Rv). inversion Ev; subst v'. cbn. rewrite bin_str_fits by (try lia; apply Rv). exact Ec.
  - (* sext *)
    destruct cs as [|a [|? ?]]; try discriminate.
    destruct (tc_inv _ _ _ Htc) as (tys & Ht & Hr). pose proof (tcs_Forall2 _ _ Ht) as F2.
    inversion F2 as [|? ta ? ? Ha F2']; subst. inversion F2'; subst. inversion Fa as [|? ? Oa _]; subst. inversion K as [|? ? Ka _]; subst.
    cbn in Hr. destruct ta as [| | | |wa| | |]; try discriminate.
    destruct (Z.ltb_spec w wa); [discriminate|]. destruct (Z.ltb_spec w 0); [discriminate|].
    apply Z.eqb_eq in Hn. rewrite (bv_width_ok a wa Oa Ha) in Hn. pose proof (bvterm_pos a wa Oa Ha) as Hwa.
    pose proof (bvterm_kconst_bvconst wa a (conj Oa Ha) Ka) as Ba.
    destruct (c_bv_ext wa w k a Hwa ltac:(lia) Hn Ba) as (v & -> & Hall).
    destruct Ba as (v' & Ev & Rv). inversion Ev; subst v'.
    unfold r_bv_sext. cbn. rewrite bin_str_fits by (try lia; apply Rv).
    destruct (bits_msb (Z.to_nat wa) v) as [|f bits] eqn:Eb.
    { apply (f_equal (@List.length bool)) in Eb. rewrite bits_msb_length in Eb. cbn in Eb. lia. }
    destruct (Hall f) as (c & Ec & Bc). apply (ex_kconst w). exists c. split; auto.
  - (* div *)
    destruct (nterm_args ODiv ty cs (or_intror (or_intror (or_intror eq_refl))) (conj Hok Htc)) as [Har F].
    destruct cs as [|a [|b [|? ?]]]; try discriminate. pose proof (Forall_nconst ty _ Har F K) as B.
    inversion B as [|? ? Ba B']; subst. inversion B' as [|? ? Bb _]; subst.
    destruct Ba as [[-> (z1 & ->)]|[-> (n1 & d1 & -> & _)]]; destruct Bb as [[E (z2 & ->)]|[E (n2 & d2 & -> & _)]]; try discriminate E;
      unfold r_div; rewrite Hdiv; cbn [is_constant TIntC TRealC andb negb top num_value]; unfold Simplifier.bind.
    + unfold is_zero in Hdiv. cbn in Hdiv. unfold py_floordiv. rewrite Hdiv.
      assert (Hm : (- z2 =? 0)%Z = false) by (apply Z.eqb_neq; apply Z.eqb_neq in Hdiv; lia). rewrite Hm.
      destruct (0 <? z2)%Z; eexists; (split; [reflexivity|]); apply mk_int_kconst.
    + unfold is_zero in Hdiv. cbn in Hdiv. unfold fr_div. cbn [fst snd]. rewrite Hdiv.
      eexists; split; [reflexivity|]. apply mk_real_kconst.
  - (* pow *)
    destruct cs as [|a [|e rest]]; try discriminate.
    destruct rest; [|destruct e as [[] [|]]; discriminate Hn].
    destruct (pow_shape a e ty Hok Htc) as [-> Hsh]. inversion K as [|? ? Ka _]; subst.
    destruct Hsh as [[Na (y & ->)]|[Na (m & ->)]]; cbn in Hdiv; apply Z.leb_le in Hdiv; [pose proof Hdiv as Hy | pose proof Hdiv as Hm].
    + destruct (nterm_kconst_nconst TInt a (or_introl eq_refl) Na Ka) as [[_ (z & ->)]|[E _]]; [|discriminate E].
      unfold r_pow. cbn [num_value top TIntC constant_value].
      assert (Hc2 : negb (fst (z, 1%Z) =? 0)%Z || fr_leb (0%Z, 1%Z) (y, 1%Z) = true).
      { apply orb_true_iff. right. unfold fr_leb. cbn. apply Z.leb_le. lia. }
      rewrite Hc2. cbn [fr_is_int snd fst Z.eqb]. unfold Simplifier.bind, fr_pow_int. rewrite (proj2 (Z.leb_le 0 y) Hy).
      eexists; split; [reflexivity|]. apply mk_real_kconst.
    + destruct (nterm_kconst_nconst TReal a (or_intror eq_refl) Na Ka) as [[E _]|[_ (n & d & -> & _)]]; [discriminate E|].
      unfold r_pow. cbn [num_value top TRealC constant_value].
      assert (Hc2 : negb (fst (n, d) =? 0)%Z || fr_leb (0%Z, 1%Z) (m, 1%Z) = true).
      { apply orb_true_iff. right. unfold fr_leb. cbn. apply Z.leb_le. lia. }
      rewrite Hc2. cbn [fr_is_int snd fst Z.eqb]. unfold Simplifier.bind, fr_pow_int. rewrite (proj2 (Z.leb_le 0 m) Hm).
      eexists; split; [reflexivity|]. apply mk_real_kconst.
  - (* bv2nat *)
    destruct cs as [|a [|? ?]]; try discriminate. inversion K as [|? ? (o & -> & Ho) _]; subst.
    destruct o; try contradiction; try (cbn in Htc; discriminate). cbn. eexists; split; [reflexivity | apply mk_int_kconst].
Qed.

(* ------------------------------------------------------------------ the simplifier *)
Lemma kconst_tc c : kconst c -> exists t, tc c = Some t.
Proof. intros (o & -> & Ho). destruct o; try contradiction; cbn; eauto. Qed.
Lemma children_ok ora I : wfi I -> forall args cs tys,
  Forall2 (fun a c => simplify_opt ora a = Some c) args cs ->
  Forall (fun a => okt a = true) args -> tcs args = Some tys ->
  Forall (fun c => okt c = true) cs /\ tcs cs = Some tys.
Proof.
  intros Hwf args cs tys F2. revert tys. induction F2 as [|a c l l' Ha Hl IH]; intros tys Fa Ht.
  - split; [constructor | exact Ht].
  - inversion Fa; subst. cbn in Ht. destruct (tc a) as [ta|] eqn:Ta; [|discriminate].
    destruct (tcs l) as [tr|] eqn:Tr; [|discriminate]. inversion Ht; subst.
    destruct (simplify_sound_stages ora a I ta c H1 Ta Hwf Ha) as [[O Tc] _].
    destruct (IH tr H2 eq_refl) as [F Tcs]. split; [constructor; auto|]. cbn. now rewrite Tc, Tcs.
Qed.
Lemma is_zero_kconst_val I c : kconst c -> is_zero c = true -> is_zero_val (eval I c).
Proof.
  intros (o & -> & Ho). unfold is_zero. cbn [top]. destruct o; try discriminate; intros E; apply Z.eqb_eq in E; subst; cbn.
  - unfold Q2R'. lra.
  - reflexivity.
Qed.

Theorem fold_constant : forall ora I t ty, cfrag t = true -> tc t = Some ty -> wfi I -> nodiv0 I t ->
  exists c, simplify_opt ora t = Some c /\ kconst c.
Proof.
  intros ora I. induction t as [o args IH] using term_ind'. intros ty Hf Htc Hwf Hnd.
  destruct (cfrag_parts _ Hf) as (Hok & Hcs & Hpn).
  rewrite cops_unfold in Hcs. apply andb_true_iff in Hcs. destruct Hcs as [Ho Hcs]. rewrite forallb_forall in Hcs.
  rewrite pownn_unfold in Hpn. apply andb_true_iff in Hpn. destruct Hpn as [Hpo Hpn]. rewrite forallb_forall in Hpn.
  pose proof (okt_args _ _ Hok) as Fa. pose proof (okt_node _ _ Hok) as Hn.
  destruct (tc_inv _ _ _ Htc) as (tys & Ht & Hr).
  pose proof (nodiv0_args _ _ _ Hnd) as Fn.
  (* the arguments fold to constants *)
  assert (Hargs : exists cs, map_opt (simplify_opt ora) args = Some cs /\ Forall kconst cs /\
                             Forall2 (fun a c => simplify_opt ora a = Some c) args cs).
  { clear Hr Hn Htc Hok Hnd Hpo Hf. revert tys Ht. induction args as [|a r IHr]; intros tys Ht.
    - exists []. repeat split; constructor.
    - cbn in Ht. destruct (tc a) as [ta|] eqn:Ta; [|discriminate]. destruct (tcs r) as [tr|] eqn:Tr; [|discriminate].
      inversion Fa; subst. inversion Fn; subst.
      destruct (Forall_inv IH ta) as (c & Ec & Kc); auto.
      { apply cfrag_intro; [exact H1 | apply Hcs; cbn; auto | apply Hpn; cbn; auto]. }
      destruct (IHr (Forall_inv_tail IH)) with (tys := tr) as (cs & Em & Kcs & F2); auto.
      { intros x Hx. apply Hcs. cbn; auto. }
      { intros x Hx. apply Hpn. cbn; auto. }
      exists (c :: cs). cbn. rewrite Ec, Em. repeat split; constructor; auto. }
  destruct Hargs as (cs & Em & Kcs & F2).
  rewrite simplify_opt_unfold, Em.
  destruct (children_ok ora I Hwf args cs tys F2 Fa Ht) as [Fc Tcs].
  assert (Hok' : okt (T o cs) = true).
  { apply okt_intro; auto. destruct (len_op o) eqn:Eo.
    - rewrite <- (ok_node_length o args cs); auto. eapply Forall2_length_eq; eauto.
    - assert (F2' : Forall2 (fun a a' => okt a' = true /\ tc a' = tc a) args cs).
      { clear - F2 Fa Ht Hwf. revert tys Ht Fa. induction F2 as [|a c l l' Ha Hl IHl]; intros tys Ht Fa; constructor.
        - inversion Fa; subst. cbn in Ht. destruct (tc a) as [ta|] eqn:Ta; [|discriminate].
          destruct (simplify_sound_stages ora a I ta c H1 Ta Hwf Ha) as [[O Tc] _]. split; auto.
        - inversion Fa; subst. cbn in Ht. destruct (tc a); [|discriminate]. destruct (tcs l) eqn:Tl; [|discriminate]. eapply IHl; eauto. }
      destruct o; try discriminate Eo.
      + apply (ok_node_ext _ args cs); eauto.
      + apply (ok_node_ext _ args cs); eauto.
      + discriminate Ho.
      + eapply ok_node_pow; eauto. }
  assert (Htc' : tc (T o cs) = Some ty) by (rewrite tc_tcs, Tcs; exact Hr).
  assert (Hdiv : match o, cs with ODiv, [_; b] => is_zero b = false | OPow, [_; e] => exp_nn e = true | _, _ => True end).
  { destruct o; try exact Logic.I.
    2:{ (* pow: the exponent is a constant, simplification leaves it alone *)
        destruct cs as [|a' [|e' [|? ?]]]; try exact Logic.I.
        inversion F2 as [|a ? ? ? Ea F2']; subst. inversion F2' as [|e ? ? ? Ee F2'']; subst. inversion F2''; subst.
        cbn [pow_node_nn] in Hpo. cbn [ok_node] in Hn.
        destruct e as [oe le]. destruct oe; try discriminate Hn; destruct le; try discriminate Hn;
          rewrite simplify_constant in Ee by exact Logic.I; inversion Ee; subst; exact Hpo. }
    destruct cs as [|a' [|b' [|? ?]]]; try exact Logic.I.
    inversion F2 as [|a ? ? ? Ea F2']; subst. inversion F2' as [|b ? ? ? Eb F2'']; subst. inversion F2''; subst.
    destruct Hnd as [Hz _]. inversion Kcs as [|? ? _ K']; subst. inversion K' as [|? ? Kb _]; subst.
    destruct (is_zero b') eqn:Z; auto. exfalso. apply Hz.
    inversion Fa as [|? ? _ Fa']; subst. inversion Fa' as [|? ? Ob _]; subst.
    cbn in Ht. destruct (tc a); [|discriminate]. destruct (tc b) as [tb|] eqn:Tb; [|discriminate].
    destruct (simplify_sound_stages ora b I tb b' Ob Tb Hwf Eb) as [_ Ev].
    rewrite <- Ev; [now apply is_zero_kconst_val|].
    apply nodiv0_div_safe; [apply Hcs; cbn; auto|]. inversion Fn as [|? ? _ Fn']; subst. now inversion Fn'. }
  destruct (rule_const ora o cs ty Hok' Htc' Ho Kcs Hdiv) as (c & Ec & Kc).
  exists c. split; auto. unfold simp_rule, Simplifier.bind. rewrite Ec.
  destruct (rule_sound1 I ora o cs ty c Hwf Hok' Htc' Ec) as (_ & Tc & _). now rewrite Tc.
Qed.

(* For closed, quantifier-free, UF-free terms of the fragment (cfrag: no symbol, function
   application or quantifier occurs) in which no divisor evaluates to 0: simplification returns a
   constant, of the sort of the term, that denotes the value of the term. *)
Theorem fold_complete_partial : forall ora I t ty, cfrag t = true -> tc t = Some ty -> wfi I -> nodiv0 I t ->
  exists c, simplify_opt ora t = Some c /\ is_const c = true /\ tc c = Some ty /\ eval I c = eval I t.
Proof.
  intros ora I t ty Hf Htc Hwf Hnd.
  destruct (fold_constant ora I t ty Hf Htc Hwf Hnd) as (c & Ec & Kc).
  exists c. split; auto. split; [now apply kconst_is_const|].
  destruct (cfrag_parts _ Hf) as (Hok & Hcs & _).
  destruct (simplify_sound_stages ora t I ty c Hok Htc Hwf Ec) as [[_ Tc] Ev]. split; auto.
  apply Ev. now apply nodiv0_div_safe.
Qed.

Example fold_example_arith :
  let t := T OLe [T OPlus [T OTimes [TIntC 3; TIntC (-2)]; T ODiv [TIntC 7; TIntC (-2)]]; T OIte [T ONot [TFalse]; TIntC (-9); TIntC 5]] in
  cfrag t = true /\ tc t = Some TBool /\ nodiv0 I0 t /\ simplify_opt no_oracle t = Some TTrue.
Proof. cbn. repeat split; auto; intros H; discriminate H. Qed.

Example fold_example_bv :
  let t := T (OBVRel BSlt) [T (OBV BAshr 4) [TBVC 12 4; TBVC 1 4]; T (OBV BSdiv 4) [TBVC 9 4; T (OBV BNot 4) [TBVC 13 4]]] in
  cfrag t = true /\ tc t = Some TBool /\ nodiv0 I0 t /\ simplify_opt no_oracle t = Some TFalse.
Proof. cbn. repeat split; auto. Qed.

Example fold_example_bits :
  let t := T (OBVRel BUle) [T (OBVSext 8 4) [T (OBVExtract 4 2 5) [TBVC 173 8]];
                            T (OBVZext 8 4) [T (OBVRol 4 1) [T (OBVRor 4 3) [TBVC 11 4]]]] in
  cfrag t = true /\ tc t = Some TBool /\ nodiv0 I0 t /\ simplify_opt no_oracle t = Some TFalse.
Proof. cbn. repeat split; auto. Qed.
