(* C10, propagate_toplevel with do_simplify=True: composition of proptop_equiv_unbound (C10) with
   simplify_sound_partial (C01). *)
From Coq Require Import List ZArith Bool String Reals.
From PySMT.core Require Import Syntax Sem.
From PySMT.models Require Import TypeChecker C10Local PropTop PropTopSimp.
From PySMT.models Require Simplifier.
From PySMT.proofs Require Import PropTop_proofs.
From PySMT.proofs Require SimplifierSem_proofs.
Import ListNotations.

(* Side conditions: those of C10 on the input (normal, boolish, defs_const_ok, defs_unbound) and
   those of C01 on the formula handed to the simplifier, i.e. on the unsimplified result r:
   C01's fragment (in_frag), well-typed as a Boolean, division-safe under I. *)
Theorem proptop_simp_equiv : forall ora order t r s I,
  normal t = true -> boolish t = true -> defs_const_ok t = true -> defs_unbound t -> wf_interp I ->
  propagate_toplevel order t = Some r ->
  SimplifierSem_proofs.in_frag r = true -> tc r = Some TBool -> div_safe I r ->
  propagate_toplevel_simp ora order t = Some s ->
  tc s = Some TBool /\ eval I s = eval I t.
Proof.
  intros ora order t r s I Hn Hb Hc Hu HI Er Hf Ht Hd Es.
  unfold propagate_toplevel_simp in Es. rewrite Er in Es.
  destruct (SimplifierSem_proofs.simplify_sound_partial_wf ora I r TBool s Hf Ht HI Hd Es) as [T1 E1].
  split; auto. rewrite E1. eapply proptop_equiv_unbound; eauto.
Qed.

Open Scope string_scope.
Definition ex_simp_t : term :=
  let x := TSym "x" (TBV 2) in let y := TSym "y" (TBV 2) in let z := ("z", TBV 2) in
  T OAnd [T OEquals [y; x]; T (OExists [z]) [T ONot [T OEquals [TSym "z" (TBV 2); y]]]].
Definition ex_simp_r : term :=
  let x := TSym "x" (TBV 2) in let y := TSym "y" (TBV 2) in let z := ("z", TBV 2) in
  T OAnd [T OAnd [T OEquals [x; x]; T (OExists [z]) [T ONot [T OEquals [TSym "z" (TBV 2); x]]]]; T OEquals [y; x]].
Example proptop_simp_example :
  propagate_toplevel [TSym "x" (TBV 2); TSym "y" (TBV 2)] ex_simp_t = Some ex_simp_r /\
  SimplifierSem_proofs.in_frag ex_simp_r = true /\ tc ex_simp_r = Some TBool /\
  (forall I, div_safe I ex_simp_r) /\
  exists s, propagate_toplevel_simp Simplifier.no_oracle [TSym "x" (TBV 2); TSym "y" (TBV 2)] ex_simp_t = Some s /\
            term_eqb s ex_simp_r = false.
Proof.
  split; [reflexivity|]. split; [reflexivity|]. split; [reflexivity|]. split.
  - intros I. cbn. repeat split; auto; try (intros xs _; cbn; repeat split; auto).
  - eexists. split; [vm_compute; reflexivity | reflexivity].
Qed.
